// Executor for C16: drives the in-memory collections of core/collection through
// their public APIs, one generated operation sequence per case, and reports every
// observable result.  RollingWindow runs on the virtual clock provided by the
// core/timex overlay (harness/overlay/timex/relativetime.go).  Kind "lin" runs several
// free-running goroutines against one object and reports every call with logical
// call/return times (a linearisation is searched for, and judged, in Coq).
package main

import (
	"context"
	"encoding/json"
	"errors"
	"fmt"
	"math"
	"os"
	"os/exec"
	"sort"
	"strconv"
	"strings"
	"sync"
	"sync/atomic"
	"time"

	"github.com/zeromicro/go-zero/core/collection"
	"github.com/zeromicro/go-zero/core/logx"
	"github.com/zeromicro/go-zero/core/timex"
	"verifh/hx"
)

type Case struct {
	ID         int       `json:"id"`
	Kind       string    `json:"kind"`
	Size       int       `json:"size"`
	Interval   int64     `json:"interval"`
	T0         int64     `json:"t0"`
	Ignore     bool      `json:"ignore"`
	Limit      int       `json:"limit"`
	ExpireMs   int64     `json:"expire_ms"`
	Ops        [][]any   `json:"ops"`
	Bucket     string    `json:"bucket"`      // window: "sum" = the package's own Bucket[T] (Sum, Count)
	Name       bool      `json:"name"`        // cache: WithName
	ForceLimit bool      `json:"force_limit"` // cache: pass WithLimit even when the limit is 0
	Twin       bool      `json:"twin"`        // a second instance of the same kind is driven alongside
	Wrap       int       `json:"wrap"`        // cache kinds: values are 1 = slices, 2 = maps (uncomparable), 3 = structs holding a NaN (not equal to themselves)
	Obj        string    `json:"obj"`         // lin: which structure
	Pre        [][]any   `json:"pre"`         // lin: sequential prefix (results not recorded)
	Threads    [][][]any `json:"threads"`     // lin: one script per goroutine
	GateAt     int64     `json:"gate_at"`     // window_gate: virtual time of the gated Reduce
	Hold       int       `json:"hold"`        // window_gate: the callback parks after recording this many buckets
	Adds       [][]any   `json:"adds"`        // window_gate: [time, value] added by another goroutine meanwhile
	Post       [][]any   `json:"post"`        // window_gate, stress: sequential operations afterwards
	Rounds     int       `json:"rounds"`      // stress: every goroutine runs its script this many times
}

type Out struct {
	ID   int     `json:"id"`
	Obs  []any   `json:"obs"`
	At   []int64 `json:"at,omitempty"`   // cache_rt: milliseconds since the start, per operation
	Pair any     `json:"pair,omitempty"` // cache_take2: what the second, concurrent Take saw
	Free [][]Ev  `json:"free,omitempty"` // lin: per goroutine, every call with logical call/return times
	Gate any     `json:"gate,omitempty"` // window_gate: what the gated Reduce was shown, and what the Adds did meanwhile
	Err  string  `json:"err,omitempty"`
}

// Ev is one call of a free-running goroutine: S and E are values of one shared atomic
// counter taken just before the call and just after its return.
type Ev struct {
	S   int64 `json:"s"`
	E   int64 `json:"e"`
	Obs any   `json:"obs"`
}

// Numbers of a case are decoded as json.Number: times of the virtual clock exceed 2^53 and
// must not pass through float64.
func num(v any) int64 {
	switch x := v.(type) {
	case json.Number:
		n, err := x.Int64()
		if err != nil {
			hx.Fatal("not an integer: %v", x)
		}
		return n
	case float64:
		return int64(x)
	case int64:
		return x
	}
	hx.Fatal("not a number: %v", v)
	return 0
}

func readCases() []Case {
	f, err := os.Open(os.Getenv("VERIF_IN"))
	if err != nil {
		hx.Fatal("read VERIF_IN: %v", err)
	}
	defer f.Close()
	dec := json.NewDecoder(f)
	dec.UseNumber()
	var cases []Case
	if err := dec.Decode(&cases); err != nil {
		hx.Fatal("parse VERIF_IN: %v", err)
	}
	return cases
}

// Sentinel data: the number 0 of a case stands for Go's nil (as a value, an element, a SafeMap
// key) - a legal value that sloppy code confuses with "absent"; presence is always reported by
// the ok / found result, never by comparing with nil.
//
// wrapMode (cache kinds only): the cache stores values of type any and never needs to compare
// them; legal values that cannot be compared with == (slices, maps: comparing panics) or are
// not equal to themselves (NaN) stand for the number they carry.
var wrapMode atomic.Int32 // (real-time cases run concurrently and may see another case's mode: unval reads every shape)

type nanBox struct {
	f float64
	n int64
}

func val(v any) any {
	n := num(v)
	if n == 0 {
		return nil
	}
	switch wrapMode.Load() {
	case 1:
		return []int64{n}
	case 2:
		return map[int64]bool{n: true}
	case 3:
		return nanBox{math.NaN(), n}
	}
	return n
}

func unval(v any) int64 {
	switch x := v.(type) {
	case nil:
		return 0
	case int64:
		return x
	case []int64:
		return x[0]
	case map[int64]bool:
		for k := range x {
			return k
		}
	case nanBox:
		return x.n
	}
	return -424245
}

// a stepper applies one operation to one object and returns its observation (nil = none)
type stepper func(op []any) any

// ---- rolling window -----------------------------------------------------------

// a bucket that remembers the values added since its last reset
type lb struct{ vals []int64 }

func (b *lb) Add(v int64) { b.vals = append(b.vals, v) }
func (b *lb) Reset()      { b.vals = nil }

// the clock is set by the operation when it carries a time (sequential cases)
func windowStepper(c Case) stepper {
	timex.SetFakeNow(time.Duration(c.T0))
	if c.Bucket == "sum" {
		var opts []collection.RollingWindowOption[int64, *collection.Bucket[int64]]
		if c.Ignore {
			opts = append(opts, collection.IgnoreCurrentBucket[int64, *collection.Bucket[int64]]())
		}
		w := collection.NewRollingWindow[int64, *collection.Bucket[int64]](
			func() *collection.Bucket[int64] { return new(collection.Bucket[int64]) }, c.Size,
			time.Duration(c.Interval), opts...)
		return func(op []any) any {
			switch op[0].(string) {
			case "add":
				timex.SetFakeNow(time.Duration(num(op[1])))
				w.Add(num(op[2]))
			case "reduce":
				timex.SetFakeNow(time.Duration(num(op[1])))
				buckets := [][]int64{}
				w.Reduce(func(b *collection.Bucket[int64]) {
					buckets = append(buckets, []int64{b.Sum, b.Count})
				})
				return buckets
			case "cadd": // the clock stands still
				w.Add(num(op[1]))
			case "creduce":
				buckets := [][]int64{}
				w.Reduce(func(b *collection.Bucket[int64]) {
					buckets = append(buckets, []int64{b.Sum, b.Count})
				})
				return buckets
			}
			return nil
		}
	}
	var opts []collection.RollingWindowOption[int64, *lb]
	if c.Ignore {
		opts = append(opts, collection.IgnoreCurrentBucket[int64, *lb]())
	}
	w := collection.NewRollingWindow[int64, *lb](func() *lb { return &lb{} }, c.Size,
		time.Duration(c.Interval), opts...)
	return func(op []any) any {
		switch op[0].(string) {
		case "add":
			timex.SetFakeNow(time.Duration(num(op[1])))
			w.Add(num(op[2]))
		case "reduce":
			timex.SetFakeNow(time.Duration(num(op[1])))
			buckets := [][]int64{}
			w.Reduce(func(b *lb) {
				vs := make([]int64, len(b.vals))
				copy(vs, b.vals)
				buckets = append(buckets, vs)
			})
			return buckets
		case "cadd": // free-running: the clock stands still
			w.Add(num(op[1]))
		case "creduce":
			vs := []int64{}
			w.Reduce(func(b *lb) { vs = append(vs, b.vals...) })
			return []any{"list", sorted(vs)}
		}
		return nil
	}
}

// ---- safemap --------------------------------------------------------------------

func opt(v any, ok bool) any {
	if !ok {
		return []any{"opt", nil}
	}
	return []any{"opt", v}
}

func sortPairs(ps [][2]int64) {
	sort.Slice(ps, func(i, j int) bool {
		if ps[i][0] != ps[j][0] {
			return ps[i][0] < ps[j][0]
		}
		return ps[i][1] < ps[j][1]
	})
}

func safeMapStepper(c Case) stepper {
	m := collection.NewSafeMap()
	return func(op []any) any {
		switch op[0].(string) {
		case "set":
			m.Set(val(op[1]), val(op[2]))
		case "get":
			v, ok := m.Get(val(op[1]))
			return opt(unval(v), ok)
		case "del":
			m.Del(val(op[1]))
		case "size":
			return []any{"num", m.Size()}
		case "range":
			ps := [][2]int64{}
			m.Range(func(k, v any) bool {
				ps = append(ps, [2]int64{unval(k), unval(v)})
				return true
			})
			sortPairs(ps)
			return []any{"pairs", ps}
		case "rangestop":
			// Range whose callback says "stop" at its n-th call: what it was shown, in order
			n := num(op[1])
			ps := [][2]int64{}
			m.Range(func(k, v any) bool {
				ps = append(ps, [2]int64{unval(k), unval(v)})
				return int64(len(ps)) < n
			})
			return []any{"pairs", ps}
		case "setseq":
			k0, n, v := num(op[1]), num(op[2]), num(op[3])
			for i := int64(0); i < n; i++ {
				m.Set(val(k0+i), val(v))
			}
		case "delseq":
			k0, n := num(op[1]), num(op[2])
			for i := int64(0); i < n; i++ {
				m.Del(val(k0 + i))
			}
		case "churn":
			k, v, n := num(op[1]), num(op[2]), num(op[3])
			for i := int64(0); i < n; i++ {
				m.Set(val(k), val(v))
				m.Del(val(k))
			}
		}
		return nil
	}
}

// ---- queue / ring -----------------------------------------------------------------

func queueStepper(c Case) stepper {
	q := collection.NewQueue(c.Size)
	return func(op []any) any {
		switch op[0].(string) {
		case "put":
			q.Put(val(op[1]))
		case "take":
			v, ok := q.Take()
			return opt(unval(v), ok)
		case "empty":
			return []any{"bool", q.Empty()}
		}
		return nil
	}
}

func ringStepper(c Case) stepper {
	r := collection.NewRing(c.Size)
	// what an earlier Take returned belongs to the caller: it must not change when the ring
	// moves on, and scribbling on it must not change the ring
	var mu sync.Mutex
	var kept []any
	var keptCopy []int64
	return func(op []any) any {
		switch op[0].(string) {
		case "add":
			r.Add(val(op[1]))
		case "take":
			res := r.Take()
			vs := []int64{}
			for _, v := range res {
				vs = append(vs, unval(v))
			}
			mu.Lock()
			stale := false
			for i, v := range kept {
				if unval(v) != keptCopy[i] {
					stale = true
				}
			}
			kept, keptCopy = res, append([]int64(nil), vs...)
			mu.Unlock()
			if stale {
				return []any{"num", -424245} // an earlier result was modified behind the caller's back
			}
			if c.Ignore { // scribble on the result just returned (the copy above is already taken)
				for i := range res {
					res[i] = int64(-7)
				}
				mu.Lock()
				for i := range keptCopy {
					keptCopy[i] = -7
				}
				mu.Unlock()
			}
			return []any{"list", vs}
		}
		return nil
	}
}

// ---- set ----------------------------------------------------------------------------

const tagShift = int64(1) << 32

func decodeKey(k int64) any {
	tag, v := k/tagShift, k%tagShift
	switch tag {
	case 0:
		return int(v)
	case 1:
		return int64(v)
	case 2:
		return uint(v)
	case 4:
		return uint64(v)
	default:
		if v == 0 {
			return "" // the empty string is a key like any other
		}
		return strconv.FormatInt(v, 10)
	}
}

func encodeKey(k any) int64 {
	switch x := k.(type) {
	case int:
		return int64(x)
	case int64:
		return tagShift + x
	case uint:
		return 2*tagShift + int64(x)
	case uint64:
		return 4*tagShift + int64(x)
	case string:
		if x == "" {
			return 3 * tagShift
		}
		n, _ := strconv.ParseInt(x, 10, 64)
		return 3*tagShift + n
	}
	return -1
}

func sorted(ks []int64) []int64 {
	sort.Slice(ks, func(i, j int) bool { return ks[i] < ks[j] })
	return ks
}

func setStepper(c Case) stepper {
	var s *collection.Set
	if c.Ignore {
		s = collection.NewSet() // managed: type mismatches are only logged
	} else {
		s = collection.NewUnmanagedSet()
	}
	var kept []any
	var keptCopy []int64
	return func(op []any) any {
		switch op[0].(string) {
		case "add":
			k := decodeKey(num(op[1]))
			switch x := k.(type) { // go through the typed entry points as well
			case int:
				s.AddInt(x)
			case int64:
				s.AddInt64(x)
			case uint:
				s.AddUint(x)
			case uint64:
				s.AddUint64(x)
			case string:
				s.AddStr(x)
			}
		case "addany":
			s.Add(decodeKey(num(op[1])))
		case "addmany": // one variadic call
			var ks []any
			for _, k := range op[1:] {
				ks = append(ks, decodeKey(num(k)))
			}
			s.Add(ks...)
		case "remove":
			s.Remove(decodeKey(num(op[1])))
		case "contains":
			return []any{"bool", s.Contains(decodeKey(num(op[1])))}
		case "count":
			return []any{"num", s.Count()}
		case "keys":
			res := s.Keys()
			ks := []int64{}
			for _, k := range res {
				ks = append(ks, encodeKey(k))
			}
			// what an earlier Keys() returned is the caller's: later Adds/Removes must not show in
			// it, and scribbling on a second result must change neither the first nor the set
			stale := false
			for i := range kept {
				if encodeKey(kept[i]) != keptCopy[i] {
					stale = true
				}
			}
			scr := s.Keys()
			for i := range scr {
				scr[i] = "scribble"
			}
			for i := range res {
				if encodeKey(res[i]) != ks[i] {
					stale = true
				}
			}
			kept, keptCopy = res, append([]int64(nil), ks...)
			if stale {
				return []any{"num", -424246}
			}
			return []any{"list", sorted(append([]int64{}, ks...))}
		case "keysof":
			ks := []int64{}
			switch num(op[1]) {
			case 0:
				for _, k := range s.KeysInt() {
					ks = append(ks, encodeKey(k))
				}
			case 1:
				for _, k := range s.KeysInt64() {
					ks = append(ks, encodeKey(k))
				}
			case 2:
				for _, k := range s.KeysUint() {
					ks = append(ks, encodeKey(k))
				}
			case 4:
				for _, k := range s.KeysUint64() {
					ks = append(ks, encodeKey(k))
				}
			default:
				for _, k := range s.KeysStr() {
					ks = append(ks, encodeKey(k))
				}
			}
			return []any{"list", sorted(ks)}
		}
		return nil
	}
}

// ---- cache ----------------------------------------------------------------------------

var errFetch = errors.New("fetch failed")

// key 0 is the empty string
func ckey(v any) string {
	if num(v) == 0 {
		return ""
	}
	return "k" + strconv.FormatInt(num(v), 10)
}

func newCache(c Case, expire time.Duration) (*collection.Cache, error) {
	var opts []collection.CacheOption
	if c.Limit != 0 || c.ForceLimit {
		opts = append(opts, collection.WithLimit(c.Limit)) // <= 0 means "no limit"
	}
	if c.Name {
		opts = append(opts, collection.WithName("c16"))
	}
	return collection.NewCache(expire, opts...)
}

func heldKeys(cache *collection.Cache) []int64 {
	ks := []int64{}
	for _, k := range collection.VerifC16CacheHeld(cache) {
		n := int64(0)
		if k != "" {
			n, _ = strconv.ParseInt(strings.TrimPrefix(k, "k"), 10, 64)
		}
		ks = append(ks, n)
	}
	return sorted(ks)
}

// operations common to every cache kind; ok = false when op is not one of them
func cacheOp(cache *collection.Cache, op []any) (obs any, ok bool) {
	var nested func()
	take := func() any {
		called := false
		v, err := cache.Take(ckey(op[1]), func() (any, error) {
			called = true
			if nested != nil {
				nested()
			}
			if op[2] == nil {
				return nil, errFetch
			}
			return val(op[2]), nil
		})
		if err != nil {
			if err != errFetch || v != nil {
				return []any{"num", -424244} // an error that is not the loader's / a value with an error
			}
			return []any{"take", nil, called}
		}
		return []any{"take", unval(v), called}
	}
	switch op[0].(string) {
	case "set":
		if len(op) > 3 {
			cache.SetWithExpire(ckey(op[1]), val(op[2]), time.Duration(num(op[3]))*time.Millisecond)
		} else {
			cache.Set(ckey(op[1]), val(op[2]))
		}
		return nil, true
	case "get":
		v, ok := cache.Get(ckey(op[1]))
		return opt(unval(v), ok), true
	case "del":
		cache.Del(ckey(op[1]))
		return nil, true
	case "delseq": // Del of n consecutive keys (bulk: many distinct keys in one operation)
		for i := int64(0); i < num(op[2]); i++ {
			cache.Del(ckey(num(op[1]) + i))
		}
		return nil, true
	case "setseq": // Set of n consecutive keys to one value
		for i := int64(0); i < num(op[2]); i++ {
			if len(op) > 4 {
				cache.SetWithExpire(ckey(num(op[1])+i), val(op[3]), time.Duration(num(op[4]))*time.Millisecond)
			} else {
				cache.Set(ckey(num(op[1])+i), val(op[3]))
			}
		}
		return nil, true
	case "take":
		return take(), true
	case "take_race":
		// between this Take's miss and its single flight "another goroutine" stores the key
		ran := false
		collection.VerifC16BeforeFlight(cache, func(key string) { ran = true; cache.Set(key, val(op[3])) })
		r := take()
		collection.VerifC16BeforeFlight(cache, nil)
		return append(r.([]any), ran), true
	case "take_nested":
		// the loader itself uses the cache (another key) before it returns
		ran := false
		nested = func() { ran = true; cache.Set(ckey(op[3]), val(op[4])) }
		r := take()
		return append(r.([]any), ran), true
	case "held": // keys of c.data, read without touching the recency order
		return []any{"list", heldKeys(cache)}, true
	case "size": // Cache.size(), the callback of the stat loop
		return []any{"num", collection.VerifC16CacheSize(cache)}, true
	}
	return nil, false
}

// ---- a Take held inside its loader while other keys are used -----------------------------

// innerBlocked reports the goroutine running the operations on other keys parked on a lock or
// a wait (not a sleep, not a channel send: those are the executor's own synchronisation).
func innerBlocked(stack string) bool {
	if !strings.Contains(stack, "takeGateInner") {
		return false
	}
	head := stack
	if nl := strings.IndexByte(stack, '\n'); nl >= 0 {
		head = stack[:nl]
	}
	for _, s := range []string{"[sync.Mutex.Lock", "[sync.RWMutex", "[semacquire", "[sync.WaitGroup.Wait",
		"[sync.Cond.Wait", "[chan receive", "[select"} {
		if strings.Contains(head, s) {
			return true
		}
	}
	return false
}

func takeGateInner(inner []any, step func(op []any), done *atomic.Int32, fin chan<- string) {
	defer func() {
		if r := recover(); r != nil {
			fin <- fmt.Sprintf("panic: %v", r)
			return
		}
		fin <- ""
	}()
	for _, o := range inner {
		step(o.([]any))
		done.Add(1)
	}
}

// Forced schedule, op = ["take_gate", k, v|null, [inner ops]]: goroutine A calls Take(k) with a
// loader that parks on a gate; while it is parked the inner operations (on OTHER keys: Set, Get,
// Del, Take, bulk Del/Set of hundreds of keys, in the wheel-driven kind also ticks that expire
// other entries) run to completion on another goroutine; then the gate opens and the loader
// returns.  If the cache makes those operations wait for the loader (a coarser lock) that is
// accepted: the gate opens as soon as the other goroutine has made no progress for 200 ms while
// parked on a lock, and the number of operations completed before is reported.  If Take hits,
// the loader never runs and the inner operations run afterwards.
// Observation (placed BEFORE the inner operations' observations):
// ["take", value|nil, loader called, loader entered while others ran, inner ops completed before the loader returned].
func takeGate(cache *collection.Cache, op []any, out *Out, step func(op []any)) {
	slot := len(out.Obs)
	out.Obs = append(out.Obs, nil)
	inner := op[3].([]any)
	entered := make(chan struct{})
	gate := make(chan struct{})
	type res struct {
		v      any
		err    error
		called bool
		pnc    string
	}
	ra := make(chan res, 1)
	go func() {
		called := false
		defer func() {
			if r := recover(); r != nil {
				ra <- res{pnc: fmt.Sprintf("panic: %v", r)}
			}
		}()
		v, err := cache.Take(ckey(op[1]), func() (any, error) {
			called = true
			close(entered)
			<-gate
			if op[2] == nil {
				return nil, errFetch
			}
			return val(op[2]), nil
		})
		ra <- res{v: v, err: err, called: called}
	}()
	fill := func(a res, ent bool, before int) bool {
		if a.pnc != "" {
			out.Err = a.pnc
			return false
		}
		if a.err != nil {
			if a.err != errFetch || a.v != nil {
				out.Obs[slot] = []any{"num", -424244}
				return true
			}
			out.Obs[slot] = []any{"take", nil, a.called, ent, before}
			return true
		}
		out.Obs[slot] = []any{"take", unval(a.v), a.called, ent, before}
		return true
	}
	select {
	case <-entered:
	case a := <-ra: // a hit (or a failure before the loader): nothing to hold
		if fill(a, false, 0) {
			for _, o := range inner {
				step(o.([]any))
			}
		}
		return
	case <-time.After(20 * time.Second):
		out.Err = "take_gate: Take neither called its loader nor returned"
		return
	}
	var done atomic.Int32
	fin := make(chan string, 1)
	go takeGateInner(inner, step, &done, fin)
	before := len(inner)
	finished := false
	perr := ""
	last, since, seenBlocked := int32(-1), time.Now(), 0
	tick := time.NewTicker(20 * time.Millisecond)
	defer tick.Stop()
wait:
	for {
		select {
		case perr = <-fin:
			finished = true
			break wait
		case <-tick.C:
			if d := done.Load(); d != last {
				last, since, seenBlocked = d, time.Now(), 0
				continue
			}
			blocked := false
			for _, g := range hx.Stacks() {
				if innerBlocked(g) {
					blocked = true
					break
				}
			}
			if blocked {
				seenBlocked++
			} else {
				seenBlocked = 0
			}
			if (seenBlocked >= 5 && time.Since(since) > 200*time.Millisecond) || time.Since(since) > 20*time.Second {
				before = int(done.Load())
				break wait
			}
		}
	}
	close(gate)
	var a res
	select {
	case a = <-ra:
	case <-time.After(20 * time.Second):
		out.Err = "take_gate: Take did not return after its loader"
		return
	}
	if !finished {
		select {
		case perr = <-fin:
		case <-time.After(20 * time.Second):
			out.Err = "take_gate: operations on other keys did not return"
			return
		}
	}
	if perr != "" {
		out.Err = perr
		return
	}
	fill(a, true, before)
}

func cacheStepper(c Case) (stepper, error) {
	cache, err := newCache(c, time.Hour)
	if err != nil {
		return nil, err
	}
	return func(op []any) any {
		r, _ := cacheOp(cache, op)
		return r
	}, nil
}

// ready (real-time cases, which run concurrently with the sequential ones) is called once the
// cache exists: its wheel must have taken a real ticker before any wheel-driven case installs
// the ticker hook
func runCache(c Case, out *Out, realtime bool, ready func()) {
	expire := time.Hour
	if realtime {
		expire = time.Duration(c.ExpireMs) * time.Millisecond
	}
	cache, err := newCache(c, expire)
	if ready != nil {
		ready()
	}
	if err != nil {
		out.Err = err.Error()
		return
	}
	var decoy *collection.Cache
	if c.Twin {
		decoy, _ = newCache(c, expire)
	}
	start := time.Now()
	for i, op := range c.Ops {
		if realtime {
			out.At = append(out.At, time.Since(start).Milliseconds())
		}
		if op[0].(string) == "sleep" {
			time.Sleep(time.Duration(num(op[1])) * time.Millisecond)
			continue
		}
		if op[0].(string) == "take_gate" {
			takeGate(cache, op, out, func(o []any) {
				if r, _ := cacheOp(cache, o); r != nil {
					out.Obs = append(out.Obs, r)
				}
			})
			if out.Err != "" {
				return
			}
		} else if r, _ := cacheOp(cache, op); r != nil {
			out.Obs = append(out.Obs, r)
		}
		if decoy != nil {
			if d := c.Ops[(i*7+3)%len(c.Ops)]; d[0].(string) != "sleep" && d[0].(string) != "take_gate" {
				cacheOp(decoy, d)
			}
		}
	}
}

// ---- cache driven by its own timing wheel, tick by tick -------------------------------

type rticker struct{ c chan time.Time }

func (t *rticker) Chan() <-chan time.Time { return t.c }
func (t *rticker) Stop()                  {}

// The cache's wheel is quiescent when no goroutine runs (or is about to run) a wheel
// callback, i.e. cache.Del(key), and every wheel event loop is parked in its select.
// A send on one of the wheel's unbuffered channels (tick, set, move, remove) returns
// only after the loop has taken it, and a goroutine that has been handed a value is
// no longer reported as waiting in select, so polling after the operation returned
// cannot miss work in progress.  Nothing of the code under test is used to synchronise.
func cbBusy(stack string) bool {
	if strings.Contains(stack, "(*TimingWheel).runTasks") ||
		strings.Contains(stack, "threading.RunSafe") ||
		strings.Contains(stack, "threading.GoSafe") ||
		strings.Contains(stack, "collection.NewCache.func") {
		return true
	}
	if strings.Contains(stack, "collection.(*TimingWheel).run(") {
		head := stack
		if nl := strings.IndexByte(stack, '\n'); nl >= 0 {
			head = stack[:nl]
		}
		return !strings.Contains(head, "[select")
	}
	return false
}

// parked reports a wheel callback goroutine waiting in the executor's expiry gate
func parked(stack string) bool {
	return strings.Contains(stack, "expiryGate") && hx.Blocked(stack)
}

type expiryGate struct {
	mu   sync.Mutex
	hold chan struct{} // non-nil while expiry callbacks are being held back
}

func (g *expiryGate) expiryGate(key any) {
	g.mu.Lock()
	ch := g.hold
	g.mu.Unlock()
	if ch != nil {
		<-ch
	}
}

func runCacheW(c Case, out *Out) {
	var tickers []*rticker
	timex.SetTickerHook(func(d time.Duration) timex.Ticker {
		tk := &rticker{c: make(chan time.Time)}
		tickers = append(tickers, tk)
		return tk
	})
	cache, err := newCache(c, time.Duration(c.ExpireMs)*time.Millisecond)
	var decoy *collection.Cache
	if err == nil && c.Twin {
		// a second cache with a wheel of its own, fed other operations of the history and the same ticks
		decoy, err = newCache(c, time.Duration(c.ExpireMs)*time.Millisecond)
	}
	timex.SetTickerHook(nil)
	if err != nil {
		out.Err = err.Error()
		return
	}
	gate := &expiryGate{}
	collection.VerifC16GateExpiry(cache, gate.expiryGate)
	busy := func(stack string) bool { return cbBusy(stack) && !parked(stack) }
	var do func(op []any) bool
	do = func(op []any) bool {
		switch op[0].(string) {
		case "tick":
			for _, tk := range tickers {
				tk.c <- time.Now()
			}
		case "tick_hold": // the tick happens, the expiry callbacks it starts wait for "release"
			gate.mu.Lock()
			if gate.hold == nil {
				gate.hold = make(chan struct{})
			}
			gate.mu.Unlock()
			for _, tk := range tickers {
				tk.c <- time.Now()
			}
		case "release":
			gate.mu.Lock()
			if gate.hold != nil {
				close(gate.hold)
				gate.hold = nil
			}
			gate.mu.Unlock()
		case "take_gate": // the inner operations (ticks included) run while the loader is parked
			takeGate(cache, op, out, func(o []any) { do(o) })
			if out.Err != "" {
				return false
			}
		default:
			if r, _ := cacheOp(cache, op); r != nil {
				out.Obs = append(out.Obs, r)
			}
		}
		if !hx.Quiesce(busy, 5*time.Second) {
			out.Err = "wheel callbacks did not quiesce"
			return false
		}
		return true
	}
	for i, op := range c.Ops {
		if !do(op) {
			break
		}
		if decoy != nil {
			if d := c.Ops[(i*7+3)%len(c.Ops)]; !strings.HasPrefix(d[0].(string), "tick") && d[0].(string) != "release" &&
				d[0].(string) != "take_gate" {
				cacheOp(decoy, d)
				if !hx.Quiesce(busy, 5*time.Second) {
					out.Err = "wheel callbacks did not quiesce"
					break
				}
			}
		}
	}
	// never leave callbacks parked
	gate.mu.Lock()
	if gate.hold != nil {
		close(gate.hold)
		gate.hold = nil
	}
	gate.mu.Unlock()
}

// ---- two concurrent Takes of one key, the first loader gated ----------------------------

func flightWaiter(stack string) bool {
	return strings.Contains(stack, "flightGroup") && strings.Contains(stack, "sync.(*WaitGroup).Wait")
}

func runCacheTake2(c Case, out *Out) {
	cache, err := newCache(c, time.Hour)
	if err != nil {
		out.Err = err.Error()
		return
	}
	for _, op := range c.Ops {
		if op[0].(string) != "take2" {
			if r, _ := cacheOp(cache, op); r != nil {
				out.Obs = append(out.Obs, r)
			}
			continue
		}
		// A: Take(k) with a loader that parks on a gate; B: Take(k) started while A's
		// loader is parked; then the gate opens
		k := ckey(op[1])
		entered := make(chan struct{})
		gate := make(chan struct{})
		type res struct {
			v      any
			err    error
			called bool
		}
		ra, rb := make(chan res, 1), make(chan res, 1)
		go func() {
			called := false
			v, err := cache.Take(k, func() (any, error) {
				called = true
				close(entered)
				<-gate
				return val(op[2]), nil
			})
			ra <- res{v, err, called}
		}()
		select {
		case <-entered:
		case <-time.After(5 * time.Second):
			out.Err = "take2: first loader was not called (key present?)"
			return
		}
		go func() {
			called := false
			v, err := cache.Take(k, func() (any, error) {
				called = true
				return val(op[3]), nil
			})
			rb <- res{v, err, called}
		}()
		blocked := false
		deadline := time.Now().Add(3 * time.Second)
		for time.Now().Before(deadline) && !blocked {
			for _, g := range hx.Stacks() {
				if flightWaiter(g) {
					blocked = true
					break
				}
			}
			select {
			case r := <-rb: // B finished although A's loader is still parked
				rb <- r
				deadline = time.Now()
			default:
				if !blocked {
					time.Sleep(200 * time.Microsecond)
				}
			}
		}
		close(gate)
		a, b := <-ra, <-rb
		if a.err != nil || b.err != nil {
			out.Err = "take2: unexpected error"
			return
		}
		out.Obs = append(out.Obs, []any{"take", unval(a.v), a.called})
		out.Pair = map[string]any{"b_val": unval(b.v), "b_called": b.called, "b_blocked": blocked}
	}
}

// ---- a Reduce held inside its callback while another goroutine Adds -----------------------

// Forced schedule: the prefix runs sequentially; then Reduce is called at gate_at with a
// callback that records each bucket's values when it is handed the bucket and parks after
// the hold-th one; while it is parked another goroutine moves the virtual clock on and Adds
// (rolling the window by whole buckets); the controller waits until those Adds have returned
// or the adding goroutine is parked on the window's lock, then lets the callback go on.
// Reported: what the callback was shown, whether it was parked at all, whether the Adds had to
// wait.  Then the post operations run sequentially.
func addWaits(stack string) bool {
	return strings.Contains(stack, "RollingWindow") && strings.Contains(stack, ".Add(") && hx.Blocked(stack)
}

func runWindowGate(c Case, out *Out) {
	timex.SetFakeNow(time.Duration(c.T0))
	var opts []collection.RollingWindowOption[int64, *lb]
	if c.Ignore {
		opts = append(opts, collection.IgnoreCurrentBucket[int64, *lb]())
	}
	w := collection.NewRollingWindow[int64, *lb](func() *lb { return &lb{} }, c.Size,
		time.Duration(c.Interval), opts...)
	seq := func(op []any) {
		switch op[0].(string) {
		case "add":
			timex.SetFakeNow(time.Duration(num(op[1])))
			w.Add(num(op[2]))
		case "reduce":
			timex.SetFakeNow(time.Duration(num(op[1])))
			buckets := [][]int64{}
			w.Reduce(func(b *lb) { buckets = append(buckets, append([]int64{}, b.vals...)) })
			out.Obs = append(out.Obs, buckets)
		}
	}
	for _, op := range c.Ops {
		seq(op)
	}
	timex.SetFakeNow(time.Duration(c.GateAt))
	entered := make(chan struct{})
	release := make(chan struct{})
	reduced := make(chan [][]int64, 1)
	go func() {
		view := [][]int64{}
		w.Reduce(func(b *lb) {
			view = append(view, append([]int64{}, b.vals...))
			if len(view) == c.Hold {
				close(entered)
				<-release
			}
		})
		reduced <- view
	}()
	gated := false
	var view [][]int64
	select {
	case <-entered:
		gated = true
	case view = <-reduced: // fewer buckets than hold: never parked
	case <-time.After(10 * time.Second):
		out.Err = "gated Reduce neither parked nor returned"
		return
	}
	added := make(chan struct{})
	go func() {
		defer close(added)
		for _, a := range c.Adds {
			timex.SetFakeNow(time.Duration(num(a[0])))
			w.Add(num(a[1]))
		}
	}()
	waited := false
	if gated {
		deadline := time.Now().Add(5 * time.Second)
	poll:
		for time.Now().Before(deadline) {
			select {
			case <-added:
				break poll
			default:
			}
			for _, g := range hx.Stacks() {
				if addWaits(g) {
					waited = true
					break poll
				}
			}
			time.Sleep(100 * time.Microsecond)
		}
		close(release)
		select {
		case view = <-reduced:
		case <-time.After(10 * time.Second):
			out.Err = "gated Reduce did not return"
			return
		}
	}
	select {
	case <-added:
	case <-time.After(10 * time.Second):
		out.Err = "Add did not return"
		return
	}
	out.Gate = map[string]any{"view": view, "gated": gated, "add_waited": waited}
	for _, op := range c.Post {
		seq(op)
	}
}

// ---- free-running goroutines on one object ---------------------------------------------

func makeStepper(kind string, c Case) (stepper, error) {
	switch kind {
	case "window":
		return windowStepper(c), nil
	case "safemap":
		return safeMapStepper(c), nil
	case "queue":
		return queueStepper(c), nil
	case "ring":
		return ringStepper(c), nil
	case "set":
		return setStepper(c), nil
	case "cache":
		return cacheStepper(c)
	}
	return nil, errors.New("unknown object " + kind)
}

func runSeq(c Case, out *Out) {
	st, err := makeStepper(c.Kind, c)
	if err != nil {
		out.Err = err.Error()
		return
	}
	// a second, independent instance is fed other operations of the same history in between:
	// nothing it does may show in the first one
	var decoy stepper
	if c.Twin {
		decoy, _ = makeStepper(c.Kind, c)
	}
	for i, op := range c.Ops {
		if r := st(op); r != nil {
			out.Obs = append(out.Obs, r)
		}
		if decoy != nil {
			if d := c.Ops[(i*7+3)%len(c.Ops)]; c.Kind != "window" || num(d[1]) >= num(op[1]) {
				decoy(d)
			}
		}
	}
}

// Every goroutine runs its script as fast as it can; each call is bracketed by two reads
// of one atomic counter (call time S, return time E).  If call a returned before call b
// was issued then E(a) < S(b).  A panic inside a goroutine is reported as the case's error.
func runLin(c Case, out *Out) {
	st, err := makeStepper(c.Obj, c)
	if err != nil {
		out.Err = err.Error()
		return
	}
	for _, op := range c.Pre {
		st(op)
	}
	var clock atomic.Int64
	var ready atomic.Int32
	var wg sync.WaitGroup
	start := make(chan struct{})
	free := make([][]Ev, len(c.Threads))
	errs := make([]string, len(c.Threads))
	for i, script := range c.Threads {
		wg.Add(1)
		go func(i int, script [][]any) {
			defer wg.Done()
			defer func() {
				if r := recover(); r != nil {
					errs[i] = fmt.Sprintf("panic: %v", r)
				}
			}()
			evs := make([]Ev, 0, len(script))
			<-start
			// leave together: the scripts are a few hundred nanoseconds long
			ready.Add(1)
			for spin := 0; int(ready.Load()) < len(c.Threads) && spin < 1<<22; spin++ {
			}
			for _, op := range script {
				s := clock.Add(1)
				r := st(op)
				e := clock.Add(1)
				evs = append(evs, Ev{S: s, E: e, Obs: r})
				free[i] = evs
			}
		}(i, script)
	}
	close(start)
	done := make(chan struct{})
	go func() { wg.Wait(); close(done) }()
	select {
	case <-done:
	case <-time.After(20 * time.Second):
		out.Err = "free-running goroutines did not finish (deadlock?)"
		return
	}
	for _, e := range errs {
		if e != "" {
			out.Err = e
		}
	}
	out.Free = free
}

// ---- many goroutines, disjoint keys: every answer is determined ----------------------------

// Kind "stress": after a sequential prefix, the goroutines run their scripts - each `rounds`
// times over - as fast as they can on ONE object; every goroutine uses keys of its own (window:
// only Adds, into commutative Sum/Count buckets), so whatever the interleaving every result is
// the one of the sequential run "script 1, script 2, ...".  What breaks it is missing mutual
// exclusion inside the object (lost updates, a corrupted map).  Observations: goroutine by
// goroutine, then those of the sequential post operations.  The case runs in a process of its
// own: Go kills the process on a detected concurrent map access, and that must be the case's
// own failure, not the end of the run.  In the executor built with the race detector (and run
// with GORACE=halt_on_error=1) a detected data race ends the child the same way; there the
// free-running kind "lin" is isolated as well.
func runStress(c Case, out *Out) {
	st, err := makeStepper(c.Obj, c)
	if err != nil {
		out.Err = err.Error()
		return
	}
	for _, op := range c.Pre {
		st(op)
	}
	var ready atomic.Int32
	var wg sync.WaitGroup
	start := make(chan struct{})
	obs := make([][]any, len(c.Threads))
	errs := make([]string, len(c.Threads))
	rounds := c.Rounds
	if rounds < 1 {
		rounds = 1
	}
	for i, script := range c.Threads {
		wg.Add(1)
		go func(i int, script [][]any) {
			defer wg.Done()
			defer func() {
				if r := recover(); r != nil {
					errs[i] = fmt.Sprintf("panic: %v", r)
				}
			}()
			<-start
			ready.Add(1)
			for spin := 0; int(ready.Load()) < len(c.Threads) && spin < 1<<22; spin++ {
			}
			for r := 0; r < rounds; r++ {
				for _, op := range script {
					if o := st(op); o != nil {
						obs[i] = append(obs[i], o)
					}
				}
			}
		}(i, script)
	}
	close(start)
	done := make(chan struct{})
	go func() { wg.Wait(); close(done) }()
	select {
	case <-done:
	case <-time.After(30 * time.Second):
		out.Err = "goroutines did not finish (deadlock?)"
		return
	}
	for _, e := range errs {
		if e != "" {
			out.Err = e
			return
		}
	}
	for _, o := range obs {
		out.Obs = append(out.Obs, o...)
	}
	for _, op := range c.Post {
		if o := st(op); o != nil {
			out.Obs = append(out.Obs, o)
		}
	}
}

// runIsolated runs cases in a child process (this same binary), which reports every case as soon
// as it is done.  If the child dies - Go ends the process on a detected concurrent map access,
// and, in the -race build run with GORACE=halt_on_error=1, on a detected data race - the case it
// was running gets the death as its error and a new child runs the rest.
func runIsolated(cases []Case) []Out {
	res := make([]Out, 0, len(cases))
	rest := cases
	for round := 0; len(rest) > 0; round++ {
		base := fmt.Sprintf("%s.child%d", os.Getenv("VERIF_OUT"), round)
		in, outp := base+".in.json", base+".out.jsonl"
		fail := func(c Case, format string, a ...any) Out {
			return Out{ID: c.ID, Obs: []any{}, Err: fmt.Sprintf(format, a...)}
		}
		data, err := json.Marshal(rest)
		if err == nil {
			err = os.WriteFile(in, data, 0o644)
		}
		if err != nil {
			for _, c := range rest {
				res = append(res, fail(c, "isolation: %v", err))
			}
			return res
		}
		ctx, cancel := context.WithTimeout(context.Background(), time.Duration(60+3*len(rest))*time.Second)
		cmd := exec.CommandContext(ctx, os.Args[0])
		cmd.Env = append(os.Environ(), "VERIF_IN="+in, "VERIF_OUT="+outp, "C16_CHILD=1")
		var stderr strings.Builder
		cmd.Stderr = &stderr
		runErr := cmd.Run()
		timedOut := ctx.Err() != nil
		cancel()
		got := 0
		if f, err := os.Open(outp); err == nil {
			dec := json.NewDecoder(f)
			dec.UseNumber()
			for got < len(rest) {
				var o Out
				if dec.Decode(&o) != nil {
					break
				}
				if o.Obs == nil {
					o.Obs = []any{}
				}
				res = append(res, o)
				got++
			}
			f.Close()
		}
		os.Remove(in)
		os.Remove(outp)
		if got == len(rest) {
			break
		}
		_ = runErr
		why := "the process died"
		lines := strings.Split(stderr.String(), "\n")
		for i, l := range lines {
			if strings.HasPrefix(l, "fatal error:") || strings.HasPrefix(l, "panic:") {
				why = "the process died: " + l
				break
			}
			if strings.Contains(l, "WARNING: DATA RACE") {
				// name the two accesses: the first go-zero frames of the report
				var where []string
				for _, m := range lines[i+1:] {
					m = strings.TrimSpace(m)
					if strings.HasPrefix(m, "github.com/zeromicro/go-zero/") && len(where) < 2 {
						where = append(where, strings.TrimSuffix(strings.TrimPrefix(m, "github.com/zeromicro/go-zero/core/"), "()"))
					}
					if strings.HasPrefix(m, "Goroutine ") {
						break
					}
				}
				why = "data race: " + strings.Join(where, " / ")
				break
			}
		}
		if timedOut {
			why = "the process did not finish"
		}
		res = append(res, fail(rest[got], "%s", why))
		rest = rest[got+1:]
		if round >= 8 { // do not loop on a tree where everything dies
			for _, c := range rest {
				res = append(res, fail(c, "not run: nine earlier cases ended their process"))
			}
			break
		}
	}
	return res
}

func runCase(c Case) (out Out) {
	out = Out{ID: c.ID, Obs: []any{}}
	defer func() {
		if r := recover(); r != nil {
			out.Err = fmt.Sprintf("panic: %v", r)
		}
	}()
	wrapMode.Store(0)
	if c.Kind == "cache" || c.Kind == "cachew" || c.Kind == "cache_take2" {
		wrapMode.Store(int32(c.Wrap))
	}
	switch c.Kind {
	case "window", "safemap", "queue", "ring", "set":
		runSeq(c, &out)
	case "cache":
		runCache(c, &out, false, nil)
	case "cachew":
		runCacheW(c, &out)
	case "cache_take2":
		runCacheTake2(c, &out)
	case "lin":
		runLin(c, &out)
	case "window_gate":
		runWindowGate(c, &out)
	case "stress":
		runStress(c, &out)
	default:
		out.Err = "unknown kind " + c.Kind
	}
	return out
}

// A case that does not return (a lock never released, a wait never satisfied) must not take the
// whole run with it: it is abandoned after a while - its goroutine stays parked - and reported
// as that case's error.  The first such case is given 45 s (the forced-schedule kinds have
// internal timeouts of 20 s), later ones 8 s; after three, the remaining cases are not run.
var hung int

func runCaseGuarded(c Case) Out {
	if hung >= 3 {
		return Out{ID: c.ID, Obs: []any{}, Err: "not run: three earlier cases did not return"}
	}
	limit := 45 * time.Second
	if hung > 0 {
		limit = 8 * time.Second
	}
	ch := make(chan Out, 1)
	go func() { ch <- runCase(c) }()
	select {
	case o := <-ch:
		return o
	case <-time.After(limit):
		hung++
		return Out{ID: c.ID, Obs: []any{}, Err: "the case did not return (deadlock?)"}
	}
}

func main() {
	logx.Disable()
	cases := readCases()
	if os.Getenv("C16_CHILD") != "" {
		// a child: one case after the other, each reported (unbuffered) as soon as it is done
		f, err := os.Create(os.Getenv("VERIF_OUT"))
		if err != nil {
			hx.Fatal("create VERIF_OUT: %v", err)
		}
		enc := json.NewEncoder(f)
		for _, c := range cases {
			enc.Encode(runCaseGuarded(c))
		}
		f.Close()
		return
	}
	w := hx.NewWriter()
	defer w.Close()
	res := make([]Out, len(cases))
	// real-time cache cases sleep: run them concurrently (each has its own cache);
	// everything else runs sequentially (the virtual clock is global)
	var wg, created sync.WaitGroup
	for i, c := range cases {
		if c.Kind == "cache_rt" {
			wg.Add(1)
			created.Add(1)
			go func(i int, c Case) {
				defer wg.Done()
				out := Out{ID: c.ID, Obs: []any{}}
				var once sync.Once
				ready := func() { once.Do(created.Done) }
				defer ready()
				defer func() {
					if r := recover(); r != nil {
						out.Err = fmt.Sprintf("panic: %v", r)
					}
					res[i] = out
				}()
				runCache(c, &out, true, ready)
			}(i, c)
		}
	}
	created.Wait()
	// kinds that poll the goroutine stacks go first: every cache leaves two goroutines behind
	// (wheel loop, stat loop) and a stack dump is linear in the number of goroutines
	polls := func(k string) bool { return k == "cachew" || k == "cache_take2" }
	for i, c := range cases {
		if polls(c.Kind) {
			res[i] = runCaseGuarded(c)
		}
	}
	// kinds whose failure can end the process run in a child
	isolated := func(c Case) bool {
		return (c.Kind == "stress" || (raceBuild && c.Kind == "lin")) && os.Getenv("C16_NOISOLATE") == ""
	}
	var iso []Case
	var isoAt []int
	for i, c := range cases {
		if c.Kind != "cache_rt" && !polls(c.Kind) {
			if isolated(c) {
				iso = append(iso, c)
				isoAt = append(isoAt, i)
			} else {
				res[i] = runCaseGuarded(c)
			}
		}
	}
	if len(iso) > 0 {
		for j, o := range runIsolated(iso) {
			res[isoAt[j]] = o
		}
	}
	wg.Wait()
	for _, r := range res {
		w.Put(r)
	}
}
