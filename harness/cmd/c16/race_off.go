//go:build !race

package main

const raceBuild = false
