//go:build race

package main

// the executor was built with the race detector (harness/cmd/c16race -> go build -race)
const raceBuild = true
