// Executor for C19: drives several redis.RedisLock objects on one key of a miniredis
// server (real Lua interpreter) through the public API and reports what every call returned.
package main

import (
	"io"
	"log"
	"reflect"
	"time"

	"github.com/alicebob/miniredis/v2"
	"github.com/zeromicro/go-zero/core/logx"
	"github.com/zeromicro/go-zero/core/stores/redis"
	"verifh/hx"
)

type Case struct {
	ID  int     `json:"id"`
	Key string  `json:"key"`
	N   int     `json:"n"`
	Ops [][]any `json:"ops"`
}

type Out struct {
	ID  int      `json:"id"`
	IDs []string `json:"ids"`
	Obs []any    `json:"obs"` // per op: [bool, errbool] or null
	Err string   `json:"err,omitempty"`
}

func num(v any) int64 { return int64(v.(float64)) }

func runCase(c Case) (out Out) {
	out = Out{ID: c.ID}
	defer func() {
		if r := recover(); r != nil {
			out.Err = "panic"
		}
	}()
	mr, err := miniredis.Run()
	if err != nil {
		out.Err = err.Error()
		return
	}
	defer mr.Close()
	store := redis.New(mr.Addr())
	locks := make([]*redis.RedisLock, c.N)
	for i := range locks {
		locks[i] = redis.NewRedisLock(store, c.Key)
		// the random id is private; it is case data for the model (read, never written)
		out.IDs = append(out.IDs, reflect.ValueOf(locks[i]).Elem().FieldByName("id").String())
	}
	for _, op := range c.Ops {
		switch op[0].(string) {
		case "acq":
			ok, err := locks[num(op[1])].Acquire()
			out.Obs = append(out.Obs, []bool{ok, err != nil})
		case "rel":
			ok, err := locks[num(op[1])].Release()
			out.Obs = append(out.Obs, []bool{ok, err != nil})
		case "exp":
			locks[num(op[1])].SetExpire(int(num(op[2])))
			out.Obs = append(out.Obs, nil)
		case "adv":
			mr.FastForward(time.Duration(num(op[1])) * time.Millisecond)
			out.Obs = append(out.Obs, nil)
		case "poke":
			mr.Set(c.Key, op[1].(string))
			if t := num(op[2]); t > 0 {
				mr.SetTTL(c.Key, time.Duration(t)*time.Millisecond)
			}
			out.Obs = append(out.Obs, nil)
		default:
			out.Err = "unknown op"
			return
		}
	}
	return
}

func main() {
	logx.Disable()
	log.SetOutput(io.Discard)
	var cases []Case
	hx.ReadCases(&cases)
	w := hx.NewWriter()
	defer w.Close()
	for _, c := range cases {
		w.Put(runCase(c))
	}
}
