// Executor for C19: drives several redis.RedisLock objects on one or more keys of a miniredis
// server (real Lua interpreter) through the public API and reports what every call returned.
//
// Store faults: a miniredis pre-hook answers the ONE command (EVALSHA/EVAL) of a chosen call
// with a forged reply instead of executing it (error reply, nil, integer, bulk or status
// string): the wrapper's error / unknown-reply branches.  Nothing of go-zero is replaced.
package main

import (
	"bytes"
	"context"
	"io"
	"log"
	"reflect"
	"runtime"
	"strconv"
	"strings"
	"sync"
	"time"

	"github.com/alicebob/miniredis/v2"
	"github.com/alicebob/miniredis/v2/server"
	"github.com/zeromicro/go-zero/core/logx"
	"github.com/zeromicro/go-zero/core/stores/redis"
	"github.com/zeromicro/go-zero/core/stringx"
	"verifh/hx"
)

type Case struct {
	ID      int      `json:"id"`
	Keys    []string `json:"keys"`
	InstKey []int    `json:"inst_key"` // key index of every RedisLock object
	Ops     [][]any  `json:"ops"`
	// the process-wide random source behind the lock ids: stringx.Seed(seed) is called before the object with
	// the given index is constructed ([[index, seed], ...]); Conc: the objects are constructed concurrently
	Seeds [][]int64 `json:"seeds"`
	Conc  bool      `json:"conc"`
}

type Out struct {
	ID  int      `json:"id"`
	IDs []string `json:"ids"`
	Obs []any    `json:"obs"` // per op: [bool, errbool] | {"ttl": ms|-1|-2} | null
	Err string   `json:"err,omitempty"`
}

func num(v any) int64 { return int64(v.(float64)) }

// a request context WITH A DEADLINE that costs no real time: Deadline() reports now + d, the
// context stays alive during the call and is cancelled by the executor when the call has returned
type deadlineCtx struct {
	context.Context
	at time.Time
}

func (c deadlineCtx) Deadline() (time.Time, bool) { return c.at, true }

// go-zero caches one go-redis client (with its circuit breaker) per address for the life of the
// process and the kernel hands a closed port out again: a server that has seen failing commands
// stays open until the run is over, so that no later case inherits its breaker statistics.
var parked []*miniredis.Miniredis

type faulter struct {
	mu    sync.Mutex
	armed string // "" | "err" | "nil" | "int:N" | "bulk:S" | "status:S"
	hits  int
	// the gate on the wire: the FIRST script command that arrives while it is armed is held in the hook
	// (its connection's reader goroutine waits; other connections are served) until the executor opens it
	gate    bool
	gateK   int           // which command (1 = the first that arrives while armed) is held
	holding bool          // a command is being held: later commands pass
	arrived int           // commands that arrived since the gate was armed
	open    chan struct{} // closed by the executor
	mr      *miniredis.Miniredis
}

func (f *faulter) hook(c *server.Peer, cmd string, args ...string) bool {
	switch cmd {
	case "HELLO", "AUTH", "SELECT", "CLIENT", "PING", "QUIT":
		return false // connection set-up / health checks of the client library
	}
	// every other command is "the command of a call": today EVALSHA / EVAL, but a RedisLock that talks to the
	// store with plain commands is driven (held, answered with a forged reply) in the same way - except the
	// commands a running script issues itself (redis.call inside Lua passes through this hook as well)
	f.mu.Lock()
	active := f.armed != "" || f.gate
	f.mu.Unlock()
	if !active {
		return false
	}
	if cmd != "EVALSHA" && cmd != "EVAL" {
		buf := make([]byte, 3072)
		buf = buf[:runtime.Stack(buf, false)]
		if bytes.Contains(buf, []byte("gopher-lua")) {
			return false
		}
	}
	f.mu.Lock()
	a := f.armed
	if a != "" {
		f.hits++
	}
	var wait chan struct{}
	if f.gate {
		f.arrived++
		if !f.holding && f.arrived == f.gateK {
			f.holding = true
			wait = f.open
		}
	}
	f.mu.Unlock()
	if wait != nil {
		select {
		case <-wait:
		case <-time.After(10 * time.Second):
		}
	}
	switch {
	case a == "":
		return false
	case a == "err":
		c.WriteError("ERR verif fault")
	case a == "nil":
		c.WriteNull()
	case strings.HasPrefix(a, "int:"):
		n, _ := strconv.Atoi(a[4:])
		c.WriteInt(n)
	case strings.HasPrefix(a, "bulk:"):
		c.WriteBulk(a[5:])
	case strings.HasPrefix(a, "status:"):
		c.WriteInline(a[7:])
	default:
		return false
	}
	return true
}

func (f *faulter) armGate() { f.armGateAt(1) }

func (f *faulter) armGateAt(k int) {
	f.mu.Lock()
	f.gate, f.gateK, f.holding, f.arrived, f.open = true, k, false, 0, make(chan struct{})
	f.mu.Unlock()
}

func (f *faulter) isHolding() bool {
	f.mu.Lock()
	defer f.mu.Unlock()
	return f.holding
}

func (f *faulter) seen() int {
	f.mu.Lock()
	defer f.mu.Unlock()
	return f.arrived
}

func (f *faulter) openGate() {
	f.mu.Lock()
	if f.gate {
		f.gate = false
		close(f.open)
	}
	f.mu.Unlock()
}

// settle: whatever the lock code started in the background (a goroutine that is executing code of go-zero's
// redis package - a frame of it, not a "created by" line - other than the executor's own callers) gets the chance
// to finish before the next operation of the history: a call is over when everything it set in motion is
// over.  Nothing of the kind exists in the unchanged tree (one look at the stacks).
type census struct{ goroutines, conns int }

func (f *faulter) census() census {
	return census{runtime.NumGoroutine(), f.mr.CurrentConnectionCount()}
}

func (f *faulter) settle(before census) {
	// the cheap test first: a call that left no additional goroutine behind - other than the server-side
	// goroutine of every connection it opened - started nothing (looking at all stacks costs milliseconds once a
	// run has accumulated thousands of parked client / server goroutines)
	for k := 0; k < 4; k++ {
		now := f.census()
		if now.goroutines-before.goroutines <= 2*(now.conns-before.conns) { // two server-side goroutines per connection
			return
		}
		runtime.Gosched()
	}
	hx.Quiesce(func(st string) bool {
		if strings.Contains(st, "main.runCase") || strings.Contains(st, "main.c19Caller") || strings.Contains(st, "main.c19Holder") {
			return false
		}
		for _, line := range strings.Split(st, "\n") {
			if strings.HasPrefix(line, "github.com/zeromicro/go-zero/core/stores/redis.") {
				return true
			}
		}
		return false
	}, 2*time.Second)
}

// the goroutines the executor itself starts for concurrent / overlapping calls run through this function, so
// that their stacks can be told from goroutines started by go-zero
func c19Caller(f func()) { f() }

func callerParked() (parked bool, found bool) {
	for _, st := range hx.Stacks() {
		if strings.Contains(st, "main.c19Holder") {
			head := st
			if nl := strings.IndexByte(st, '\n'); nl >= 0 {
				head = st[:nl]
			}
			return hx.Blocked(st) && !strings.Contains(head, "[IO wait") && !strings.Contains(head, "[sleep"), true
		}
	}
	return false, false
}

func c19Holder(f func()) { f() }

func (f *faulter) arm(kind string) {
	f.mu.Lock()
	f.armed, f.hits = kind, 0
	f.mu.Unlock()
}

func (f *faulter) disarm() int {
	f.mu.Lock()
	defer f.mu.Unlock()
	f.armed = ""
	return f.hits
}

// the id of a RedisLock object: the string field called `id`, or - should it be renamed - THE string field that
// does not hold the key
func lockID(l *redis.RedisLock, key string) (string, bool) {
	v := reflect.ValueOf(l).Elem()
	if f := v.FieldByName("id"); f.IsValid() && f.Kind() == reflect.String {
		return f.String(), true
	}
	var cands []string
	for i := 0; i < v.NumField(); i++ {
		if f := v.Field(i); f.Kind() == reflect.String && f.String() != key {
			cands = append(cands, f.String())
		}
	}
	if len(cands) == 1 {
		return cands[0], true
	}
	return "", false
}

func runCase(c Case) (out Out) {
	out = Out{ID: c.ID}
	defer func() {
		if r := recover(); r != nil {
			out.Err = "panic"
		}
	}()
	mr, err := miniredis.Run()
	if err != nil {
		out.Err = err.Error()
		return
	}
	failed := false
	defer func() {
		if failed {
			parked = append(parked, mr)
		} else {
			mr.Close()
		}
	}()
	f := &faulter{mr: mr}
	mr.Server().SetPreHook(f.hook)
	store := redis.New(mr.Addr())
	locks := make([]*redis.RedisLock, len(c.InstKey))
	if c.Conc {
		for _, sd := range c.Seeds {
			stringx.Seed(sd[1])
		}
		var wg sync.WaitGroup
		for i := range locks {
			wg.Add(1)
			go func(i int) {
				defer wg.Done()
				locks[i] = redis.NewRedisLock(store, c.Keys[c.InstKey[i]])
			}(i)
		}
		wg.Wait()
	}
	for i := range locks {
		if c.Conc {
			break
		}
		for _, sd := range c.Seeds {
			if int(sd[0]) == i {
				stringx.Seed(sd[1])
			}
		}
		locks[i] = redis.NewRedisLock(store, c.Keys[c.InstKey[i]])
	}
	for i := range locks {
		// the random id is private; it is case data for the model (read, never written)
		id, ok := lockID(locks[i], c.Keys[c.InstKey[i]])
		if !ok {
			out.Err = "cannot tell which field of RedisLock is the id"
			return
		}
		out.IDs = append(out.IDs, id)
	}
	// kind: "" (Acquire/Release) | "ctx" (Background) | "ctx:live" (a request context, cancelled when the
	// call has returned) | "ctx:cancelled" (already cancelled: the command is never sent) |
	// "ctx:dl:<ms>" (a live request context whose deadline is <ms> away)
	call := func(i int64, rel bool, kind string) []bool {
		var ok bool
		var err error
		ctx, done := context.Background(), func() {}
		switch kind {
		case "ctx:live":
			ctx, done = context.WithCancel(context.Background())
		case "ctx:cancelled":
			ctx, done = context.WithCancel(context.Background())
			done()
		default:
			if strings.HasPrefix(kind, "ctx:dl:") { // "ctx:dl:<ms until the deadline>"
				ms, _ := strconv.ParseInt(kind[7:], 10, 64)
				inner, cancel := context.WithCancel(context.Background())
				ctx, done = deadlineCtx{inner, time.Now().Add(time.Duration(ms) * time.Millisecond)}, cancel
			}
		}
		switch {
		case rel && kind != "":
			ok, err = locks[i].ReleaseCtx(ctx)
		case rel:
			ok, err = locks[i].Release()
		case kind != "":
			ok, err = locks[i].AcquireCtx(ctx)
		default:
			ok, err = locks[i].Acquire()
		}
		done()
		return []bool{ok, err != nil}
	}
	kindOf := func(op []any) string {
		if len(op) > 2 {
			return op[2].(string)
		}
		return ""
	}
	var step func(op []any) (any, bool)
	step = func(op []any) (any, bool) {
		switch op[0].(string) {
		case "acq":
			g0 := f.census()
			r := call(num(op[1]), false, kindOf(op))
			f.settle(g0)
			return r, true
		case "rel":
			g0 := f.census()
			r := call(num(op[1]), true, kindOf(op))
			f.settle(g0)
			return r, true
		case "ovl": // ["ovl", h, p]: instance h's Acquire OVERLAPS instance p's Acquire, which is in flight on the wire
			h, p := num(op[1]), num(op[2])
			g0 := f.census()
			f.armGate()
			pdone, hdone := make(chan []bool, 1), make(chan []bool, 1)
			go c19Caller(func() { pdone <- call(p, false, "") })
			for k := 0; f.seen() < 1; k++ { // p's command has been written and is held by the store's hook
				if k > 5000 {
					f.openGate()
					out.Err = "ovl: the first caller's command never arrived"
					return nil, false
				}
				time.Sleep(time.Millisecond)
			}
			go c19Holder(func() { hdone <- call(h, false, "") })
			// h's call either completes (its own command is served on another connection) or comes to rest
			// inside the process (it waits for something p's call will deliver): then, and only then, p's
			// command is let through
			var hr []bool
			still := 0
			for k := 0; k < 3000 && hr == nil && still < 5; k++ {
				select {
				case hr = <-hdone:
				case <-time.After(2 * time.Millisecond):
					if parked, found := callerParked(); found && parked && f.seen() < 2 {
						still++
					} else {
						still = 0
					}
				}
			}
			f.openGate()
			pr := <-pdone
			if hr == nil {
				hr = <-hdone
			}
			f.settle(g0)
			return [][]bool{hr, pr}, true
		case "par": // ["par", "acq"|"rel", [i, j, ...]]: the listed instances call concurrently
			rel := op[1].(string) == "rel"
			list := op[2].([]any)
			g0 := f.census()
			res := make([][]bool, len(list))
			var wg sync.WaitGroup
			start := make(chan struct{})
			for n, v := range list {
				wg.Add(1)
				go func(n int, i int64) {
					defer wg.Done()
					c19Caller(func() {
						<-start
						res[n] = call(i, rel, "")
					})
				}(n, num(v))
			}
			close(start)
			wg.Wait()
			f.settle(g0)
			return res, true
		case "fault": // ["fault", i, "acq"|"rel", kind]
			kind := op[3].(string)
			if kind == "err" {
				failed = true
			}
			f.arm(kind)
			g0 := f.census()
			r := call(num(op[1]), op[2].(string) == "rel", "")
			f.settle(g0)
			// (how many commands the call sent while the fault was armed is not the executor's business: whatever
			// the call answered is judged against "the store answered the call with this reply")
			f.disarm()
			return r, true
		case "exp":
			locks[num(op[1])].SetExpire(int(num(op[2])))
			return nil, true
		case "adv":
			mr.FastForward(time.Duration(num(op[1])) * time.Millisecond)
			return nil, true
		case "poke": // ["poke", keyidx, value, ttl_ms]
			k := c.Keys[num(op[1])]
			v := op[2].(string)
			if strings.HasPrefix(v, "@") { // the id of a RedisLock object of this case, written by a foreign client
				j, _ := strconv.Atoi(v[1:])
				v = out.IDs[j]
			}
			mr.Set(k, v)
			if t := num(op[3]); t > 0 {
				mr.SetTTL(k, time.Duration(t)*time.Millisecond)
			}
			return nil, true
		case "ttl": // ["ttl", keyidx]
			k := c.Keys[num(op[1])]
			switch {
			case !mr.Exists(k):
				return map[string]int64{"ttl": -2}, true
			case mr.TTL(k) == 0:
				return map[string]int64{"ttl": -1}, true
			default:
				return map[string]int64{"ttl": mr.TTL(k).Milliseconds()}, true
			}
		case "mid": // ["mid", i, "acq"|"rel", k, [ops...]]: instance i's call is stopped on the wire in front of its
			// k-th command; the nested operations (clock, other instances, foreign writes) happen; the call goes on.
			// Today a call is ONE script execution: whatever is held, the call has not taken effect yet.
			i, rel, k := num(op[1]), op[2].(string) == "rel", int(num(op[3]))
			g0 := f.census()
			f.armGateAt(k)
			cdone := make(chan []bool, 1)
			go c19Caller(func() { cdone <- call(i, rel, "") })
			var cr []bool
			for n := 0; n < 5000 && cr == nil && !f.isHolding(); n++ {
				select {
				case cr = <-cdone:
				case <-time.After(time.Millisecond):
				}
			}
			held := cr == nil && f.isHolding()
			if !held {
				f.openGate() // the call never sent that many commands: nothing of the nested operations is to be held
			}
			var nested []any
			for _, v := range op[4].([]any) {
				o, ok := step(v.([]any))
				if !ok {
					f.openGate()
					return nil, false
				}
				nested = append(nested, o)
			}
			f.openGate()
			if cr == nil {
				cr = <-cdone
			}
			f.settle(g0)
			return map[string]any{"held": held, "call": cr, "nested": nested}, true
		default:
			out.Err = "unknown op"
			return nil, false
		}
	}
	for _, op := range c.Ops {
		o, ok := step(op)
		if !ok {
			return
		}
		out.Obs = append(out.Obs, o)
	}
	return
}

func main() {
	logx.Disable()
	log.SetOutput(io.Discard)
	var cases []Case
	hx.ReadCases(&cases)
	w := hx.NewWriter()
	defer w.Close()
	defer func() {
		for _, mr := range parked {
			mr.Close()
		}
	}()
	for _, c := range cases {
		w.Put(runCase(c))
	}
}
