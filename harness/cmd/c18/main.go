// Executor for C18: drives go-zero's authentication gates through httptest and
// reports, per request, (1) what the implementation did (handler ran?, status,
// context claims, body seen, response) and (2) an independent "view" of the
// credential the harness sent, recomputed with Go's own crypto (crypto/hmac,
// crypto/rsa, crypto/aes, crypto/sha256, encoding/base64) and never with go-zero's
// code: that view is the abstract data (mac / rsa / block-cipher tables) the Coq
// model is evaluated on.
//
// The middlewares are composed exactly as rest/engine.go does (appendAuthHandler:
// Authorize, then the signature verifier LimitContentSecurityHandler, then the
// route handler).
package main

import (
	"bytes"
	"crypto/aes"
	"crypto/cipher"
	"crypto/hmac"
	"crypto/rand"
	"crypto/rsa"
	"crypto/sha256"
	"crypto/sha512"
	"crypto/x509"
	"encoding/base64"
	"encoding/hex"
	"encoding/json"
	"encoding/pem"
	"errors"
	"fmt"
	"hash"
	"io"
	"math"
	"net/http"
	"net/http/httptest"
	"net/url"
	"os"
	"path/filepath"
	"reflect"
	"strconv"
	"strings"
	"sync"
	"time"
	"unsafe"

	"github.com/golang-jwt/jwt/v4"
	"github.com/golang-jwt/jwt/v4/request"
	"github.com/zeromicro/go-zero/core/codec"
	"github.com/zeromicro/go-zero/core/conf"
	"github.com/zeromicro/go-zero/core/logx"
	"github.com/zeromicro/go-zero/rest"
	"github.com/zeromicro/go-zero/rest/chain"
	"github.com/zeromicro/go-zero/rest/handler"
	"github.com/zeromicro/go-zero/rest/httpx"
	"github.com/zeromicro/go-zero/rest/router"
	"github.com/zeromicro/go-zero/rest/token"
	"verifh/hx"
)

// ---------------------------------------------------------------------------
// case format

type Mut struct {
	Op string `json:"op"`
	S  string `json:"s"`
	I  int    `json:"i"`
	E  *Edit  `json:"e"` // op "edit": an encoding-level edit of segment I of the token text
}

// Edit is an encoding-level change of a textual field AFTER the credential was made:
//   lowbits  replace the character at Pos by the base64 alphabet neighbour whose index differs in bit K (1|2|4...)
//   droppad / addpad   remove one trailing '=' / append one
//   swapalpha  '+' <-> '-', '/' <-> '_' (standard vs url-safe alphabet)
//   ins      insert S at Pos          case   flip the letter case at Pos
//   pct      percent-encode the character at Pos        del   delete the character at Pos
// Pos < 0 counts from the end (-1: the last character; for ins: after the last character).
type Edit struct {
	Op  string `json:"op"`
	Pos int    `json:"pos"`
	K   int    `json:"k"`
	S   string `json:"s"`
}

type FieldEdit struct {
	Field string `json:"field"` // sig | secret | fp
	Edit
}

const stdAlphabet = "ABCDEFGHIJKLMNOPQRSTUVWXYZabcdefghijklmnopqrstuvwxyz0123456789+/"
const urlAlphabet = "ABCDEFGHIJKLMNOPQRSTUVWXYZabcdefghijklmnopqrstuvwxyz0123456789-_"

func applyEdit(t string, e Edit, alphabet string) string {
	n := len(t)
	pos := e.Pos
	if pos < 0 {
		pos = n + pos
		if e.Op == "ins" {
			pos++
		}
	}
	switch e.Op {
	case "droppad":
		return strings.TrimSuffix(t, "=")
	case "addpad":
		return t + "="
	case "swapalpha":
		return strings.NewReplacer("+", "-", "/", "_", "-", "+", "_", "/").Replace(t)
	case "ins":
		if pos < 0 || pos > n {
			pos = n
		}
		return t[:pos] + e.S + t[pos:]
	}
	if pos < 0 || pos >= n {
		return t
	}
	switch e.Op {
	case "lowbits":
		if ix := strings.IndexByte(alphabet, t[pos]); ix >= 0 {
			return t[:pos] + string(alphabet[ix^e.K]) + t[pos+1:]
		}
	case "case":
		c := t[pos]
		switch {
		case c >= 'a' && c <= 'z':
			c -= 32
		case c >= 'A' && c <= 'Z':
			c += 32
		}
		return t[:pos] + string(c) + t[pos+1:]
	case "pct":
		return t[:pos] + fmt.Sprintf("%%%02X", t[pos]) + t[pos+1:]
	case "del":
		return t[:pos] + t[pos+1:]
	}
	return t
}

// ownAttr: the harness's own reading of an attribute of "k=v; k=v" text (split on ';', trim the field,
// cut at the first '=', the last assignment wins) - written here, not httpx.ParseHeader
func ownAttr(text, name string) (string, bool) {
	val, ok := "", false
	for _, f := range strings.Split(text, ";") {
		f = strings.TrimSpace(f)
		if i := strings.IndexByte(f, '='); i >= 0 && f[:i] == name {
			val, ok = f[i+1:], true
		}
	}
	return val, ok
}

type JReq struct {
	Now     int64  `json:"now"`
	Auth    string `json:"auth"`    // bearer | lower | upper | noprefix | missing | basic | empty
	Header  string `json:"header"`  // raw JSON text of the JOSE header
	Payload string `json:"payload"` // raw JSON text of the claims
	SignKey string `json:"signkey"`
	SignAlg string `json:"signalg"` // HS256 | HS384 | HS512 | none | garbage
	Mut     []Mut  `json:"mut"`
	Auth2   string `json:"auth2"` // a second Authorization header: "" | after | before (garbage value after / before the real one)
	// the rest of the request, which the gate must not look at: HTTP method ("" = GET) and other header fields
	Method string      `json:"method"`
	XH     [][2]string `json:"xh"`
	Target string      `json:"target"` // path and query of the request URL ("" = /private): another name a layer may special-case
}

func (q JReq) url() string {
	if q.Target == "" {
		return "http://localhost/private"
	}
	return "http://localhost" + q.Target
}

// applyXH adds the other header fields of a case to the request. A name "raw:<name>" is stored under exactly
// that (non-canonical) map key; "Host" sets r.Host; everything else goes through Header.Add.
func applyXH(r *http.Request, xh [][2]string) {
	for _, nv := range xh {
		switch {
		case strings.HasPrefix(nv[0], "raw:"):
			k := nv[0][4:]
			r.Header[k] = append(r.Header[k], nv[1])
		case nv[0] == "Host":
			r.Host = nv[1]
		default:
			r.Header.Add(nv[0], nv[1])
		}
	}
}

// newReq: httptest.NewRequest for ANY method token (NewRequest parses the target of a CONNECT request as an
// authority, so the request is made with another method and relabelled)
func newReq(method, target string, body io.Reader) *http.Request {
	if method == "" {
		method = http.MethodGet
	}
	if method != http.MethodConnect {
		return httptest.NewRequest(method, target, body)
	}
	r := httptest.NewRequest(http.MethodPost, target, body)
	r.Method = method
	return r
}

type CSReq struct {
	Method   string  `json:"method"`
	Path     string  `json:"path"`
	Query    string  `json:"query"`
	Body     string  `json:"body"`    // plaintext body (latin-1 string of bytes)
	Enc      bool    `json:"enc"`     // send AES-ECB encrypted, base64
	Chunked  bool    `json:"chunked"` // hide the length (ContentLength = -1)
	AesKey   string  `json:"aeskey"`  // key placed in the secret (bytes as latin-1)
	Fp       string  `json:"fp"`      // fingerprint sent
	Rsa      string  `json:"rsa"`     // public key the secret is encrypted to: A | B | garbage
	Toff     int64   `json:"toff"`    // timestamp = now + toff
	TsRaw    *string `json:"tsraw"`   // timestamp text override
	TsFmt    string  `json:"tsfmt"`   // "" | ms (milliseconds instead of seconds) | plus | zeros | space : spelling of now+toff
	CType    string  `json:"ctype"`   // "" -> "1" if enc else "0"
	KeyB64   *string `json:"keyb64"`  // override of the base64 key text inside the secret
	Hdr      string  `json:"hdr"`     // normal | missing | nofp | nosecret | nosig
	SigMut   string  `json:"sigmut"`  // "" | flip | trunc | other
	Xuri     *string `json:"xuri"`    // X-Request-Uri header
	Resp     string  `json:"resp"`    // what the route handler writes
	SMethod  *string `json:"smethod"` // what the client signed, when different from what is sent
	SPath    *string `json:"spath"`
	SQuery   *string `json:"squery"`
	SBody    *string `json:"sbody"` // signed over this *wire* body instead of the one sent
	SToff    *int64  `json:"stoff"`
	SKey     *string `json:"skey"`
	BodyRaw  *string `json:"bodyraw"`  // wire body override (after signing unless sbody given)
	HdrFmt   string  `json:"hdrfmt"`   // "" | nospace | spaces | trailing | dupsig_good_last | dupsig_bad_last | upper | junk
	CipherOp string  `json:"cipherop"` // "" | trunc | lastbyte | wrongkey : applied to the ciphertext before base64
	ClenAdd  int64   `json:"clenadd"`  // r.ContentLength = len(wire) + clenadd (a lying Content-Length)
	GzEnc    bool    `json:"gzenc"`    // encrypt the secret with go-zero's codec.NewRsaEncrypter instead of crypto/rsa
	SecPad   int     `json:"secpad"`   // extra "; pad=xxx" bytes in the secret (several RSA blocks)
	Flush    bool    `json:"flush"`    // the route handler calls Flush and tries Hijack
	Edits    []FieldEdit `json:"edits"` // encoding-level edits of the presented signature / secret / fingerprint text
	SignTsPlain bool  `json:"signtsplain"` // the client signed the canonical decimal timestamp, the secret carries the tsfmt spelling
	XH       [][2]string `json:"xh"`       // other header fields (see applyXH): nothing the gates may look at
}

type Case struct {
	ID   int    `json:"id"`
	Kind string `json:"kind"` // jwt | cs | crypt
	// jwt
	Secret string `json:"secret"`
	Prev   string `json:"prev"`
	Reqs   []JReq `json:"reqs"`
	// cs
	Strict bool     `json:"strict"`
	Tol    int64    `json:"tol"`
	TolMs  int64    `json:"tolms"` // extra milliseconds in the Expiry (the handler counts whole seconds)
	Keys   []string `json:"keys"` // configured fingerprints (subset of A, B)
	// cs + crypt
	Req   CSReq `json:"req"`
	Limit int64 `json:"limit"`
	// cs: also put the JWT gate in front (as engine.go does), token per Reqs[0]
	WithJwt bool `json:"withjwt"`
	// eng: a real rest.Server; route groups with their options; the request goes to Groups[Target[0]].Routes[Target[1]]
	Groups []Group `json:"groups"`
	Target [2]int  `json:"target"`
	UaCb   bool    `json:"uacb"`
	UsCb   bool    `json:"uscb"`
	// hdr: raw header values for httpx.ParseHeader
	Hdrs []string `json:"hdrs"`
	// jwt: 0 = nil callback, 1 = recording callback, 2 = recording callback that writes its own status
	Cb int `json:"cb"`
	// cs/crypt: use ContentSecurityHandler / CryptionHandler (the wrappers with the default limit)
	Wrap bool `json:"wrap"`
	// tp: one token.TokenParser, every call with its own secrets
	Reset bool     `json:"reset"`
	Calls []TpCall `json:"calls"`
	// srv: a server with several groups, each with its own configuration, and a sequence of requests
	SGroups []SGroup `json:"sgroups"`
	SReqs   []SReq   `json:"sreqs"`
	UseMw   bool     `json:"usemw"`
	Parallel bool    `json:"parallel"` // srv: all requests concurrently, every handler held until all have arrived
	Outer   bool     `json:"outer"`    // srv: rest.WithChain with a recording middleware in front of the gates
	Big     *BigCase `json:"big"` // big: payload sizes for the cryption round trip
	Natives bool     `json:"natives"` // srv: also switch on the log / trace / prometheus / metrics middlewares in front of the gates
	// eng/srv: "" | all (rest.WithCors()) | origin (rest.WithCors("https://app.example")) | headers (rest.WithCorsHeaders("X-Token")):
	// the requests then go through the server's CORS router (which answers OPTIONS itself)
	Cors string `json:"cors"`
}

// BigCase: the payloads are described as (seed, length) and expanded here, so that the case text stays small.
type BigCase struct {
	Seed    uint64 `json:"seed"`
	ReqLen  int    `json:"reqlen"`
	RespLen int    `json:"resplen"`
	Piece   int    `json:"piece"`   // the handler writes the response in pieces of this size (0: one Write)
	Flush   bool   `json:"flush"`   // ... calling Flush between the pieces
	KeyLen  int    `json:"keylen"`  // 16 | 24 | 32
	Via     string `json:"via"`     // crypt (LimitCryptionHandler) | cs (signed type-1 request behind strict content security)
	Chunked bool   `json:"chunked"` // unknown length
	Limit   int64  `json:"limit"`   // limitBytes (<= 0: none)
}

type BigObs struct {
	Ran     bool   `json:"ran"`
	Status  int    `json:"status"`
	WireLen int    `json:"wirelen"`
	SeenLen int    `json:"seenlen"`
	SeenOk  bool   `json:"seenok"`  // the handler read exactly the plaintext the client encrypted
	RespLen int    `json:"resplen"` // bytes on the wire
	RespOk  bool   `json:"respok"`  // an independent client (encoding/base64 + crypto/aes + strict PKCS#7) gets back what the handler wrote
	RespWhy string `json:"respwhy,omitempty"`
	Panic   string `json:"panic,omitempty"`
}

type TpCall struct {
	Secret string `json:"secret"`
	Prev   string `json:"prev"`
	Req    JReq   `json:"req"`
}

type SJwt struct {
	Secret string `json:"secret"`
	Prev   string `json:"prev"`
}

type SKey struct {
	Fp   string `json:"fp"`
	File string `json:"file"` // name of a generated key (A..D) | missing | badpem
}

type SSig struct {
	Strict bool   `json:"strict"`
	Tol    int64  `json:"tol"`
	Keys   []SKey `json:"keys"`
}

type SGroup struct {
	Jwt    *SJwt       `json:"jwt"`
	Sig    *SSig       `json:"sig"`
	Routes [][2]string `json:"routes"`
	Opts   []string    `json:"opts"` // timeout | maxbytes
}

type SReq struct {
	J  *JReq `json:"j"`
	CS CSReq `json:"cs"`
	// send, verbatim, the X-Content-Security header of the earlier request with this index (same
	// secret ciphertext, timestamp and signature) with THIS request's method / path / query / body
	Reuse *int `json:"reuse"`
	// how the route handler behaves: "" reads the whole body then answers | partial (1 byte, then the rest) |
	// twice (reads to the end, then reads again: nothing more may come) | late (answers first, reads afterwards)
	Hb      string `json:"hb"`
	RStatus int    `json:"rstatus"` // status the handler writes (0: 200)
}

type Group struct {
	Jwt    bool        `json:"jwt"`
	Sig    bool        `json:"sig"`
	Prefix string      `json:"prefix"`
	Routes [][2]string `json:"routes"` // method, path
}

// ---------------------------------------------------------------------------
// observations

type JView struct {
	Cred    string            `json:"cred"` // missing | malformed | token
	Alg     string            `json:"alg"`  // HS256 | HS384 | HS512 | none | asym | unknown
	Input   string            `json:"input"`
	Sig     *string           `json:"sig"`     // hex of the decoded signature segment, nil if undecodable
	TagCur  string            `json:"tagcur"`  // hex HMAC_alg(secret, input) ("" if alg not HS*)
	TagPrev string            `json:"tagprev"` // hex HMAC_alg(prev, input)
	Claims  map[string]string `json:"claims"`  // key -> canonical JSON of the value
	Tags    map[string]string `json:"tags,omitempty"`  // srv: secret -> hex HMAC_alg(secret, input), for every secret of the server
	TimeVal map[string]string `json:"timeval,omitempty"` // exp/iat/nbf given as JSON numbers: the whole seconds jwt compares with (floor), as decimal text
}

type JObs struct {
	Ran      bool              `json:"ran"`
	Status   int               `json:"status"`
	Ctx      map[string]string `json:"ctx"`
	Panic    string            `json:"panic,omitempty"`
	Err      int               `json:"uerr"`     // error handed to the unauthorized callback (-9: no callback; 0: not called)
	CbStatus int               `json:"cbstatus"` // status written by the callback itself (0: none)
	View     JView             `json:"view"`
}

type TpObs struct {
	Code int   `json:"code"` // 0: token returned and Valid; else the error code
	View JView `json:"view"`
}

type SReqObs struct {
	Ran      bool    `json:"ran"`
	RanRoute string  `json:"ranroute"`
	Status   int     `json:"status"`
	Seen     string  `json:"seen"`
	RespRaw  string  `json:"respraw"`
	RespDec  *string `json:"respdec"`
	UErr     int     `json:"uerr"`
	UsCode   int     `json:"uscode"`
	MwRan    bool    `json:"mwran"`
	Panic    string  `json:"panic,omitempty"`
	Unstable bool    `json:"unstable,omitempty"`
	CtxOk    bool    `json:"ctxok"`    // the context the handler saw holds exactly the token's non-registered claims, before and after waiting
	OuterSt  int     `json:"outerst"`  // status recorded by a middleware OUTSIDE the authentication gates (-1: none installed)
	JView    *JView  `json:"jwtview,omitempty"`
	View     CSView  `json:"view"`
}

type SrvObs struct {
	BindOk bool      `json:"bindok"`
	EngErr string    `json:"engerr,omitempty"`
	Reqs   []SReqObs `json:"reqs"`
	CorsOn bool      `json:"corson"` // the requests went through the server's CORS router
}

type CSView struct {
	Now       int64             `json:"now"`
	HasFp     bool              `json:"hasfp"`
	HasSecret bool              `json:"hassecret"`
	HasSig    bool              `json:"hassig"`
	FpKnown   bool              `json:"fpknown"`
	SecOk     bool              `json:"secok"` // RSA-decrypts under the key of that fingerprint
	KeyOk     bool              `json:"keyok"` // base64 key decodes
	Key       string            `json:"key"`   // hex
	TsStr     string            `json:"tsstr"`
	TsVal     *int64            `json:"tsval"`
	CType     *int64            `json:"ctype"`
	Sig       string            `json:"sig"`
	ContentLn int64             `json:"contentlen"`
	Digest    string            `json:"digest"`
	Path      string            `json:"path"`
	Query     string            `json:"query"`
	XPath     *string           `json:"xpath"`
	XQuery    *string           `json:"xquery"`
	TagUrl    string            `json:"tagurl"`  // base64 HMAC over (ts, method, URL path, URL query, digest)
	TagXuri   string            `json:"tagxuri"` // the same with the X-Request-Uri path/query
	Wire      string            `json:"wire"`    // hex of the body sent
	B64       *string           `json:"b64"`     // hex of base64-decoded wire body (nil = not base64)
	AesOk     bool              `json:"aesok"`
	DTab      map[string]string `json:"dtab"` // AES^-1 on every full block of B64
	ETab      map[string]string `json:"etab"` // AES on every block of the padded response
	DecKeys   []string          `json:"deckeys"` // names of the generated RSA keys under which the secret decrypts to what the client encrypted
	SecretCt  string            `json:"secretct"` // the secret attribute as sent
	FpSent    string            `json:"fpsent"`   // the key attribute as sent
}

type CSObs struct {
	Ran       bool    `json:"ran"`
	Status    int     `json:"status"`
	Code      int     `json:"code"` // code passed to the unsigned callback (second run), -1 none
	Seen      string  `json:"seen"` // hex of the body the route handler read
	RespRaw   string  `json:"respraw"`
	RespDec   *string `json:"respdec"`   // hex of base64-decoded response body
	RespPlain *string `json:"respplain"` // hex of the response decrypted with the harness' own AES-ECB + strict PKCS#7
	Panic     string  `json:"panic,omitempty"`
	Ran2      bool    `json:"ran2"`
	JwtRan    bool    `json:"jwtran"`
	RanRoute  string  `json:"ranroute"`
	UaCalled  bool    `json:"uacalled"`
	EngErr    string  `json:"engerr,omitempty"`
	JwtView   *JView  `json:"jwtview,omitempty"`
	View      CSView  `json:"view"`
	CodecEnc  string  `json:"codecenc"` // hex EcbEncrypt(key, body)
	CodecDec  string  `json:"codecdec"` // ok:<hex> | err | panic   of EcbDecrypt(key, EcbEncrypt(key, body))
	RawDec    string  `json:"rawdec"`   // ok:<hex> | err | panic   of EcbDecrypt(key, B64)
	HdrOut    bool    `json:"hdrout"`   // the response header set by the route handler reached the client
	CodecX    string  `json:"codecx"`   // "" = the other exported codec entry points behave like EcbEncrypt/EcbDecrypt; else what differed
	MwRan     bool    `json:"mwran"`
	CorsOn    bool    `json:"corson"` // the request went through the server's CORS router
}

type HObs struct {
	Raw   string            `json:"raw"`   // hex
	Attrs map[string]string `json:"attrs"` // hex -> hex
}

type Out struct {
	Hdr []HObs  `json:"hdr,omitempty"`
	ID  int     `json:"id"`
	Jwt []JObs  `json:"jwt,omitempty"`
	Tp  []TpObs `json:"tp,omitempty"`
	Srv *SrvObs `json:"srv,omitempty"`
	Big *BigObs `json:"big,omitempty"`
	CS  *CSObs  `json:"cs,omitempty"`
	Err string  `json:"err,omitempty"`
}

// ---------------------------------------------------------------------------
// JWT

var b64u = base64.RawURLEncoding

func hmacOf(alg string) func() hash.Hash {
	switch alg {
	case "HS256":
		return sha256.New
	case "HS384":
		return sha512.New384
	case "HS512":
		return sha512.New
	}
	return nil
}

func macHex(alg, key, input string) string {
	h := hmacOf(alg)
	if h == nil {
		return ""
	}
	m := hmac.New(h, []byte(key))
	m.Write([]byte(input))
	return hex.EncodeToString(m.Sum(nil))
}

func buildToken(q JReq) string {
	seg0 := b64u.EncodeToString([]byte(q.Header))
	seg1 := b64u.EncodeToString([]byte(q.Payload))
	input := seg0 + "." + seg1
	var sig []byte
	switch q.SignAlg {
	case "HS256", "HS384", "HS512":
		sig, _ = hex.DecodeString(macHex(q.SignAlg, q.SignKey, input))
	case "garbage":
		s := sha256.Sum256([]byte("garbage" + input))
		sig = s[:]
	}
	seg2 := b64u.EncodeToString(sig)
	tok := ""
	extra := ""
	drop := false
	for _, m := range q.Mut {
		switch m.Op {
		case "hdr":
			seg0 = b64u.EncodeToString([]byte(m.S))
		case "pay":
			seg1 = b64u.EncodeToString([]byte(m.S))
		case "sigflip":
			b, _ := b64u.DecodeString(seg2)
			if len(b) > 0 {
				b[(m.I/8)%len(b)] ^= 1 << uint(m.I%8)
			}
			seg2 = b64u.EncodeToString(b)
		case "sigempty":
			seg2 = ""
		case "sigtrunc":
			b, _ := b64u.DecodeString(seg2)
			if m.I < len(b) {
				b = b[:m.I]
			}
			seg2 = b64u.EncodeToString(b)
		case "sigext":
			b, _ := b64u.DecodeString(seg2)
			b = append(b, []byte(m.S)...)
			seg2 = b64u.EncodeToString(b)
		case "edit":
			if m.E != nil {
				switch m.I {
				case 0:
					seg0 = applyEdit(seg0, *m.E, urlAlphabet)
				case 1:
					seg1 = applyEdit(seg1, *m.E, urlAlphabet)
				default:
					seg2 = applyEdit(seg2, *m.E, urlAlphabet)
				}
			}
		case "siglast":
			// same bytes, different text: set the unused trailing bits of the last character
			const abc = "ABCDEFGHIJKLMNOPQRSTUVWXYZabcdefghijklmnopqrstuvwxyz0123456789-_"
			if n := len(seg2); n > 0 && n%4 != 0 {
				ix := strings.IndexByte(abc, seg2[n-1])
				if ix >= 0 {
					seg2 = seg2[:n-1] + string(abc[ix|1])
				}
			}
		case "rawseg":
			switch m.I {
			case 0:
				seg0 = m.S
			case 1:
				seg1 = m.S
			default:
				seg2 = m.S
			}
		case "addseg":
			extra = "." + m.S
		case "dropseg":
			drop = true
		case "rawtoken":
			tok = m.S
		}
	}
	if tok != "" {
		return tok
	}
	if drop {
		return seg0 + "." + seg1
	}
	return seg0 + "." + seg1 + "." + seg2 + extra
}

func authHeader(q JReq, tok string) (string, bool) {
	switch q.Auth {
	case "missing":
		return "", false
	case "empty":
		return "", true
	case "lower":
		return "bearer " + tok, true
	case "upper":
		return "BEARER " + tok, true
	case "mixed":
		return "bEaReR " + tok, true
	case "noprefix":
		return tok, true
	case "basic":
		return "Basic " + tok, true
	case "twospace":
		return "Bearer  " + tok, true
	case "trailspace":
		return "Bearer " + tok + " ", true
	case "leadspace":
		return " Bearer " + tok, true
	case "tab":
		return "Bearer\t" + tok, true
	case "beareronly":
		return "Bearer ", true
	case "bearerbearer":
		return "Bearer Bearer " + tok, true
	}
	return "Bearer " + tok, true
}

// authValues: the Authorization header values as sent (the first one is what net/http's Header.Get
// returns and what the extractor reads)
func authValues(q JReq) ([]string, bool) {
	hdr, present := authHeader(q, buildToken(q))
	if !present {
		return nil, false
	}
	switch q.Auth2 {
	case "after":
		return []string{hdr, "Bearer garbage.garbage.garbage"}, true
	case "before":
		return []string{"Bearer garbage.garbage.garbage", hdr}, true
	}
	return []string{hdr}, true
}

func setAuth(r *http.Request, vals []string) {
	for _, v := range vals {
		r.Header.Add("Authorization", v)
	}
}

// errCode maps the error ParseToken returned / the unauthorized callback received
func errCode(err error) int {
	if err == nil {
		return 0
	}
	var ve *jwt.ValidationError
	if errors.As(err, &ve) {
		return int(ve.Errors)
	}
	if errors.Is(err, request.ErrNoTokenInRequest) {
		return -1
	}
	return -2
}

func canon(v any) string {
	b, err := json.Marshal(v)
	if err != nil {
		return "!" + err.Error()
	}
	return string(b)
}

var asymAlgs = map[string]bool{"RS256": true, "RS384": true, "RS512": true, "PS256": true, "PS384": true,
	"PS512": true, "ES256": true, "ES384": true, "ES512": true, "EdDSA": true}

// classify is the harness's own reading of the credential it is about to send.
func classify(hdr string, present bool, secret, prev string, all ...string) JView {
	v := JView{Cred: "missing", Claims: map[string]string{}}
	if !present || hdr == "" {
		return v
	}
	tok := hdr
	if len(tok) > 6 && strings.EqualFold(tok[:7], "bearer ") {
		tok = tok[7:]
	}
	v.Cred = "malformed"
	parts := strings.Split(tok, ".")
	if len(parts) != 3 {
		return v
	}
	hb, err := b64u.DecodeString(parts[0])
	if err != nil {
		return v
	}
	var h map[string]any
	if json.Unmarshal(hb, &h) != nil {
		return v
	}
	pb, err := b64u.DecodeString(parts[1])
	if err != nil {
		return v
	}
	var claims map[string]any
	dec := json.NewDecoder(bytes.NewReader(pb))
	dec.UseNumber()
	if dec.Decode(&claims) != nil {
		return v
	}
	v.Cred = "token"
	for k, x := range claims {
		v.Claims[k] = canon(x)
	}
	// exp / iat / nbf given as JSON numbers: jwt compares whole seconds (NumericDate truncated to
	// TimePrecision = 1 s); computed here with strconv/math, not with the jwt library
	for _, k := range []string{"exp", "iat", "nbf"} {
		if n, ok := claims[k].(json.Number); ok {
			if f, err := strconv.ParseFloat(string(n), 64); err == nil && math.Abs(f) < 9e18 {
				if v.TimeVal == nil {
					v.TimeVal = map[string]string{}
				}
				v.TimeVal[k] = strconv.FormatInt(int64(math.Floor(f)), 10)
			}
		}
	}
	alg, ok := h["alg"].(string)
	switch {
	case !ok:
		v.Alg = "unknown"
	case alg == "HS256" || alg == "HS384" || alg == "HS512" || alg == "none":
		v.Alg = alg
	case asymAlgs[alg]:
		v.Alg = "asym"
	default:
		v.Alg = "unknown"
	}
	v.Input = parts[0] + "." + parts[1]
	if sb, err := b64u.DecodeString(parts[2]); err == nil {
		s := hex.EncodeToString(sb)
		v.Sig = &s
	}
	v.TagCur = macHex(v.Alg, secret, v.Input)
	v.TagPrev = macHex(v.Alg, prev, v.Input)
	if len(all) > 0 {
		v.Tags = map[string]string{}
		for _, sec := range all {
			v.Tags[sec] = macHex(v.Alg, sec, v.Input)
		}
	}
	return v
}

var stdClaims = []string{"aud", "exp", "jti", "iat", "iss", "nbf", "sub"}

func jwtGate(secret, prev string, cb ...handler.UnauthorizedCallback) func(http.Handler) http.Handler {
	// exactly as engine.appendAuthHandler
	var callback handler.UnauthorizedCallback
	if len(cb) > 0 {
		callback = cb[0]
	}
	if len(prev) == 0 {
		return handler.Authorize(secret, handler.WithUnauthorizedCallback(callback))
	}
	return handler.Authorize(secret, handler.WithPrevSecret(prev), handler.WithUnauthorizedCallback(callback))
}

func serve(h http.Handler, r *http.Request) (rec *httptest.ResponseRecorder, pmsg string) {
	rec = httptest.NewRecorder()
	defer func() {
		if p := recover(); p != nil {
			pmsg = fmt.Sprint(p)
		}
	}()
	h.ServeHTTP(rec, r)
	return
}

func runJwt(c Case) []JObs {
	var cur *JObs
	var gate func(http.Handler) http.Handler
	switch c.Cb {
	case 0:
		gate = jwtGate(c.Secret, c.Prev)
	default:
		gate = jwtGate(c.Secret, c.Prev, func(w http.ResponseWriter, r *http.Request, err error) {
			cur.Err = errCode(err)
			if c.Cb == 2 {
				w.Header().Set("X-Cb", "1")
				w.WriteHeader(http.StatusTeapot)
				cur.CbStatus = http.StatusTeapot
			}
		})
	}
	var keys []string
	h := gate(http.HandlerFunc(func(w http.ResponseWriter, r *http.Request) {
		cur.Ran = true
		for _, k := range keys {
			if x := r.Context().Value(k); x != nil {
				cur.Ctx[k] = canon(x)
			}
		}
		w.WriteHeader(http.StatusOK)
		io.WriteString(w, "ok")
	}))
	var res []JObs
	for _, q := range c.Reqs {
		now := q.Now
		jwt.TimeFunc = func() time.Time { return time.Unix(now, 0) }
		o := JObs{Ctx: map[string]string{}}
		if c.Cb == 0 {
			o.Err = -9
		}
		cur = &o
		vals, present := authValues(q)
		first := ""
		if present {
			first = vals[0]
		}
		o.View = classify(first, present, c.Secret, c.Prev)
		if len(keys) == 0 {
			keys = append([]string{}, stdClaims...)
		}
		for k := range o.View.Claims {
			keys = append(keys, k) // never reset: the claim names of EARLIER tokens are looked for as well
		}
		r := newReq(q.Method, q.url(), nil)
		applyXH(r, q.XH)
		setAuth(r, vals)
		rec, p := serve(h, r)
		o.Status = rec.Code
		o.Panic = p
		res = append(res, o)
	}
	jwt.TimeFunc = time.Now
	return res
}

// runTp drives ONE token.TokenParser directly; every call brings its own secret / prevSecret.
func runTp(c Case) []TpObs {
	var parser *token.TokenParser
	if c.Reset {
		// resetTime + resetDuration < now holds at once and for ever: every counted hit first drops the history
		parser = token.NewTokenParser(token.WithResetDuration(-time.Hour))
	} else {
		parser = token.NewTokenParser()
	}
	var res []TpObs
	for _, cl := range c.Calls {
		now := cl.Req.Now
		jwt.TimeFunc = func() time.Time { return time.Unix(now, 0) }
		vals, present := authValues(cl.Req)
		first := ""
		if present {
			first = vals[0]
		}
		o := TpObs{View: classify(first, present, cl.Secret, cl.Prev)}
		r := newReq(cl.Req.Method, cl.Req.url(), nil)
		applyXH(r, cl.Req.XH)
		setAuth(r, vals)
		func() {
			defer func() {
				if p := recover(); p != nil {
					o.Code = -7
				}
			}()
			tok, err := parser.ParseToken(r, cl.Secret, cl.Prev)
			o.Code = errCode(err)
			if err == nil && (tok == nil || !tok.Valid) {
				o.Code = -3
			}
		}()
		res = append(res, o)
	}
	jwt.TimeFunc = time.Now
	return res
}

// ---------------------------------------------------------------------------
// content security + cryption

type rsaKey struct {
	priv   *rsa.PrivateKey
	file   string
	dec    codec.RsaDecrypter
	pubPem []byte
}

var rsaKeys = map[string]*rsaKey{}
var keyNames = []string{"A", "B", "C", "D"}
var keyFiles = map[string]string{} // also: missing, badpem

func setupKeys(dir string) {
	for _, name := range keyNames {
		k, err := rsa.GenerateKey(rand.Reader, 1024)
		if err != nil {
			hx.Fatal("rsa: %v", err)
		}
		file := filepath.Join(dir, name+".pem")
		data := pem.EncodeToMemory(&pem.Block{Type: "RSA PRIVATE KEY", Bytes: x509.MarshalPKCS1PrivateKey(k)})
		if err := os.WriteFile(file, data, 0o600); err != nil {
			hx.Fatal("write key: %v", err)
		}
		dec, err := codec.NewRsaDecrypter(file) // as engine.signatureVerifier
		if err != nil {
			hx.Fatal("decrypter: %v", err)
		}
		pub, err := x509.MarshalPKIXPublicKey(&k.PublicKey)
		if err != nil {
			hx.Fatal("public key: %v", err)
		}
		rsaKeys[name] = &rsaKey{priv: k, file: file, dec: dec,
			pubPem: pem.EncodeToMemory(&pem.Block{Type: "PUBLIC KEY", Bytes: pub})}
		keyFiles[name] = file
	}
	keyFiles["missing"] = filepath.Join(dir, "no-such-file.pem")
	keyFiles["badpem"] = filepath.Join(dir, "bad.pem")
	os.WriteFile(keyFiles["badpem"], []byte("this is not a PEM file\n"), 0o600)
	keyFiles["badkey"] = filepath.Join(dir, "badkey.pem")
	os.WriteFile(keyFiles["badkey"], pem.EncodeToMemory(&pem.Block{Type: "RSA PRIVATE KEY", Bytes: []byte("junk")}), 0o600)
}

// own chunked RSA (the client side of DecryptBase64's block loop), with crypto/rsa only
func ownRsaEnc(pub *rsa.PublicKey, msg []byte) []byte {
	lim := pub.Size() - 11
	var out []byte
	for i := 0; i < len(msg); i += lim {
		j := i + lim
		if j > len(msg) {
			j = len(msg)
		}
		ct, err := rsa.EncryptPKCS1v15(rand.Reader, pub, msg[i:j])
		if err != nil {
			hx.Fatal("rsa encrypt: %v", err)
		}
		out = append(out, ct...)
	}
	return out
}

func gzEncrypt(pubPem, msg []byte) (ct []byte, ok bool) {
	defer func() {
		if recover() != nil {
			ct, ok = nil, false
		}
	}()
	enc, err := codec.NewRsaEncrypter(pubPem)
	if err != nil {
		return nil, false
	}
	ct, err = enc.Encrypt(msg)
	return ct, err == nil
}

func ownRsaDec(priv *rsa.PrivateKey, raw []byte) ([]byte, bool) {
	k := priv.Size()
	if len(raw) == 0 {
		return nil, false
	}
	var out []byte
	for i := 0; i < len(raw); i += k {
		j := i + k
		if j > len(raw) {
			j = len(raw)
		}
		pt, err := rsa.DecryptPKCS1v15(rand.Reader, priv, raw[i:j])
		if err != nil {
			return nil, false
		}
		out = append(out, pt...)
	}
	return out, true
}

func latin(s string) []byte {
	// JSON strings carry bytes as code points 0..255
	b := make([]byte, 0, len(s))
	for _, r := range s {
		b = append(b, byte(r))
	}
	return b
}

func ownPad(p []byte) []byte {
	n := 16 - len(p)%16
	return append(append([]byte{}, p...), bytes.Repeat([]byte{byte(n)}, n)...)
}

func ownEcb(key, p []byte, enc bool) ([]byte, bool) {
	blk, err := aes.NewCipher(key)
	if err != nil {
		return nil, false
	}
	out := make([]byte, len(p))
	for i := 0; i+16 <= len(p); i += 16 {
		if enc {
			blk.Encrypt(out[i:i+16], p[i:i+16])
		} else {
			blk.Decrypt(out[i:i+16], p[i:i+16])
		}
	}
	return out, true
}

func hmacB64(key []byte, s string) string {
	m := hmac.New(sha256.New, key)
	m.Write([]byte(s))
	return base64.StdEncoding.EncodeToString(m.Sum(nil))
}

func shaHex(b []byte) string {
	s := sha256.Sum256(b)
	return hex.EncodeToString(s[:])
}

func or(p *string, d string) string {
	if p != nil {
		return *p
	}
	return d
}

func guarded(f func() ([]byte, error)) (res string) {
	defer func() {
		if p := recover(); p != nil {
			res = "panic"
		}
	}()
	b, err := f()
	if err != nil {
		return "err"
	}
	return "ok:" + hex.EncodeToString(b)
}

type hideLen struct{ r io.Reader }

func (h hideLen) Read(p []byte) (int, error) { return h.r.Read(p) }

type built struct {
	wire   []byte
	header string
	hasHdr bool
	view   CSView
	gzBad  bool // go-zero's own codec.RsaEncrypter failed or panicked on the secret (made with crypto/rsa instead)
}

func buildCS(c Case, now int64) built {
	return buildCSReq(c.Req, c.Keys, now)
}

// buildCSReq builds the wire form of one content-security request and the harness's own reading of
// it.  [known] = the fingerprints (= key names) configured, for the FpKnown / SecOk fields used by
// the single-group kinds; DecKeys is independent of any configuration.
func buildCSReq(q CSReq, known []string, now int64) built {
	var b built
	aesKey := latin(q.AesKey)
	plain := latin(q.Body)
	// wire body
	wire := plain
	if q.Enc {
		ct, ok := ownEcb(aesKey, ownPad(plain), true)
		if !ok {
			ct = ownPad(plain)
		}
		switch q.CipherOp {
		case "trunc":
			if len(ct) > 3 {
				ct = ct[:len(ct)-3]
			}
		case "lastbyte":
			ct[len(ct)-1] ^= 0x5a
		case "wrongkey":
			k2 := append([]byte{}, aesKey...)
			if len(k2) > 0 {
				k2[0] ^= 1
			}
			if ct2, ok := ownEcb(k2, ownPad(plain), true); ok {
				ct = ct2
			}
		case "dropblock":
			ct = ct[:len(ct)-16]
		}
		wire = []byte(base64.StdEncoding.EncodeToString(ct))
	}
	signedWire := wire
	if q.SBody != nil {
		signedWire = latin(*q.SBody)
	}
	if q.BodyRaw != nil {
		wire = latin(*q.BodyRaw)
		if q.SBody == nil {
			signedWire = wire
		}
	}
	b.wire = wire

	// the secret
	ts := strconv.FormatInt(now+q.Toff, 10)
	switch q.TsFmt {
	case "ms":
		ts = strconv.FormatInt((now+q.Toff)*1000, 10)
	case "plus":
		ts = "+" + ts
	case "zeros":
		ts = "000" + ts
	case "space":
		ts = " " + ts
	}
	if q.TsRaw != nil {
		ts = *q.TsRaw
	}
	ctype := q.CType
	if ctype == "" {
		if q.Enc {
			ctype = "1"
		} else {
			ctype = "0"
		}
	}
	keyText := base64.StdEncoding.EncodeToString(aesKey)
	if q.KeyB64 != nil {
		keyText = *q.KeyB64
	}
	secretPlain := "key=" + keyText + "; time=" + ts + "; type=" + ctype
	if q.SecPad > 0 {
		secretPlain += "; pad=" + strings.Repeat("x", q.SecPad)
	}
	var secretField string
	switch q.Rsa {
	case "A", "B", "C", "D":
		var ct []byte
		if q.GzEnc {
			// the client-side helper of go-zero itself; should it fail or panic on the tree under test (it is not
			// part of the gate), the secret is made with crypto/rsa instead and the run goes on: the server side,
			// which shares the block chunking, is judged on what it does with that secret
			var ok bool
			if ct, ok = gzEncrypt(rsaKeys[q.Rsa].pubPem, []byte(secretPlain)); !ok {
				b.gzBad = true
				ct = ownRsaEnc(&rsaKeys[q.Rsa].priv.PublicKey, []byte(secretPlain))
			}
		} else {
			ct = ownRsaEnc(&rsaKeys[q.Rsa].priv.PublicKey, []byte(secretPlain))
		}
		secretField = base64.StdEncoding.EncodeToString(ct)
	case "notb64":
		secretField = "@@@not-base64@@@"
	default:
		g := sha512.Sum512([]byte(secretPlain))
		secretField = base64.StdEncoding.EncodeToString(append(g[:], g[:]...))
	}

	fp := q.Fp
	for _, e := range q.Edits {
		switch e.Field {
		case "secret":
			secretField = applyEdit(secretField, e.Edit, stdAlphabet)
		case "fp":
			fp = applyEdit(fp, e.Edit, stdAlphabet)
		}
	}

	// what the client signs
	sts := ts
	if q.SignTsPlain {
		sts = strconv.FormatInt(now+q.Toff, 10)
	}
	if q.SToff != nil {
		sts = strconv.FormatInt(now+*q.SToff, 10)
	}
	signKey := aesKey
	if q.SKey != nil {
		signKey = latin(*q.SKey)
	}
	content := strings.Join([]string{sts, or(q.SMethod, q.Method), or(q.SPath, q.Path), or(q.SQuery, q.Query),
		shaHex(signedWire)}, "\n")
	sig := hmacB64(signKey, content)
	switch q.SigMut {
	case "flip":
		raw, _ := base64.StdEncoding.DecodeString(sig)
		raw[3] ^= 0x10
		sig = base64.StdEncoding.EncodeToString(raw)
	case "trunc":
		sig = sig[:20]
	case "other":
		sig = hmacB64([]byte("someone else"), content)
	}
	for _, e := range q.Edits {
		if e.Field == "sig" {
			sig = applyEdit(sig, e.Edit, stdAlphabet)
		}
	}

	var fields []string
	if q.Hdr != "nofp" {
		fields = append(fields, "key="+fp)
	}
	if q.Hdr != "nosecret" {
		fields = append(fields, "secret="+secretField)
	}
	if q.Hdr != "nosig" {
		fields = append(fields, "signature="+sig)
	}
	b.header = strings.Join(fields, "; ")
	upper := false
	switch q.HdrFmt {
	case "nospace":
		b.header = strings.Join(fields, ";")
	case "spaces":
		b.header = "  " + strings.Join(fields, " \t;  ") + " \t"
	case "trailing":
		b.header = ";" + strings.Join(fields, "; ") + ";;"
	case "junk":
		b.header = "x; =y; " + strings.Join(fields, "; foo=bar; ") + "; signature"
	case "dupsig_good_last":
		if q.Hdr != "nosig" {
			b.header = "signature=AAAA; " + b.header
		}
	case "dupsig_bad_last":
		b.header = b.header + "; signature=AAAA"
		sig = "AAAA"
	case "upper":
		b.header = strings.NewReplacer("key=", "Key=", "secret=", "Secret=", "signature=", "Signature=").Replace(b.header)
		upper = true
	case "reorder":
		rev := make([]string, 0, len(fields))
		for i := len(fields) - 1; i >= 0; i-- {
			rev = append(rev, fields[i])
		}
		b.header = strings.Join(rev, ";")
	}
	b.hasHdr = q.Hdr != "missing"

	// ---- independent view -------------------------------------------------
	v := CSView{Now: now, DTab: map[string]string{}, ETab: map[string]string{}}
	_ = upper
	fpSent, sigSent, secretSent := "", "", ""
	if b.hasHdr {
		// what the header text says, read by the harness's own attribute parser
		var ok bool
		if fpSent, ok = ownAttr(b.header, "key"); ok && fpSent != "" {
			v.HasFp = true
		}
		if secretSent, ok = ownAttr(b.header, "secret"); ok && secretSent != "" {
			v.HasSecret = true
		}
		if sigSent, ok = ownAttr(b.header, "signature"); ok && sigSent != "" {
			v.HasSig = true
		}
	}
	for _, k := range known {
		if k == fpSent {
			v.FpKnown = true
		}
	}
	v.FpSent = fpSent
	v.Sig = sigSent
	if !v.HasSig {
		v.Sig = sig
	}
	v.TsStr = ts
	v.SecretCt = secretSent
	if !v.HasSecret {
		v.SecretCt = secretField
	}
	secretField = v.SecretCt
	usedKey := aesKey
	v.DecKeys = []string{}
	if raw, err := base64.StdEncoding.DecodeString(secretField); err == nil {
		for _, name := range keyNames {
			if pt, ok := ownRsaDec(rsaKeys[name].priv, raw); ok && string(pt) == secretPlain {
				v.DecKeys = append(v.DecKeys, name)
				if v.HasSecret && v.FpKnown && name == fpSent {
					v.SecOk = true
				}
			}
		}
	}
	if kb, err := base64.StdEncoding.DecodeString(keyText); err == nil {
		v.KeyOk = true
		usedKey = kb
	}
	v.Key = hex.EncodeToString(usedKey)
	if n, err := strconv.ParseInt(ts, 10, 64); err == nil {
		v.TsVal = &n
	}
	if n, err := strconv.Atoi(ctype); err == nil {
		n64 := int64(n)
		v.CType = &n64
	}
	v.ContentLn = int64(len(wire))
	if q.Chunked {
		v.ContentLn = -1
	} else if len(wire) > 0 && q.ClenAdd != 0 && int64(len(wire))+q.ClenAdd > 0 {
		v.ContentLn = int64(len(wire)) + q.ClenAdd
	}
	v.Digest = shaHex(wire)
	// the path and query AS THE SERVER RECEIVES THEM: the target text parsed by net/url (percent-decoding of the
	// path; nothing is cleaned), not go-zero code
	v.Path, v.Query = q.Path, q.Query
	tgt := "http://localhost" + q.Path
	if q.Query != "" {
		tgt += "?" + q.Query
	}
	if u, err := url.ParseRequestURI(tgt); err == nil {
		v.Path, v.Query = u.Path, u.RawQuery
	}
	v.TagUrl = hmacB64(usedKey, strings.Join([]string{ts, q.Method, v.Path, v.Query, v.Digest}, "\n"))
	if q.Xuri != nil && *q.Xuri != "" {
		if u, err := url.Parse(*q.Xuri); err == nil {
			p, qq := u.Path, u.RawQuery
			v.XPath, v.XQuery = &p, &qq
			v.TagXuri = hmacB64(usedKey, strings.Join([]string{ts, q.Method, p, qq, v.Digest}, "\n"))
		}
	}
	v.Wire = hex.EncodeToString(wire)
	// what decryptBody reads: exactly ContentLength bytes
	bodyRead := wire
	if v.ContentLn > 0 && v.ContentLn < int64(len(wire)) {
		bodyRead = wire[:v.ContentLn]
	}
	if dec, err := base64.StdEncoding.DecodeString(string(bodyRead)); err == nil {
		s := hex.EncodeToString(dec)
		v.B64 = &s
		if blk, err := aes.NewCipher(usedKey); err == nil {
			for i := 0; i+16 <= len(dec); i += 16 {
				out := make([]byte, 16)
				blk.Decrypt(out, dec[i:i+16])
				v.DTab[hex.EncodeToString(dec[i:i+16])] = hex.EncodeToString(out)
			}
		}
	}
	if blk, err := aes.NewCipher(usedKey); err == nil {
		v.AesOk = true
		for _, msg := range [][]byte{latin(q.Resp), plain} {
			rp := ownPad(msg)
			for i := 0; i+16 <= len(rp); i += 16 {
				out := make([]byte, 16)
				blk.Encrypt(out, rp[i:i+16])
				v.ETab[hex.EncodeToString(rp[i:i+16])] = hex.EncodeToString(out)
				v.DTab[hex.EncodeToString(out)] = hex.EncodeToString(rp[i : i+16])
			}
		}
	}
	b.view = v
	return b
}

func (b built) request(c Case) *http.Request {
	return b.requestFor(c.Req)
}

func (b built) requestFor(q CSReq) *http.Request {
	target := "http://localhost" + q.Path
	if q.Query != "" {
		target += "?" + q.Query
	}
	var body io.Reader
	if len(b.wire) > 0 || q.Chunked {
		body = bytes.NewReader(b.wire)
		if q.Chunked {
			body = hideLen{body}
		}
	}
	r := newReq(q.Method, target, body)
	applyXH(r, q.XH)
	if b.view.ContentLn > 0 {
		r.ContentLength = b.view.ContentLn
	}
	if b.hasHdr {
		r.Header.Set("X-Content-Security", b.header)
	}
	if q.Xuri != nil {
		r.Header.Set("X-Request-Uri", *q.Xuri)
	}
	return r
}

// ---- rest.WithCors: the server wraps its router (server.router = corsRouter{router}); routes are still bound onto
// the router we passed in, but requests must enter through the wrapper. The public API has no accessor, so the
// unexported field is read (not written) by reflection. Should the field not be found any more (a refactoring), the
// CORS option is simply not used in this run: corsUsable() is probed once on a throw-away server.

func serverRouter(srv *rest.Server) (h http.Handler) {
	defer func() {
		if recover() != nil {
			h = nil
		}
	}()
	v := reflect.ValueOf(srv).Elem()
	for i := 0; i < v.NumField(); i++ {
		f := v.Field(i)
		if f.Kind() != reflect.Interface || f.IsNil() {
			continue
		}
		x := reflect.NewAt(f.Type(), unsafe.Pointer(f.UnsafeAddr())).Elem().Interface()
		if rt, ok := x.(httpx.Router); ok {
			return rt
		}
	}
	return nil
}

func corsOption(kind string) rest.RunOption {
	switch kind {
	case "origin":
		return rest.WithCors("https://app.example")
	case "headers":
		return rest.WithCorsHeaders("X-Token")
	}
	return rest.WithCors()
}

var corsProbe struct {
	once sync.Once
	ok   bool
}

func corsUsable() bool {
	corsProbe.once.Do(func() {
		defer func() { recover() }()
		var rc rest.RestConf
		if conf.LoadFromJsonBytes([]byte(`{"Name":"c18probe","Host":"127.0.0.1","Port":70000,"CpuThreshold":0,`+
			`"Middlewares":{"Shedding":false,"Log":false,"Prometheus":false,"Trace":false,"Metrics":false}}`), &rc) != nil {
			return
		}
		rt := router.NewRouter()
		srv, err := rest.NewServer(rc, rest.WithRouter(rt), rest.WithCors())
		if err != nil {
			return
		}
		h := serverRouter(srv)
		if h == nil || h == http.Handler(rt) {
			return
		}
		// the wrapper answers an OPTIONS request to nowhere by itself and hands everything else to our router
		rec := httptest.NewRecorder()
		h.ServeHTTP(rec, httptest.NewRequest(http.MethodOptions, "http://localhost/nowhere", nil))
		corsProbe.ok = rec.Code == http.StatusNoContent
	})
	return corsProbe.ok
}

// buildEngine registers the route groups on a real rest.Server with the public API and
// lets the engine bind them (engine.bindRoutes -> appendAuthHandler / signatureVerifier and
// the whole default middleware chain) onto a router we keep.  Server.Start binds the routes
// and then tries to listen; the configured port is invalid on purpose, so Start fails right
// after binding (its panic is recovered) and nothing is ever listened on.
func buildEngine(c Case, route http.HandlerFunc, o *CSObs) http.Handler {
	var rc rest.RestConf
	if err := conf.LoadFromJsonBytes([]byte(`{"Name":"c18","Host":"127.0.0.1","Port":70000,"CpuThreshold":0,`+
		`"Middlewares":{"Shedding":false,"Log":false,"Prometheus":false,"Trace":false,"Metrics":false}}`), &rc); err != nil {
		hx.Fatal("rest conf: %v", err)
	}
	rt := router.NewRouter()
	opts := []rest.RunOption{rest.WithRouter(rt)}
	if c.UaCb {
		opts = append(opts, rest.WithUnauthorizedCallback(func(w http.ResponseWriter, r *http.Request, err error) {
			o.UaCalled = true
		}))
	}
	if c.UsCb {
		opts = append(opts, rest.WithUnsignedCallback(func(w http.ResponseWriter, r *http.Request, next http.Handler,
			strict bool, code int) {
			o.Code = code
			if strict {
				w.WriteHeader(http.StatusForbidden)
			} else {
				next.ServeHTTP(w, r)
			}
		}))
	}
	useCors := c.Cors != "" && corsUsable()
	if useCors {
		opts = append(opts, corsOption(c.Cors))
	}
	srv, err := rest.NewServer(rc, opts...)
	if err != nil {
		hx.Fatal("rest server: %v", err)
	}
	logx.Disable()
	if c.UseMw {
		// server.Use middlewares come after the authentication handlers in every chain
		srv.Use(func(next http.HandlerFunc) http.HandlerFunc {
			return func(w http.ResponseWriter, r *http.Request) {
				o.MwRan = true
				next(w, r)
			}
		})
	}
	var keys []rest.PrivateKeyConf
	for _, k := range c.Keys {
		keys = append(keys, rest.PrivateKeyConf{Fingerprint: k, KeyFile: rsaKeys[k].file})
	}
	for _, g := range c.Groups {
		var ropts []rest.RouteOption
		if g.Jwt {
			if c.Prev == "" {
				ropts = append(ropts, rest.WithJwt(c.Secret))
			} else {
				ropts = append(ropts, rest.WithJwtTransition(c.Secret, c.Prev))
			}
		}
		if g.Sig {
			ropts = append(ropts, rest.WithSignature(rest.SignatureConf{Strict: c.Strict,
				Expiry: time.Duration(c.Tol)*time.Second + time.Duration(c.TolMs)*time.Millisecond, PrivateKeys: keys}))
		}
		if g.Prefix != "" {
			ropts = append(ropts, rest.WithPrefix(g.Prefix))
		}
		var routes []rest.Route
		for _, mp := range g.Routes {
			label := mp[0] + " " + g.Prefix + mp[1]
			routes = append(routes, rest.Route{Method: mp[0], Path: mp[1], Handler: func(w http.ResponseWriter, r *http.Request) {
				o.RanRoute = label
				route(w, r)
			}})
		}
		srv.AddRoutes(routes, ropts...)
	}
	func() {
		defer func() {
			if p := recover(); p != nil {
				if e, ok := p.(error); !ok || !strings.Contains(e.Error(), "70000") {
					o.EngErr = fmt.Sprint(p)
				}
			}
		}()
		srv.Start()
	}()
	o.CorsOn = false
	if useCors {
		if h := serverRouter(srv); h != nil {
			o.CorsOn = true
			return h
		}
	}
	return rt
}

// ---------------------------------------------------------------------------
// srv: ONE rest.Server, several route groups each with its own JWT secrets / signature keys /
// strictness / tolerance, and a SEQUENCE of requests, each aimed at one group's route with
// credentials made for any group's configuration.

type srvCur struct {
	o *SReqObs
	q *CSReq
	// per-request slots, found through the X-Verif-Idx header (requests may run concurrently)
	mu      sync.Mutex
	slots   map[string]*srvSlot
	arrived chan struct{} // parallel mode: one token per request that reached its handler or was answered without it
	release chan struct{} // parallel mode: closed when every request has arrived
}

type srvSlot struct {
	o  *SReqObs
	q  *CSReq
	sq *SReq
}

// allKeys: the claim names of every token sent so far in this case
func (c *srvCur) allKeys() []string {
	c.mu.Lock()
	defer c.mu.Unlock()
	var ks []string
	for _, s := range c.slots {
		if s.o.JView != nil {
			for k := range s.o.JView.Claims {
				ks = append(ks, k)
			}
		}
	}
	return ks
}

func (c *srvCur) slot(r *http.Request) *srvSlot {
	c.mu.Lock()
	defer c.mu.Unlock()
	if s, ok := c.slots[r.Header.Get("X-Verif-Idx")]; ok {
		return s
	}
	return &srvSlot{o: c.o, q: c.q, sq: &SReq{}}
}

func buildSrv(c Case, cur *srvCur, so *SrvObs) http.Handler {
	var rc rest.RestConf
	mws := `"Middlewares":{"Shedding":false,"Log":false,"Prometheus":false,"Trace":false,"Metrics":false}}`
	if c.Natives {
		mws = `"Middlewares":{"Shedding":false,"Log":true,"Prometheus":true,"Trace":true,"Metrics":true}}`
	}
	if err := conf.LoadFromJsonBytes([]byte(`{"Name":"c18","Host":"127.0.0.1","Port":70000,"CpuThreshold":0,`+mws), &rc); err != nil {
		hx.Fatal("rest conf: %v", err)
	}
	rt := router.NewRouter()
	opts := []rest.RunOption{rest.WithRouter(rt)}
	if c.Outer {
		// a user chain replaces the native middlewares: OUTSIDE the authentication gates; it records the status it sees
		opts = append(opts, rest.WithChain(chain.New(func(next http.Handler) http.Handler {
			return http.HandlerFunc(func(w http.ResponseWriter, r *http.Request) {
				sw := &statusWriter{ResponseWriter: w}
				next.ServeHTTP(sw, r)
				if sw.status == 0 {
					sw.status = http.StatusOK
				}
				cur.slot(r).o.OuterSt = sw.status
			})
		})))
	}
	if c.UaCb {
		opts = append(opts, rest.WithUnauthorizedCallback(func(w http.ResponseWriter, r *http.Request, err error) {
			cur.slot(r).o.UErr = errCode(err)
		}))
	}
	if c.UsCb {
		opts = append(opts, rest.WithUnsignedCallback(func(w http.ResponseWriter, r *http.Request, next http.Handler,
			strict bool, code int) {
			cur.slot(r).o.UsCode = code
			if strict {
				w.WriteHeader(http.StatusForbidden)
			} else {
				next.ServeHTTP(w, r)
			}
		}))
	}
	useCors := c.Cors != "" && corsUsable()
	if useCors {
		opts = append(opts, corsOption(c.Cors))
	}
	srv, err := rest.NewServer(rc, opts...)
	if err != nil {
		hx.Fatal("rest server: %v", err)
	}
	logx.Disable()
	if c.UseMw {
		srv.Use(func(next http.HandlerFunc) http.HandlerFunc {
			return func(w http.ResponseWriter, r *http.Request) {
				cur.slot(r).o.MwRan = true
				next(w, r)
			}
		})
	}
	for _, g := range c.SGroups {
		var ropts []rest.RouteOption
		if g.Jwt != nil {
			if g.Jwt.Prev == "" {
				ropts = append(ropts, rest.WithJwt(g.Jwt.Secret))
			} else {
				ropts = append(ropts, rest.WithJwtTransition(g.Jwt.Secret, g.Jwt.Prev))
			}
		}
		if g.Sig != nil {
			var keys []rest.PrivateKeyConf
			for _, k := range g.Sig.Keys {
				keys = append(keys, rest.PrivateKeyConf{Fingerprint: k.Fp, KeyFile: keyFiles[k.File]})
			}
			ropts = append(ropts, rest.WithSignature(rest.SignatureConf{Strict: g.Sig.Strict,
				Expiry: time.Duration(g.Sig.Tol) * time.Second, PrivateKeys: keys}))
		}
		for _, op := range g.Opts {
			switch op {
			case "timeout":
				ropts = append(ropts, rest.WithTimeout(30*time.Second))
			case "maxbytes":
				ropts = append(ropts, rest.WithMaxBytes(1<<20))
			}
		}
		var routes []rest.Route
		hasJwt := g.Jwt != nil
		for _, mp := range g.Routes {
			label := mp[0] + " " + mp[1]
			routes = append(routes, rest.Route{Method: mp[0], Path: mp[1], Handler: func(w http.ResponseWriter, r *http.Request) {
				sl := cur.slot(r)
				o, q := sl.o, sl.q
				o.Ran = true
				o.RanRoute = label
				ctx1 := ctxClaimsOk(r, o.JView, hasJwt, cur.allKeys()...)
				status := sl.sq.RStatus
				if status == 0 {
					status = http.StatusOK
				}
				answer := func() {
					w.WriteHeader(status)
					if q.Resp != "" && status != http.StatusNoContent && status != http.StatusNotModified {
						w.Write(latin(q.Resp))
					}
				}
				var got []byte
				switch {
				case cur.release != nil:
					// parallel mode: read half, let every other request be served, read the rest
					first := make([]byte, 0, 64)
					buf := make([]byte, 7)
					n, _ := io.ReadFull(r.Body, buf)
					first = append(first, buf[:n]...)
					cur.arrived <- struct{}{}
					select {
					case <-cur.release:
					case <-time.After(10 * time.Second):
						o.Panic = "harness: barrier timeout"
					}
					rest, _ := io.ReadAll(r.Body)
					got = append(first, rest...)
					answer()
				case sl.sq.Hb == "partial":
					one := make([]byte, 1)
					n, _ := io.ReadFull(r.Body, one)
					rest, _ := io.ReadAll(r.Body)
					got = append(one[:n], rest...)
					answer()
				case sl.sq.Hb == "twice":
					got, _ = io.ReadAll(r.Body)
					if again, _ := io.ReadAll(r.Body); len(again) != 0 {
						got = append(got, again...) // would show as a body that is not the plaintext
					}
					answer()
				case sl.sq.Hb == "late":
					answer()
					got, _ = io.ReadAll(r.Body)
				default:
					got, _ = io.ReadAll(r.Body)
					answer()
				}
				o.Seen = hex.EncodeToString(got)
				o.CtxOk = ctx1 && ctxClaimsOk(r, o.JView, hasJwt, cur.allKeys()...)
			}})
		}
		srv.AddRoutes(routes, ropts...)
	}
	so.BindOk = false
	func() {
		defer func() {
			if p := recover(); p != nil {
				if e, ok := p.(error); ok && strings.Contains(e.Error(), "70000") {
					so.BindOk = true // every route was bound; only listening failed, as intended
				} else {
					so.EngErr = fmt.Sprint(p)
				}
			}
		}()
		srv.Start()
	}()
	if useCors {
		if h := serverRouter(srv); h != nil {
			so.CorsOn = true
			return h
		}
	}
	return rt
}

// reuseHeader: request [b] (its own method, path, query, body) sent with the header of the earlier
// request [prev]; the view is what the harness knows about that combination (both are plaintext requests).
func reuseHeader(b, prev built, q CSReq, now int64) built {
	b.header, b.hasHdr = prev.header, prev.hasHdr
	v, pv := b.view, prev.view
	v.Now = now
	v.HasFp, v.HasSecret, v.HasSig = pv.HasFp, pv.HasSecret, pv.HasSig
	v.Sig, v.SecretCt, v.DecKeys, v.FpSent = pv.Sig, pv.SecretCt, pv.DecKeys, pv.FpSent
	v.KeyOk, v.Key, v.TsStr, v.TsVal, v.CType, v.AesOk = pv.KeyOk, pv.Key, pv.TsStr, pv.TsVal, pv.CType, pv.AesOk
	key, _ := hex.DecodeString(pv.Key)
	v.TagUrl = hmacB64(key, strings.Join([]string{pv.TsStr, q.Method, q.Path, q.Query, v.Digest}, "\n"))
	v.DTab, v.ETab = map[string]string{}, map[string]string{}
	if blk, err := aes.NewCipher(key); err == nil {
		for _, msg := range [][]byte{latin(q.Resp), latin(q.Body)} {
			rp := ownPad(msg)
			for i := 0; i+16 <= len(rp); i += 16 {
				out := make([]byte, 16)
				blk.Encrypt(out, rp[i:i+16])
				v.ETab[hex.EncodeToString(rp[i:i+16])] = hex.EncodeToString(out)
				v.DTab[hex.EncodeToString(out)] = hex.EncodeToString(rp[i : i+16])
			}
		}
		if v.B64 != nil {
			dec, _ := hex.DecodeString(*v.B64)
			for i := 0; i+16 <= len(dec); i += 16 {
				out := make([]byte, 16)
				blk.Decrypt(out, dec[i:i+16])
				v.DTab[hex.EncodeToString(dec[i:i+16])] = hex.EncodeToString(out)
			}
		}
	}
	b.view = v
	return b
}

type statusWriter struct {
	http.ResponseWriter
	status int
}

func (w *statusWriter) WriteHeader(code int) {
	if w.status == 0 {
		w.status = code
	}
	w.ResponseWriter.WriteHeader(code)
}

func (w *statusWriter) Write(p []byte) (int, error) {
	if w.status == 0 {
		w.status = http.StatusOK
	}
	return w.ResponseWriter.Write(p)
}

func (w *statusWriter) Flush() {
	if f, ok := w.ResponseWriter.(http.Flusher); ok {
		f.Flush()
	}
}

// ctxClaimsOk: the request context holds exactly the non-registered, non-null claims of the token (none at all
// on a route without the JWT option), as the harness's own classification of the token reads them
func ctxClaimsOk(r *http.Request, jv *JView, hasJwt bool, others ...string) bool {
	if jv == nil {
		jv = &JView{}
	}
	// nothing of ANOTHER request's token may be there
	for _, k := range others {
		if _, own := jv.Claims[k]; !own && r.Context().Value(k) != nil {
			return false
		}
	}
	for k, want := range jv.Claims {
		got := r.Context().Value(k)
		std := false
		for _, s := range stdClaims {
			std = std || s == k
		}
		if !hasJwt || std || want == "null" {
			if got != nil {
				return false
			}
			continue
		}
		if got == nil || canon(got) != want {
			return false
		}
	}
	return true
}

func runSrv(c Case) *SrvObs {
	so := &SrvObs{}
	cur := &srvCur{}
	var secrets []string
	for _, g := range c.SGroups {
		if g.Jwt != nil {
			secrets = append(secrets, g.Jwt.Secret)
			if g.Jwt.Prev != "" {
				secrets = append(secrets, g.Jwt.Prev)
			}
		}
	}
	// a first observation slot for anything that happens while binding
	cur.o, cur.q = &SReqObs{}, &CSReq{}
	cur.slots = map[string]*srvSlot{}
	h := buildSrv(c, cur, so)
	var builts []built
	obs := make([]*SReqObs, len(c.SReqs))
	prep := func(i int, n0 int64) *http.Request {
		sq := &c.SReqs[i]
		o := &SReqObs{UErr: 0, UsCode: -1, OuterSt: -1, CtxOk: true}
		if !c.UaCb {
			o.UErr = -9
		}
		obs[i] = o
		b := buildCSReq(sq.CS, nil, n0)
		if sq.Reuse != nil && *sq.Reuse < len(builts) {
			b = reuseHeader(b, builts[*sq.Reuse], sq.CS, n0)
		}
		builts = append(builts, b)
		if b.gzBad {
			o.Panic = "codec.RsaEncrypter failed or panicked on an ordinary secret"
		}
		o.View = b.view
		r := b.requestFor(sq.CS)
		idx := strconv.Itoa(i)
		r.Header.Set("X-Verif-Idx", idx)
		if sq.J != nil {
			jq := *sq.J
			jnow := jq.Now
			jwt.TimeFunc = func() time.Time { return time.Unix(jnow, 0) }
			vals, present := authValues(jq)
			first := ""
			if present {
				first = vals[0]
			}
			setAuth(r, vals)
			jv := classify(first, present, "", "", secrets...)
			o.JView = &jv
		}
		cur.mu.Lock()
		cur.slots[idx] = &srvSlot{o: o, q: &sq.CS, sq: sq}
		cur.mu.Unlock()
		return r
	}
	finish := func(i int, rec *httptest.ResponseRecorder, p string, n0 int64) {
		o := obs[i]
		o.Unstable = time.Now().Unix() != n0
		if p != "" {
			o.Panic = p
		}
		o.Status, o.RespRaw = rec.Code, hex.EncodeToString(rec.Body.Bytes())
		if dec, err := base64.StdEncoding.DecodeString(string(rec.Body.Bytes())); err == nil {
			sd := hex.EncodeToString(dec)
			o.RespDec = &sd
		}
	}
	early := func() int64 {
		// content security reads time.Now(): start early in a wall-clock second, check afterwards
		if ns := time.Now().Nanosecond(); ns > 750_000_000 {
			time.Sleep(time.Duration(1_000_000_000-ns) + time.Millisecond)
		}
		return time.Now().Unix()
	}
	if c.Parallel {
		// ALL requests at once through the one server: every handler that is reached reads part of its body and is
		// held until every other request has been answered or has reached its handler too; only then do they go on
		n0 := early()
		reqs := make([]*http.Request, len(c.SReqs))
		for i := range c.SReqs {
			reqs[i] = prep(i, n0) // one JWT clock for all: the generator gives every token of the case the same "now"
		}
		cur.arrived = make(chan struct{}, len(reqs))
		cur.release = make(chan struct{})
		var wg sync.WaitGroup
		for i := range reqs {
			wg.Add(1)
			go func(i int) {
				defer wg.Done()
				rec, p := serve(h, reqs[i])
				if !obs[i].Ran {
					cur.arrived <- struct{}{}
				}
				finish(i, rec, p, n0)
			}(i)
		}
		go func() {
			for range reqs {
				select {
				case <-cur.arrived:
				case <-time.After(10 * time.Second):
				}
			}
			close(cur.release)
		}()
		wg.Wait()
	} else {
		for i := range c.SReqs {
			n0 := early()
			r := prep(i, n0)
			rec, p := serve(h, r)
			finish(i, rec, p, n0)
		}
	}
	for _, o := range obs {
		so.Reqs = append(so.Reqs, *o)
	}
	jwt.TimeFunc = time.Now
	return so
}

// ---------------------------------------------------------------------------
// big: the cryption round trip for payload SIZES across block / base64-group / buffer boundaries, in both
// directions, judged end to end by an independent client written here with the standard library only.

func expand(seed uint64, n int) []byte {
	b := make([]byte, n)
	x := seed*2862933555777941757 + 3037000493
	for i := range b {
		x ^= x << 13
		x ^= x >> 7
		x ^= x << 17
		b[i] = byte(x >> 24)
	}
	return b
}

func strictUnpad(pt []byte) ([]byte, bool) {
	if len(pt) == 0 || len(pt)%16 != 0 {
		return nil, false
	}
	n := int(pt[len(pt)-1])
	if n < 1 || n > 16 {
		return nil, false
	}
	for i := 0; i < n; i++ {
		if pt[len(pt)-1-i] != byte(n) {
			return nil, false
		}
	}
	return pt[:len(pt)-n], true
}

func runBig(c Case) *BigObs {
	g := c.Big
	o := &BigObs{}
	key := expand(g.Seed+1, g.KeyLen)
	plain := expand(g.Seed+2, g.ReqLen)
	resp := expand(g.Seed+3, g.RespLen)
	ct, ok := ownEcb(key, ownPad(plain), true)
	if !ok {
		o.Panic = "harness: bad key length"
		return o
	}
	wire := []byte(base64.StdEncoding.EncodeToString(ct))
	o.WireLen = len(wire)
	route := http.HandlerFunc(func(w http.ResponseWriter, r *http.Request) {
		o.Ran = true
		b, _ := io.ReadAll(r.Body)
		o.SeenLen, o.SeenOk = len(b), bytes.Equal(b, plain)
		w.WriteHeader(http.StatusOK)
		if g.Piece <= 0 {
			if len(resp) > 0 {
				w.Write(resp)
			}
			return
		}
		for i := 0; i < len(resp); i += g.Piece {
			j := i + g.Piece
			if j > len(resp) {
				j = len(resp)
			}
			w.Write(resp[i:j])
			if g.Flush {
				if f, ok := w.(http.Flusher); ok {
					f.Flush()
				}
			}
		}
	})
	var body io.Reader = bytes.NewReader(wire)
	if g.Chunked {
		body = hideLen{body}
	}
	r := httptest.NewRequest(http.MethodPost, "http://localhost/big?x=1", body)
	var h http.Handler
	if g.Via == "cs" {
		now := time.Now().Unix()
		ts := strconv.FormatInt(now, 10)
		secretPlain := "key=" + base64.StdEncoding.EncodeToString(key) + "; time=" + ts + "; type=1"
		secret := base64.StdEncoding.EncodeToString(ownRsaEnc(&rsaKeys["A"].priv.PublicKey, []byte(secretPlain)))
		sig := hmacB64(key, strings.Join([]string{ts, http.MethodPost, "/big", "x=1", shaHex(wire)}, "\n"))
		r.Header.Set("X-Content-Security", "key=A; secret="+secret+"; signature="+sig)
		h = handler.LimitContentSecurityHandler(g.Limit, map[string]codec.RsaDecrypter{"A": rsaKeys["A"].dec}, 30*time.Second, true)(route)
	} else {
		h = handler.LimitCryptionHandler(g.Limit, key)(route)
	}
	rec, p := serve(h, r)
	o.Status, o.Panic = rec.Code, p
	out := rec.Body.Bytes()
	o.RespLen = len(out)
	// the client: ONE base64 document, AES-ECB, strict PKCS#7
	switch {
	case len(resp) == 0:
		o.RespOk = len(out) == 0
		if !o.RespOk {
			o.RespWhy = "a body for an empty response"
		}
	default:
		dec, err := base64.StdEncoding.Strict().DecodeString(string(out))
		if err != nil {
			o.RespWhy = "base64: " + err.Error()
			break
		}
		pt, ok := ownEcb(key, dec, false)
		if !ok || len(dec)%16 != 0 {
			o.RespWhy = "ciphertext is not a whole number of blocks"
			break
		}
		back, ok := strictUnpad(pt)
		if !ok {
			o.RespWhy = "padding"
			break
		}
		o.RespOk = bytes.Equal(back, resp)
		if !o.RespOk {
			o.RespWhy = fmt.Sprintf("decrypts to %d bytes that are not the %d bytes written", len(back), len(resp))
		}
	}
	return o
}

func runHdr(c Case) []HObs {
	var res []HObs
	for _, h := range c.Hdrs {
		raw := latin(h)
		o := HObs{Raw: hex.EncodeToString(raw), Attrs: map[string]string{}}
		for k, v := range httpx.ParseHeader(string(raw)) {
			o.Attrs[hex.EncodeToString([]byte(k))] = hex.EncodeToString([]byte(v))
		}
		res = append(res, o)
	}
	return res
}

func runCS(c Case) *CSObs {
	q := c.Req
	o := &CSObs{Code: -1}
	decs := map[string]codec.RsaDecrypter{}
	for _, k := range c.Keys {
		decs[k] = rsaKeys[k].dec
	}
	limit := c.Limit
	if limit == 0 {
		limit = 1 << 20
	}
	tol := time.Duration(c.Tol)*time.Second + time.Duration(c.TolMs)*time.Millisecond
	ranp := &o.Ran
	hijackOdd := false
	route := http.HandlerFunc(func(w http.ResponseWriter, r *http.Request) {
		*ranp = true
		b, _ := io.ReadAll(r.Body)
		o.Seen = hex.EncodeToString(b)
		w.Header().Set("X-Out", "1")
		w.WriteHeader(http.StatusOK)
		if q.Resp != "" {
			w.Write(latin(q.Resp))
		}
		if q.Flush {
			// through whatever writer the gate handed us (the cryption writer buffers the body)
			if f, ok := w.(http.Flusher); ok {
				f.Flush()
			}
			if hj, ok := w.(http.Hijacker); ok {
				// the recorder underneath cannot be hijacked: an error, not a panic, not a connection
				if conn, _, err := hj.Hijack(); err == nil || conn != nil {
					hijackOdd = true
				}
			}
		}
	})
	mk := func(cbs ...handler.UnsignedCallback) http.Handler {
		var h http.Handler
		if c.Kind == "eng" {
			return buildEngine(c, route, o)
		} else if c.Kind == "crypt" {
			if c.Wrap && c.Limit == 0 {
				h = handler.CryptionHandler(latin(q.AesKey))(route)
			} else {
				h = handler.LimitCryptionHandler(limit, latin(q.AesKey))(route)
			}
		} else if c.Wrap && c.Limit == 0 {
			h = handler.ContentSecurityHandler(decs, tol, c.Strict, cbs...)(route)
		} else {
			h = handler.LimitContentSecurityHandler(limit, decs, tol, c.Strict, cbs...)(route)
		}
		if c.WithJwt {
			inner := h
			h = jwtGate(c.Secret, c.Prev)(http.HandlerFunc(func(w http.ResponseWriter, r *http.Request) {
				o.JwtRan = true
				inner.ServeHTTP(w, r)
			}))
		}
		return h
	}
	var b built
	for attempt := 0; attempt < 6; attempt++ {
		*ranp, o.Seen, o.JwtRan, o.Ran2, o.Code = false, "", false, false, -1
		o.RanRoute, o.UaCalled, o.MwRan = "", false, false
		ranp = &o.Ran
		n0 := time.Now().Unix()
		b = buildCS(c, n0)
		r := b.request(c)
		if (c.WithJwt || c.Kind == "eng") && len(c.Reqs) > 0 {
			jq := c.Reqs[0]
			jnow := jq.Now
			jwt.TimeFunc = func() time.Time { return time.Unix(jnow, 0) }
			vals, present := authValues(jq)
			first := ""
			if present {
				first = vals[0]
			}
			setAuth(r, vals)
			jv := classify(first, present, c.Secret, c.Prev)
			o.JwtView = &jv
		}
		rec, p := serve(mk(), r)
		o.Status, o.Panic, o.RespRaw = rec.Code, p, hex.EncodeToString(rec.Body.Bytes())
		o.HdrOut = rec.Header().Get("X-Out") == "1"
		// second run with a recording callback: which failure code the gate reports
		if c.Kind == "cs" && !c.WithJwt {
			seen := o.Seen
			ranp = &o.Ran2
			cb := func(w http.ResponseWriter, r *http.Request, next http.Handler, strict bool, cd int) {
				o.Code = cd
				if strict {
					w.WriteHeader(http.StatusForbidden)
				} else {
					next.ServeHTTP(w, r)
				}
			}
			serve(mk(cb), b.request(c)) // the very same bytes (the RSA encryption is randomised)
			o.Seen = seen
			ranp = &o.Ran
		}
		if time.Now().Unix() == n0 {
			break
		}
	}
	jwt.TimeFunc = time.Now
	rawResp, _ := hex.DecodeString(o.RespRaw)
	if dec, err := base64.StdEncoding.DecodeString(string(rawResp)); err == nil {
		s := hex.EncodeToString(dec)
		o.RespDec = &s
	}
	o.View = b.view
	if o.RespDec != nil {
		raw, _ := hex.DecodeString(*o.RespDec)
		uk, _ := hex.DecodeString(b.view.Key)
		if pt, ok := ownEcb(uk, raw, false); ok && len(raw) > 0 && len(raw)%16 == 0 {
			n := int(pt[len(pt)-1])
			good := n >= 1 && n <= 16
			for i := 0; good && i < n; i++ {
				good = pt[len(pt)-1-i] == byte(n)
			}
			if good {
				s := hex.EncodeToString(pt[:len(pt)-n])
				o.RespPlain = &s
			}
		}
	}
	// codec level, directly
	key := latin(q.AesKey)
	plain := latin(q.Body)
	enc, err := codec.EcbEncrypt(key, plain)
	if err == nil {
		o.CodecEnc = hex.EncodeToString(enc)
		o.CodecDec = guarded(func() ([]byte, error) { return codec.EcbDecrypt(key, enc) })
	} else {
		o.CodecEnc, o.CodecDec = "err", "err"
	}
	if o.View.B64 != nil {
		raw, _ := hex.DecodeString(*o.View.B64)
		o.RawDec = guarded(func() ([]byte, error) { return codec.EcbDecrypt(key, raw) })
	}
	o.CodecX = codecExtras(key, plain, enc, err == nil)
	if hijackOdd {
		o.CodecX += " hijack"
	}
	if b.gzBad {
		// the stock client helper could not encrypt an ordinary secret: judged with the other codec entry points
		o.CodecX = strings.TrimSpace(o.CodecX + " RsaEncrypter")
	}
	return o
}

// codecExtras: the remaining exported entry points of core/codec/aesecb.go must be the same
// functions as EcbEncrypt / EcbDecrypt (base64 wrappers) and must leave dst alone on bad sizes.
func codecExtras(key, plain, enc []byte, encOk bool) (diff string) {
	defer func() {
		if p := recover(); p != nil {
			diff += " panic:" + fmt.Sprint(p)
		}
	}()
	b64 := base64.StdEncoding
	// getKeyBytes: up to 32 characters the key string is the key itself, longer ones are base64
	keyStrs := []string{string(key)}
	if len(key) > 24 {
		keyStrs = append(keyStrs, b64.EncodeToString(key))
	}
	for _, ks := range keyStrs {
		if len(string(key)) > 32 && ks == string(key) {
			continue // a raw key string longer than 32 bytes would be read as base64
		}
		got, err := codec.EcbEncryptBase64(ks, b64.EncodeToString(plain))
		if (err == nil) != encOk || (encOk && got != b64.EncodeToString(enc)) {
			diff += " EcbEncryptBase64"
		}
		if encOk {
			back, err := codec.EcbDecryptBase64(ks, b64.EncodeToString(enc))
			if err != nil || back != b64.EncodeToString(plain) {
				diff += " EcbDecryptBase64"
			}
		}
	}
	if _, err := codec.EcbEncryptBase64(string(key), "@@not base64@@"); err == nil {
		diff += " EcbEncryptBase64-accepts-garbage"
	}
	if _, err := codec.EcbDecryptBase64(string(key), "@@not base64@@"); err == nil {
		diff += " EcbDecryptBase64-accepts-garbage"
	}
	if _, err := codec.EcbDecryptBase64(strings.Repeat("@", 40), "AAAA"); err == nil {
		diff += " getKeyBytes-accepts-garbage"
	}
	if encOk {
		// well-formed base64 of something that is not a ciphertext: an error or some bytes, never a panic
		codec.EcbDecryptBase64(string(key), b64.EncodeToString(bytes.Repeat([]byte{0xFF}, 16)))
		codec.EcbDecryptBase64(string(key), b64.EncodeToString([]byte("short")))
	}
	if blk, err := aes.NewCipher(key); err == nil {
		e, d := codec.NewECBEncrypter(blk), codec.NewECBDecrypter(blk)
		if e.BlockSize() != 16 || d.BlockSize() != 16 {
			diff += " BlockSize"
		}
		src := ownPad(plain)
		for _, mode := range []cipher.BlockMode{e, d} {
			// input that is not a whole number of blocks, or an output buffer that is too short:
			// reported (logged), dst untouched
			dst := bytes.Repeat([]byte{0xEE}, len(src)+3)
			mode.CryptBlocks(dst, append(append([]byte{}, src...), 1, 2, 3))
			short := bytes.Repeat([]byte{0xEE}, len(src)-1)
			mode.CryptBlocks(short, src)
			if !bytes.Equal(dst, bytes.Repeat([]byte{0xEE}, len(src)+3)) || !bytes.Equal(short, bytes.Repeat([]byte{0xEE}, len(src)-1)) {
				diff += " CryptBlocks-bad-size"
			}
		}
		// and block by block they are AES
		want, _ := ownEcb(key, src, true)
		got := make([]byte, len(src))
		e.CryptBlocks(got, src)
		back := make([]byte, len(src))
		d.CryptBlocks(back, got)
		if !bytes.Equal(got, want) || !bytes.Equal(back, src) {
			diff += " CryptBlocks"
		}
	}
	return strings.TrimSpace(diff)
}

func main() {
	logx.Disable()
	var cases []Case
	hx.ReadCases(&cases)
	dir, err := os.MkdirTemp("", "c18keys")
	if err != nil {
		hx.Fatal("tmp: %v", err)
	}
	defer os.RemoveAll(dir)
	setupKeys(dir)
	w := hx.NewWriter()
	defer w.Close()
	for _, c := range cases {
		out := Out{ID: c.ID}
		switch c.Kind {
		case "jwt":
			out.Jwt = runJwt(c)
		case "cs", "crypt", "eng":
			out.CS = runCS(c)
		case "tp":
			out.Tp = runTp(c)
		case "srv":
			out.Srv = runSrv(c)
		case "big":
			out.Big = runBig(c)
		case "hdr":
			out.Hdr = runHdr(c)
		default:
			out.Err = "unknown kind " + c.Kind
		}
		w.Put(out)
	}
}
