// Executor for C18: drives go-zero's authentication gates through httptest and
// reports, per request, (1) what the implementation did (handler ran?, status,
// context claims, body seen, response) and (2) an independent "view" of the
// credential the harness sent, recomputed with Go's own crypto (crypto/hmac,
// crypto/rsa, crypto/aes, crypto/sha256, encoding/base64) and never with go-zero's
// code: that view is the abstract data (mac / rsa / block-cipher tables) the Coq
// model is evaluated on.
//
// The middlewares are composed exactly as rest/engine.go does (appendAuthHandler:
// Authorize, then the signature verifier LimitContentSecurityHandler, then the
// route handler).
package main

import (
	"bytes"
	"crypto/aes"
	"crypto/hmac"
	"crypto/rand"
	"crypto/rsa"
	"crypto/sha256"
	"crypto/sha512"
	"crypto/x509"
	"encoding/base64"
	"encoding/hex"
	"encoding/json"
	"encoding/pem"
	"fmt"
	"hash"
	"io"
	"net/http"
	"net/http/httptest"
	"net/url"
	"os"
	"path/filepath"
	"strconv"
	"strings"
	"time"

	"github.com/golang-jwt/jwt/v4"
	"github.com/zeromicro/go-zero/core/codec"
	"github.com/zeromicro/go-zero/core/conf"
	"github.com/zeromicro/go-zero/core/logx"
	"github.com/zeromicro/go-zero/rest"
	"github.com/zeromicro/go-zero/rest/handler"
	"github.com/zeromicro/go-zero/rest/httpx"
	"github.com/zeromicro/go-zero/rest/router"
	"verifh/hx"
)

// ---------------------------------------------------------------------------
// case format

type Mut struct {
	Op string `json:"op"`
	S  string `json:"s"`
	I  int    `json:"i"`
}

type JReq struct {
	Now     int64  `json:"now"`
	Auth    string `json:"auth"`    // bearer | lower | upper | noprefix | missing | basic | empty
	Header  string `json:"header"`  // raw JSON text of the JOSE header
	Payload string `json:"payload"` // raw JSON text of the claims
	SignKey string `json:"signkey"`
	SignAlg string `json:"signalg"` // HS256 | HS384 | HS512 | none | garbage
	Mut     []Mut  `json:"mut"`
}

type CSReq struct {
	Method   string  `json:"method"`
	Path     string  `json:"path"`
	Query    string  `json:"query"`
	Body     string  `json:"body"`    // plaintext body (latin-1 string of bytes)
	Enc      bool    `json:"enc"`     // send AES-ECB encrypted, base64
	Chunked  bool    `json:"chunked"` // hide the length (ContentLength = -1)
	AesKey   string  `json:"aeskey"`  // key placed in the secret (bytes as latin-1)
	Fp       string  `json:"fp"`      // fingerprint sent
	Rsa      string  `json:"rsa"`     // public key the secret is encrypted to: A | B | garbage
	Toff     int64   `json:"toff"`    // timestamp = now + toff
	TsRaw    *string `json:"tsraw"`   // timestamp text override
	CType    string  `json:"ctype"`   // "" -> "1" if enc else "0"
	KeyB64   *string `json:"keyb64"`  // override of the base64 key text inside the secret
	Hdr      string  `json:"hdr"`     // normal | missing | nofp | nosecret | nosig
	SigMut   string  `json:"sigmut"`  // "" | flip | trunc | other
	Xuri     *string `json:"xuri"`    // X-Request-Uri header
	Resp     string  `json:"resp"`    // what the route handler writes
	SMethod  *string `json:"smethod"` // what the client signed, when different from what is sent
	SPath    *string `json:"spath"`
	SQuery   *string `json:"squery"`
	SBody    *string `json:"sbody"` // signed over this *wire* body instead of the one sent
	SToff    *int64  `json:"stoff"`
	SKey     *string `json:"skey"`
	BodyRaw  *string `json:"bodyraw"`  // wire body override (after signing unless sbody given)
	HdrFmt   string  `json:"hdrfmt"`   // "" | nospace | spaces | trailing | dupsig_good_last | dupsig_bad_last | upper | junk
	CipherOp string  `json:"cipherop"` // "" | trunc | lastbyte | wrongkey : applied to the ciphertext before base64
}

type Case struct {
	ID   int    `json:"id"`
	Kind string `json:"kind"` // jwt | cs | crypt
	// jwt
	Secret string `json:"secret"`
	Prev   string `json:"prev"`
	Reqs   []JReq `json:"reqs"`
	// cs
	Strict bool     `json:"strict"`
	Tol    int64    `json:"tol"`
	Keys   []string `json:"keys"` // configured fingerprints (subset of A, B)
	// cs + crypt
	Req   CSReq `json:"req"`
	Limit int64 `json:"limit"`
	// cs: also put the JWT gate in front (as engine.go does), token per Reqs[0]
	WithJwt bool `json:"withjwt"`
	// eng: a real rest.Server; route groups with their options; the request goes to Groups[Target[0]].Routes[Target[1]]
	Groups []Group `json:"groups"`
	Target [2]int  `json:"target"`
	UaCb   bool    `json:"uacb"`
	UsCb   bool    `json:"uscb"`
	// hdr: raw header values for httpx.ParseHeader
	Hdrs []string `json:"hdrs"`
}

type Group struct {
	Jwt    bool        `json:"jwt"`
	Sig    bool        `json:"sig"`
	Prefix string      `json:"prefix"`
	Routes [][2]string `json:"routes"` // method, path
}

// ---------------------------------------------------------------------------
// observations

type JView struct {
	Cred    string            `json:"cred"` // missing | malformed | token
	Alg     string            `json:"alg"`  // HS256 | HS384 | HS512 | none | asym | unknown
	Input   string            `json:"input"`
	Sig     *string           `json:"sig"`     // hex of the decoded signature segment, nil if undecodable
	TagCur  string            `json:"tagcur"`  // hex HMAC_alg(secret, input) ("" if alg not HS*)
	TagPrev string            `json:"tagprev"` // hex HMAC_alg(prev, input)
	Claims  map[string]string `json:"claims"`  // key -> canonical JSON of the value
}

type JObs struct {
	Ran    bool              `json:"ran"`
	Status int               `json:"status"`
	Ctx    map[string]string `json:"ctx"`
	Panic  string            `json:"panic,omitempty"`
	View   JView             `json:"view"`
}

type CSView struct {
	Now       int64             `json:"now"`
	HasFp     bool              `json:"hasfp"`
	HasSecret bool              `json:"hassecret"`
	HasSig    bool              `json:"hassig"`
	FpKnown   bool              `json:"fpknown"`
	SecOk     bool              `json:"secok"` // RSA-decrypts under the key of that fingerprint
	KeyOk     bool              `json:"keyok"` // base64 key decodes
	Key       string            `json:"key"`   // hex
	TsStr     string            `json:"tsstr"`
	TsVal     *int64            `json:"tsval"`
	CType     *int64            `json:"ctype"`
	Sig       string            `json:"sig"`
	ContentLn int64             `json:"contentlen"`
	Digest    string            `json:"digest"`
	Path      string            `json:"path"`
	Query     string            `json:"query"`
	XPath     *string           `json:"xpath"`
	XQuery    *string           `json:"xquery"`
	TagUrl    string            `json:"tagurl"`  // base64 HMAC over (ts, method, URL path, URL query, digest)
	TagXuri   string            `json:"tagxuri"` // the same with the X-Request-Uri path/query
	Wire      string            `json:"wire"`    // hex of the body sent
	B64       *string           `json:"b64"`     // hex of base64-decoded wire body (nil = not base64)
	AesOk     bool              `json:"aesok"`
	DTab      map[string]string `json:"dtab"` // AES^-1 on every full block of B64
	ETab      map[string]string `json:"etab"` // AES on every block of the padded response
}

type CSObs struct {
	Ran       bool    `json:"ran"`
	Status    int     `json:"status"`
	Code      int     `json:"code"` // code passed to the unsigned callback (second run), -1 none
	Seen      string  `json:"seen"` // hex of the body the route handler read
	RespRaw   string  `json:"respraw"`
	RespDec   *string `json:"respdec"`   // hex of base64-decoded response body
	RespPlain *string `json:"respplain"` // hex of the response decrypted with the harness' own AES-ECB + strict PKCS#7
	Panic     string  `json:"panic,omitempty"`
	Ran2      bool    `json:"ran2"`
	JwtRan    bool    `json:"jwtran"`
	RanRoute  string  `json:"ranroute"`
	UaCalled  bool    `json:"uacalled"`
	EngErr    string  `json:"engerr,omitempty"`
	JwtView   *JView  `json:"jwtview,omitempty"`
	View      CSView  `json:"view"`
	CodecEnc  string  `json:"codecenc"` // hex EcbEncrypt(key, body)
	CodecDec  string  `json:"codecdec"` // ok:<hex> | err | panic   of EcbDecrypt(key, EcbEncrypt(key, body))
	RawDec    string  `json:"rawdec"`   // ok:<hex> | err | panic   of EcbDecrypt(key, B64)
}

type HObs struct {
	Raw   string            `json:"raw"`   // hex
	Attrs map[string]string `json:"attrs"` // hex -> hex
}

type Out struct {
	Hdr []HObs `json:"hdr,omitempty"`
	ID  int    `json:"id"`
	Jwt []JObs `json:"jwt,omitempty"`
	CS  *CSObs `json:"cs,omitempty"`
	Err string `json:"err,omitempty"`
}

// ---------------------------------------------------------------------------
// JWT

var b64u = base64.RawURLEncoding

func hmacOf(alg string) func() hash.Hash {
	switch alg {
	case "HS256":
		return sha256.New
	case "HS384":
		return sha512.New384
	case "HS512":
		return sha512.New
	}
	return nil
}

func macHex(alg, key, input string) string {
	h := hmacOf(alg)
	if h == nil {
		return ""
	}
	m := hmac.New(h, []byte(key))
	m.Write([]byte(input))
	return hex.EncodeToString(m.Sum(nil))
}

func buildToken(q JReq) string {
	seg0 := b64u.EncodeToString([]byte(q.Header))
	seg1 := b64u.EncodeToString([]byte(q.Payload))
	input := seg0 + "." + seg1
	var sig []byte
	switch q.SignAlg {
	case "HS256", "HS384", "HS512":
		sig, _ = hex.DecodeString(macHex(q.SignAlg, q.SignKey, input))
	case "garbage":
		s := sha256.Sum256([]byte("garbage" + input))
		sig = s[:]
	}
	seg2 := b64u.EncodeToString(sig)
	tok := ""
	extra := ""
	drop := false
	for _, m := range q.Mut {
		switch m.Op {
		case "hdr":
			seg0 = b64u.EncodeToString([]byte(m.S))
		case "pay":
			seg1 = b64u.EncodeToString([]byte(m.S))
		case "sigflip":
			b, _ := b64u.DecodeString(seg2)
			if len(b) > 0 {
				b[(m.I/8)%len(b)] ^= 1 << uint(m.I%8)
			}
			seg2 = b64u.EncodeToString(b)
		case "sigempty":
			seg2 = ""
		case "sigtrunc":
			b, _ := b64u.DecodeString(seg2)
			if m.I < len(b) {
				b = b[:m.I]
			}
			seg2 = b64u.EncodeToString(b)
		case "sigext":
			b, _ := b64u.DecodeString(seg2)
			b = append(b, []byte(m.S)...)
			seg2 = b64u.EncodeToString(b)
		case "siglast":
			// same bytes, different text: set the unused trailing bits of the last character
			const abc = "ABCDEFGHIJKLMNOPQRSTUVWXYZabcdefghijklmnopqrstuvwxyz0123456789-_"
			if n := len(seg2); n > 0 && n%4 != 0 {
				ix := strings.IndexByte(abc, seg2[n-1])
				if ix >= 0 {
					seg2 = seg2[:n-1] + string(abc[ix|1])
				}
			}
		case "rawseg":
			switch m.I {
			case 0:
				seg0 = m.S
			case 1:
				seg1 = m.S
			default:
				seg2 = m.S
			}
		case "addseg":
			extra = "." + m.S
		case "dropseg":
			drop = true
		case "rawtoken":
			tok = m.S
		}
	}
	if tok != "" {
		return tok
	}
	if drop {
		return seg0 + "." + seg1
	}
	return seg0 + "." + seg1 + "." + seg2 + extra
}

func authHeader(q JReq, tok string) (string, bool) {
	switch q.Auth {
	case "missing":
		return "", false
	case "empty":
		return "", true
	case "lower":
		return "bearer " + tok, true
	case "upper":
		return "BEARER " + tok, true
	case "noprefix":
		return tok, true
	case "basic":
		return "Basic " + tok, true
	}
	return "Bearer " + tok, true
}

func canon(v any) string {
	b, err := json.Marshal(v)
	if err != nil {
		return "!" + err.Error()
	}
	return string(b)
}

var asymAlgs = map[string]bool{"RS256": true, "RS384": true, "RS512": true, "PS256": true, "PS384": true,
	"PS512": true, "ES256": true, "ES384": true, "ES512": true, "EdDSA": true}

// classify is the harness's own reading of the credential it is about to send.
func classify(hdr string, present bool, secret, prev string) JView {
	v := JView{Cred: "missing", Claims: map[string]string{}}
	if !present || hdr == "" {
		return v
	}
	tok := hdr
	if len(tok) > 6 && strings.EqualFold(tok[:7], "bearer ") {
		tok = tok[7:]
	}
	v.Cred = "malformed"
	parts := strings.Split(tok, ".")
	if len(parts) != 3 {
		return v
	}
	hb, err := b64u.DecodeString(parts[0])
	if err != nil {
		return v
	}
	var h map[string]any
	if json.Unmarshal(hb, &h) != nil {
		return v
	}
	pb, err := b64u.DecodeString(parts[1])
	if err != nil {
		return v
	}
	var claims map[string]any
	dec := json.NewDecoder(bytes.NewReader(pb))
	dec.UseNumber()
	if dec.Decode(&claims) != nil {
		return v
	}
	v.Cred = "token"
	for k, x := range claims {
		v.Claims[k] = canon(x)
	}
	alg, ok := h["alg"].(string)
	switch {
	case !ok:
		v.Alg = "unknown"
	case alg == "HS256" || alg == "HS384" || alg == "HS512" || alg == "none":
		v.Alg = alg
	case asymAlgs[alg]:
		v.Alg = "asym"
	default:
		v.Alg = "unknown"
	}
	v.Input = parts[0] + "." + parts[1]
	if sb, err := b64u.DecodeString(parts[2]); err == nil {
		s := hex.EncodeToString(sb)
		v.Sig = &s
	}
	v.TagCur = macHex(v.Alg, secret, v.Input)
	v.TagPrev = macHex(v.Alg, prev, v.Input)
	return v
}

var stdClaims = []string{"aud", "exp", "jti", "iat", "iss", "nbf", "sub"}

func jwtGate(secret, prev string) func(http.Handler) http.Handler {
	// exactly as engine.appendAuthHandler
	if len(prev) == 0 {
		return handler.Authorize(secret, handler.WithUnauthorizedCallback(nil))
	}
	return handler.Authorize(secret, handler.WithPrevSecret(prev), handler.WithUnauthorizedCallback(nil))
}

func serve(h http.Handler, r *http.Request) (rec *httptest.ResponseRecorder, pmsg string) {
	rec = httptest.NewRecorder()
	defer func() {
		if p := recover(); p != nil {
			pmsg = fmt.Sprint(p)
		}
	}()
	h.ServeHTTP(rec, r)
	return
}

func runJwt(c Case) []JObs {
	gate := jwtGate(c.Secret, c.Prev)
	var cur *JObs
	var keys []string
	h := gate(http.HandlerFunc(func(w http.ResponseWriter, r *http.Request) {
		cur.Ran = true
		for _, k := range keys {
			if x := r.Context().Value(k); x != nil {
				cur.Ctx[k] = canon(x)
			}
		}
		w.WriteHeader(http.StatusOK)
		io.WriteString(w, "ok")
	}))
	var res []JObs
	for _, q := range c.Reqs {
		now := q.Now
		jwt.TimeFunc = func() time.Time { return time.Unix(now, 0) }
		o := JObs{Ctx: map[string]string{}}
		cur = &o
		hdr, present := authHeader(q, buildToken(q))
		o.View = classify(hdr, present, c.Secret, c.Prev)
		keys = append([]string{}, stdClaims...)
		for k := range o.View.Claims {
			keys = append(keys, k)
		}
		r := httptest.NewRequest(http.MethodGet, "http://localhost/private", nil)
		if present {
			r.Header.Set("Authorization", hdr)
		}
		rec, p := serve(h, r)
		o.Status = rec.Code
		o.Panic = p
		res = append(res, o)
	}
	jwt.TimeFunc = time.Now
	return res
}

// ---------------------------------------------------------------------------
// content security + cryption

type rsaKey struct {
	priv *rsa.PrivateKey
	file string
	dec  codec.RsaDecrypter
}

var rsaKeys = map[string]*rsaKey{}

func setupKeys(dir string) {
	for _, name := range []string{"A", "B"} {
		k, err := rsa.GenerateKey(rand.Reader, 1024)
		if err != nil {
			hx.Fatal("rsa: %v", err)
		}
		file := filepath.Join(dir, name+".pem")
		data := pem.EncodeToMemory(&pem.Block{Type: "RSA PRIVATE KEY", Bytes: x509.MarshalPKCS1PrivateKey(k)})
		if err := os.WriteFile(file, data, 0o600); err != nil {
			hx.Fatal("write key: %v", err)
		}
		dec, err := codec.NewRsaDecrypter(file) // as engine.signatureVerifier
		if err != nil {
			hx.Fatal("decrypter: %v", err)
		}
		rsaKeys[name] = &rsaKey{priv: k, file: file, dec: dec}
	}
}

func latin(s string) []byte {
	// JSON strings carry bytes as code points 0..255
	b := make([]byte, 0, len(s))
	for _, r := range s {
		b = append(b, byte(r))
	}
	return b
}

func ownPad(p []byte) []byte {
	n := 16 - len(p)%16
	return append(append([]byte{}, p...), bytes.Repeat([]byte{byte(n)}, n)...)
}

func ownEcb(key, p []byte, enc bool) ([]byte, bool) {
	blk, err := aes.NewCipher(key)
	if err != nil {
		return nil, false
	}
	out := make([]byte, len(p))
	for i := 0; i+16 <= len(p); i += 16 {
		if enc {
			blk.Encrypt(out[i:i+16], p[i:i+16])
		} else {
			blk.Decrypt(out[i:i+16], p[i:i+16])
		}
	}
	return out, true
}

func hmacB64(key []byte, s string) string {
	m := hmac.New(sha256.New, key)
	m.Write([]byte(s))
	return base64.StdEncoding.EncodeToString(m.Sum(nil))
}

func shaHex(b []byte) string {
	s := sha256.Sum256(b)
	return hex.EncodeToString(s[:])
}

func or(p *string, d string) string {
	if p != nil {
		return *p
	}
	return d
}

func guarded(f func() ([]byte, error)) (res string) {
	defer func() {
		if p := recover(); p != nil {
			res = "panic"
		}
	}()
	b, err := f()
	if err != nil {
		return "err"
	}
	return "ok:" + hex.EncodeToString(b)
}

type hideLen struct{ r io.Reader }

func (h hideLen) Read(p []byte) (int, error) { return h.r.Read(p) }

type built struct {
	wire   []byte
	header string
	hasHdr bool
	view   CSView
}

func buildCS(c Case, now int64) built {
	q := c.Req
	var b built
	aesKey := latin(q.AesKey)
	plain := latin(q.Body)
	// wire body
	wire := plain
	if q.Enc {
		ct, ok := ownEcb(aesKey, ownPad(plain), true)
		if !ok {
			ct = ownPad(plain)
		}
		switch q.CipherOp {
		case "trunc":
			if len(ct) > 3 {
				ct = ct[:len(ct)-3]
			}
		case "lastbyte":
			ct[len(ct)-1] ^= 0x5a
		case "wrongkey":
			k2 := append([]byte{}, aesKey...)
			if len(k2) > 0 {
				k2[0] ^= 1
			}
			if ct2, ok := ownEcb(k2, ownPad(plain), true); ok {
				ct = ct2
			}
		case "dropblock":
			ct = ct[:len(ct)-16]
		}
		wire = []byte(base64.StdEncoding.EncodeToString(ct))
	}
	signedWire := wire
	if q.SBody != nil {
		signedWire = latin(*q.SBody)
	}
	if q.BodyRaw != nil {
		wire = latin(*q.BodyRaw)
		if q.SBody == nil {
			signedWire = wire
		}
	}
	b.wire = wire

	// the secret
	ts := strconv.FormatInt(now+q.Toff, 10)
	if q.TsRaw != nil {
		ts = *q.TsRaw
	}
	ctype := q.CType
	if ctype == "" {
		if q.Enc {
			ctype = "1"
		} else {
			ctype = "0"
		}
	}
	keyText := base64.StdEncoding.EncodeToString(aesKey)
	if q.KeyB64 != nil {
		keyText = *q.KeyB64
	}
	secretPlain := "key=" + keyText + "; time=" + ts + "; type=" + ctype
	var secretField string
	switch q.Rsa {
	case "A", "B":
		ct, err := rsa.EncryptPKCS1v15(rand.Reader, &rsaKeys[q.Rsa].priv.PublicKey, []byte(secretPlain))
		if err != nil {
			hx.Fatal("rsa encrypt: %v", err)
		}
		secretField = base64.StdEncoding.EncodeToString(ct)
	case "notb64":
		secretField = "@@@not-base64@@@"
	default:
		g := sha512.Sum512([]byte(secretPlain))
		secretField = base64.StdEncoding.EncodeToString(append(g[:], g[:]...))
	}

	// what the client signs
	sts := ts
	if q.SToff != nil {
		sts = strconv.FormatInt(now+*q.SToff, 10)
	}
	signKey := aesKey
	if q.SKey != nil {
		signKey = latin(*q.SKey)
	}
	content := strings.Join([]string{sts, or(q.SMethod, q.Method), or(q.SPath, q.Path), or(q.SQuery, q.Query),
		shaHex(signedWire)}, "\n")
	sig := hmacB64(signKey, content)
	switch q.SigMut {
	case "flip":
		raw, _ := base64.StdEncoding.DecodeString(sig)
		raw[3] ^= 0x10
		sig = base64.StdEncoding.EncodeToString(raw)
	case "trunc":
		sig = sig[:20]
	case "other":
		sig = hmacB64([]byte("someone else"), content)
	}

	var fields []string
	if q.Hdr != "nofp" {
		fields = append(fields, "key="+q.Fp)
	}
	if q.Hdr != "nosecret" {
		fields = append(fields, "secret="+secretField)
	}
	if q.Hdr != "nosig" {
		fields = append(fields, "signature="+sig)
	}
	b.header = strings.Join(fields, "; ")
	upper := false
	switch q.HdrFmt {
	case "nospace":
		b.header = strings.Join(fields, ";")
	case "spaces":
		b.header = "  " + strings.Join(fields, " \t;  ") + " \t"
	case "trailing":
		b.header = ";" + strings.Join(fields, "; ") + ";;"
	case "junk":
		b.header = "x; =y; " + strings.Join(fields, "; foo=bar; ") + "; signature"
	case "dupsig_good_last":
		if q.Hdr != "nosig" {
			b.header = "signature=AAAA; " + b.header
		}
	case "dupsig_bad_last":
		b.header = b.header + "; signature=AAAA"
		sig = "AAAA"
	case "upper":
		b.header = strings.NewReplacer("key=", "Key=", "secret=", "Secret=", "signature=", "Signature=").Replace(b.header)
		upper = true
	}
	b.hasHdr = q.Hdr != "missing"

	// ---- independent view -------------------------------------------------
	v := CSView{Now: now, DTab: map[string]string{}, ETab: map[string]string{}}
	if b.hasHdr && !upper {
		v.HasFp = q.Hdr != "nofp" && q.Fp != ""
		v.HasSecret = q.Hdr != "nosecret"
		v.HasSig = q.Hdr != "nosig" || q.HdrFmt == "dupsig_bad_last"
	}
	for _, k := range c.Keys {
		if k == q.Fp {
			v.FpKnown = true
		}
	}
	v.Sig = sig
	v.TsStr = ts
	usedKey := aesKey
	if v.HasSecret && v.FpKnown {
		if raw, err := base64.StdEncoding.DecodeString(secretField); err == nil {
			if pt, err := rsa.DecryptPKCS1v15(rand.Reader, rsaKeys[q.Fp].priv, raw); err == nil && string(pt) == secretPlain {
				v.SecOk = true
			}
		}
	}
	if kb, err := base64.StdEncoding.DecodeString(keyText); err == nil {
		v.KeyOk = true
		usedKey = kb
	}
	v.Key = hex.EncodeToString(usedKey)
	if n, err := strconv.ParseInt(ts, 10, 64); err == nil {
		v.TsVal = &n
	}
	if n, err := strconv.Atoi(ctype); err == nil {
		n64 := int64(n)
		v.CType = &n64
	}
	v.ContentLn = int64(len(wire))
	if q.Chunked || len(wire) == 0 {
		if q.Chunked {
			v.ContentLn = -1
		}
	}
	v.Digest = shaHex(wire)
	v.Path, v.Query = q.Path, q.Query
	v.TagUrl = hmacB64(usedKey, strings.Join([]string{ts, q.Method, q.Path, q.Query, v.Digest}, "\n"))
	if q.Xuri != nil && *q.Xuri != "" {
		if u, err := url.Parse(*q.Xuri); err == nil {
			p, qq := u.Path, u.RawQuery
			v.XPath, v.XQuery = &p, &qq
			v.TagXuri = hmacB64(usedKey, strings.Join([]string{ts, q.Method, p, qq, v.Digest}, "\n"))
		}
	}
	v.Wire = hex.EncodeToString(wire)
	if dec, err := base64.StdEncoding.DecodeString(string(wire)); err == nil {
		s := hex.EncodeToString(dec)
		v.B64 = &s
		if blk, err := aes.NewCipher(usedKey); err == nil {
			for i := 0; i+16 <= len(dec); i += 16 {
				out := make([]byte, 16)
				blk.Decrypt(out, dec[i:i+16])
				v.DTab[hex.EncodeToString(dec[i:i+16])] = hex.EncodeToString(out)
			}
		}
	}
	if blk, err := aes.NewCipher(usedKey); err == nil {
		v.AesOk = true
		for _, msg := range [][]byte{latin(q.Resp), plain} {
			rp := ownPad(msg)
			for i := 0; i+16 <= len(rp); i += 16 {
				out := make([]byte, 16)
				blk.Encrypt(out, rp[i:i+16])
				v.ETab[hex.EncodeToString(rp[i:i+16])] = hex.EncodeToString(out)
				v.DTab[hex.EncodeToString(out)] = hex.EncodeToString(rp[i : i+16])
			}
		}
	}
	b.view = v
	return b
}

func (b built) request(c Case) *http.Request {
	q := c.Req
	target := "http://localhost" + q.Path
	if q.Query != "" {
		target += "?" + q.Query
	}
	var body io.Reader
	if len(b.wire) > 0 || q.Chunked {
		body = bytes.NewReader(b.wire)
		if q.Chunked {
			body = hideLen{body}
		}
	}
	r := httptest.NewRequest(q.Method, target, body)
	if b.hasHdr {
		r.Header.Set("X-Content-Security", b.header)
	}
	if q.Xuri != nil {
		r.Header.Set("X-Request-Uri", *q.Xuri)
	}
	return r
}

// buildEngine registers the route groups on a real rest.Server with the public API and
// lets the engine bind them (engine.bindRoutes -> appendAuthHandler / signatureVerifier and
// the whole default middleware chain) onto a router we keep.  Server.Start binds the routes
// and then tries to listen; the configured port is invalid on purpose, so Start fails right
// after binding (its panic is recovered) and nothing is ever listened on.
func buildEngine(c Case, route http.HandlerFunc, o *CSObs) http.Handler {
	var rc rest.RestConf
	if err := conf.LoadFromJsonBytes([]byte(`{"Name":"c18","Host":"127.0.0.1","Port":70000,"CpuThreshold":0,`+
		`"Middlewares":{"Shedding":false,"Log":false,"Prometheus":false,"Trace":false,"Metrics":false}}`), &rc); err != nil {
		hx.Fatal("rest conf: %v", err)
	}
	rt := router.NewRouter()
	opts := []rest.RunOption{rest.WithRouter(rt)}
	if c.UaCb {
		opts = append(opts, rest.WithUnauthorizedCallback(func(w http.ResponseWriter, r *http.Request, err error) {
			o.UaCalled = true
		}))
	}
	if c.UsCb {
		opts = append(opts, rest.WithUnsignedCallback(func(w http.ResponseWriter, r *http.Request, next http.Handler,
			strict bool, code int) {
			o.Code = code
			if strict {
				w.WriteHeader(http.StatusForbidden)
			} else {
				next.ServeHTTP(w, r)
			}
		}))
	}
	srv, err := rest.NewServer(rc, opts...)
	if err != nil {
		hx.Fatal("rest server: %v", err)
	}
	logx.Disable()
	var keys []rest.PrivateKeyConf
	for _, k := range c.Keys {
		keys = append(keys, rest.PrivateKeyConf{Fingerprint: k, KeyFile: rsaKeys[k].file})
	}
	for _, g := range c.Groups {
		var ropts []rest.RouteOption
		if g.Jwt {
			if c.Prev == "" {
				ropts = append(ropts, rest.WithJwt(c.Secret))
			} else {
				ropts = append(ropts, rest.WithJwtTransition(c.Secret, c.Prev))
			}
		}
		if g.Sig {
			ropts = append(ropts, rest.WithSignature(rest.SignatureConf{Strict: c.Strict,
				Expiry: time.Duration(c.Tol) * time.Second, PrivateKeys: keys}))
		}
		if g.Prefix != "" {
			ropts = append(ropts, rest.WithPrefix(g.Prefix))
		}
		var routes []rest.Route
		for _, mp := range g.Routes {
			label := mp[0] + " " + g.Prefix + mp[1]
			routes = append(routes, rest.Route{Method: mp[0], Path: mp[1], Handler: func(w http.ResponseWriter, r *http.Request) {
				o.RanRoute = label
				route(w, r)
			}})
		}
		srv.AddRoutes(routes, ropts...)
	}
	func() {
		defer func() {
			if p := recover(); p != nil {
				if e, ok := p.(error); !ok || !strings.Contains(e.Error(), "70000") {
					o.EngErr = fmt.Sprint(p)
				}
			}
		}()
		srv.Start()
	}()
	return rt
}

func runHdr(c Case) []HObs {
	var res []HObs
	for _, h := range c.Hdrs {
		raw := latin(h)
		o := HObs{Raw: hex.EncodeToString(raw), Attrs: map[string]string{}}
		for k, v := range httpx.ParseHeader(string(raw)) {
			o.Attrs[hex.EncodeToString([]byte(k))] = hex.EncodeToString([]byte(v))
		}
		res = append(res, o)
	}
	return res
}

func runCS(c Case) *CSObs {
	q := c.Req
	o := &CSObs{Code: -1}
	decs := map[string]codec.RsaDecrypter{}
	for _, k := range c.Keys {
		decs[k] = rsaKeys[k].dec
	}
	limit := c.Limit
	if limit == 0 {
		limit = 1 << 20
	}
	tol := time.Duration(c.Tol) * time.Second
	ranp := &o.Ran
	route := http.HandlerFunc(func(w http.ResponseWriter, r *http.Request) {
		*ranp = true
		b, _ := io.ReadAll(r.Body)
		o.Seen = hex.EncodeToString(b)
		w.WriteHeader(http.StatusOK)
		if q.Resp != "" {
			w.Write(latin(q.Resp))
		}
	})
	mk := func(cbs ...handler.UnsignedCallback) http.Handler {
		var h http.Handler
		if c.Kind == "eng" {
			return buildEngine(c, route, o)
		} else if c.Kind == "crypt" {
			h = handler.LimitCryptionHandler(limit, latin(q.AesKey))(route)
		} else {
			h = handler.LimitContentSecurityHandler(limit, decs, tol, c.Strict, cbs...)(route)
		}
		if c.WithJwt {
			inner := h
			h = jwtGate(c.Secret, c.Prev)(http.HandlerFunc(func(w http.ResponseWriter, r *http.Request) {
				o.JwtRan = true
				inner.ServeHTTP(w, r)
			}))
		}
		return h
	}
	var b built
	for attempt := 0; attempt < 6; attempt++ {
		*ranp, o.Seen, o.JwtRan, o.Ran2, o.Code = false, "", false, false, -1
		o.RanRoute, o.UaCalled = "", false
		ranp = &o.Ran
		n0 := time.Now().Unix()
		b = buildCS(c, n0)
		r := b.request(c)
		if (c.WithJwt || c.Kind == "eng") && len(c.Reqs) > 0 {
			jq := c.Reqs[0]
			jnow := jq.Now
			jwt.TimeFunc = func() time.Time { return time.Unix(jnow, 0) }
			hdr, present := authHeader(jq, buildToken(jq))
			if present {
				r.Header.Set("Authorization", hdr)
			}
			jv := classify(hdr, present, c.Secret, c.Prev)
			o.JwtView = &jv
		}
		rec, p := serve(mk(), r)
		o.Status, o.Panic, o.RespRaw = rec.Code, p, hex.EncodeToString(rec.Body.Bytes())
		// second run with a recording callback: which failure code the gate reports
		if c.Kind == "cs" && !c.WithJwt {
			seen := o.Seen
			ranp = &o.Ran2
			cb := func(w http.ResponseWriter, r *http.Request, next http.Handler, strict bool, cd int) {
				o.Code = cd
				if strict {
					w.WriteHeader(http.StatusForbidden)
				} else {
					next.ServeHTTP(w, r)
				}
			}
			serve(mk(cb), buildCS(c, n0).request(c))
			o.Seen = seen
			ranp = &o.Ran
		}
		if time.Now().Unix() == n0 {
			break
		}
	}
	jwt.TimeFunc = time.Now
	rawResp, _ := hex.DecodeString(o.RespRaw)
	if dec, err := base64.StdEncoding.DecodeString(string(rawResp)); err == nil {
		s := hex.EncodeToString(dec)
		o.RespDec = &s
	}
	o.View = b.view
	if o.RespDec != nil {
		raw, _ := hex.DecodeString(*o.RespDec)
		uk, _ := hex.DecodeString(b.view.Key)
		if pt, ok := ownEcb(uk, raw, false); ok && len(raw) > 0 && len(raw)%16 == 0 {
			n := int(pt[len(pt)-1])
			good := n >= 1 && n <= 16
			for i := 0; good && i < n; i++ {
				good = pt[len(pt)-1-i] == byte(n)
			}
			if good {
				s := hex.EncodeToString(pt[:len(pt)-n])
				o.RespPlain = &s
			}
		}
	}
	// codec level, directly
	key := latin(q.AesKey)
	plain := latin(q.Body)
	enc, err := codec.EcbEncrypt(key, plain)
	if err == nil {
		o.CodecEnc = hex.EncodeToString(enc)
		o.CodecDec = guarded(func() ([]byte, error) { return codec.EcbDecrypt(key, enc) })
	} else {
		o.CodecEnc, o.CodecDec = "err", "err"
	}
	if o.View.B64 != nil {
		raw, _ := hex.DecodeString(*o.View.B64)
		o.RawDec = guarded(func() ([]byte, error) { return codec.EcbDecrypt(key, raw) })
	}
	return o
}

func main() {
	logx.Disable()
	var cases []Case
	hx.ReadCases(&cases)
	dir, err := os.MkdirTemp("", "c18keys")
	if err != nil {
		hx.Fatal("tmp: %v", err)
	}
	defer os.RemoveAll(dir)
	setupKeys(dir)
	w := hx.NewWriter()
	defer w.Close()
	for _, c := range cases {
		out := Out{ID: c.ID}
		switch c.Kind {
		case "jwt":
			out.Jwt = runJwt(c)
		case "cs", "crypt", "eng":
			out.CS = runCS(c)
		case "hdr":
			out.Hdr = runHdr(c)
		default:
			out.Err = "unknown kind " + c.Kind
		}
		w.Put(out)
	}
}
