// Executor for C12: drives collection.TimingWheel through its public API with a
// rendezvous ticker and reports, per operation, which (key,value) callbacks ran.
package main

import (
	"sort"
	"strings"
	"sync"
	"time"

	"github.com/zeromicro/go-zero/core/collection"
	"verifh/hx"
)

type Case struct {
	ID       int     `json:"id"`
	N        int     `json:"n"`
	Interval int64   `json:"interval"`
	Ops      [][]any `json:"ops"`
}

type Out struct {
	ID  int         `json:"id"`
	Obs [][][2]int64 `json:"obs"`
	Err string      `json:"err,omitempty"`
}

type ticker struct{ c chan time.Time }

func (t *ticker) Chan() <-chan time.Time { return t.c }
func (t *ticker) Stop()                  {}

const sentinel = int64(-424242)

func busy(stack string) bool {
	// callbacks run on goroutines started by runTasks (go func), drainAll
	// (TaskRunner.Schedule) and moveTask (threading.GoSafe); a goroutine that has
	// not started yet only shows its entry function
	if strings.Contains(stack, "threading.(*TaskRunner).Schedule.func") ||
		strings.Contains(stack, "threading.GoSafe") {
		return true
	}
	if !strings.Contains(stack, "collection.(*TimingWheel)") {
		return false
	}
	// the wheel's own event loop is always there
	if strings.Contains(stack, "collection.(*TimingWheel).run(") &&
		!strings.Contains(stack, "runTasks") && !strings.Contains(stack, "drainAll.func") {
		return false
	}
	return true
}

func num(v any) int64 { return int64(v.(float64)) }

func runCase(c Case) Out {
	out := Out{ID: c.ID}
	var mu sync.Mutex
	var cur [][2]int64
	record := func(k, v any) {
		mu.Lock()
		cur = append(cur, [2]int64{k.(int64), v.(int64)})
		mu.Unlock()
	}
	tk := &ticker{c: make(chan time.Time)}
	tw, err := collection.NewTimingWheelWithTicker(time.Duration(c.Interval), c.N, record, tk)
	if err != nil {
		out.Err = err.Error()
		return out
	}
	defer tw.Stop()
	for _, op := range c.Ops {
		switch op[0].(string) {
		case "set":
			tw.SetTimer(num(op[1]), num(op[2]), time.Duration(num(op[3])))
		case "move":
			tw.MoveTimer(num(op[1]), time.Duration(num(op[2])))
		case "remove":
			tw.RemoveTimer(num(op[1]))
		case "tick":
			tk.c <- time.Now()
		case "drain":
			tw.Drain(record)
		}
		// the loop is sequential: once it takes this no-op, the operation above is done
		tw.RemoveTimer(sentinel)
		if !hx.Quiesce(busy, 5*time.Second) {
			out.Err = "callbacks did not quiesce"
			return out
		}
		mu.Lock()
		f := cur
		cur = nil
		mu.Unlock()
		sort.Slice(f, func(i, j int) bool {
			if f[i][0] != f[j][0] {
				return f[i][0] < f[j][0]
			}
			return f[i][1] < f[j][1]
		})
		if f == nil {
			f = [][2]int64{}
		}
		out.Obs = append(out.Obs, f)
	}
	return out
}

func main() {
	var cases []Case
	hx.ReadCases(&cases)
	w := hx.NewWriter()
	defer w.Close()
	for _, c := range cases {
		w.Put(runCase(c))
	}
}
