// Executor for C12 (see verifh/c12x).
package main

import "verifh/c12x"

func main() { c12x.Main() }
