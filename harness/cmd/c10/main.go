// Executor for C10: drives core/mr (MapReduce, MapReduceVoid, MapReduceChan, ForEach,
// Finish, FinishVoid) through the public API under a forced schedule.  Every user
// function (generator, mapper, reducer, Finish fn) parks at a gate before each of
// its scripted actions and before it returns; the controller releases exactly one
// parked function for one action (or ends the context), then waits until every
// goroutine is parked, blocked inside the library, or gone (runtime.Stack).  It
// reports what the call returned, which items were mapped, what the reducer
// received, the peak number of concurrent mappers and a census of goroutines that
// still have core/mr frames at the end.
//
// With VERIF_FREE=1 the gates are open (free-running mode for the -race monitor).
package main

import (
	"context"
	"errors"
	"fmt"
	"io"
	"os"
	"reflect"
	"runtime"
	"sort"
	"strings"
	"sync"
	"sync/atomic"
	"time"

	"github.com/zeromicro/go-zero/core/errorx"
	"github.com/zeromicro/go-zero/core/mr"
	"verifh/hx"
)

type Case struct {
	ID      int                `json:"id"`
	API     string             `json:"api"`
	Workers int                `json:"workers"`
	Gen     [][]any            `json:"gen"`
	Maps    map[string][][]any `json:"maps"`
	Red     [][]any            `json:"red"`
	Events  [][]any            `json:"events"`
	// options: Workers -1 = no WithWorkers option; WorkersFirst (if present) = an earlier
	// WithWorkers in the option list (the last one wins); Ctx = "" (a cancellable context is
	// passed, "c" events cancel it), "none" (no WithContext option), "pre" (already cancelled
	// when the call starts), "expired" (deadline already exceeded when the call starts)
	// Ctx = "gate": a cancellable context whose Done() parks the CALLER goroutine the first time it
	// is called on it - mapReduceWithPanicChan evaluates options.ctx.Done() when it enters its final
	// select - until the event ["k"] releases it: everything else can run while the caller is not
	// yet a receiver on panicChan / output.
	// Repeat > 1: the forced schedule is run up to Repeat times and the first run whose result is not a
	// re-raised user panic is reported (Go's select picks at random among ready cases).
	WorkersFirst *int   `json:"workers_first"`
	Ctx          string `json:"ctx"`
	Repeat       int    `json:"repeat"`
	// API "atomic": errorx.AtomicError (the retErr of mapReduceWithPanicChan) driven directly.
	// ["set", k] Set(value of code k; null = the nil interface), ["load"], ["conc", [k...]] one goroutine per
	// code, all released together, each calling Set, all joined, then a Load.
	AOps [][]any `json:"aops"`
}

// gateCtx parks one goroutine (the caller of the mr function) in its first call of Done().
type gateCtx struct {
	context.Context
	gid  uint64
	once sync.Once
	t    *thread
}

func (c *gateCtx) Done() <-chan struct{} {
	if goid() == c.gid {
		c.once.Do(func() { c.t.wait() })
	}
	return c.Context.Done()
}

func goid() uint64 {
	var buf [64]byte
	b := string(buf[:runtime.Stack(buf[:], false)])
	b = strings.TrimPrefix(b, "goroutine ")
	if i := strings.IndexByte(b, ' '); i > 0 {
		b = b[:i]
	}
	var id uint64
	fmt.Sscanf(b, "%d", &id)
	return id
}

type Out struct {
	ID      int      `json:"id"`
	Fired   [][2]bool `json:"fired"`  // first entry = start of the call
	Acts    []int    `json:"acts"`   // 0 nothing, 1 ordinary, 2 panic / context end, 3 reducer write, 4 cancel call, 5 the generator function returns
	Events  [][]any  `json:"events"` // the events actually issued (given ones + tail)
	Result  []any    `json:"result"` // nil: the call did not return
	Mapped  []int    `json:"mapped"`
	Reduced []int    `json:"reduced"`
	Peak    int      `json:"peak"`
	Census  int      `json:"census"`
	Stacks  string   `json:"stacks,omitempty"`
	Err     string   `json:"err,omitempty"`
	// API "atomic": per op [panicked (0/1), loaded] - loaded = the code of the value Load returned, recognised by
	// identity (-1 = none of the vocabulary, null = the nil interface); only for load / conc
	AObs [][]any `json:"aobs,omitempty"`
}

type userPanic int
type cancelErr int

func (c cancelErr) Error() string { return fmt.Sprintf("cancel-%d", int(c)) }

// an error of another concrete (pointer) type; a nil *ptrErr in an error interface is the classic typed nil:
// a non-nil error value (Error() on it panics)
type ptrErr struct{ k int }

func (p *ptrErr) Error() string { return fmt.Sprintf("ptr-%d", p.k) }

// a comparable struct error with a value receiver
type structErr struct {
	k int
	s string
}

func (e structErr) Error() string { return fmt.Sprintf("struct-%d%s", e.k, e.s) }

// an error whose Error() panics
type panickyErr struct{ k int }

func (p *panickyErr) Error() string { panic("Error() of panickyErr called") }

// an error of channel kind: chanErr(nil) is a typed nil that is not a pointer
type chanErr chan int

func (c chanErr) Error() string { return "chan-err" }

// errors of NON-COMPARABLE dynamic types (map, slice, func): `==` between two interface values holding the same such
// type panics at run time; nil-ness tests and errors.Is against a comparable target do not
type mapErr map[string]int

func (m mapErr) Error() string { return "map-err" }

type sliceErr []int

func (s sliceErr) Error() string { return "slice-err" }

type funcErr func() string

func (f funcErr) Error() string { return "func-err" }

// sameErr: identity of two error values without ever evaluating == on a non-comparable type
func sameErr(a, b error) bool {
	if a == nil || b == nil {
		return a == nil && b == nil
	}
	ta, tb := reflect.TypeOf(a), reflect.TypeOf(b)
	if ta != tb {
		return false
	}
	if ta.Comparable() {
		return a == b
	}
	va, vb := reflect.ValueOf(a), reflect.ValueOf(b)
	switch va.Kind() {
	case reflect.Map, reflect.Func:
		return va.Pointer() == vb.Pointer()
	case reflect.Slice:
		return va.Pointer() == vb.Pointer() && va.Len() == vb.Len()
	}
	return false
}

// cancel / panic / Finish-result codes >= 1000: error values that go-zero or the standard library treat
// specially, bare and wrapped, errors of other concrete types (retErr is an atomic.Value), typed nils.
// Every value is comparable; results are recognised by identity (==), never through Error().
var sentinels = map[int]error{
	1001: mr.ErrCancelWithNil,
	1002: mr.ErrReduceNoOutput,
	1003: context.Canceled,
	1004: context.DeadlineExceeded,
	1005: fmt.Errorf("wrapped: %w", mr.ErrReduceNoOutput),
	1006: fmt.Errorf("wrapped: %w", context.DeadlineExceeded),
	1007: io.EOF,
	1008: &ptrErr{1008},
	1009: errors.New("plain"),
	1010: fmt.Errorf("wrapped: %w", mr.ErrCancelWithNil),
	1011: (*ptrErr)(nil),
	1012: structErr{1012, "s"},
	1013: &panickyErr{1013},
	1014: fmt.Errorf("wrapped: %w", context.Canceled),
	1015: chanErr(nil),
	1016: structErr{},
	1017: errors.New(""),
	1018: &ptrErr{1018},
	1019: mapErr{"k": 1},
	1020: mapErr(nil),
	1021: sliceErr{1, 2},
	1022: funcErr(func() string { return "f" }),
}

func cancelErrOf(k int) error {
	if e, ok := sentinels[k]; ok {
		return e
	}
	return cancelErr(k)
}

// panic codes: < 1000 userPanic(k); 2000 panic(nil) (a *runtime.PanicNilError since go 1.21); 2001 a string;
// the error vocabulary above as panic values otherwise
func panicValOf(k int) any {
	switch {
	case k == 2000:
		return nil
	case k == 2001:
		return "user panic string"
	case k >= 1000:
		return cancelErrOf(k)
	}
	return userPanic(k)
}

// code of an error value, by identity over the whole vocabulary; ok=false: not a value of the vocabulary
func codeOf(err error) (int, bool) {
	if ce, ok := err.(cancelErr); ok {
		return int(ce), true
	}
	ks := make([]int, 0, len(sentinels))
	for k := range sentinels {
		ks = append(ks, k)
	}
	sort.Ints(ks)
	for _, k := range ks {
		if sameErr(err, sentinels[k]) {
			return k, true
		}
	}
	return -1, false
}

var free = os.Getenv("VERIF_FREE") == "1"

type thread struct {
	gate   chan struct{}
	atGate atomic.Bool
	script [][]any
	pos    int
}

func newThread(script [][]any) *thread {
	return &thread{gate: make(chan struct{}), script: script}
}

// wait parks the calling user function until the controller releases it.
func (t *thread) wait() {
	if free {
		runtime.Gosched()
		return
	}
	t.atGate.Store(true)
	<-t.gate
	t.atGate.Store(false)
}

func num(v any) int {
	if i, ok := v.(int); ok {
		return i
	}
	return int(v.(float64))
}

type runner struct {
	c       Case
	mu      sync.Mutex
	gen     *thread
	red     *thread
	caller  *thread
	maps    map[int]*thread
	mapped  []int
	reduced []int
	running int
	peak    int
	foreach bool
	void    bool
}

func (r *runner) enterMap(item int) *thread {
	r.mu.Lock()
	defer r.mu.Unlock()
	t := newThread(r.c.Maps[fmt.Sprint(item)])
	if _, dup := r.maps[item]; dup {
		// second invocation for the same item: keep it visible
		r.mapped = append(r.mapped, item)
		r.running++
		if r.running > r.peak {
			r.peak = r.running
		}
		return t
	}
	r.maps[item] = t
	r.mapped = append(r.mapped, item)
	r.running++
	if r.running > r.peak {
		r.peak = r.running
	}
	return t
}

func (r *runner) exitMap() {
	r.mu.Lock()
	r.running--
	r.mu.Unlock()
}

// kind of the next action of a parked thread (for the acts log)
func (r *runner) kindOf(t *thread, isRed bool) int {
	if t.pos >= len(t.script) {
		if t == r.gen {
			return 5
		}
		return 1
	}
	switch t.script[t.pos][0].(string) {
	case "panic":
		return 2
	case "cancel", "cancelnil":
		if r.foreach {
			return 1
		}
		return 4
	case "write":
		if isRed && !r.void && !r.foreach {
			return 3
		}
	}
	return 1
}

func (r *runner) generate(source chan<- int) {
	t := r.gen
	for _, a := range t.script {
		t.wait()
		t.pos++
		switch a[0].(string) {
		case "send":
			source <- num(a[1])
		case "panic":
			panic(panicValOf(num(a[1])))
		}
	}
	t.wait()
	t.pos++
}

func (r *runner) userActs(t *thread, w mr.Writer[int], cancel func(error), pipe <-chan int) {
	for _, a := range t.script {
		t.wait()
		t.pos++
		switch a[0].(string) {
		case "write":
			if w != nil {
				w.Write(num(a[1]))
			}
		case "cancel":
			if cancel != nil {
				cancel(cancelErrOf(num(a[1])))
			}
		case "cancelnil":
			if cancel != nil {
				cancel(nil)
			}
		case "panic":
			panic(panicValOf(num(a[1])))
		case "recv":
			if pipe != nil {
				if v, ok := <-pipe; ok {
					r.mu.Lock()
					r.reduced = append(r.reduced, v)
					r.mu.Unlock()
				}
			}
		case "recvall":
			if pipe != nil {
				for v := range pipe {
					r.mu.Lock()
					r.reduced = append(r.reduced, v)
					r.mu.Unlock()
				}
			}
		}
	}
	t.wait()
	t.pos++
}

func (r *runner) mapper(item int, w mr.Writer[int], cancel func(error)) {
	t := r.enterMap(item)
	defer r.exitMap()
	r.userActs(t, w, cancel, nil)
}

func (r *runner) reducer(pipe <-chan int, w mr.Writer[int], cancel func(error)) {
	r.userActs(r.red, w, cancel, pipe)
}

// a Finish / FinishVoid function: at most one action, no gate before the return
func (r *runner) fn(i int) (err error) {
	t := r.enterMap(i)
	defer r.exitMap()
	if len(t.script) == 0 {
		return nil
	}
	t.wait()
	t.pos++
	a := t.script[0]
	switch a[0].(string) {
	case "cancel":
		return cancelErrOf(num(a[1]))
	case "panic":
		panic(panicValOf(num(a[1])))
	}
	return nil
}

// the codes >= 1000 that occur in `kind` actions ("cancel" / "panic") of the scripts of the case
func (r *runner) usedCodes(kind string) []int {
	seen := map[int]bool{}
	scan := func(sc [][]any) {
		for _, a := range sc {
			if a[0].(string) == kind {
				if k := num(a[1]); k >= 1000 {
					seen[k] = true
				}
			}
		}
	}
	scan(r.c.Red)
	scan(r.c.Gen)
	for _, sc := range r.c.Maps {
		scan(sc)
	}
	ks := []int{}
	for k := range seen {
		ks = append(ks, k)
	}
	sort.Ints(ks)
	return ks
}

func (r *runner) classify(val int, err error, hasVal bool) []any {
	// an error value that one of the scripts passed to cancel is recognised by identity: the very same
	// interface value (a typed nil is a non-nil error and is not the nil interface)
	if err != nil {
		for _, k := range r.usedCodes("cancel") {
			if sameErr(err, sentinels[k]) {
				return []any{"cancel", k}
			}
		}
	}
	return classify(val, err, hasVal)
}

func (r *runner) classifyPanic(p any) []any {
	for _, k := range r.usedCodes("panic") {
		switch {
		case k == 2000:
			if _, ok := p.(*runtime.PanicNilError); ok {
				return []any{"panic", k}
			}
		case k == 2001:
			if p == any("user panic string") {
				return []any{"panic", k}
			}
		default:
			if e, ok := p.(error); ok && sameErr(e, sentinels[k]) {
				return []any{"panic", k}
			}
		}
	}
	return classifyPanic(p)
}

func classify(val int, err error, hasVal bool) []any {
	switch {
	case err == nil && hasVal:
		return []any{"val", val}
	case err == nil:
		return []any{"unit"}
	case errors.Is(err, mr.ErrCancelWithNil):
		return []any{"cancelnil"}
	case errors.Is(err, mr.ErrReduceNoOutput):
		return []any{"nooutput"}
	case errors.Is(err, context.DeadlineExceeded), errors.Is(err, context.Canceled):
		return []any{"ctx"}
	}
	var ce cancelErr
	if errors.As(err, &ce) {
		return []any{"cancel", int(ce)}
	}
	return []any{"other", safeText(err)}
}

// Error() of a value of unknown origin may panic (typed nil, panickyErr)
func safeText(err error) (s string) {
	defer func() {
		if recover() != nil {
			s = fmt.Sprintf("%T (Error() panics)", err)
		}
	}()
	return err.Error()
}

func classifyPanic(p any) []any {
	switch v := p.(type) {
	case userPanic:
		return []any{"panic", int(v)}
	case string:
		if strings.Contains(v, "more than one element written in reducer") {
			return []any{"panicmulti"}
		}
		return []any{"other", v}
	case error:
		if strings.Contains(safeText(v), "send on closed channel") {
			return []any{"panicclosed"}
		}
		return []any{"other", safeText(v)}
	}
	return []any{"other", fmt.Sprint(p)}
}

func (r *runner) call(ctx context.Context) (res []any) {
	defer func() {
		if p := recover(); p != nil {
			res = r.classifyPanic(p)
		}
	}()
	w := r.c.Workers
	opts := []mr.Option{}
	if r.c.WorkersFirst != nil {
		opts = append(opts, mr.WithWorkers(*r.c.WorkersFirst))
	}
	if w != -1 {
		// -1 means: no WithWorkers option (defaultWorkers); other negative counts are passed on
		opts = append(opts, mr.WithWorkers(w))
	}
	if ctx != nil {
		opts = append(opts, mr.WithContext(ctx))
	}
	switch r.c.API {
	case "mr":
		v, err := mr.MapReduce(r.generate, r.mapper, r.reducer, opts...)
		return r.classify(v, err, true)
	case "void":
		err := mr.MapReduceVoid(r.generate, r.mapper, func(pipe <-chan int, cancel func(error)) {
			r.reducer(pipe, nil, cancel)
		}, opts...)
		return r.classify(0, err, false)
	case "chan":
		source := make(chan int)
		go func() {
			defer close(source)
			r.generate(source)
		}()
		v, err := mr.MapReduceChan(source, r.mapper, r.reducer, opts...)
		return r.classify(v, err, true)
	case "foreach":
		mr.ForEach(r.generate, func(item int) { r.mapper(item, nil, nil) }, opts...)
		return []any{"unit"}
	case "finish":
		n := len(r.c.Gen)
		fns := make([]func() error, n)
		for i := 0; i < n; i++ {
			i := i
			fns[i] = func() error { return r.fn(i) }
		}
		return r.classify(0, mr.Finish(fns...), false)
	case "finishvoid":
		n := len(r.c.Gen)
		fns := make([]func(), n)
		for i := 0; i < n; i++ {
			i := i
			fns[i] = func() { r.fn(i) }
		}
		mr.FinishVoid(fns...)
		return []any{"unit"}
	}
	return []any{"other", "unknown api"}
}

func isSelf(stack string) bool { return strings.Contains(stack, "verifh/hx.Stacks") }

func busy(stack string) bool {
	if isSelf(stack) {
		return false
	}
	return !hx.Blocked(stack)
}

func mrGoroutines() (int, string) {
	n := 0
	var sb strings.Builder
	for _, g := range hx.Stacks() {
		if strings.Contains(g, "go-zero/core/mr.") {
			n++
			lines := strings.Split(g, "\n")
			for i, l := range lines {
				if i == 0 || strings.Contains(l, "core/mr.") {
					sb.WriteString(strings.TrimSpace(l))
					sb.WriteString(" | ")
				}
			}
			sb.WriteString("\n")
		}
	}
	return n, sb.String()
}

// errorx.AtomicError driven directly: Set / Load sequences, concurrent Sets
func runAtomic(c Case) Out {
	out := Out{ID: c.ID, Fired: [][2]bool{}, Acts: []int{}, Events: [][]any{}, Mapped: []int{}, Reduced: []int{},
		Result: []any{"unit"}, AObs: [][]any{}}
	var ae errorx.AtomicError
	valOf := func(v any) error {
		if v == nil {
			return nil
		}
		return cancelErrOf(num(v))
	}
	set := func(v any) (panicked int) {
		defer func() {
			if recover() != nil {
				panicked = 1
			}
		}()
		ae.Set(valOf(v))
		return 0
	}
	load := func() any {
		e := ae.Load()
		if e == nil {
			return nil
		}
		k, _ := codeOf(e)
		return k
	}
	for _, op := range c.AOps {
		switch op[0].(string) {
		case "set":
			out.AObs = append(out.AObs, []any{set(op[1]), nil})
		case "load":
			out.AObs = append(out.AObs, []any{0, load()})
		case "conc":
			vs := op[1].([]any)
			var wg sync.WaitGroup
			var panicked atomic.Int32
			var running atomic.Int32
			start := make(chan struct{})
			running.Store(int32(len(vs)))
			for _, v := range vs {
				v := v
				wg.Add(1)
				go func() {
					defer wg.Done()
					defer running.Add(-1)
					<-start
					if set(v) != 0 {
						panicked.Store(1)
					}
				}()
			}
			// a reader interleaved with the Sets: the distinct consecutive values it saw (at most 8)
			mids := []any{}
			wg.Add(1)
			go func() {
				defer wg.Done()
				<-start
				first := true
				var last any
				for i := 0; i < 64 && len(mids) < 8; i++ {
					done := running.Load() == 0
					v := load()
					if first || v != last {
						mids = append(mids, v)
						first, last = false, v
					}
					if done {
						break
					}
					runtime.Gosched()
				}
			}()
			close(start)
			wg.Wait()
			out.AObs = append(out.AObs, []any{int(panicked.Load()), load(), mids})
			continue
			out.AObs = append(out.AObs, []any{int(panicked.Load()), load()})
		}
	}
	return out
}

func runCase(c Case) Out {
	if c.API == "atomic" {
		return runAtomic(c)
	}
	out := Out{ID: c.ID, Fired: [][2]bool{}, Acts: []int{}, Events: [][]any{}, Mapped: []int{}, Reduced: []int{}}
	r := &runner{c: c, maps: map[int]*thread{}}
	r.foreach = c.API == "foreach" || c.API == "finishvoid"
	r.void = c.API == "void" || c.API == "finish"
	auto := c.API == "finish" || c.API == "finishvoid"
	r.gen = newThread(c.Gen)
	r.red = newThread(c.Red)
	r.caller = newThread(nil)
	base, _ := mrGoroutines()

	ctx, cancelCtx := context.WithCancel(context.Background())
	defer cancelCtx()
	pre := false
	switch c.Ctx {
	case "none":
		ctx = nil
	case "pre":
		cancelCtx()
		pre = true
	case "expired":
		var cancel2 context.CancelFunc
		ctx, cancel2 = context.WithDeadline(context.Background(), time.Now().Add(-time.Second))
		defer cancel2()
		pre = true
	}
	var result atomic.Value
	var returned atomic.Bool
	gated := c.Ctx == "gate" && !free
	go func() {
		if gated {
			ctx = &gateCtx{Context: ctx, gid: goid(), t: r.caller}
		}
		res := r.call(ctx)
		result.Store(res)
		returned.Store(true)
	}()

	// quiescence: no goroutine (other than the controller) is running or runnable in two consecutive
	// stop-the-world snapshots with yields in between (a single quiet snapshot was once followed by further
	// progress on a machine with load > 100); the waits between snapshots grow with the time a snapshot takes
	quiesce := func() bool {
		deadline := time.Now().Add(10 * time.Second)
		stable := 0
		for spin := 0; ; spin++ {
			t0 := time.Now()
			any := false
			for _, g := range hx.Stacks() {
				if busy(g) {
					any = true
					break
				}
			}
			took := time.Since(t0)
			if !any {
				stable++
				if stable >= 2 {
					return true
				}
				runtime.Gosched()
				if took > time.Millisecond {
					// a slow snapshot means a loaded machine: give a wrongly quiet state time to move
					time.Sleep(took / 2)
				}
				continue
			}
			stable = 0
			if time.Now().After(deadline) {
				return false
			}
			if spin < 20 {
				runtime.Gosched()
			} else {
				time.Sleep(50*time.Microsecond + took/2)
			}
		}
	}

	if free {
		// free-running mode: context events fire after a short pause
		for _, ev := range c.Events {
			if ev[0].(string) == "c" {
				time.Sleep(time.Duration(50*(1+c.ID%7)) * time.Microsecond)
				cancelCtx()
			}
		}
		deadline := time.Now().Add(5 * time.Second)
		for !returned.Load() && time.Now().Before(deadline) {
			time.Sleep(100 * time.Microsecond)
		}
		for time.Now().Before(deadline) {
			if n, _ := mrGoroutines(); n-base <= 0 {
				break
			}
			time.Sleep(200 * time.Microsecond)
		}
	} else {
		// the functions that exist from the start must have reached their first gate
		// (or the call must be over) before the schedule starts
		startDeadline := time.Now().Add(3 * time.Second)
		for time.Now().Before(startDeadline) && !returned.Load() {
			genOK := auto || r.gen.atGate.Load()
			redOK := auto || r.foreach || r.red.atGate.Load()
			if genOK && redOK {
				break
			}
			time.Sleep(20 * time.Microsecond)
		}
		if !quiesce() {
			out.Err = "no quiescence at start"
			return out
		}
		out.Fired = append(out.Fired, [2]bool{true, returned.Load()})
		if pre && !r.foreach {
			out.Acts = append(out.Acts, 2)
		} else {
			out.Acts = append(out.Acts, 1)
		}
		lookup := func(ev []any) (*thread, bool) {
			switch ev[0].(string) {
			case "g":
				if auto || c.API == "" {
					return nil, false
				}
				return r.gen, false
			case "r":
				if r.foreach {
					return nil, false
				}
				return r.red, true
			case "k":
				if !gated {
					return nil, false
				}
				return r.caller, false
			case "m":
				r.mu.Lock()
				t := r.maps[num(ev[1])]
				r.mu.Unlock()
				return t, false
			}
			return nil, false
		}
		ctxDone := pre || c.Ctx == "none"
		issue := func(ev []any) bool {
			fired := false
			kind := 0
			if ev[0].(string) == "c" {
				if !ctxDone {
					ctxDone = true
					cancelCtx()
					fired = true
					kind = 2
					if r.foreach {
						kind = 1
					}
				}
			} else if t, isRed := lookup(ev); t != nil && t.atGate.Load() {
				kind = r.kindOf(t, isRed)
				t.gate <- struct{}{}
				fired = true
			}
			if fired && !quiesce() {
				out.Err = "no quiescence after event"
				return false
			}
			out.Events = append(out.Events, ev)
			out.Fired = append(out.Fired, [2]bool{fired, returned.Load()})
			out.Acts = append(out.Acts, kind)
			return true
		}
		for _, ev := range c.Events {
			if !issue(ev) {
				return out
			}
		}
		// tail: release whatever is still parked, in a fixed order, until nothing is
		for round := 0; round < 10000; round++ {
			var ev []any
			if !auto && r.gen.atGate.Load() {
				ev = []any{"g"}
			} else {
				r.mu.Lock()
				items := make([]int, 0, len(r.maps))
				for it, t := range r.maps {
					if t.atGate.Load() {
						items = append(items, it)
					}
				}
				r.mu.Unlock()
				sort.Ints(items)
				if len(items) > 0 {
					ev = []any{"m", items[0]}
				} else if !r.foreach && r.red.atGate.Load() {
					ev = []any{"r"}
				} else if gated && r.caller.atGate.Load() {
					ev = []any{"k"}
				}
			}
			if ev == nil {
				break
			}
			if !issue(ev) {
				return out
			}
		}
	}

	if returned.Load() {
		out.Result = result.Load().([]any)
	}
	n, st := mrGoroutines()
	out.Census = n - base
	if out.Census != 0 || out.Result == nil {
		out.Stacks = st
	}
	r.mu.Lock()
	out.Mapped = append(out.Mapped, r.mapped...)
	out.Reduced = append(out.Reduced, r.reduced...)
	out.Peak = r.peak
	r.mu.Unlock()
	sort.Ints(out.Mapped)
	sort.Ints(out.Reduced)
	return out
}

func main() {
	var cases []Case
	hx.ReadCases(&cases)
	w := hx.NewWriter()
	defer w.Close()
	for _, c := range cases {
		out := runCase(c)
		for i := 1; i < c.Repeat && out.Err == "" && out.Result != nil && len(out.Result) > 0 && out.Result[0] == "panic"; i++ {
			out = runCase(c)
		}
		w.Put(out)
	}
}
