// Executor for C14: drives sqlx.SqlConn.Transact / TransactCtx (and
// sqlc.CachedConn.TransactCtx) over a fake database/sql/driver that logs every
// Begin / Exec / Commit / Rollback it receives and fails the calls the case asks
// it to fail.  It only executes: it reports the driver log, how often the body
// ran, what the body did, and raw facts about the returned error.
package main

import (
	"context"
	"database/sql"
	"database/sql/driver"
	"errors"
	"fmt"
	"runtime"
	"strings"

	"github.com/zeromicro/go-zero/core/breaker"
	"github.com/zeromicro/go-zero/core/logx"
	"github.com/zeromicro/go-zero/core/stores/sqlc"
	"github.com/zeromicro/go-zero/core/stores/sqlx"
	"verifh/hx"
)

type Stmt struct {
	Res    string `json:"res"`    // ok | fail (driver fails it) | ctx (context cancelled before it)
	OnFail string `json:"onfail"` // stop (return the error) | ignore | panic
}

type Case struct {
	ID         int    `json:"id"`
	API        string `json:"api"`  // ctx | plain | cached | cachedplain
	Trip       bool   `json:"trip"` // trip the circuit breaker first
	BeginOK    bool   `json:"begin_ok"`
	Stmts      []Stmt `json:"stmts"`
	Fin        string `json:"fin"` // nil | err | panic
	CommitOK   bool   `json:"commit_ok"`
	RollbackOK bool   `json:"rollback_ok"`
	Ctx        string `json:"ctx"`    // "" | live | dead (cancelled before the call) | at (cancelled by the body)
	CtxAt      int    `json:"ctx_at"` // at: just before statement ctx_at (== len(stmts): after the last one)
}

type ErrFacts struct {
	Nil        bool   `json:"nil"`
	Unavail    bool   `json:"unavail"`
	Begin      bool   `json:"begin"`
	Commit     bool   `json:"commit"`
	Rollback   bool   `json:"rollback"`
	SameAsBody bool   `json:"same_as_body"`
	Recover    bool   `json:"recover"`
	TxFailed   bool   `json:"txfailed"`
	Canceled   bool   `json:"canceled"`
	Text       string `json:"text"`
}

type Out struct {
	ID       int      `json:"id"`
	Log      [][]any  `json:"log"`      // ["begin",ok] ["exec",k,ok] ["commit",ok] ["rollback",ok]
	Runs     int      `json:"runs"`     // times the body was invoked
	Body     []any    `json:"body"`     // ["none"] ["nil"] ["user"] ["stmt",k] ["ctx",k] ["panic"]
	Err      ErrFacts `json:"err"`
	InUse    int      `json:"inuse"`    // connections still checked out afterwards
	Rejected bool     `json:"rejected"` // circuit breaker refused the call
	Panicked string   `json:"panicked,omitempty"`
	Fail     string   `json:"fail,omitempty"`
}

var (
	errBegin    = errors.New("inj: begin failed")
	errCommit   = errors.New("inj: commit failed")
	errRollback = errors.New("inj: rollback failed (driver)")
	errUser     = errors.New("inj: body says no")
)

// ---- the fake driver -------------------------------------------------------

type plan struct {
	c       *Case
	log     [][]any
	stmtErr map[int]error
	armed   bool // faults and logging are active (off while tripping the breaker)
}

type connector struct{ p *plan }

func (c connector) Connect(context.Context) (driver.Conn, error) { return &fconn{p: c.p}, nil }
func (c connector) Driver() driver.Driver                        { return fdriver{} }

type fdriver struct{}

func (fdriver) Open(string) (driver.Conn, error) { return nil, errors.New("not used") }

type fconn struct{ p *plan }

func (c *fconn) Prepare(string) (driver.Stmt, error) { return nil, errors.New("prepare not supported") }
func (c *fconn) Close() error                        { return nil }
func (c *fconn) Begin() (driver.Tx, error) {
	p := c.p
	if !p.armed {
		return nil, errBegin
	}
	if !p.c.BeginOK {
		p.log = append(p.log, []any{"begin", false})
		return nil, errBegin
	}
	p.log = append(p.log, []any{"begin", true})
	return &ftx{p: p}, nil
}

func (c *fconn) ExecContext(_ context.Context, q string, _ []driver.NamedValue) (driver.Result, error) {
	p := c.p
	var k int
	if _, err := fmt.Sscanf(q, "stmt %d", &k); err != nil {
		return nil, fmt.Errorf("unexpected query %q", q)
	}
	if k >= 0 && k < len(p.c.Stmts) && p.c.Stmts[k].Res == "fail" {
		p.log = append(p.log, []any{"exec", k, false})
		return nil, p.stmtErr[k]
	}
	p.log = append(p.log, []any{"exec", k, true})
	return driver.RowsAffected(1), nil
}

type ftx struct{ p *plan }

func (t *ftx) Commit() error {
	if !t.p.c.CommitOK {
		t.p.log = append(t.p.log, []any{"commit", false})
		return errCommit
	}
	t.p.log = append(t.p.log, []any{"commit", true})
	return nil
}

func (t *ftx) Rollback() error {
	if !t.p.c.RollbackOK {
		t.p.log = append(t.p.log, []any{"rollback", false})
		return errRollback
	}
	t.p.log = append(t.p.log, []any{"rollback", true})
	return nil
}

// ---- one case -------------------------------------------------------------

func runCase(c Case) (out Out) {
	out.ID = c.ID
	out.Body = []any{"none"}
	p := &plan{c: &c, stmtErr: map[int]error{}, armed: true}
	for k := range c.Stmts {
		p.stmtErr[k] = fmt.Errorf("inj: statement %d failed", k)
	}
	db := sql.OpenDB(connector{p: p})
	defer db.Close()
	conn := sqlx.NewSqlConnFromDB(db)

	if c.Trip {
		// failed transactions (begin fails) until the breaker starts refusing
		p.armed = false
		tripped := false
		for i := 0; i < 5000 && !tripped; i++ {
			err := conn.Transact(func(sqlx.Session) error { return nil })
			tripped = errors.Is(err, breaker.ErrServiceUnavailable)
		}
		p.armed = true
		if !tripped {
			out.Fail = "could not trip the breaker"
			return
		}
	}

	var bodyRet error
	plain := c.API == "plain" || c.API == "cachedplain"
	callCtx, cancelCall := context.WithCancel(context.Background())
	defer cancelCall()
	if c.Ctx == "dead" {
		cancelCall()
	}
	body := func(ctx context.Context, s sqlx.Session) error {
		out.Runs++
		out.Body = []any{"running"}
		if c.Ctx == "at" && c.CtxAt >= len(c.Stmts) {
			defer cancelCall()
		}
		for k, st := range c.Stmts {
			if c.Ctx == "at" && c.CtxAt == k {
				cancelCall()
			}
			var err error
			q := fmt.Sprintf("stmt %d", k)
			switch {
			case st.Res == "ctx":
				cctx, cancel := context.WithCancel(ctx)
				cancel()
				_, err = s.ExecCtx(cctx, q)
			case plain:
				_, err = s.Exec(q)
			default:
				_, err = s.ExecCtx(ctx, q)
			}
			if err == nil {
				continue
			}
			switch st.OnFail {
			case "stop":
				if st.Res == "ctx" || errors.Is(err, context.Canceled) {
					out.Body = []any{"ctx", k}
				} else {
					out.Body = []any{"stmt", k}
				}
				bodyRet = err
				return err
			case "panic":
				out.Body = []any{"panic"}
				panic(fmt.Sprintf("statement %d failed: %v", k, err))
			}
		}
		switch c.Fin {
		case "err":
			out.Body = []any{"user"}
			bodyRet = errUser
			return errUser
		case "panic":
			out.Body = []any{"panic"}
			panic("body panics")
		case "goexit": // not generated by the check: used once to record what happens (notes/C14.md)
			out.Body = []any{"goexit"}
			runtime.Goexit()
		}
		out.Body = []any{"nil"}
		return nil
	}

	var err error
	call := func() {
		defer func() {
			if r := recover(); r != nil {
				out.Panicked = fmt.Sprint(r)
			}
		}()
		switch c.API {
		case "plain":
			err = conn.Transact(func(s sqlx.Session) error { return body(context.Background(), s) })
		case "cached":
			err = sqlc.NewConnWithCache(conn, nil).TransactCtx(callCtx, body)
		case "cachedplain":
			err = sqlc.NewConnWithCache(conn, nil).Transact(func(s sqlx.Session) error {
				return body(context.Background(), s)
			})
		default:
			err = conn.TransactCtx(callCtx, body)
		}
	}
	if c.Fin == "goexit" {
		done := make(chan struct{})
		go func() {
			defer close(done)
			call()
		}()
		<-done
		err = errors.New("goroutine exited: Transact never returned")
	} else {
		call()
	}

	out.Log = p.log
	if out.Log == nil {
		out.Log = [][]any{}
	}
	out.InUse = db.Stats().InUse
	f := &out.Err
	if err == nil {
		f.Nil = true
	} else {
		msg := err.Error()
		f.Text = msg
		f.Unavail = errors.Is(err, breaker.ErrServiceUnavailable)
		f.Begin = errors.Is(err, errBegin)
		f.Commit = errors.Is(err, errCommit)
		f.Rollback = errors.Is(err, errRollback)
		f.Canceled = errors.Is(err, context.Canceled)
		f.SameAsBody = bodyRet != nil && err == bodyRet
		f.Recover = strings.HasPrefix(msg, "recover from ")
		f.TxFailed = bodyRet != nil && strings.HasPrefix(msg, "transaction failed: "+bodyRet.Error()+", rollback failed: ")
	}
	out.Rejected = f.Unavail && len(out.Log) == 0 && out.Runs == 0
	return
}

func main() {
	logx.Disable()
	var cases []Case
	hx.ReadCases(&cases)
	w := hx.NewWriter()
	defer w.Close()
	for _, c := range cases {
		w.Put(runCase(c))
	}
}
