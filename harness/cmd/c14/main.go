// Executor for C14: drives the PUBLIC transaction API of go-zero
// (sqlx.SqlConn.Transact / TransactCtx, sqlc.CachedConn.Transact / TransactCtx,
// sqlx.NewSqlConn / NewSqlConnFromDB / NewSqlConnFromSession / NewSessionFromTx /
// WithAcceptable, CachedConn.WithSession) over a scripted database/sql driver.
//
// A case is a set of transactions ("threads") on one or several long-lived SqlConn
// objects, a schedule (which thread performs its next quantum: the call up to the
// body's first statement, then one statement per quantum, then the end of the body
// with the deferred Commit/Rollback), and the driver's script: the outcome
// ok / fail / panic of its 1st, 2nd, 3rd ... call, whoever makes it.  The driver logs
// every Begin / Exec / Query / Prepare / Stmt.Exec / Commit / Rollback it receives
// with the thread on whose behalf it was made and the connection it arrived on.
// The executor only executes and reports; generation, rendering and judging is in
// tools/props/c14.py and coq/theories/C14.
package main

import (
	"context"
	"database/sql"
	"database/sql/driver"
	"errors"
	"fmt"
	"io"
	"reflect"
	"runtime"
	"strings"
	"sync"
	"sync/atomic"
	"time"

	"github.com/zeromicro/go-zero/core/breaker"
	"github.com/zeromicro/go-zero/core/logx"
	"github.com/zeromicro/go-zero/core/stores/sqlc"
	"github.com/zeromicro/go-zero/core/stores/sqlx"
	"verifh/hx"
)

// ---- case format -------------------------------------------------------------

type Step struct {
	Act     string `json:"act"`     // stmt | nest | selfcommit | selfrollback | cancel | nop | inner | tripbrk
	Meth    string `json:"meth"`    // stmt: exec | query | prep
	WithCtx bool   `json:"withctx"` // stmt: the ...Ctx variant with the body's context
	Variant int    `json:"variant"` // which of the equivalent entry points (QueryRow / QueryRowPartial / ...; nest flavour)
	OnFail  string `json:"onfail"`  // stop (return the error) | ignore | panic
	Wrap    bool   `json:"wrap"`    // stop: return fmt.Errorf("...: %w", err) instead of err itself
	Inner   int    `json:"inner"`   // inner: thread run inline here (a transaction on the pool inside the body)
	// inner: the context handed to the nested call: background | body (the very context the body was
	// given) | derived (WithCancel(WithValue(<the body's context>)))
	InnerCtx string `json:"innerctx"`
}

type Thread struct {
	Conn     int    `json:"conn"`     // index into conns
	API      string `json:"api"`      // ctx | plain | cached | cachedplain
	Dead     bool   `json:"dead"`     // context done before the call
	Deadline bool   `json:"deadline"` // the context ends by its deadline (context.DeadlineExceeded), not by cancellation
	Rewrap   bool   `json:"rewrap"`   // the body talks to the tx through sqlx.NewSessionFromTx(<its *sql.Tx>)
	Steps    []Step `json:"steps"`
	Fin      string `json:"fin"`      // nil | err | panic | goexit
	FinVal   string `json:"finval"`   // err: which error value, "kind:mode" (default generic)
	// the value the body panics with: string | error | nil (panic(nil): *runtime.PanicNilError) | struct |
	// errpanics (an error whose Error method panics) | and runtime.Errors PRODUCED FOR REAL: runtime (write to a
	// nil map) | index (index out of range) | nilptr (nil pointer dereference) | assert (failed type assertion) |
	// divzero (integer division by zero) | nilfunc (call of a nil func)
	PanicVal string `json:"panicval"`
	Inline   bool   `json:"inline"`   // only ever run from an "inner" step of another thread
}

type ConnSpec struct {
	Kind   string `json:"kind"`   // db (NewSqlConnFromDB on the shared *sql.DB) | named (NewSqlConn) | bad (NewSqlConn, cannot open)
	Accept int    `json:"accept"` // number of WithAcceptable options
}

type Case struct {
	ID      int        `json:"id"`
	Trip    bool       `json:"trip"` // trip the circuit breaker of conns[0] first
	// free-running: every transaction on a goroutine of its own, all released at once, no gates; the
	// driver serialises its calls with a mutex and cannot tell who calls Begin / Commit / Rollback
	// (logged with transaction -1: the checker attributes them through the connection)
	Free bool `json:"free"`
	// free-running: while the transactions run, one more goroutine per SqlConn keeps making requests on it
	// that fail (conn.Exec on the pool, the database is down for them) - its breaker opens while bodies run
	Tripper bool `json:"tripper"`
	Conns   []ConnSpec `json:"conns"`
	Threads []Thread   `json:"threads"`
	Sched   []int      `json:"sched"`
	// one reply per driver call: ok | fail | panic, "+c": the caller's context is cancelled during that
	// call, ":kind:mode": the error value of a failure (kind generic | badconn | txdone | conndone | norows |
	// canceled | deadline | skip | unavail | eof; mode bare | wrap | custom)
	Oracle []string `json:"oracle"`
}

type ErrFacts struct {
	Nil        bool   `json:"nil"`
	Unavail    bool   `json:"unavail"`
	Begin      bool   `json:"begin"`
	Commit     bool   `json:"commit"`
	Rollback   bool   `json:"rollback"`
	SameAsBody bool   `json:"same_as_body"`
	Recover    bool   `json:"recover"`
	TxFailed   bool   `json:"txfailed"`
	NoConn     bool   `json:"noconn"`
	Sent       []string `json:"sent"` // sentinel values the error matches through errors.Is
	Nest       bool   `json:"nest"`
	Text       string `json:"text"`
}

type TOut struct {
	Started   bool     `json:"started"`
	Finished  bool     `json:"finished"`
	Returned  bool     `json:"returned"` // Transact returned normally (an error or nil)
	Panicked  string   `json:"panicked,omitempty"`
	DidPanic  bool     `json:"did_panic"` // Transact itself panicked
	Runs      int      `json:"runs"`
	Body      []any    `json:"body"` // none | running | nil | user | stmt k | ctx k | txdone k | nest k | selfc k | selfr k | panic | goexit
	Err       ErrFacts `json:"err"`
	InUse     int      `json:"inuse"`     // connections checked out when the call had ended
	NestRuns  int      `json:"nest_runs"` // invocations of bodies given to a nested Transact on the session
	SelfEnded bool     `json:"self_ended"`
	Acc       int      `json:"acc"`      // calls of the user's acceptable functions during this call
	AccSame   bool     `json:"acc_same"` // ... each with the very error Transact returned
	Rejected  bool     `json:"rejected"` // circuit breaker refused the call
	ConnID    int      `json:"conn_id"`  // connection of this thread's Begin (0: none)
	DeadAtCall bool    `json:"dead_at_call"` // the context handed to the call was already done
	ByDeadline bool    `json:"by_deadline"`  // that context ends (ended) with context.DeadlineExceeded
	// a Session method used AFTER the call had ended (the body leaked its session): "" (the body did not
	// run) | txdone (refused with sql.ErrTxDone) | other: <text>. A driver call it caused is in the log.
	Late string `json:"late"`
	// the breaker of this transaction's SqlConn was made to open while its body ran (tripbrk steps);
	// whether the breaker then really refused a request
	Trips     int  `json:"trips"`
	TripsOpen int  `json:"trips_open"`
	NoRewrap  bool `json:"no_rewrap"` // rewrap asked for, but the session holds no *sql.Tx this executor can find
}

type Out struct {
	ID      int     `json:"id"`
	Log     [][]any `json:"log"` // [tid, conn, kind, k, outcome, value kind, value mode]
	ESched  []int   `json:"esched"`
	Threads []TOut  `json:"threads"`
	Used    int     `json:"used"`  // driver calls made
	InUse   int     `json:"inuse"` // connections checked out when every call had ended
	Tripped bool    `json:"tripped"`
	Fail    string  `json:"fail,omitempty"`
	// the case asks for something this tree's session type does not offer (a Commit / Rollback method to
	// reach through a type assertion): not a failure, the case is re-run without those steps
	Unsupported string `json:"unsupported,omitempty"`
}

var (
	errBegin    = errors.New("inj: begin failed")
	errCommit   = errors.New("inj: commit failed")
	errRollback = errors.New("inj: rollback failed (driver)")
	errUser     = errors.New("inj: body says no")
	errOpen     = errors.New("inj: cannot open")
)

// ---- error values ---------------------------------------------------------------

var sentinelNames = []string{"badconn", "txdone", "conndone", "norows", "canceled", "deadline", "skip", "unavail", "eof"}

var sentinels = map[string]error{
	"badconn": driver.ErrBadConn, "txdone": sql.ErrTxDone, "conndone": sql.ErrConnDone, "norows": sql.ErrNoRows,
	"canceled": context.Canceled, "deadline": context.DeadlineExceeded, "skip": driver.ErrSkip,
	"unavail": breaker.ErrServiceUnavailable, "eof": io.EOF,
}

// customErr matches its origin marker and a sentinel value through Is only.
type customErr struct {
	role     error
	sentinel error
}

func (e customErr) Error() string { return "inj (custom): " + e.role.Error() + " / " + e.sentinel.Error() }
func (e customErr) Is(target error) bool {
	return target == e.role || target == e.sentinel
}

// mkErr builds the error value "kind:mode" for an injected failure whose origin marker is role.
func mkErr(role error, kind, mode string) error {
	sv, ok := sentinels[kind]
	if !ok {
		return role
	}
	switch mode {
	case "wrap":
		return fmt.Errorf("%w [%w]", role, sv)
	case "custom":
		return customErr{role: role, sentinel: sv}
	}
	return sv
}

func splitVal(s string) (kind, mode string) {
	kind, mode = "generic", "bare"
	if s == "" {
		return
	}
	parts := strings.Split(s, ":")
	kind = parts[0]
	if len(parts) > 1 {
		mode = parts[1]
	}
	if _, ok := sentinels[kind]; !ok {
		kind, mode = "generic", "bare"
	}
	return
}

type customPanic struct {
	A int
	B string
}

// errPanics: an error whose Error method panics (whoever formats the recovered value with %v meets it)
type errPanics struct{}

func (errPanics) Error() string { panic("inj: Error() panics") }

var (
	zeroInt  int
	nilPtr   *customPanic
	nilFunc  func() int
	anyValue any = "a string, not an int"
	shortArr     = []int{1, 2, 3}
)

// raisePanic makes the body panic with a value of the given kind; the runtime.Errors are produced for real.
func raisePanic(kind string) {
	switch kind {
	case "error":
		panic(errors.New("body panics with an error"))
	case "nil":
		panic(nil)
	case "struct":
		panic(customPanic{A: 1, B: "x"})
	case "errpanics":
		panic(errPanics{})
	case "runtime":
		var m map[string]int
		m["x"] = 1
	case "index":
		i := len(shortArr) + zeroInt
		_ = shortArr[i]
	case "nilptr":
		_ = nilPtr.A
	case "assert":
		_ = anyValue.(int)
	case "divzero":
		_ = 7 / zeroInt
	case "nilfunc":
		_ = nilFunc()
	}
	panic("body panics")
}

// ---- the scripted driver -------------------------------------------------------

type plan struct {
	c       *Case
	log     [][]any
	used    int
	armed   bool // script and logging active (off while tripping the breaker / pinging)
	cur     int  // thread on whose behalf driver calls are made right now
	nextID  int
	stmtErr map[string]error
	fail    string
	cancel  func(tid int) // cancels the context of that thread's TransactCtx call
	failed  map[int]bool     // per transaction: a driver call has failed since the flag was last cleared
	lastVal map[int][]string // ... with this error value (kind, mode)
	mu      sync.Mutex    // free-running cases: serialises the driver
	free    bool
}

var curPlan atomic.Pointer[plan]

const tripQuery = "trip the breaker"

func (p *plan) clearFailed(t int) {
	p.mu.Lock()
	defer p.mu.Unlock()
	p.failed[t] = false
}

func (p *plan) hasFailed(t int) bool {
	p.mu.Lock()
	defer p.mu.Unlock()
	return p.failed[t]
}

func (p *plan) lastOf(t int) []string {
	p.mu.Lock()
	defer p.mu.Unlock()
	return p.lastVal[t]
}

func (p *plan) next() string {
	i := p.used
	p.used++
	if i < len(p.c.Oracle) {
		return p.c.Oracle[i]
	}
	return "ok"
}

// call logs one driver call and returns its scripted outcome and, for a failure, the error
// value built around the origin marker role. A scripted panic is honoured by Commit / Rollback
// only; everywhere else it is an ordinary failure. Two values are not used where database/sql
// would answer them with driver calls of its own: ErrBadConn from Stmt.Exec (it repeats the
// call), the bare ErrSkip from ExecContext / QueryContext (it prepares the statement).
func (p *plan) call(conn int, kind string, k int, role error) (string, error) {
	return p.callAs(p.cur, conn, kind, k, role)
}

func (p *plan) callAs(tid, conn int, kind string, k int, role error) (string, error) {
	// always locked: a tree that begins with the caller's context lets database/sql roll back from a
	// goroutine of its own when that context ends, concurrently with the transaction's goroutine
	p.mu.Lock()
	defer p.mu.Unlock()
	rep := p.next()
	val := ""
	if i := strings.IndexByte(rep, ':'); i >= 0 {
		rep, val = rep[:i], rep[i+1:]
	}
	o := rep
	if strings.HasSuffix(o, "+c") {
		o = strings.TrimSuffix(o, "+c")
		if kind != "query" && p.cancel != nil && !p.free {
			p.cancel(p.cur)
		}
	}
	if o == "panic" && kind != "commit" && kind != "rollback" {
		o = "fail"
	}
	vk, vm := "generic", "bare"
	var err error
	if o == "fail" {
		vk, vm = splitVal(val)
		if kind == "stmtexec" && vk == "badconn" {
			vk, vm = "generic", "bare"
		}
		if (kind == "exec" || kind == "query") && vk == "skip" && vm == "bare" {
			vm = "wrap"
		}
		err = mkErr(role, vk, vm)
		p.failed[tid] = true
		p.lastVal[tid] = []string{vk, vm}
	}
	p.log = append(p.log, []any{tid, conn, kind, k, o, vk, vm})
	return o, err
}

func (p *plan) stmtError(tid, k int) error {
	key := fmt.Sprintf("%d/%d", tid, k)
	if e, ok := p.stmtErr[key]; ok {
		return e
	}
	e := fmt.Errorf("inj: statement %d of transaction %d failed", k, tid)
	p.stmtErr[key] = e
	return e
}

type connector struct{}

func (connector) Connect(context.Context) (driver.Conn, error) { return newConn(""), nil }
func (connector) Driver() driver.Driver                        { return fdriver{} }

type fdriver struct{}

// Open serves sqlx.NewSqlConn("verifc14", dsn).
func (fdriver) Open(dsn string) (driver.Conn, error) {
	if strings.HasPrefix(dsn, "bad") {
		return nil, errOpen
	}
	return newConn(dsn), nil
}

func newConn(dsn string) *fconn {
	p := curPlan.Load()
	if p.free {
		p.mu.Lock()
		defer p.mu.Unlock()
	}
	p.nextID++
	return &fconn{p: p, id: p.nextID}
}

type fconn struct {
	p  *plan
	id int
}

func parseQ(q string) (tid, k int, err error) {
	if _, e := fmt.Sscanf(q, "t%d stmt %d", &tid, &k); e != nil {
		return 0, 0, fmt.Errorf("unexpected query %q", q)
	}
	return
}

func (c *fconn) Close() error { return nil }

func (c *fconn) Begin() (driver.Tx, error) {
	p := c.p
	if !p.armed {
		return nil, errBegin
	}
	if o, err := p.call(c.id, "begin", -1, errBegin); o != "ok" {
		return nil, err
	}
	return &ftx{c: c}, nil
}

var errDown = errors.New("inj: database is down")

func (c *fconn) stmt(kind, q string) error {
	p := c.p
	if !p.armed || q == tripQuery {
		// requests made to trip the breaker: they fail, unlogged and outside the script
		return errDown
	}
	tid, k, err := parseQ(q)
	if err != nil {
		p.fail = err.Error()
		return err
	}
	if p.free {
		return c.freeStmt(kind, tid, k)
	}
	if tid != p.cur {
		p.fail = fmt.Sprintf("statement %q issued while thread %d was running", q, p.cur)
	}
	if o, err := p.call(c.id, kind, k, p.stmtError(tid, k)); o != "ok" {
		return err
	}
	return nil
}

// freeStmt: a statement of a free-running case; the transaction is read off the query text.
func (c *fconn) freeStmt(kind string, tid, k int) error {
	p := c.p
	p.mu.Lock()
	role := p.stmtError(tid, k)
	p.mu.Unlock()
	o, err := p.callAs(tid, c.id, kind, k, role)
	if o != "ok" {
		return err
	}
	return nil
}

func (c *fconn) ExecContext(_ context.Context, q string, _ []driver.NamedValue) (driver.Result, error) {
	if err := c.stmt("exec", q); err != nil {
		return nil, err
	}
	return driver.RowsAffected(1), nil
}

func (c *fconn) QueryContext(_ context.Context, q string, _ []driver.NamedValue) (driver.Rows, error) {
	if err := c.stmt("query", q); err != nil {
		return nil, err
	}
	return &frows{}, nil
}

func (c *fconn) Prepare(q string) (driver.Stmt, error) {
	if err := c.stmt("prepare", q); err != nil {
		return nil, err
	}
	return &fstmt{c: c, q: q}, nil
}

type fstmt struct {
	c *fconn
	q string
}

func (s *fstmt) Close() error  { return nil }
func (s *fstmt) NumInput() int { return -1 }
func (s *fstmt) Exec([]driver.Value) (driver.Result, error) {
	if err := s.c.stmt("stmtexec", s.q); err != nil {
		return nil, err
	}
	return driver.RowsAffected(1), nil
}
func (s *fstmt) Query([]driver.Value) (driver.Rows, error) { return nil, errors.New("not used") }

type frows struct{ done bool }

func (r *frows) Columns() []string { return []string{"v"} }
func (r *frows) Close() error      { return nil }
func (r *frows) Next(dest []driver.Value) error {
	if r.done {
		return io.EOF
	}
	r.done = true
	dest[0] = int64(7)
	return nil
}

type ftx struct{ c *fconn }

func (t *ftx) end(kind string, e error) error {
	o, err := t.c.p.call(t.c.id, kind, -1, e)
	switch o {
	case "ok":
		return nil
	case "panic":
		panic("inj: driver " + kind + " panics")
	}
	return err
}
func (t *ftx) Commit() error   { return t.end("commit", errCommit) }
func (t *ftx) Rollback() error { return t.end("rollback", errRollback) }

// ---- running one case ------------------------------------------------------------

type acceptor struct {
	tids []int // thread running when the function was consulted
	pos  []int // length of the driver log at that moment
	args []error
}

type thr struct {
	spec     *Thread
	out      TOut
	goch     chan struct{}
	done     chan struct{}
	nogate   bool
	cancel   context.CancelFunc
	bodyRet  error
	retErr   error
	finished bool
	sess     sqlx.Session    // the session the body was given (used again after the call has ended)
	parent   context.Context // inline threads: the context the nested call is derived from
	shareCtx bool            // ... or is handed as it is
}

type runner struct {
	c       *Case
	p       *plan
	db      *sql.DB
	dbs     []*sql.DB
	conns   []sqlx.SqlConn
	accs    [][]*acceptor
	threads []*thr
	parked  chan struct{}
	esched  []int
	fail    string
	unsupported string
}

var dsnSeq int

func (r *runner) inUse() int {
	n := 0
	for _, d := range r.dbs {
		n += d.Stats().InUse
	}
	return n
}

func (r *runner) setup() {
	c := r.c
	r.db = sql.OpenDB(connector{})
	r.dbs = append(r.dbs, r.db)
	for i, cs := range c.Conns {
		var opts []sqlx.SqlOption
		var as []*acceptor
		for j := 0; j < cs.Accept; j++ {
			a := &acceptor{}
			as = append(as, a)
			opts = append(opts, sqlx.WithAcceptable(func(err error) bool {
				a.tids = append(a.tids, curPlan.Load().cur)
				a.pos = append(a.pos, len(curPlan.Load().log))
				a.args = append(a.args, err)
				return false
			}))
		}
		r.accs = append(r.accs, as)
		switch cs.Kind {
		case "named", "bad":
			dsnSeq++
			dsn := fmt.Sprintf("c14-%d-%d-%d", c.ID, i, dsnSeq)
			if cs.Kind == "bad" {
				dsn = "bad-" + dsn
			}
			conn := sqlx.NewSqlConn("verifc14", dsn, opts...)
			if cs.Kind == "named" {
				// the pool is created (and pinged) by the first use; do it now, unarmed
				if raw, err := conn.RawDB(); err == nil {
					r.dbs = append(r.dbs, raw)
				} else {
					r.fail = "named connection could not be opened: " + err.Error()
				}
			}
			r.conns = append(r.conns, conn)
		default:
			r.conns = append(r.conns, sqlx.NewSqlConnFromDB(r.db, opts...))
		}
	}
}

func (r *runner) gate(t int) {
	th := r.threads[t]
	if r.c.Free {
		return
	}
	if th.nogate {
		// run inline from the body of another transaction: the quanta are recorded as they happen
		r.esched = append(r.esched, t)
		return
	}
	r.parked <- struct{}{}
	<-th.goch
}

func (r *runner) quantum(t int) bool {
	th := r.threads[t]
	if th.finished || th.spec.Inline {
		return true
	}
	r.p.cur = t
	r.esched = append(r.esched, t)
	if !th.out.Started {
		th.out.Started = true
		go r.threadMain(t)
	} else {
		th.goch <- struct{}{}
	}
	select {
	case <-r.parked:
		return true
	case <-time.After(20 * time.Second):
		r.fail = fmt.Sprintf("thread %d did not reach its next gate", t)
		return false
	}
}

type nestedKey struct{}

// ctrlCtx is a context ended by the executor, at a point of its choosing (from inside a driver call,
// from the body), with the error of its choosing: context.Canceled or context.DeadlineExceeded.
type ctrlCtx struct {
	context.Context
	done chan struct{}
	kind error
	once sync.Once
}

func newCtrl(parent context.Context, kind error) *ctrlCtx {
	c := &ctrlCtx{Context: parent, done: make(chan struct{}), kind: kind}
	if e := parent.Err(); e != nil {
		// the enclosing context is already done (it cannot end while the nested call runs)
		c.kind = e
		c.end()
	}
	return c
}

func (c *ctrlCtx) Done() <-chan struct{} { return c.done }
func (c *ctrlCtx) Err() error {
	select {
	case <-c.done:
		return c.kind
	default:
		return nil
	}
}
func (c *ctrlCtx) end() { c.once.Do(func() { close(c.done) }) }

func (r *runner) runInline(j int, bodyCtx context.Context, mode string) {
	if j < 0 || j >= len(r.threads) {
		return
	}
	th := r.threads[j]
	if th.out.Started {
		return
	}
	prev := r.p.cur
	r.p.cur = j
	th.nogate = true
	th.out.Started = true
	r.esched = append(r.esched, j)
	switch mode {
	case "body":
		th.parent, th.shareCtx = bodyCtx, true
	case "derived":
		th.parent = context.WithValue(bodyCtx, nestedKey{}, j)
	}
	go r.threadMain(j)
	<-th.done
	r.p.cur = prev
}

func (r *runner) accCalls(conn, t int) (n int, args []error, pos []int) {
	for _, a := range r.accs[conn] {
		for i, tid := range a.tids {
			if tid == t {
				n++
				args = append(args, a.args[i])
				pos = append(pos, a.pos[i])
			}
		}
	}
	return
}

func (r *runner) threadMain(t int) {
	th := r.threads[t]
	sp := th.spec
	conn := r.conns[sp.Conn]
	defer func() {
		if rec := recover(); rec != nil {
			th.out.DidPanic = true
			kind := fmt.Sprintf("%T", rec)
			if _, ok := rec.(runtime.Error); ok {
				kind += " (a runtime.Error)"
			}
			th.out.Panicked = "panic escaped: " + kind + ": " + safeSprint(rec)
		}
		r.finish(t)
		th.finished = true
		th.out.Finished = true
		close(th.done)
		if !th.nogate {
			r.parked <- struct{}{}
		}
	}()
	parent := th.parent
	if parent == nil {
		parent = context.Background()
	}
	var callCtx context.Context
	var cancel context.CancelFunc
	if th.shareCtx {
		// the very context of the enclosing body: nobody can end it while this call runs
		callCtx, cancel = parent, func() {}
	} else {
		kind := context.Canceled
		if sp.Deadline {
			kind = context.DeadlineExceeded
		}
		root := newCtrl(parent, kind)
		callCtx, cancel = root, root.end
	}
	th.cancel = cancel
	defer cancel()
	if sp.Dead {
		cancel()
	}
	th.out.DeadAtCall = callCtx.Err() != nil
	th.out.ByDeadline = sp.Deadline && !th.shareCtx
	if e := callCtx.Err(); e != nil {
		th.out.ByDeadline = e == context.DeadlineExceeded
	}
	body := r.body(t)
	var err error
	switch sp.API {
	case "plain":
		err = conn.Transact(func(s sqlx.Session) error { return body(context.Background(), s) })
	case "cached":
		err = sqlc.NewConnWithCache(conn, nil).TransactCtx(callCtx, body)
	case "cachedplain":
		err = sqlc.NewConnWithCache(conn, nil).Transact(func(s sqlx.Session) error {
			return body(context.Background(), s)
		})
	default:
		err = conn.TransactCtx(callCtx, body)
	}
	th.retErr = err
	th.out.Returned = true
}

func (r *runner) finish(t int) {
	th := r.threads[t]
	out := &th.out
	out.InUse = r.inUse()
	if th.sess != nil && !r.c.Free {
		// the body leaked its session: a statement through it after the call has ended must not reach
		// the driver (the connection is back in the pool, it may be serving another transaction)
		_, lerr := th.sess.Exec(fmt.Sprintf("t%d stmt %d", t, 9000))
		switch {
		case errors.Is(lerr, sql.ErrTxDone):
			out.Late = "txdone"
		case lerr == nil:
			out.Late = "other: nil"
		default:
			out.Late = "other: " + lerr.Error()
		}
	}
	r.p.mu.Lock()
	defer r.p.mu.Unlock()
	// the breaker's verdict on the call is asked for (a) with the very error that is returned and
	// (b) once the transaction is over: after the last driver call made on its behalf
	n, args, pos := r.accCalls(th.spec.Conn, t)
	out.Acc = n
	out.AccSame = true
	for _, a := range args {
		if a != th.retErr {
			out.AccSame = false
		}
	}
	for _, at := range pos {
		for i := at; i < len(r.p.log); i++ {
			if r.p.log[i][0].(int) == t {
				out.AccSame = false
			}
		}
	}
	for _, e := range r.p.log {
		if e[0].(int) == t && e[2].(string) == "begin" {
			out.ConnID = e[1].(int)
		}
	}
	f := &out.Err
	err := th.retErr
	if !out.Returned {
		return
	}
	if err == nil {
		f.Nil = true
		return
	}
	msg := err.Error()
	f.Text = msg
	f.Unavail = errors.Is(err, breaker.ErrServiceUnavailable)
	f.Begin = errors.Is(err, errBegin)
	f.Commit = errors.Is(err, errCommit)
	f.Rollback = errors.Is(err, errRollback)
	f.NoConn = errors.Is(err, errOpen)
	for _, name := range sentinelNames {
		if errors.Is(err, sentinels[name]) {
			f.Sent = append(f.Sent, name)
		}
	}
	f.Nest = msg == "cannot nest transactions"
	f.SameAsBody = th.bodyRet != nil && err == th.bodyRet
	f.Recover = strings.HasPrefix(msg, "recover from ")
	f.TxFailed = th.bodyRet != nil && strings.HasPrefix(msg, "transaction failed: "+th.bodyRet.Error()+", rollback failed: ")
	mine := false
	for _, e := range r.p.log {
		if e[0].(int) == t {
			mine = true
		}
	}
	out.Rejected = f.Unavail && !mine && out.Runs == 0
}

// rawTx finds the *sql.Tx inside the session handed to a body, whatever the session type looks like
// today (txSession{*sql.Tx}, a struct with more fields, a wrapper around another session ...).
func safeSprint(v any) (s string) {
	defer func() {
		if recover() != nil {
			s = "<unprintable>"
		}
	}()
	return fmt.Sprint(v)
}

func rawTx(s sqlx.Session) *sql.Tx {
	return findTx(reflect.ValueOf(s), 0)
}

var txType = reflect.TypeOf((*sql.Tx)(nil))

func findTx(v reflect.Value, depth int) *sql.Tx {
	if depth > 5 || !v.IsValid() {
		return nil
	}
	switch v.Kind() {
	case reflect.Interface:
		if v.IsNil() {
			return nil
		}
		return findTx(v.Elem(), depth+1)
	case reflect.Ptr:
		if v.IsNil() {
			return nil
		}
		if v.Type() == txType {
			return (*sql.Tx)(v.UnsafePointer())
		}
		return nil // other pointers (the SqlConn, locks, ...) are not followed
	case reflect.Struct:
		for i := 0; i < v.NumField(); i++ {
			if tx := findTx(v.Field(i), depth+1); tx != nil {
				return tx
			}
		}
	}
	return nil
}

// selfEnd: the body ends the transaction behind Transact's back, through the session's own Commit /
// Rollback method if it has one, else on the *sql.Tx inside it.
func selfEnd(s sqlx.Session, commit bool) func() error {
	if commit {
		if c, ok := s.(interface{ Commit() error }); ok {
			return c.Commit
		}
	} else if c, ok := s.(interface{ Rollback() error }); ok {
		return c.Rollback
	}
	if tx := rawTx(s); tx != nil {
		if commit {
			return tx.Commit
		}
		return tx.Rollback
	}
	return nil
}

// tripBreaker: while the body of transaction t runs, other requests on the same SqlConn fail (the
// database is down for them) until its breaker refuses requests; then it is up again. None of this is
// scripted or logged, and it is on nobody's behalf (the acceptable functions see thread -2).
func (r *runner) tripBreaker(th *thr) {
	p := r.p
	conn := r.conns[th.spec.Conn]
	prev := p.cur
	p.cur = -2
	opened, after := false, 0
	for i := 0; i < 6000 && after < 400; i++ {
		_, err := conn.Exec(tripQuery)
		if errors.Is(err, breaker.ErrServiceUnavailable) {
			opened = true
		}
		if opened {
			after++
		}
	}
	p.cur = prev
	th.out.Trips++
	if opened {
		th.out.TripsOpen++
	}
}

func (r *runner) doStmt(ctx context.Context, s sqlx.Session, t, k int, st Step) error {
	q := fmt.Sprintf("t%d stmt %d", t, k)
	switch st.Meth {
	case "prep":
		var ps sqlx.StmtSession
		var err error
		if st.WithCtx {
			ps, err = s.PrepareCtx(ctx, q)
		} else {
			ps, err = s.Prepare(q)
		}
		if err != nil {
			return err
		}
		defer ps.Close()
		if st.WithCtx {
			_, err = ps.ExecCtx(ctx)
		} else {
			_, err = ps.Exec()
		}
		return err
	case "query":
		var one int64
		var many []int64
		var err error
		switch st.Variant % 4 {
		case 0:
			if st.WithCtx {
				err = s.QueryRowCtx(ctx, &one, q)
			} else {
				err = s.QueryRow(&one, q)
			}
		case 1:
			if st.WithCtx {
				err = s.QueryRowPartialCtx(ctx, &one, q)
			} else {
				err = s.QueryRowPartial(&one, q)
			}
		case 2:
			if st.WithCtx {
				err = s.QueryRowsCtx(ctx, &many, q)
			} else {
				err = s.QueryRows(&many, q)
			}
		default:
			if st.WithCtx {
				err = s.QueryRowsPartialCtx(ctx, &many, q)
			} else {
				err = s.QueryRowsPartial(&many, q)
			}
		}
		if err == nil && st.Variant%4 < 2 && one != 7 {
			return fmt.Errorf("query returned %d", one)
		}
		if err == nil && st.Variant%4 >= 2 && (len(many) != 1 || many[0] != 7) {
			return fmt.Errorf("query returned %v", many)
		}
		return err
	default:
		var err error
		if st.WithCtx {
			_, err = s.ExecCtx(ctx, q)
		} else {
			_, err = s.Exec(q)
		}
		return err
	}
}

// doNest: the body tries to open a transaction on the session it was given.
func (r *runner) doNest(ctx context.Context, s sqlx.Session, th *thr, st Step) error {
	inner := func(sqlx.Session) error { th.out.NestRuns++; return nil }
	innerCtx := func(context.Context, sqlx.Session) error { th.out.NestRuns++; return nil }
	switch st.Variant % 4 {
	case 0:
		return sqlx.NewSqlConnFromSession(s).Transact(inner)
	case 1:
		return sqlx.NewSqlConnFromSession(s).TransactCtx(ctx, innerCtx)
	case 2:
		return sqlc.NewConnWithCache(r.conns[th.spec.Conn], nil).WithSession(s).Transact(inner)
	default:
		return sqlc.NewConnWithCache(r.conns[th.spec.Conn], nil).WithSession(s).TransactCtx(ctx, innerCtx)
	}
}

func (r *runner) body(t int) func(context.Context, sqlx.Session) error {
	th := r.threads[t]
	sp := th.spec
	out := &th.out
	return func(ctx context.Context, s sqlx.Session) (ret error) {
		out.Runs++
		out.Body = []any{"running"}
		defer func() {
			// a panic that did not originate in this script (the driver's): record it and pass it on
			if out.Body[0] == "running" {
				if p := recover(); p != nil {
					out.Body = []any{"panic"}
					panic(p)
				}
			}
		}()
		th.sess = s
		if sp.Rewrap {
			if tx := rawTx(s); tx != nil {
				s = sqlx.NewSessionFromTx(tx)
			} else {
				out.NoRewrap = true // the body talks to the session it was given
			}
		}
		for k, st := range sp.Steps {
			r.gate(t)
			r.p.clearFailed(t)
			var err error
			switch st.Act {
			case "stmt":
				err = r.doStmt(ctx, s, t, k, st)
			case "nest":
				err = r.doNest(ctx, s, th, st)
			case "selfcommit", "selfrollback":
				if end := selfEnd(s, st.Act == "selfcommit"); end != nil {
					out.SelfEnded = true
					err = end()
				} else {
					r.unsupported = "the session has no Commit / Rollback to reach"
				}
			case "tripbrk":
				if !r.c.Free {
					r.tripBreaker(th)
				}
			case "cancel":
				th.cancel()
			case "inner":
				r.runInline(st.Inner, ctx, st.InnerCtx)
			}
			if err == nil {
				continue
			}
			switch st.OnFail {
			case "stop":
				switch {
				case r.p.hasFailed(t) && st.Act == "selfcommit":
					out.Body = []any{"selfc", k, r.p.lastOf(t)[0], r.p.lastOf(t)[1]}
				case r.p.hasFailed(t) && st.Act == "selfrollback":
					out.Body = []any{"selfr", k, r.p.lastOf(t)[0], r.p.lastOf(t)[1]}
				case r.p.hasFailed(t):
					// the driver failed the step
					out.Body = []any{"stmt", k, r.p.lastOf(t)[0], r.p.lastOf(t)[1]}
				case errors.Is(err, context.Canceled), errors.Is(err, context.DeadlineExceeded):
					// refused by database/sql before the driver
					out.Body = []any{"ctx", k}
				case errors.Is(err, sql.ErrTxDone):
					out.Body = []any{"txdone", k}
				case err.Error() == "cannot nest transactions":
					out.Body = []any{"nest", k}
				default:
					out.Body = []any{"unexpected", k}
				}
				if st.Wrap {
					err = fmt.Errorf("step %d: %w", k, err)
				}
				th.bodyRet = err
				return err
			case "panic":
				out.Body = []any{"panic"}
				if sp.PanicVal != "" && sp.PanicVal != "string" {
					raisePanic(sp.PanicVal)
				}
				panic(fmt.Sprintf("statement %d failed: %v", k, err))
			}
		}
		r.gate(t)
		switch sp.Fin {
		case "err":
			out.Body = []any{"user"}
			vk, vm := splitVal(sp.FinVal)
			th.bodyRet = mkErr(errUser, vk, vm)
			return th.bodyRet
		case "panic":
			out.Body = []any{"panic"}
			raisePanic(sp.PanicVal)
			panic("body panics")
		case "goexit":
			out.Body = []any{"goexit"}
			runtime.Goexit()
		}
		out.Body = []any{"nil"}
		return nil
	}
}

func runCase(c Case) (out Out) {
	out.ID = c.ID
	p := &plan{c: &c, stmtErr: map[string]error{}, armed: false, cur: -1, failed: map[int]bool{}, lastVal: map[int][]string{}}
	curPlan.Store(p)
	r := &runner{c: &c, p: p, parked: make(chan struct{})}
	p.cancel = func(tid int) {
		if tid >= 0 && tid < len(r.threads) && r.threads[tid].cancel != nil {
			r.threads[tid].cancel()
		}
	}
	r.setup()
	defer func() {
		for _, d := range r.dbs {
			d.Close()
		}
	}()
	for i := range c.Threads {
		r.threads = append(r.threads, &thr{spec: &c.Threads[i], goch: make(chan struct{}), done: make(chan struct{}),
			out: TOut{Body: []any{"none"}, AccSame: true}})
	}
	if c.Trip && len(r.conns) > 0 {
		tripped := false
		for i := 0; i < 5000 && !tripped; i++ {
			err := r.conns[0].Transact(func(sqlx.Session) error { return nil })
			tripped = errors.Is(err, breaker.ErrServiceUnavailable)
		}
		// (a breaker that cannot be tripped is no reason to stop: whatever the calls below do is judged)
		out.Tripped = tripped
		for _, as := range r.accs {
			for _, a := range as {
				a.tids, a.args, a.pos = nil, nil, nil
			}
		}
	}
	p.armed = true
	if c.Free {
		p.free, p.cur = true, -1
		start := make(chan struct{})
		for t := range r.threads {
			th := r.threads[t]
			th.nogate = true
			th.out.Started = true
			go func(t int) {
				<-start
				r.threadMain(t)
			}(t)
		}
		stop := make(chan struct{})
		var trippers sync.WaitGroup
		if c.Tripper {
			for _, conn := range r.conns {
				trippers.Add(1)
				go func(conn sqlx.SqlConn) {
					defer trippers.Done()
					<-start
					for i := 0; i < 200000; i++ {
						select {
						case <-stop:
							return
						default:
						}
						_, _ = conn.Exec(tripQuery)
						if i%64 == 0 {
							runtime.Gosched()
						}
					}
				}(conn)
			}
		}
		close(start)
		for _, th := range r.threads {
			select {
			case <-th.done:
			case <-time.After(30 * time.Second):
				out.Fail = "free-running transaction did not end"
				close(stop)
				return
			}
		}
		close(stop)
		trippers.Wait()
		out.Log = p.log
		if out.Log == nil {
			out.Log = [][]any{}
		}
		out.ESched = []int{}
		out.Used = p.used
		out.InUse = r.inUse()
		for _, th := range r.threads {
			out.Threads = append(out.Threads, th.out)
		}
		return
	}
	ok := true
	for _, t := range c.Sched {
		if t < 0 || t >= len(r.threads) {
			continue
		}
		if ok = r.quantum(t); !ok {
			break
		}
	}
	// drain: every transaction that was begun is run to its end
	for t := 0; ok && t < len(r.threads); t++ {
		for i := 0; ok && i < len(c.Threads[t].Steps)+2 && !r.threads[t].finished; i++ {
			ok = r.quantum(t)
		}
	}
	out.Log = p.log
	if out.Log == nil {
		out.Log = [][]any{}
	}
	out.ESched = r.esched
	if out.ESched == nil {
		out.ESched = []int{}
	}
	out.Used = p.used
	out.InUse = r.inUse()
	for _, th := range r.threads {
		out.Threads = append(out.Threads, th.out)
	}
	if r.fail != "" {
		out.Fail = r.fail
	} else if p.fail != "" {
		out.Fail = p.fail
	}
	out.Unsupported = r.unsupported
	return
}

func main() {
	logx.Disable()
	sql.Register("verifc14", fdriver{})
	var cases []Case
	hx.ReadCases(&cases)
	w := hx.NewWriter()
	defer w.Close()
	for _, c := range cases {
		w.Put(runCase(c))
	}
}
