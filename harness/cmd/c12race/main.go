// Executor for C12 (see verifh/c12x). Built with -race for the free-running monitor of the thorough tier.
package main

import "verifh/c12x"

func main() { c12x.Main() }
