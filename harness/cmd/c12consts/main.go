// Prints the constants of go-zero that C12's theorems are instantiated with
// (see c12x.Consts): regenerated on every run into coq/gen/C12Consts.v.
package main

import "verifh/c12x"

func main() { c12x.ConstsMain() }
