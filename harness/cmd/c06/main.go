// Executor for C06: drives sqlc.CachedConn (over cache.New: one cacheNode, or a
// cacheCluster dispatching by consistent hash) against two miniredis servers and
// a harness-owned fake database.  Per operation it reports the returned class and
// row, the number of database queries the operation ran, and the full contents of
// the cache servers (value class + TTL) afterwards.
//
// Built with an overlay that ADDS core/stores/cache/zz_verif_c06.go (the cleaner's
// timing wheel gets a ticker owned by this program); nothing is replaced.
//
// Case kinds: "" (sequential history) and "conc" (N concurrent readers of one
// uncached key with a gated database query: load suppression).
package main

import (
	"context"
	"database/sql"
	"encoding/json"
	"errors"
	"fmt"
	"sort"
	"strconv"
	"strings"
	"sync"
	"sync/atomic"
	"time"

	"github.com/alicebob/miniredis/v2"
	"github.com/zeromicro/go-zero/core/collection"
	"github.com/zeromicro/go-zero/core/logx"
	"github.com/zeromicro/go-zero/core/stores/cache"
	"github.com/zeromicro/go-zero/core/stores/redis"
	"github.com/zeromicro/go-zero/core/stores/sqlc"
	"github.com/zeromicro/go-zero/core/stores/sqlx"
	"verifh/hx"
)

type Case struct {
	ID       int     `json:"id"`
	Kind     string  `json:"kind"`
	Nodes    int     `json:"nodes"`
	Expiry   int64   `json:"expiry"`   // ns; <= 0: option not given
	NfExpiry int64   `json:"nfexpiry"` // ns; <= 0: option not given
	Rows     [][]int `json:"rows"`     // initial database rows [pk,u,v]
	Ops      [][]any `json:"ops"`
	Hole     string  `json:"hole"`    // cache.notFoundPlaceholder as extracted from the sources
	Readers  int     `json:"readers"` // kind conc
	Present  bool    `json:"present"` // kind conc
}

type Entry struct {
	K    string `json:"k"`
	T    string `json:"t"` // row | pk | hole | raw
	A    int    `json:"a"`
	B    int    `json:"b"`
	TTL  int64  `json:"ttl"` // ms; 0 = persistent
	Node int    `json:"node"`
}

type OpObs struct {
	R    string  `json:"r"` // ok | row | nf | dberr | cerr
	Pk   int     `json:"pk"`
	U    int     `json:"u"`
	V    int     `json:"v"`
	QI   int     `json:"qi"` // index queries run by this op
	QP   int     `json:"qp"` // primary queries run by this op
	Dump []Entry `json:"dump"`
}

type Out struct {
	ID     int            `json:"id"`
	NodeOf map[string]int `json:"nodeof"`
	Obs    []OpObs        `json:"obs"`
	Conc   *ConcObs       `json:"conc,omitempty"`
	Err    string         `json:"err,omitempty"`
}

type ConcObs struct {
	Queries int      `json:"queries"`
	Blocked int      `json:"blocked"` // readers parked in the barrier when the gate opened
	Results []string `json:"results"` // per reader: "row:pk:u:v" | "nf" | "dberr" | "cerr"
	MaxPar  int      `json:"maxpar"`  // max number of queries in flight at once
}

type Row struct {
	Pk int `json:"pk"`
	U  int `json:"u"`
	V  int `json:"v"`
}

var errDB = errors.New("verif: database down")

type fakeDB struct {
	mid   int // >= 0: the next query first takes this cache node down (mid-operation outage)
	mu    sync.Mutex
	rows  map[int]Row
	fault bool
	qi    int
	qp    int
	gate  chan struct{} // conc: queries park here
	inq   int32
	maxq  int32
}

func (d *fakeDB) enter() {
	if d.mid >= 0 {
		servers[d.mid].SetError("ERR verif outage")
		faulted[d.mid] = true
		d.mid = -1
	}
	n := atomic.AddInt32(&d.inq, 1)
	for {
		m := atomic.LoadInt32(&d.maxq)
		if n <= m || atomic.CompareAndSwapInt32(&d.maxq, m, n) {
			break
		}
	}
	if d.gate != nil {
		<-d.gate
	}
}

func (d *fakeDB) leave() { atomic.AddInt32(&d.inq, -1) }

func (d *fakeDB) byPrimary(pk int, v any) error {
	d.mu.Lock()
	d.qp++
	d.mu.Unlock()
	d.enter()
	defer d.leave()
	d.mu.Lock()
	defer d.mu.Unlock()
	if d.fault {
		return errDB
	}
	r, ok := d.rows[pk]
	if !ok {
		return sqlx.ErrNotFound
	}
	*(v.(*Row)) = r
	return nil
}

func (d *fakeDB) byIndex(u int, v any) (any, error) {
	d.mu.Lock()
	d.qi++
	d.mu.Unlock()
	d.enter()
	defer d.leave()
	d.mu.Lock()
	defer d.mu.Unlock()
	if d.fault {
		return nil, errDB
	}
	for _, r := range d.rows {
		if r.U == u {
			*(v.(*Row)) = r
			return r.Pk, nil
		}
	}
	return nil, sqlx.ErrNotFound
}

// write: put (present) or delete; a second row with the same u violates the unique index
func (d *fakeDB) write(pk int, present bool, u, v int) error {
	d.mu.Lock()
	defer d.mu.Unlock()
	if d.fault {
		return errDB
	}
	if !present {
		delete(d.rows, pk)
		return nil
	}
	for _, r := range d.rows {
		if r.U == u && r.Pk != pk {
			return errDB
		}
	}
	d.rows[pk] = Row{pk, u, v}
	return nil
}

type result struct{}

func (result) LastInsertId() (int64, error) { return 0, nil }
func (result) RowsAffected() (int64, error) { return 1, nil }

type ticker struct{ c chan time.Time }

func (t *ticker) Chan() <-chan time.Time { return t.c }
func (t *ticker) Stop()                  {}

var (
	servers [2]*miniredis.Miniredis
	padders [2]*redis.Redis
	tk      = &ticker{c: make(chan time.Time)}
	wheel   *collection.TimingWheel
	faulted [2]bool
	closed  [2]bool // connection loss (miniredis Close / Restart)
	lostOps [2]int
	hole    = "*"
)

const sentinel = "verif-c06-sentinel"

func busy(stack string) bool {
	if strings.Contains(stack, "threading.(*TaskRunner).Schedule.func") ||
		strings.Contains(stack, "threading.GoSafe") || strings.Contains(stack, "cache.clean") {
		return true
	}
	if !strings.Contains(stack, "collection.(*TimingWheel)") {
		return false
	}
	if strings.Contains(stack, "collection.(*TimingWheel).run(") &&
		!strings.Contains(stack, "runTasks") && !strings.Contains(stack, "drainAll.func") {
		return false
	}
	return true
}

func settle() bool {
	wheel.RemoveTimer(sentinel)
	return hx.Quiesce(busy, 5*time.Second)
}

// the redis client carries a circuit breaker (shared per address); keep it far
// from tripping by following every operation run under an injected outage with
// accepted commands (the outage is lifted for them and put back).
func pad() {
	for n := 0; n < 2; n++ {
		if closed[n] {
			lostOps[n]++
			continue
		}
		if !faulted[n] {
			continue
		}
		servers[n].SetError("")
		for i := 0; i < 8; i++ {
			padders[n].ExistsCtx(context.Background(), "verif-pad")
		}
		servers[n].SetError("ERR verif outage")
	}
}

func keyName(k any) string { return k.(string) }

func num(v any) int { return int(v.(float64)) }

func keyer(primary any) string {
	switch x := primary.(type) {
	case int:
		return "p" + strconv.Itoa(x)
	case int64:
		return "p" + strconv.FormatInt(x, 10)
	case float64:
		return "p" + strconv.Itoa(int(x))
	case json.Number:
		return "p" + x.String()
	}
	return fmt.Sprintf("p%v", primary)
}

func classify(err error) string {
	switch {
	case err == nil:
		return "ok"
	case errors.Is(err, sql.ErrNoRows):
		return "nf"
	case errors.Is(err, errDB):
		return "dberr"
	}
	return "cerr"
}

func dump(nodes int) []Entry {
	res := []Entry{}
	for n := 0; n < nodes; n++ {
		m := servers[n]
		for _, k := range m.Keys() {
			val, err := m.Get(k)
			e := Entry{K: k, Node: n, TTL: int64(m.TTL(k) / time.Millisecond)}
			if m.TTL(k) > 0 && e.TTL == 0 {
				e.TTL = 1
			}
			var r Row
			var f float64
			switch {
			case err != nil:
				e.T = "raw"
			case val == hole:
				e.T = "hole"
			case strings.HasPrefix(val, "{") && json.Unmarshal([]byte(val), &r) == nil &&
				k == "p"+strconv.Itoa(r.Pk):
				e.T, e.A, e.B = "row", r.U, r.V
			case json.Unmarshal([]byte(val), &f) == nil && f == float64(int(f)) && strings.HasPrefix(k, "u"):
				e.T, e.A = "pk", int(f)
			default:
				e.T = "raw"
			}
			res = append(res, e)
		}
	}
	sort.Slice(res, func(i, j int) bool { return res[i].K < res[j].K })
	return res
}

func newConn(c Case, db *fakeDB) sqlc.CachedConn {
	var conf cache.CacheConf
	for n := 0; n < c.Nodes; n++ {
		conf = append(conf, cache.NodeConf{
			RedisConf: redis.RedisConf{Host: servers[n].Addr(), Type: redis.NodeType},
			Weight:    100,
		})
	}
	var opts []cache.Option
	if c.Expiry > 0 {
		opts = append(opts, cache.WithExpiry(time.Duration(c.Expiry)))
	}
	if c.NfExpiry > 0 {
		opts = append(opts, cache.WithNotFoundExpiry(time.Duration(c.NfExpiry)))
	}
	return sqlc.NewConn(nil, conf, opts...)
}

func reopen(n int) {
	if !closed[n] {
		return
	}
	if err := servers[n].Restart(); err != nil {
		hx.Fatal("miniredis restart: %v", err)
	}
	closed[n] = false
	// stale pooled connections fail once and are retried by go-redis; then feed the breaker
	for i := 0; i < 8*lostOps[n]+24; i++ {
		padders[n].ExistsCtx(context.Background(), "verif-pad")
	}
	lostOps[n] = 0
}

func reset() {
	for n := 0; n < 2; n++ {
		reopen(n)
		servers[n].SetError("")
		servers[n].FlushAll()
		faulted[n] = false
	}
	wheel.Drain(func(k, v any) {})
	settle()
}

var nodeCache = map[string]int{}

// which server a key lives on (the consistent hash is C15's; here it is observed)
func probe(cc sqlc.CachedConn, nodes int) map[string]int {
	res := map[string]int{}
	for _, pre := range []string{"p", "u"} {
		for i := 0; i < 12; i++ {
			k := pre + strconv.Itoa(i)
			if nodes == 1 {
				res[k] = 0
				continue
			}
			if n, ok := nodeCache[k]; ok {
				res[k] = n
				continue
			}
			cc.SetCacheWithExpire(k, 1, time.Hour)
			for n := 0; n < nodes; n++ {
				if servers[n].Exists(k) {
					res[k] = n
					nodeCache[k] = n
				}
			}
		}
	}
	if nodes > 1 {
		for n := 0; n < 2; n++ {
			servers[n].FlushAll()
		}
	}
	return res
}

func keysOf(v any) []string {
	var ks []string
	for _, k := range v.([]any) {
		ks = append(ks, keyName(k))
	}
	return ks
}

func runSeq(c Case) Out {
	out := Out{ID: c.ID}
	reset()
	db := &fakeDB{rows: map[int]Row{}, mid: -1}
	if c.Hole != "" {
		hole = c.Hole
	}
	for _, r := range c.Rows {
		db.rows[r[0]] = Row{r[0], r[1], r[2]}
	}
	cc := newConn(c, db)
	out.NodeOf = probe(cc, c.Nodes)
	ctx := context.Background()
	delFailed := false
	for _, op := range c.Ops {
		db.qi, db.qp = 0, 0
		o := OpObs{}
		var row Row
		var err error
		isRead := false
		kind := op[0].(string)
		if kind == "takemid" || kind == "qrimid" {
			db.mid = num(op[2])
			kind = kind[:len(kind)-3]
		}
		switch kind {
		case "take":
			p := num(op[1])
			isRead = true
			err = cc.QueryRowCtx(ctx, &row, "p"+strconv.Itoa(p), func(ctx context.Context, conn sqlx.SqlConn, v any) error {
				return db.byPrimary(p, v)
			})
		case "qri":
			u := num(op[1])
			isRead = true
			err = cc.QueryRowIndexCtx(ctx, &row, "u"+strconv.Itoa(u), keyer,
				func(ctx context.Context, conn sqlx.SqlConn, v any) (any, error) {
					return db.byIndex(u, v)
				},
				func(ctx context.Context, conn sqlx.SqlConn, v, primary any) error {
					pk, e := strconv.Atoi(keyer(primary)[1:])
					if e != nil {
						return e
					}
					return db.byPrimary(pk, v)
				})
		case "get":
			isRead = true
			err = cc.GetCacheCtx(ctx, "p"+strconv.Itoa(num(op[1])), &row)
		case "exec":
			p := num(op[1])
			present := op[2].(string) == "put"
			var u, v int
			var keys []string
			if present {
				u, v, keys = num(op[3]), num(op[4]), keysOf(op[5])
			} else {
				keys = keysOf(op[3])
			}
			_, err = cc.ExecCtx(ctx, func(ctx context.Context, conn sqlx.SqlConn) (sql.Result, error) {
				if e := db.write(p, present, u, v); e != nil {
					return nil, e
				}
				return result{}, nil
			}, keys...)
		case "set":
			p := num(op[1])
			err = cc.SetCacheCtx(ctx, "p"+strconv.Itoa(p), Row{p, num(op[2]), num(op[3])})
		case "setex":
			p := num(op[1])
			err = cc.SetCacheWithExpireCtx(ctx, "p"+strconv.Itoa(p), Row{p, num(op[2]), num(op[3])},
				time.Duration(int64(op[4].(float64))))
		case "del":
			err = cc.DelCacheCtx(ctx, keysOf(op[1])...)
		case "adv":
			for n := 0; n < 2; n++ {
				servers[n].FastForward(time.Duration(num(op[1])) * time.Millisecond)
			}
		case "dbfault":
			db.fault = num(op[1]) != 0
		case "cclose":
			n := num(op[1])
			if num(op[2]) != 0 {
				if !closed[n] {
					servers[n].Close()
					closed[n] = true
				}
			} else {
				reopen(n)
			}
		case "cfault":
			n := num(op[1])
			faulted[n] = num(op[2]) != 0
			if faulted[n] {
				servers[n].SetError("ERR verif outage")
			} else {
				servers[n].SetError("")
			}
		case "tick":
			for i := 0; i < num(op[1]); i++ {
				tk.c <- time.Now()
				// the wheel holds a timer only after a DEL failed in this case; without one a
				// tick runs no callback and the (costly) goroutine census is skipped
				if !delFailed {
					wheel.RemoveTimer(sentinel)
					continue
				}
				if !settle() {
					out.Err = "cleaner did not quiesce"
					return out
				}
				pad()
			}
		default:
			out.Err = "unknown op " + op[0].(string)
			return out
		}
		db.mid = -1
		switch kind {
		case "exec", "del":
			// AddCleanTask hands the timer to the wheel's loop synchronously (unbuffered channel)
			if faulted[0] || faulted[1] || closed[0] || closed[1] {
				delFailed = true
			}
		}
		pad()
		o.R = classify(err)
		if isRead && err == nil {
			o.R, o.Pk, o.U, o.V = "row", row.Pk, row.U, row.V
		}
		o.QI, o.QP = db.qi, db.qp
		o.Dump = dump(c.Nodes)
		out.Obs = append(out.Obs, o)
	}
	return out
}

// load suppression: `readers` goroutines Take the same uncached key; the database
// query parks on a gate until every other reader is parked inside the barrier.
func runConc(c Case) Out {
	out := Out{ID: c.ID}
	reset()
	db := &fakeDB{rows: map[int]Row{}, gate: make(chan struct{}), mid: -1}
	if c.Present {
		db.rows[1] = Row{1, 7, 42}
	}
	cc := newConn(c, db)
	ctx := context.Background()
	res := make([]string, c.Readers)
	var wg sync.WaitGroup
	for i := 0; i < c.Readers; i++ {
		wg.Add(1)
		go func(i int) {
			defer wg.Done()
			var row Row
			err := cc.QueryRowCtx(ctx, &row, "p1", func(ctx context.Context, conn sqlx.SqlConn, v any) error {
				return db.byPrimary(1, v)
			})
			if err == nil {
				res[i] = fmt.Sprintf("row:%d:%d:%d", row.Pk, row.U, row.V)
			} else {
				res[i] = classify(err)
			}
		}(i)
	}
	// wait until one reader is inside the query and the others wait in the barrier
	parked := func() (inGate, inBarrier int) {
		for _, g := range hx.Stacks() {
			if !strings.Contains(g, "main.runConc.func") {
				continue
			}
			if strings.Contains(g, "main.(*fakeDB).enter") && hx.Blocked(g) {
				inGate++
			} else if strings.Contains(g, "syncx.(*flightGroup).createCall") && hx.Blocked(g) {
				inBarrier++
			}
		}
		return
	}
	deadline := time.Now().Add(3 * time.Second)
	stable := 0
	var g, b int
	for time.Now().Before(deadline) {
		g, b = parked()
		if g+b == c.Readers {
			stable++
			if stable >= 2 {
				break
			}
		} else {
			stable = 0
		}
		time.Sleep(200 * time.Microsecond)
	}
	close(db.gate)
	wg.Wait()
	out.Conc = &ConcObs{Queries: db.qp, Blocked: b, Results: res, MaxPar: int(db.maxq)}
	return out
}

func main() {
	logx.Disable()
	var cases []Case
	hx.ReadCases(&cases)
	w := hx.NewWriter()
	defer w.Close()
	for n := 0; n < 2; n++ {
		m, err := miniredis.Run()
		if err != nil {
			hx.Fatal("miniredis: %v", err)
		}
		servers[n] = m
		padders[n] = redis.New(m.Addr())
	}
	var err error
	wheel, err = cache.VerifNewCleanerWheel(tk)
	if err != nil {
		hx.Fatal("cleaner wheel: %v", err)
	}
	for _, c := range cases {
		if c.Nodes < 1 {
			c.Nodes = 1
		}
		if c.Kind == "conc" {
			w.Put(runConc(c))
		} else {
			w.Put(runSeq(c))
		}
	}
}
