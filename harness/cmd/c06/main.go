// Executor for C06: drives sqlc.CachedConn (over cache.New: one cacheNode, or a
// cacheCluster dispatching by consistent hash; or sqlc.NewNodeConn) against two
// miniredis servers and a harness-owned fake database.  Per operation it reports the
// returned class and row, the number of database queries the operation ran, every
// primary key the user callbacks (keyer, primaryQuery) were handed - with its Go
// dynamic type -, and the full contents of the cache servers (value class + TTL)
// afterwards.
//
// Primary keys are int64 (any value, also beyond 2^53) or strings (any bytes); index
// values and row contents are int64.  They travel as decimal / raw text in the case
// file and in the observations, never through float64.
//
// Built with an overlay that ADDS core/stores/cache/zz_verif_c06.go (the cleaner's
// timing wheel gets a ticker owned by this program); nothing is replaced.
//
// Case kinds: "" (sequential history), "conc" (N concurrent readers of one uncached
// primary key with a gated database query: load suppression) and "concqri" (the same
// through QueryRowIndex: the readers that share the index load decode the primary key
// from the shared result).
package main

import (
	"bytes"
	"context"
	"database/sql"
	"database/sql/driver"
	"encoding/json"
	"errors"
	"fmt"
	"io"
	"math/rand"
	"regexp"
	"runtime"
	"sort"
	"strconv"
	"strings"
	"sync"
	"sync/atomic"
	"time"

	"github.com/alicebob/miniredis/v2"
	"github.com/alicebob/miniredis/v2/server"
	"github.com/zeromicro/go-zero/core/collection"
	"github.com/zeromicro/go-zero/core/logx"
	"github.com/zeromicro/go-zero/core/stores/cache"
	"github.com/zeromicro/go-zero/core/stores/redis"
	"github.com/zeromicro/go-zero/core/stores/sqlc"
	"github.com/zeromicro/go-zero/core/stores/sqlx"
	"github.com/zeromicro/go-zero/core/syncx"
	"verifh/hx"
)

type Case struct {
	ID       int        `json:"id"`
	Kind     string     `json:"kind"`
	Nodes    int        `json:"nodes"`
	Expiry   int64      `json:"expiry"`   // ns: cache.WithExpiry(expiry), any sign, when ExpOpt
	NfExpiry int64      `json:"nfexpiry"` // ns: cache.WithNotFoundExpiry(nfexpiry), any sign, when NfOpt
	ExpOpt   *bool      `json:"expopt"`   // the option is passed (absent: iff expiry > 0)
	NfOpt    *bool      `json:"nfopt"`
	PkKind   string     `json:"pkkind"` // int | str
	Rows     [][]string `json:"rows"`   // initial database rows [pk,u,v] (texts)
	Ops      [][]any    `json:"ops"`
	Keys     []string   `json:"keys"`   // cache keys whose node is to be reported
	Hole     string     `json:"hole"`   // cache.notFoundPlaceholder as extracted from the sources
	RType    string     `json:"rtype"`  // node | cluster (redis.ClusterType: per-key DEL)
	Conn     string     `json:"conn"`   // conf (sqlc.NewConn) | node (sqlc.NewNodeConn, 1 node)
	Api      int        `json:"api"`    // 0: ...Ctx methods, 1: context-free wrappers, 2: alternating
	NfWrap   bool       `json:"nfwrap"` // the database reports "no row" as a %w-wrapped sqlx.ErrNotFound
	Worlds   []Case     `json:"worlds"` // further independent worlds (own database rows, own Redis servers, own options) in the
	//                                      same process, using the same key strings; ops "<kind>#<w>" (w >= 1) are issued there;
	//                                      "tick" (the one cleaner) and "adv" are process-wide
	Inst2   *Options2 `json:"inst2"`   // a second CachedConn / cache.Cache (own options) over the same nodes: ops "<kind>@1"
	Gap     int64     `json:"gap"`     // sqlc.cacheSafeGapBetweenIndexAndPrimary (ns) as extracted from the sources
	Layer   string    `json:"layer"`   // sqlc (default) | cache: cache.Cache driven directly (context-free methods)
	Readers int       `json:"readers"` // kind conc*
	Present bool      `json:"present"` // kind conc*
	Pk      string    `json:"pk"`      // kind conc*: primary key of the row
	Iters   int       `json:"iters"`   // kind free: operations per goroutine
	Mutate  bool      `json:"mutate"`  // kind conc*: the leader overwrites its destination as soon as its read returns, and only
	//                                      then do the readers that shared its flight get to consume the shared result
	Ctx string `json:"ctx"` // kind conc*: "" (every reader's context lives) | leadercancel | leaderdeadline
	//                                      (the LEADER's context dies while its query is in progress, the followers' live) |
	//                                      followercancel | followerdeadline (the reverse)
}

type Options2 struct {
	Expiry   int64 `json:"expiry"`
	NfExpiry int64 `json:"nfexpiry"`
	ExpOpt   *bool `json:"expopt"`
	NfOpt    *bool `json:"nfopt"`
}

type Entry struct {
	K    string `json:"k"`
	T    string `json:"t"`   // row | pk | hole | raw
	Pk   string `json:"pk"`  // t = pk: the primary key stored (text)
	A    string `json:"a"`   // t = row: u
	B    string `json:"b"`   // t = row: v
	TTL  int64  `json:"ttl"` // ms; 0 = persistent
	Node int    `json:"node"`
}

type OpObs struct {
	R    string    `json:"r"` // ok | row | nf | dberr | cerr
	Pk   string    `json:"pk"`
	U    string    `json:"u"`
	V    string    `json:"v"`
	QI   int       `json:"qi"`             // index queries run by this op
	QP   int       `json:"qp"`             // primary queries run by this op
	Seen []string  `json:"seen"`           // "<Go type>|<fmt %v>" of every primary key handed to keyer / primaryQuery
	Dump []Entry   `json:"dump"`           // world 0
	More [][]Entry `json:"more,omitempty"` // worlds 1.. (cases with worlds)
	Dn   *int      `json:"dn,omitempty"`   // ctx ops, points g / s / d: the node whose command was on the wire when the context ended
}

type Out struct {
	ID      int              `json:"id"`
	NodeOf  map[string]int   `json:"nodeof"`
	NodeOfs []map[string]int `json:"nodeofs,omitempty"` // worlds 1..
	Obs     []OpObs          `json:"obs"`
	Conc    *ConcObs         `json:"conc,omitempty"`
	Race    *RaceObs         `json:"race,omitempty"`
	Free    *FreeObs         `json:"free,omitempty"`
	Err     string           `json:"err,omitempty"`
}

// kind "race": the classic stale-set schedule.  A reader's database load of an uncached key starts (it reads v1)
// BEFORE a write-with-invalidation Exec(v2) of that key and its SET lands AFTER it.  The operations overlap, so the
// property's coherence clause does not speak about it; what it does promise still holds and is judged: the
// entry the reader leaves has a finite TTL in its band, and once that has passed reads are fresh.
type RaceObs struct {
	Reader string  `json:"reader"` // what the overlapping reader returned
	Exec   string  `json:"exec"`
	After  []Entry `json:"after"` // store when both have returned
	Next   string  `json:"next"`  // a later, non-overlapping read
	NextQ  int     `json:"nextq"`
	Late   string  `json:"late"` // a read after the entry's TTL has passed
	LateQ  int     `json:"lateq"`
}

// kind "free": `readers` goroutines run `iters` random operations each (reads through the primary and the index key,
// writes with invalidation, cache outages coming and going) on three rows of one connection, free-running.  Built with
// -race in the thorough tier.  Operations overlap, so only what holds regardless is judged: never two database queries
// of one key at the same time, every entry left is well-formed with a finite TTL, no panic, no data race.
type FreeObs struct {
	Ops     int            `json:"ops"`
	MaxPar  map[string]int `json:"maxpar"` // per cache key: max number of its database queries in flight at once
	Dump    []Entry        `json:"dump"`
	Results map[string]int `json:"results"`
}

type ConcObs struct {
	Queries int      `json:"queries"`
	QI      int      `json:"qi"`
	QP      int      `json:"qp"`
	Blocked int      `json:"blocked"` // readers parked in the barrier when the gate opened
	Results []string `json:"results"` // per reader: "row:pk:u:v" | "nf" | "dberr" | "cerr"
	MaxPar  int      `json:"maxpar"`  // max number of queries in flight at once
	Seen    []string `json:"seen"`
	Leader  int      `json:"leader"` // the reader whose query ran first
	Shared  int      `json:"shared"` // mutate: calls that shared a flight (held until the leader had overwritten its value)
	Dump    []Entry  `json:"dump"`   // store contents when every reader has returned
}

// a database row; Pk is the text of the primary key (decimal for kind int)
type Row struct {
	Pk string
	U  int64
	V  int64
}

// what the application unmarshals a row into
type RowI struct {
	Pk int64
	U  int64
	V  int64
}

type RowS struct {
	Pk string
	U  int64
	V  int64
}

var errDB = errors.New("verif: database down")

// what the database (the user's query / exec callbacks) fails with: a private error, or one of
// the sentinels go-zero, database/sql, go-redis and context treat specially elsewhere - bare and
// %w-wrapped.  Whatever it is, it is the database's error: returned, never cached.
var dbErrs = []error{
	errDB, driver.ErrBadConn, sql.ErrTxDone, context.Canceled, context.DeadlineExceeded, io.EOF, redis.Nil,
	fmt.Errorf("verif: %w", driver.ErrBadConn), fmt.Errorf("verif: %w", context.Canceled),
	fmt.Errorf("verif: %w", redis.Nil), errors.New("*"), errors.New(""), sql.ErrConnDone,
}

var errNotFoundWrapped = fmt.Errorf("verif: no such row: %w", sqlx.ErrNotFound)

var pkKind = "int"

func newTarget() any {
	if pkKind == "str" {
		return &RowS{}
	}
	return &RowI{}
}

func fill(v any, r Row) error {
	switch t := v.(type) {
	case *RowI:
		n, err := strconv.ParseInt(r.Pk, 10, 64)
		if err != nil {
			return err
		}
		*t = RowI{n, r.U, r.V}
	case *RowS:
		*t = RowS{r.Pk, r.U, r.V}
	default:
		return fmt.Errorf("verif: unexpected target %T", v)
	}
	return nil
}

func extract(v any) Row {
	switch t := v.(type) {
	case *RowI:
		return Row{strconv.FormatInt(t.Pk, 10), t.U, t.V}
	case *RowS:
		return *(*Row)(t)
	}
	return Row{}
}

func native(pk string) any {
	if pkKind == "str" {
		return pk
	}
	n, _ := strconv.ParseInt(pk, 10, 64)
	return n
}

func valueOf(r Row) any {
	if pkKind == "str" {
		return RowS(r)
	}
	n, _ := strconv.ParseInt(r.Pk, 10, 64)
	return RowI{n, r.U, r.V}
}

type fakeDB struct {
	mid     int // >= 0: the next query first takes this cache node down (mid-operation outage)
	mu      sync.Mutex
	rows    map[string]Row
	fault   bool
	errv    error // what a failing query / exec returns
	nf      error // what "no row" is reported as
	qi      int
	qp      int
	seen    []string
	onQuery func() error  // ctx ops: runs when a database query / write is in progress (ends the op's context; a non-nil result is what the driver then reports)
	gate    chan struct{} // conc: queries park here
	gate2   chan struct{} // conc: queries that start after a context was killed park here
	phase2  bool
	leader  int // conc: the reader whose query entered first (-1: none yet)
	inq     int32
	maxq    int32
}

// a context the monitor ends by hand, with the error it chooses (cancellation or deadline)
type manualCtx struct {
	done chan struct{}
	mu   sync.Mutex
	err  error
}

func newManualCtx() *manualCtx { return &manualCtx{done: make(chan struct{})} }

func (c *manualCtx) Deadline() (time.Time, bool) { return time.Time{}, false }
func (c *manualCtx) Done() <-chan struct{}       { return c.done }
func (c *manualCtx) Value(any) any               { return nil }
func (c *manualCtx) Err() error {
	c.mu.Lock()
	defer c.mu.Unlock()
	return c.err
}
func (c *manualCtx) kill(e error) {
	c.mu.Lock()
	defer c.mu.Unlock()
	if c.err == nil {
		c.err = e
		close(c.done)
	}
}

// the context a query honours: the operation's own controller-driven context for the ctx ops (a
// driver refuses to start under a context that is already done), none otherwise
func qctx(ctx context.Context, m *manualCtx) context.Context {
	if m != nil {
		return ctx
	}
	return context.Background()
}

// enter: a database query starts.  It parks on the gate (conc kinds) like a slow query that
// honours its context: it ends with ctx.Err() when the context of the reader that runs it dies.
func (d *fakeDB) enter(ctx context.Context, id int) error {
	if d.mid >= 0 {
		servers[d.mid].SetError("ERR verif outage")
		faulted[d.mid] = true
		d.mid = -1
	}
	n := atomic.AddInt32(&d.inq, 1)
	for {
		m := atomic.LoadInt32(&d.maxq)
		if n <= m || atomic.CompareAndSwapInt32(&d.maxq, m, n) {
			break
		}
	}
	if err := ctx.Err(); err != nil {
		return err
	}
	if f := d.onQuery; f != nil {
		d.onQuery = nil
		if err := f(); err != nil {
			return err
		}
	}
	d.mu.Lock()
	if d.leader < 0 {
		d.leader = id
	}
	g := d.gate
	if d.phase2 {
		g = d.gate2
	}
	d.mu.Unlock()
	if g != nil {
		select {
		case <-g:
		case <-ctx.Done():
			return ctx.Err()
		}
	}
	return nil
}

func (d *fakeDB) leave() { atomic.AddInt32(&d.inq, -1) }

func (d *fakeDB) byPrimary(pk string, known bool, v any) error {
	return d.byPrimaryC(context.Background(), -1, pk, known, v)
}

func (d *fakeDB) byPrimaryC(ctx context.Context, id int, pk string, known bool, v any) error {
	d.mu.Lock()
	d.qp++
	d.mu.Unlock()
	defer d.leave()
	if err := d.enter(ctx, id); err != nil {
		return err
	}
	d.mu.Lock()
	defer d.mu.Unlock()
	if d.fault {
		return d.errv
	}
	r, ok := d.rows[pk]
	if !ok || !known {
		return d.nf
	}
	return fill(v, r)
}

func (d *fakeDB) byIndex(u int64, v any) (any, error) {
	return d.byIndexC(context.Background(), -1, u, v)
}

func (d *fakeDB) byIndexC(ctx context.Context, id int, u int64, v any) (any, error) {
	d.mu.Lock()
	d.qi++
	d.mu.Unlock()
	defer d.leave()
	if err := d.enter(ctx, id); err != nil {
		return nil, err
	}
	d.mu.Lock()
	defer d.mu.Unlock()
	if d.fault {
		return nil, d.errv
	}
	for _, r := range d.rows {
		if r.U == u {
			if err := fill(v, r); err != nil {
				return nil, err
			}
			return native(r.Pk), nil
		}
	}
	return nil, d.nf
}

// write: put (present) or delete; a second row with the same u violates the unique index
func (d *fakeDB) write(pk string, present bool, u, v int64) error {
	d.mu.Lock()
	defer d.mu.Unlock()
	if d.fault {
		return d.errv
	}
	if f := d.onQuery; f != nil {
		d.onQuery = nil
		if err := f(); err != nil {
			return err
		}
	}
	if !present {
		delete(d.rows, pk)
		return nil
	}
	for _, r := range d.rows {
		if r.U == u && r.Pk != pk {
			return errDB // unique index violation
		}
	}
	d.rows[pk] = Row{pk, u, v}
	return nil
}

// the primary key as the application sees it: the user callbacks format it with %v (as the
// code generated by goctl does) and look the row up by that text, provided its type is one a
// driver would bind as this table's key type.
func (d *fakeDB) primary(p any) (text string, known bool) {
	text = fmt.Sprint(p)
	switch p.(type) {
	case int, int8, int16, int32, int64, uint, uint8, uint16, uint32, uint64, json.Number:
		known = pkKind == "int"
	case string:
		known = pkKind == "str"
	}
	d.mu.Lock()
	d.seen = append(d.seen, fmt.Sprintf("%T|%s", p, text))
	d.mu.Unlock()
	return
}

func (d *fakeDB) keyer(primary any) string {
	text, _ := d.primary(primary)
	return "p" + text
}

type result struct{}

func (result) LastInsertId() (int64, error) { return 0, nil }
func (result) RowsAffected() (int64, error) { return 1, nil }

type ticker struct{ c chan time.Time }

func (t *ticker) Chan() <-chan time.Time { return t.c }
func (t *ticker) Stop()                  {}

// NS servers: world w (an independent database + its own Redis nodes, all in this one process and
// therefore sharing go-zero's process-wide machinery: the cleaner's timing wheel, sqlc's single
// flight and statistics) owns servers 2w and 2w+1; [base] is the first server of the world the
// current operation belongs to.
const NS = 6

var (
	servers  [NS]*miniredis.Miniredis
	padders  [NS]*redis.Redis
	cpadders [NS]*redis.Redis
	tk       = &ticker{c: make(chan time.Time)}
	wheel    *collection.TimingWheel
	faulted  [NS]bool
	closed   [NS]bool // connection loss (miniredis Close / Restart)
	lostOps  [NS]int
	base     int
	hole     = "*"
	rtype    = redis.NodeType
)

func anyDown() bool {
	for n := 0; n < NS; n++ {
		if faulted[n] || closed[n] {
			return true
		}
	}
	return false
}

const sentinel = "verif-c06-sentinel"

func busy(stack string) bool {
	if strings.Contains(stack, "threading.(*TaskRunner).Schedule.func") ||
		strings.Contains(stack, "threading.GoSafe") || strings.Contains(stack, "cache.clean") {
		return true
	}
	if !strings.Contains(stack, "collection.(*TimingWheel)") {
		return false
	}
	if strings.Contains(stack, "collection.(*TimingWheel).run(") &&
		!strings.Contains(stack, "runTasks") && !strings.Contains(stack, "drainAll.func") {
		return false
	}
	return true
}

func settle() bool {
	wheel.RemoveTimer(sentinel)
	// (generous: on a machine with a load of 150 the cleaner's goroutines were starved for more than 5 s)
	return hx.Quiesce(busy, 30*time.Second)
}

func padder(n int) *redis.Redis {
	if rtype == redis.ClusterType {
		if cpadders[n] == nil {
			cpadders[n] = redis.New(servers[n].Addr(), redis.Cluster())
		}
		return cpadders[n]
	}
	return padders[n]
}

// the redis client carries a circuit breaker (shared per address); keep it far
// from tripping by following every operation run under an injected outage with
// accepted commands (the outage is lifted for them and put back).
func pad() {
	for n := 0; n < NS; n++ {
		if closed[n] {
			lostOps[n]++
			continue
		}
		if !faulted[n] {
			continue
		}
		servers[n].SetError("")
		for i := 0; i < 8; i++ {
			padder(n).ExistsCtx(context.Background(), "verif-pad")
		}
		servers[n].SetError("ERR verif outage")
	}
}

func keyName(k any) string { return k.(string) }

func num(v any) int { return int(v.(float64)) }

func str(v any) string { return v.(string) }

func i64(v any) int64 {
	n, err := strconv.ParseInt(v.(string), 10, 64)
	if err != nil {
		hx.Fatal("bad integer %q in case", v)
	}
	return n
}

func classify(err, dbErr error) string {
	switch {
	case err == nil:
		return "ok"
	case errors.Is(err, sql.ErrNoRows):
		return "nf"
	case errors.Is(err, errDB) || (dbErr != nil && errors.Is(err, dbErr)):
		return "dberr"
	}
	return "cerr"
}

var intLit = regexp.MustCompile(`^-?(0|[1-9][0-9]*)$`)

// exact classification of a stored value (no float64 anywhere)
func classifyValue(k, val string, e *Entry) {
	e.T = "raw"
	if val == hole {
		e.T = "hole"
		return
	}
	dec := json.NewDecoder(bytes.NewReader([]byte(val)))
	dec.UseNumber()
	switch {
	case strings.HasPrefix(k, "p") && strings.HasPrefix(val, "{"):
		dec.DisallowUnknownFields()
		t := newTarget()
		if dec.Decode(t) != nil || dec.More() {
			return
		}
		r := extract(t)
		if k != "p"+r.Pk {
			return
		}
		e.T, e.A, e.B = "row", strconv.FormatInt(r.U, 10), strconv.FormatInt(r.V, 10)
	case strings.HasPrefix(k, "u"):
		var x any
		if dec.Decode(&x) != nil || dec.More() {
			return
		}
		switch p := x.(type) {
		case json.Number:
			if pkKind == "int" && intLit.MatchString(p.String()) {
				if _, err := strconv.ParseInt(p.String(), 10, 64); err == nil {
					e.T, e.Pk = "pk", p.String()
				}
			}
		case string:
			if pkKind == "str" {
				e.T, e.Pk = "pk", p
			}
		}
	}
}

func dump(nodes int) []Entry {
	res := []Entry{}
	for n := 0; n < nodes; n++ {
		m := servers[base+n]
		for _, k := range m.Keys() {
			val, err := m.Get(k)
			e := Entry{K: k, Node: n, TTL: int64(m.TTL(k) / time.Millisecond)}
			if m.TTL(k) > 0 && e.TTL == 0 {
				e.TTL = 1
			}
			if err != nil {
				e.T = "raw"
			} else {
				classifyValue(k, val, &e)
			}
			res = append(res, e)
		}
	}
	sort.Slice(res, func(i, j int) bool { return res[i].K < res[j].K })
	return res
}

// the constructor's options are part of the case: absent, or given with any value (an unset
// config field forwarded as WithExpiry(0), a negative duration)
func options(c Case) []cache.Option {
	var opts []cache.Option
	if (c.ExpOpt == nil && c.Expiry > 0) || (c.ExpOpt != nil && *c.ExpOpt) {
		opts = append(opts, cache.WithExpiry(time.Duration(c.Expiry)))
	}
	if (c.NfOpt == nil && c.NfExpiry > 0) || (c.NfOpt != nil && *c.NfOpt) {
		opts = append(opts, cache.WithNotFoundExpiry(time.Duration(c.NfExpiry)))
	}
	return opts
}

func newConn(c Case) sqlc.CachedConn {
	opts := options(c)
	if c.Conn == "node" && c.Nodes == 1 {
		var ro []redis.Option
		if rtype == redis.ClusterType {
			ro = append(ro, redis.Cluster())
		}
		return sqlc.NewNodeConn(nil, redis.New(servers[base].Addr(), ro...), opts...)
	}
	var conf cache.CacheConf
	for n := 0; n < c.Nodes; n++ {
		conf = append(conf, cache.NodeConf{
			RedisConf: redis.RedisConf{Host: servers[base+n].Addr(), Type: rtype},
			Weight:    100,
		})
	}
	return sqlc.NewConn(nil, conf, opts...)
}

// the cache.Cache underneath, built directly (cache.New / cache.NewNode)
func newCache(c Case) cache.Cache {
	opts := options(c)
	var conf cache.CacheConf
	for n := 0; n < c.Nodes; n++ {
		conf = append(conf, cache.NodeConf{
			RedisConf: redis.RedisConf{Host: servers[base+n].Addr(), Type: rtype},
			Weight:    100,
		})
	}
	return cache.New(conf, syncx.NewSingleFlight(), cache.NewStat("verif"), sql.ErrNoRows, opts...)
}

// sqlc.CachedConn.QueryRowIndexCtx, restated over the context-free methods of cache.Cache
// (the index entry through TakeWithExpire, the primary entry SetWithExpire'd 5 s longer)
var safeGap = 5 * time.Second

func cacheQri(cc cache.Cache, db *fakeDB, u int64, key string, v any) error {
	var primaryKey any
	var found bool
	if err := cc.TakeWithExpire(&primaryKey, key, func(val any, expire time.Duration) (err error) {
		primaryKey, err = db.byIndex(u, v)
		if err != nil {
			return
		}
		found = true
		return cc.SetWithExpire(db.keyer(primaryKey), v, expire+safeGap)
	}); err != nil {
		return err
	}
	if found {
		return nil
	}
	return cc.Take(v, db.keyer(primaryKey), func(v any) error {
		text, known := db.primary(primaryKey)
		return db.byPrimary(text, known, v)
	})
}

func reopen(n int) {
	if !closed[n] {
		return
	}
	if err := servers[n].Restart(); err != nil {
		hx.Fatal("miniredis restart: %v", err)
	}
	closed[n] = false
	// stale pooled connections fail once and are retried by go-redis; then feed the breaker
	for i := 0; i < 8*lostOps[n]+24; i++ {
		padder(n).ExistsCtx(context.Background(), "verif-pad")
	}
	lostOps[n] = 0
}

func reset() {
	base = 0
	for n := 0; n < NS; n++ {
		reopen(n)
		servers[n].SetError("")
		servers[n].FlushAll()
		faulted[n] = false
	}
	wheel.Drain(func(k, v any) {})
	settle()
}

var nodeCache = map[string]int{}

// which server of its world a key lives on (the consistent hash is C15's; here it is observed)
func probe(cc sqlc.CachedConn, nodes int, keys []string) map[string]int {
	res := map[string]int{}
	wrote := false
	for _, k := range keys {
		if nodes == 1 {
			res[k] = 0
			continue
		}
		ck := strconv.Itoa(base) + "/" + k
		if n, ok := nodeCache[ck]; ok {
			res[k] = n
			continue
		}
		cc.SetCacheWithExpire(k, 1, time.Hour)
		wrote = true
		for n := 0; n < nodes; n++ {
			if servers[base+n].Exists(k) {
				res[k] = n
				nodeCache[ck] = n
			}
		}
	}
	if wrote {
		for n := 0; n < 2; n++ {
			servers[base+n].FlushAll()
		}
	}
	return res
}

func keysOf(v any) []string {
	var ks []string
	for _, k := range v.([]any) {
		ks = append(ks, keyName(k))
	}
	return ks
}

func setup(c Case) {
	pkKind = "int"
	if c.PkKind == "str" {
		pkKind = "str"
	}
	rtype = redis.NodeType
	if c.RType == "cluster" {
		rtype = redis.ClusterType
	}
	if c.Hole != "" {
		hole = c.Hole
	}
	if c.Gap > 0 {
		safeGap = time.Duration(c.Gap)
	}
}

// one world: its database, its connections (first / second instance, sqlc / cache layer)
type world struct {
	base     int
	nodes    int
	db       *fakeDB
	cc1, cc2 sqlc.CachedConn
	ch1, ch2 cache.Cache
	nodeOf   map[string]int
}

func newWorld(c Case, w int, keys []string) *world {
	base = 2 * w
	wd := &world{base: base, nodes: c.Nodes}
	if wd.nodes < 1 {
		wd.nodes = 1
	}
	c.Nodes = wd.nodes
	db := &fakeDB{rows: map[string]Row{}, mid: -1, leader: -1, errv: errDB, nf: sqlx.ErrNotFound}
	if c.NfWrap {
		db.nf = errNotFoundWrapped
	}
	for _, r := range c.Rows {
		db.rows[r[0]] = Row{r[0], i64(r[1]), i64(r[2])}
	}
	wd.db = db
	wd.cc1 = newConn(c)
	wd.nodeOf = probe(wd.cc1, c.Nodes, keys)
	if c.Api == 2 {
		// the connection bound to a session shares the cache (the session is the database handle,
		// which the harness's callbacks never use)
		wd.cc1 = wd.cc1.WithSession(nil)
	}
	if c.Layer == "cache" {
		wd.ch1 = newCache(c)
	}
	// a second instance with its own options over the same nodes (and, as in go-zero, the same
	// process-wide single flight and statistics)
	wd.cc2, wd.ch2 = wd.cc1, wd.ch1
	if c.Inst2 != nil {
		c2 := c
		c2.Expiry, c2.NfExpiry, c2.ExpOpt, c2.NfOpt = c.Inst2.Expiry, c.Inst2.NfExpiry, c.Inst2.ExpOpt, c.Inst2.NfOpt
		wd.cc2 = newConn(c2)
		if c.Layer == "cache" {
			wd.ch2 = newCache(c2)
		}
	}
	return wd
}

func runSeq(c Case) Out {
	out := Out{ID: c.ID}
	setup(c)
	reset()
	if len(c.Worlds) > NS/2-1 {
		out.Err = "too many worlds"
		return out
	}
	worlds := []*world{newWorld(c, 0, c.Keys)}
	out.NodeOf = worlds[0].nodeOf
	for i, wc := range c.Worlds {
		// same table kind, Redis type, API and layer as world 0; own rows, options, node count
		wc.PkKind, wc.RType, wc.Api, wc.Layer, wc.NfWrap = c.PkKind, c.RType, c.Api, c.Layer, c.NfWrap
		worlds = append(worlds, newWorld(wc, i+1, c.Keys))
		out.NodeOfs = append(out.NodeOfs, worlds[i+1].nodeOf)
	}
	delFailed := false
	for i, op := range c.Ops {
		o := OpObs{}
		row := newTarget()
		var err error
		isRead := false
		plain := c.Api == 1 || (c.Api == 2 && i%2 == 0)
		kind := op[0].(string)
		wd := worlds[0]
		if j := strings.IndexByte(kind, '#'); j >= 0 {
			w, e := strconv.Atoi(kind[j+1:])
			if e != nil || w < 0 || w >= len(worlds) {
				out.Err = "bad world in op " + kind
				return out
			}
			wd, kind = worlds[w], kind[:j]
		}
		base = wd.base
		db := wd.db
		db.qi, db.qp, db.seen = 0, 0, nil
		cc, ch := wd.cc1, wd.ch1
		if strings.HasSuffix(kind, "@1") {
			kind = kind[:len(kind)-2]
			cc, ch = wd.cc2, wd.ch2
		}
		// every operation runs under its own context, cancelled when the operation returns (as a
		// request context is): nothing that outlives the operation may depend on it
		ctx, cancel := context.WithCancel(context.Background())
		if kind == "takemid" || kind == "qrimid" {
			db.mid = base + num(op[2])
			kind = kind[:len(kind)-3]
		}
		// the operation's context becomes done WHILE the operation runs: "takectx"/"qrictx"/"execctx" with a point
		//   q / w : inside the database query / write, which itself completes      qe / we : ... and reports ctx.Err()
		//   g : while the first GET is on the wire     s : while the first SET is on the wire     d : ... the first DEL
		// and a cause (0: cancelled, 1: past its deadline).  Always through the ...Ctx methods of sqlc.
		var mctx *manualCtx
		var dieNode atomic.Int32
		dieNode.Store(-1)
		errv0 := db.errv
		if strings.HasSuffix(kind, "ctx") {
			kind = kind[:len(kind)-3]
			point := str(op[len(op)-2])
			cause := context.Canceled
			if num(op[len(op)-1]) != 0 {
				cause = context.DeadlineExceeded
			}
			op = op[:len(op)-2]
			mctx = newManualCtx()
			ctx, plain, ch = mctx, false, nil
			switch point {
			case "q", "w":
				db.onQuery = func() error { mctx.kill(cause); return nil }
			case "qe", "we":
				db.errv = cause
				db.onQuery = func() error { mctx.kill(cause); return cause }
			case "g", "s", "d":
				for n := 0; n < wd.nodes; n++ {
					node := int32(n)
					servers[base+n].Server().SetPreHook(func(_ *server.Peer, cmd string, _ ...string) bool {
						cmd = strings.ToUpper(cmd)
						if (point == "g" && cmd == "GET") || (point == "d" && cmd == "DEL") ||
							(point == "s" && (cmd == "SET" || cmd == "SETEX" || cmd == "SETNX")) {
							dieNode.CompareAndSwap(-1, node)
							mctx.kill(cause)
						}
						return false
					})
				}
				db.errv = cause // a query started under the dead context is refused by the driver
			}
		}
		if ch != nil {
			switch kind {
			case "take", "qri", "get", "exec", "set", "setex", "del":
				isRead = kind == "take" || kind == "qri" || kind == "get"
				err = cacheOp(ch, db, kind, op, row)
				if err != nil && ch.IsNotFound(err) != errors.Is(err, sql.ErrNoRows) {
					out.Err = "IsNotFound disagrees with the configured not-found error"
					return out
				}
				kind = "cache:" + kind
			}
		}
		switch kind {
		case "cache:take", "cache:qri", "cache:get", "cache:exec", "cache:set", "cache:setex", "cache:del":
		case "take":
			p := str(op[1])
			isRead = true
			if plain {
				err = cc.QueryRow(row, "p"+p, func(conn sqlx.SqlConn, v any) error {
					return db.byPrimary(p, true, v)
				})
			} else {
				err = cc.QueryRowCtx(ctx, row, "p"+p, func(ctx context.Context, conn sqlx.SqlConn, v any) error {
					return db.byPrimaryC(qctx(ctx, mctx), -1, p, true, v)
				})
			}
		case "qri":
			u := i64(op[1])
			isRead = true
			key := "u" + strconv.FormatInt(u, 10)
			if plain {
				err = cc.QueryRowIndex(row, key, db.keyer,
					func(conn sqlx.SqlConn, v any) (any, error) { return db.byIndex(u, v) },
					func(conn sqlx.SqlConn, v, primary any) error {
						text, known := db.primary(primary)
						return db.byPrimary(text, known, v)
					})
			} else {
				err = cc.QueryRowIndexCtx(ctx, row, key, db.keyer,
					func(ctx context.Context, conn sqlx.SqlConn, v any) (any, error) {
						return db.byIndexC(qctx(ctx, mctx), -1, u, v)
					},
					func(ctx context.Context, conn sqlx.SqlConn, v, primary any) error {
						text, known := db.primary(primary)
						return db.byPrimaryC(qctx(ctx, mctx), -1, text, known, v)
					})
			}
		case "get":
			isRead = true
			if plain {
				err = cc.GetCache("p"+str(op[1]), row)
			} else {
				err = cc.GetCacheCtx(ctx, "p"+str(op[1]), row)
			}
		case "exec":
			p := str(op[1])
			present := op[2].(string) == "put"
			var u, v int64
			var keys []string
			if present {
				u, v, keys = i64(op[3]), i64(op[4]), keysOf(op[5])
			} else {
				keys = keysOf(op[3])
			}
			if plain {
				_, err = cc.Exec(func(conn sqlx.SqlConn) (sql.Result, error) {
					if e := db.write(p, present, u, v); e != nil {
						return nil, e
					}
					return result{}, nil
				}, keys...)
			} else {
				_, err = cc.ExecCtx(ctx, func(ctx context.Context, conn sqlx.SqlConn) (sql.Result, error) {
					if e := db.write(p, present, u, v); e != nil {
						return nil, e
					}
					return result{}, nil
				}, keys...)
			}
		case "set":
			p := str(op[1])
			val := valueOf(Row{p, i64(op[2]), i64(op[3])})
			if plain {
				err = cc.SetCache("p"+p, val)
			} else {
				err = cc.SetCacheCtx(ctx, "p"+p, val)
			}
		case "setex":
			p := str(op[1])
			val := valueOf(Row{p, i64(op[2]), i64(op[3])})
			d := time.Duration(int64(op[4].(float64)))
			if plain {
				err = cc.SetCacheWithExpire("p"+p, val, d)
			} else {
				err = cc.SetCacheWithExpireCtx(ctx, "p"+p, val, d)
			}
		case "del":
			if plain {
				err = cc.DelCache(keysOf(op[1])...)
			} else {
				err = cc.DelCacheCtx(ctx, keysOf(op[1])...)
			}
		case "poke":
			// the store is written behind the cache's back with something that is not a row
			k := str(op[1])
			n := base + wd.nodeOf[k]
			servers[n].Set(k, str(op[2]))
			servers[n].SetTTL(k, time.Duration(num(op[3]))*time.Second)
		case "adv":
			for n := 0; n < NS; n++ {
				servers[n].FastForward(time.Duration(num(op[1])) * time.Millisecond)
			}
		case "dbfault":
			db.fault = num(op[1]) != 0
			db.errv = errDB
			if len(op) > 2 {
				db.errv = dbErrs[num(op[2])%len(dbErrs)]
			}
		case "cclose":
			n := base + num(op[1])
			if num(op[2]) != 0 {
				if !closed[n] {
					servers[n].Close()
					closed[n] = true
				}
			} else {
				reopen(n)
			}
		case "cfault":
			n := base + num(op[1])
			faulted[n] = num(op[2]) != 0
			if faulted[n] {
				servers[n].SetError("ERR verif outage")
			} else {
				servers[n].SetError("")
			}
		case "tick":
			for i := 0; i < num(op[1]); i++ {
				tk.c <- time.Now()
				// the wheel holds a timer only after a DEL failed in this case; without one a
				// tick runs no callback and the (costly) goroutine census is skipped
				if !delFailed {
					wheel.RemoveTimer(sentinel)
					continue
				}
				if !settle() {
					out.Err = "cleaner did not quiesce"
					return out
				}
				pad()
			}
		default:
			out.Err = "unknown op " + op[0].(string)
			return out
		}
		cancel()
		if mctx != nil {
			for n := 0; n < wd.nodes; n++ {
				servers[base+n].Server().SetPreHook(nil)
			}
			db.onQuery = nil
		}
		db.mid = -1
		switch kind {
		case "exec", "del", "cache:exec", "cache:del":
			// AddCleanTask hands the timer to the wheel's loop synchronously (unbuffered channel)
			if anyDown() || mctx != nil {
				delFailed = true
			}
		}
		pad()
		o.R = classify(err, db.errv)
		if mctx != nil {
			db.errv = errv0
			// commands refused under the ended context (deadline) count as failures of the client's
			// circuit breaker: follow them with accepted ones
			for n := 0; n < wd.nodes; n++ {
				if !closed[wd.base+n] && !faulted[wd.base+n] {
					for i := 0; i < 4; i++ {
						padder(wd.base+n).ExistsCtx(context.Background(), "verif-pad")
					}
				}
			}
		}
		if isRead && err == nil {
			r := extract(row)
			o.R, o.Pk, o.U, o.V = "row", r.Pk, strconv.FormatInt(r.U, 10), strconv.FormatInt(r.V, 10)
		}
		o.QI, o.QP = db.qi, db.qp
		o.Seen = append([]string{}, db.seen...)
		if dn := int(dieNode.Load()); dn >= 0 {
			o.Dn = &dn
		}
		base = 0
		o.Dump = dump(worlds[0].nodes)
		for _, x := range worlds[1:] {
			base = x.base
			o.More = append(o.More, dump(x.nodes))
		}
		base = 0
		out.Obs = append(out.Obs, o)
	}
	return out
}

// one operation on cache.Cache itself, through its context-free methods
func cacheOp(ch cache.Cache, db *fakeDB, kind string, op []any, row any) error {
	switch kind {
	case "take":
		p := str(op[1])
		return ch.Take(row, "p"+p, func(v any) error { return db.byPrimary(p, true, v) })
	case "qri":
		u := i64(op[1])
		return cacheQri(ch, db, u, "u"+strconv.FormatInt(u, 10), row)
	case "get":
		return ch.Get("p"+str(op[1]), row)
	case "exec":
		p := str(op[1])
		present := op[2].(string) == "put"
		var u, v int64
		var keys []string
		if present {
			u, v, keys = i64(op[3]), i64(op[4]), keysOf(op[5])
		} else {
			keys = keysOf(op[3])
		}
		if e := db.write(p, present, u, v); e != nil {
			return e
		}
		return ch.Del(keys...)
	case "set":
		p := str(op[1])
		return ch.Set("p"+p, valueOf(Row{p, i64(op[2]), i64(op[3])}))
	case "setex":
		p := str(op[1])
		return ch.SetWithExpire("p"+p, valueOf(Row{p, i64(op[2]), i64(op[3])}), time.Duration(int64(op[4].(float64))))
	case "del":
		return ch.Del(keysOf(op[1])...)
	}
	return fmt.Errorf("verif: no cache-level op %q", kind)
}

// holdFlight is the real single flight; it only holds every caller that SHARED a call (fresh ==
// false) at the point where DoEx hands it the shared result, until the monitor releases it
// (after the leader - whose read has returned by then - has overwritten its destination value).
type holdFlight struct {
	syncx.SingleFlight
	release chan struct{}
	shared  int32
}

func (f *holdFlight) DoEx(key string, fn func() (any, error)) (any, bool, error) {
	val, fresh, err := f.SingleFlight.DoEx(key, fn)
	if !fresh {
		atomic.AddInt32(&f.shared, 1)
		select {
		case <-f.release:
		case <-time.After(3 * time.Second):
		}
	}
	return val, fresh, err
}

// the caller owns its destination again once its read has returned: overwrite every field
func overwrite(v any) {
	switch t := v.(type) {
	case *RowI:
		*t = RowI{-777, -1, -1}
	case *RowS:
		*t = RowS{"overwritten by its owner", -1, -1}
	}
}

// load suppression: `readers` goroutines read the same uncached key (kind conc: QueryRow on
// the primary key; kind concqri: QueryRowIndex on the index key), each under ITS OWN context; the
// database query parks on a gate until every other reader is parked inside the barrier.
// Then, depending on c.Ctx, the leader's context (the reader whose query is in progress) or the
// followers' contexts are ended - cancelled or past their deadline - and the monitor watches
// what the others do: a query that starts from then on parks on a second gate until nothing
// moves any more, so that queries of one key that CAN overlap DO overlap and are counted.
func runConc(c Case) Out {
	out := Out{ID: c.ID}
	setup(c)
	reset()
	db := &fakeDB{rows: map[string]Row{}, gate: make(chan struct{}), gate2: make(chan struct{}), mid: -1, leader: -1,
		errv: errDB, nf: sqlx.ErrNotFound}
	pk := c.Pk
	if pk == "" {
		pk = "1"
	}
	if c.Present {
		db.rows[pk] = Row{pk, 7, 42}
	}
	cc := newConn(c)
	hf := &holdFlight{SingleFlight: syncx.NewSingleFlight(), release: make(chan struct{})}
	var releaseOnce sync.Once
	if c.Mutate {
		// the same cache, built with a barrier of ours (public API: cache.New + sqlc.NewConnWithCache)
		var conf cache.CacheConf
		for n := 0; n < c.Nodes; n++ {
			conf = append(conf, cache.NodeConf{RedisConf: redis.RedisConf{Host: servers[base+n].Addr(), Type: rtype}, Weight: 100})
		}
		cc = sqlc.NewConnWithCache(nil, cache.New(conf, hf, cache.NewStat("verif"), sql.ErrNoRows, options(c)...))
	}
	res := make([]string, c.Readers)
	ctxs := make([]*manualCtx, c.Readers)
	var finished int32
	var wg sync.WaitGroup
	for i := 0; i < c.Readers; i++ {
		ctxs[i] = newManualCtx()
		wg.Add(1)
		go func(i int) {
			defer wg.Done()
			defer atomic.AddInt32(&finished, 1)
			row := newTarget()
			var err error
			if c.Kind == "concqri" {
				err = cc.QueryRowIndexCtx(ctxs[i], row, "u7", db.keyer,
					func(ctx context.Context, conn sqlx.SqlConn, v any) (any, error) { return db.byIndexC(ctx, i, 7, v) },
					func(ctx context.Context, conn sqlx.SqlConn, v, primary any) error {
						text, known := db.primary(primary)
						return db.byPrimaryC(ctx, i, text, known, v)
					})
			} else {
				err = cc.QueryRowCtx(ctxs[i], row, "p"+pk, func(ctx context.Context, conn sqlx.SqlConn, v any) error {
					return db.byPrimaryC(ctx, i, pk, true, v)
				})
			}
			switch {
			case err == nil:
				r := extract(row)
				res[i] = fmt.Sprintf("row:%s:%d:%d", r.Pk, r.U, r.V)
			case errors.Is(err, context.Canceled):
				res[i] = "canceled"
			case errors.Is(err, context.DeadlineExceeded):
				res[i] = "deadline"
			default:
				res[i] = classify(err, nil)
			}
			if c.Mutate {
				db.mu.Lock()
				lead := db.leader
				db.mu.Unlock()
				// what the reader received is recorded above; from here on the value is its caller's: every
				// reader overwrites it (the leader first: the sharers are released only after that)
				overwrite(row)
				if i == lead {
					releaseOnce.Do(func() { close(hf.release) })
				}
			}
		}(i)
	}
	// readers parked inside a database query / waiting in the barrier
	parked := func() (inGate, inBarrier int) {
		for _, g := range hx.Stacks() {
			if !strings.Contains(g, "main.runConc.func") {
				continue
			}
			if strings.Contains(g, "main.(*fakeDB).enter") && hx.Blocked(g) {
				inGate++
			} else if (strings.Contains(g, "syncx.(*flightGroup).createCall") ||
				strings.Contains(g, "main.(*holdFlight).DoEx")) && hx.Blocked(g) {
				inBarrier++
			}
		}
		return
	}
	// wait until one reader is inside the query and the others wait in the barrier
	deadline := time.Now().Add(3 * time.Second)
	stable := 0
	var g, b int
	for time.Now().Before(deadline) {
		g, b = parked()
		if g+b == c.Readers {
			stable++
			if stable >= 2 {
				break
			}
		} else {
			stable = 0
		}
		time.Sleep(200 * time.Microsecond)
	}
	db.mu.Lock()
	leader := db.leader
	db.phase2 = true
	db.mu.Unlock()
	if c.Ctx != "" && leader >= 0 {
		cause := context.Canceled
		if strings.HasSuffix(c.Ctx, "deadline") {
			cause = context.DeadlineExceeded
		}
		for i := range ctxs {
			if (strings.HasPrefix(c.Ctx, "leader") && i == leader) || (strings.HasPrefix(c.Ctx, "follower") && i != leader) {
				ctxs[i].kill(cause)
			}
		}
		// let whatever that sets off happen: until every reader that has not returned is parked
		// (in a query of its own, on the second gate, or still behind the first query)
		deadline = time.Now().Add(3 * time.Second)
		stable = 0
		for time.Now().Before(deadline) {
			g2, b2 := parked()
			if g2+b2 == c.Readers-int(atomic.LoadInt32(&finished)) {
				stable++
				if stable >= 3 {
					break
				}
			} else {
				stable = 0
			}
			time.Sleep(300 * time.Microsecond)
		}
	}
	close(db.gate)
	close(db.gate2)
	wg.Wait()
	out.Conc = &ConcObs{Queries: db.qp + db.qi, QI: db.qi, QP: db.qp, Blocked: b, Results: res,
		MaxPar: int(db.maxq), Seen: db.seen, Leader: leader, Dump: dump(c.Nodes), Shared: int(atomic.LoadInt32(&hf.shared))}
	return out
}

type keyGauge struct {
	mu  sync.Mutex
	cur map[string]int
	max map[string]int
}

func (g *keyGauge) in(k string) {
	g.mu.Lock()
	g.cur[k]++
	if g.cur[k] > g.max[k] {
		g.max[k] = g.cur[k]
	}
	g.mu.Unlock()
}

func (g *keyGauge) out(k string) {
	g.mu.Lock()
	g.cur[k]--
	g.mu.Unlock()
}

func runFree(c Case) Out {
	out := Out{ID: c.ID}
	setup(c)
	reset()
	var mu sync.Mutex
	rows := map[int64]Row{1: {"1", 7, 0}, 2: {"2", 8, 0}}
	g := &keyGauge{cur: map[string]int{}, max: map[string]int{}}
	cc := newConn(c)
	ctx := context.Background()
	iters := c.Iters
	if iters <= 0 {
		iters = 50
	}
	results := map[string]int{}
	var wg sync.WaitGroup
	byPk := func(pk int64, v any) error {
		k := "p" + strconv.FormatInt(pk, 10)
		g.in(k)
		defer g.out(k)
		runtime.Gosched()
		mu.Lock()
		r, ok := rows[pk]
		mu.Unlock()
		if !ok {
			return sqlx.ErrNotFound
		}
		return fill(v, r)
	}
	for i := 0; i < c.Readers; i++ {
		wg.Add(1)
		go func(i int) {
			defer wg.Done()
			rng := rand.New(rand.NewSource(int64(c.ID*1000 + i)))
			for n := 0; n < iters; n++ {
				pk := int64(1 + rng.Intn(3))
				var err error
				kind := ""
				switch x := rng.Intn(100); {
				case x < 55:
					kind = "take"
					row := newTarget()
					err = cc.QueryRowCtx(ctx, row, "p"+strconv.FormatInt(pk, 10), func(ctx context.Context, conn sqlx.SqlConn, v any) error {
						return byPk(pk, v)
					})
				case x < 75:
					kind = "qri"
					u := 6 + pk
					row := newTarget()
					err = cc.QueryRowIndexCtx(ctx, row, "u"+strconv.FormatInt(u, 10),
						func(primary any) string { return "p" + fmt.Sprint(primary) },
						func(ctx context.Context, conn sqlx.SqlConn, v any) (any, error) {
							k := "u" + strconv.FormatInt(u, 10)
							g.in(k)
							defer g.out(k)
							runtime.Gosched()
							mu.Lock()
							r, ok := rows[pk]
							mu.Unlock()
							if !ok {
								return nil, sqlx.ErrNotFound
							}
							if e := fill(v, r); e != nil {
								return nil, e
							}
							return pk, nil
						},
						func(ctx context.Context, conn sqlx.SqlConn, v, primary any) error {
							n, e := strconv.ParseInt(fmt.Sprint(primary), 10, 64)
							if e != nil {
								return e
							}
							return byPk(n, v)
						})
				case x < 93:
					kind = "exec"
					_, err = cc.ExecCtx(ctx, func(ctx context.Context, conn sqlx.SqlConn) (sql.Result, error) {
						mu.Lock()
						if pk == 3 && rng.Intn(2) == 0 {
							delete(rows, 3)
						} else {
							r := rows[pk]
							rows[pk] = Row{strconv.FormatInt(pk, 10), 6 + pk, r.V + 1}
						}
						mu.Unlock()
						return result{}, nil
					}, "p"+strconv.FormatInt(pk, 10), "u"+strconv.FormatInt(6+pk, 10))
				default:
					kind = "outage"
					nd := rng.Intn(c.Nodes)
					servers[nd].SetError("ERR verif outage")
					time.Sleep(time.Duration(rng.Intn(300)) * time.Microsecond)
					servers[nd].SetError("")
				}
				mu.Lock()
				results[kind+":"+classify(err, nil)]++
				mu.Unlock()
			}
		}(i)
	}
	wg.Wait()
	for n := 0; n < c.Nodes; n++ {
		servers[n].SetError("")
	}
	settle()
	out.Free = &FreeObs{Ops: c.Readers * iters, MaxPar: g.max, Dump: dump(c.Nodes), Results: results}
	return out
}

func runRace(c Case) Out {
	out := Out{ID: c.ID}
	setup(c)
	reset()
	db := &fakeDB{rows: map[string]Row{}, mid: -1, leader: -1, errv: errDB, nf: sqlx.ErrNotFound}
	pk := c.Pk
	if pk == "" {
		pk = "1"
	}
	db.rows[pk] = Row{pk, 7, 41}
	cc := newConn(c)
	ctx := context.Background()
	entered, release := make(chan struct{}), make(chan struct{})
	show := func(row any, err error) string {
		if err != nil {
			return classify(err, nil)
		}
		r := extract(row)
		return fmt.Sprintf("row:%s:%d:%d", r.Pk, r.U, r.V)
	}
	ro := &RaceObs{}
	done := make(chan struct{})
	go func() {
		defer close(done)
		row := newTarget()
		err := cc.QueryRowCtx(ctx, row, "p"+pk, func(ctx context.Context, conn sqlx.SqlConn, v any) error {
			db.mu.Lock()
			r := db.rows[pk] // the query's snapshot
			db.qp++
			db.mu.Unlock()
			close(entered)
			<-release
			return fill(v, r)
		})
		ro.Reader = show(row, err)
	}()
	<-entered
	_, err := cc.ExecCtx(ctx, func(ctx context.Context, conn sqlx.SqlConn) (sql.Result, error) {
		if e := db.write(pk, true, 7, 42); e != nil {
			return nil, e
		}
		return result{}, nil
	}, "p"+pk, "u7")
	ro.Exec = classify(err, nil)
	close(release)
	<-done
	ro.After = dump(c.Nodes)
	read := func() (string, int) {
		db.qp = 0
		row := newTarget()
		err := cc.QueryRowCtx(ctx, row, "p"+pk, func(ctx context.Context, conn sqlx.SqlConn, v any) error {
			return db.byPrimary(pk, true, v)
		})
		return show(row, err), db.qp
	}
	ro.Next, ro.NextQ = read()
	var ttl int64
	for _, e := range ro.After {
		if e.TTL > ttl {
			ttl = e.TTL
		}
	}
	for n := 0; n < c.Nodes; n++ {
		servers[n].FastForward(time.Duration(ttl+1) * time.Millisecond)
	}
	ro.Late, ro.LateQ = read()
	out.Race = ro
	return out
}

func main() {
	logx.Disable()
	var cases []Case
	hx.ReadCases(&cases)
	w := hx.NewWriter()
	defer w.Close()
	for n := 0; n < NS; n++ {
		m, err := miniredis.Run()
		if err != nil {
			hx.Fatal("miniredis: %v", err)
		}
		servers[n] = m
		padders[n] = redis.New(m.Addr())
	}
	var err error
	wheel, err = cache.VerifNewCleanerWheel(tk)
	if err != nil {
		hx.Fatal("cleaner wheel: %v", err)
	}
	for _, c := range cases {
		if c.Nodes < 1 {
			c.Nodes = 1
		}
		if c.Kind == "free" {
			w.Put(runFree(c))
		} else if c.Kind == "race" {
			w.Put(runRace(c))
		} else if c.Kind == "conc" || c.Kind == "concqri" {
			w.Put(runConc(c))
		} else {
			w.Put(runSeq(c))
		}
	}
}
