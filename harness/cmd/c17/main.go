// Executor for C17: builds Go configuration types at run time (reflect.StructOf, incl.
// embedded structs), renders the abstract document as JSON (encoding/json), YAML
// (gopkg.in/yaml.v2) and TOML (github.com/pelletier/go-toml/v2), loads the three texts with
// conf.LoadFromJsonBytes / LoadFromYamlBytes / LoadFromTomlBytes, a re-cased variant of the
// document, and conf.Load on files with and without conf.UseEnv(); for "std" cases it
// decodes the JSON text with mapping.UnmarshalJsonBytes and with encoding/json.
// It only executes: generation, shrinking and rendering for Coq are in tools/props/c17.py.
// (type builder and dump copied from harness/cmd/c08)
package main

import (
	"bytes"
	"encoding/json"
	"fmt"
	"math"
	"os"
	"path/filepath"
	"reflect"
	"sort"
	"strconv"
	"strings"

	toml "github.com/pelletier/go-toml/v2"
	"github.com/zeromicro/go-zero/core/conf"
	"github.com/zeromicro/go-zero/core/mapping"
	yaml "gopkg.in/yaml.v2"
	"verifh/hx"
)

type Range struct {
	LI bool    `json:"li"`
	L  *string `json:"l"`
	R  *string `json:"r"`
	RI bool    `json:"ri"`
}

type Opts struct {
	Opt     bool     `json:"opt"`
	Dep     *string  `json:"dep"`
	Neg     bool     `json:"neg"`
	Def     *string  `json:"def"`
	Range   *Range   `json:"range"`
	Options []string `json:"options"`
	Str     bool     `json:"str"`
}

type Field struct {
	Key string  `json:"key"`
	T   *Type   `json:"t"`
	O   *Opts   `json:"o"`
	Emb bool    `json:"emb"`
	Tag *string `json:"tag"` // embedded: optional json name
	F   []Field `json:"f"`   // embedded: the fields of the anonymous struct
	EOpt bool   `json:"eopt"` // embedded: tagged ",optional"
	EPtr bool   `json:"eptr"` // embedded: pointer to the struct
}

type Type struct {
	K string  `json:"k"`
	E *Type   `json:"e"`
	F []Field `json:"f"`
}

// Doc is the abstract document.
type Doc struct {
	Null *int    `json:"null,omitempty"`
	B    *bool   `json:"b,omitempty"`
	I    *string `json:"i,omitempty"`  // integer, decimal
	FL   *string `json:"fl,omitempty"` // float literal (common JSON/YAML/TOML syntax)
	S    *string `json:"s,omitempty"`
	L    *[]Doc  `json:"l,omitempty"`
	M    *[]KV   `json:"m,omitempty"`
}

type KV struct {
	K string `json:"k"`
	V Doc    `json:"v"`
}

type Case struct {
	ID   int               `json:"id"`
	Kind string            `json:"kind"` // "load" | "std"
	Type []Field           `json:"type"`
	Doc  Doc               `json:"doc"`
	Doc2 *Doc              `json:"doc2"`
	Env  map[string]string `json:"env"`
}

type Res struct {
	Verdict string `json:"verdict"`
	Err     string `json:"err,omitempty"`
	Val     any    `json:"val,omitempty"`
}

type Out struct {
	ID     int               `json:"id"`
	Fail   string            `json:"fail,omitempty"`
	Texts  map[string]string `json:"texts,omitempty"`
	Texts2 map[string]string `json:"texts2,omitempty"`
	Load   map[string]Res    `json:"load,omitempty"`
	Load2  map[string]Res    `json:"load2,omitempty"`
	EnvOn  map[string]Res    `json:"envon,omitempty"`
	EnvOff map[string]Res    `json:"envoff,omitempty"`
	EnvRef map[string]Res    `json:"envref,omitempty"` // LoadFrom*Bytes of os.ExpandEnv(text): what UseEnv must equal
	ByExt  map[string]Res    `json:"byext,omitempty"`  // conf.Load on c<ext>, loader chosen by the extension
	Must   map[string]Res    `json:"must,omitempty"`   // conf.MustLoad where Load succeeded
	Fill   *Res              `json:"fill,omitempty"`   // conf.FillDefault on a fresh value
	Map    *Res              `json:"mapping,omitempty"`
	Std    *Res              `json:"stdjson,omitempty"`
}

var prim = map[string]reflect.Type{
	"bool": reflect.TypeOf(false), "int": reflect.TypeOf(int(0)), "int8": reflect.TypeOf(int8(0)),
	"int16": reflect.TypeOf(int16(0)), "int32": reflect.TypeOf(int32(0)), "int64": reflect.TypeOf(int64(0)),
	"uint": reflect.TypeOf(uint(0)), "uint8": reflect.TypeOf(uint8(0)), "uint16": reflect.TypeOf(uint16(0)),
	"uint32": reflect.TypeOf(uint32(0)), "uint64": reflect.TypeOf(uint64(0)),
	"float32": reflect.TypeOf(float32(0)), "float64": reflect.TypeOf(float64(0)), "string": reflect.TypeOf(""),
}

func renderRange(r *Range) string {
	var b strings.Builder
	if r.LI {
		b.WriteByte('[')
	} else {
		b.WriteByte('(')
	}
	if r.L != nil {
		b.WriteString(*r.L)
	}
	b.WriteByte(':')
	if r.R != nil {
		b.WriteString(*r.R)
	}
	if r.RI {
		b.WriteByte(']')
	} else {
		b.WriteByte(')')
	}
	return b.String()
}

func renderTag(f Field) string {
	segs := []string{f.Key}
	if o := f.O; o != nil {
		if o.Opt {
			if o.Dep != nil {
				if o.Neg {
					segs = append(segs, "optional=!"+*o.Dep)
				} else {
					segs = append(segs, "optional="+*o.Dep)
				}
			} else {
				segs = append(segs, "optional")
			}
		}
		if o.Def != nil {
			segs = append(segs, "default="+*o.Def)
		}
		if o.Range != nil {
			segs = append(segs, "range="+renderRange(o.Range))
		}
		if len(o.Options) > 0 {
			segs = append(segs, "options="+strings.Join(o.Options, "|"))
		}
		if o.Str {
			segs = append(segs, "string")
		}
	}
	return `json:"` + strings.Join(segs, ",") + `"`
}

func buildStruct(fields []Field) (reflect.Type, error) {
	fs := make([]reflect.StructField, 0, len(fields))
	for i, f := range fields {
		if f.Emb {
			st, err := buildStruct(f.F)
			if err != nil {
				return nil, err
			}
			if f.EPtr {
				st = reflect.PointerTo(st)
			}
			sf := reflect.StructField{Name: fmt.Sprintf("E%d", i), Type: st, Anonymous: true}
			name := ""
			if f.Tag != nil {
				name = *f.Tag
			}
			if f.EOpt {
				sf.Tag = reflect.StructTag(`json:"` + name + `,optional"`)
			} else if f.Tag != nil {
				sf.Tag = reflect.StructTag(`json:"` + name + `"`)
			}
			fs = append(fs, sf)
			continue
		}
		ft, err := build(f.T)
		if err != nil {
			return nil, err
		}
		fs = append(fs, reflect.StructField{
			Name: fmt.Sprintf("F%d", i),
			Type: ft,
			Tag:  reflect.StructTag(renderTag(f)),
		})
	}
	return reflect.StructOf(fs), nil
}

func build(t *Type) (reflect.Type, error) {
	if t == nil {
		return nil, fmt.Errorf("nil type")
	}
	switch t.K {
	case "ptr":
		e, err := build(t.E)
		if err != nil {
			return nil, err
		}
		return reflect.PointerTo(e), nil
	case "slice":
		e, err := build(t.E)
		if err != nil {
			return nil, err
		}
		return reflect.SliceOf(e), nil
	case "map":
		e, err := build(t.E)
		if err != nil {
			return nil, err
		}
		return reflect.MapOf(prim["string"], e), nil
	case "struct":
		return buildStruct(t.F)
	default:
		p, ok := prim[t.K]
		if !ok {
			return nil, fmt.Errorf("unknown kind %q", t.K)
		}
		return p, nil
	}
}

func fmtFloat(f float64, bits int) string {
	if math.IsNaN(f) {
		return "NaN"
	}
	if math.IsInf(f, 1) {
		return "+Inf"
	}
	if math.IsInf(f, -1) {
		return "-Inf"
	}
	if bits == 32 {
		return strconv.FormatFloat(f, 'e', 5, 32)
	}
	return strconv.FormatFloat(f, 'e', 14, 64)
}

func dump(v reflect.Value) any {
	switch v.Kind() {
	case reflect.Bool:
		return map[string]any{"b": v.Bool()}
	case reflect.Int, reflect.Int8, reflect.Int16, reflect.Int32, reflect.Int64:
		return map[string]any{"i": strconv.FormatInt(v.Int(), 10)}
	case reflect.Uint, reflect.Uint8, reflect.Uint16, reflect.Uint32, reflect.Uint64:
		return map[string]any{"i": strconv.FormatUint(v.Uint(), 10)}
	case reflect.Float32:
		return map[string]any{"f": fmtFloat(v.Float(), 32)}
	case reflect.Float64:
		return map[string]any{"f": fmtFloat(v.Float(), 64)}
	case reflect.String:
		return map[string]any{"s": v.String()}
	case reflect.Ptr:
		if v.IsNil() {
			return map[string]any{"z": 1}
		}
		return map[string]any{"p": dump(v.Elem())}
	case reflect.Slice:
		if v.IsNil() {
			return map[string]any{"z": 1}
		}
		l := make([]any, 0, v.Len())
		for i := 0; i < v.Len(); i++ {
			l = append(l, dump(v.Index(i)))
		}
		return map[string]any{"l": l}
	case reflect.Map:
		if v.IsNil() {
			return map[string]any{"z": 1}
		}
		keys := make([]string, 0, v.Len())
		for _, k := range v.MapKeys() {
			keys = append(keys, k.String())
		}
		sort.Strings(keys)
		l := make([]any, 0, len(keys))
		for _, k := range keys {
			l = append(l, []any{k, dump(v.MapIndex(reflect.ValueOf(k)))})
		}
		return map[string]any{"m": l}
	case reflect.Struct:
		l := make([]any, 0, v.NumField())
		for i := 0; i < v.NumField(); i++ {
			l = append(l, dump(v.Field(i)))
		}
		return map[string]any{"st": l}
	default:
		return map[string]any{"unknown": v.Kind().String()}
	}
}

// ---------------------------------------------------------------- rendering

// JSON: composed in document order; every leaf is printed by encoding/json
// (numbers as json.Number so that the literal survives).
func renderJSON(d *Doc, b *bytes.Buffer) error {
	leaf := func(v any) error {
		x, err := json.Marshal(v)
		if err != nil {
			return err
		}
		b.Write(x)
		return nil
	}
	switch {
	case d.Null != nil:
		return leaf(nil)
	case d.B != nil:
		return leaf(*d.B)
	case d.I != nil:
		return leaf(json.Number(*d.I))
	case d.FL != nil:
		return leaf(json.Number(*d.FL))
	case d.S != nil:
		return leaf(*d.S)
	case d.L != nil:
		b.WriteByte('[')
		for i := range *d.L {
			if i > 0 {
				b.WriteByte(',')
			}
			if err := renderJSON(&(*d.L)[i], b); err != nil {
				return err
			}
		}
		b.WriteByte(']')
		return nil
	case d.M != nil:
		b.WriteByte('{')
		for i := range *d.M {
			if i > 0 {
				b.WriteByte(',')
			}
			if err := leaf((*d.M)[i].K); err != nil {
				return err
			}
			b.WriteByte(':')
			if err := renderJSON(&(*d.M)[i].V, b); err != nil {
				return err
			}
		}
		b.WriteByte('}')
		return nil
	}
	return fmt.Errorf("empty doc node")
}

// float literals are carried through the YAML / TOML printers as placeholder strings and
// substituted afterwards, so that the literal (and with it the float type) survives.
type floats struct{ lits []string }

func (fl *floats) ph(i int) string { return fmt.Sprintf("ZZFLT%dZZ", i) }

func (fl *floats) add(lit string) string {
	fl.lits = append(fl.lits, lit)
	return fl.ph(len(fl.lits) - 1)
}

func (fl *floats) subst(text string, quoted bool) string {
	for i := len(fl.lits) - 1; i >= 0; i-- {
		p := fl.ph(i)
		if quoted {
			text = strings.ReplaceAll(text, "'"+p+"'", fl.lits[i])
			text = strings.ReplaceAll(text, `"`+p+`"`, fl.lits[i])
		}
		text = strings.ReplaceAll(text, p, fl.lits[i])
	}
	return text
}

func toYAML(d *Doc, fl *floats) (any, error) {
	switch {
	case d.Null != nil:
		return nil, nil
	case d.B != nil:
		return *d.B, nil
	case d.I != nil:
		if i, err := strconv.ParseInt(*d.I, 10, 64); err == nil {
			return i, nil
		}
		u, err := strconv.ParseUint(*d.I, 10, 64)
		return u, err
	case d.FL != nil:
		return fl.add(*d.FL), nil
	case d.S != nil:
		return *d.S, nil
	case d.L != nil:
		l := make([]any, 0, len(*d.L))
		for i := range *d.L {
			x, err := toYAML(&(*d.L)[i], fl)
			if err != nil {
				return nil, err
			}
			l = append(l, x)
		}
		return l, nil
	case d.M != nil:
		m := make(yaml.MapSlice, 0, len(*d.M))
		for i := range *d.M {
			x, err := toYAML(&(*d.M)[i].V, fl)
			if err != nil {
				return nil, err
			}
			m = append(m, yaml.MapItem{Key: (*d.M)[i].K, Value: x})
		}
		return m, nil
	}
	return nil, fmt.Errorf("empty doc node")
}

func toTOML(d *Doc, fl *floats) (any, error) {
	switch {
	case d.Null != nil:
		return nil, fmt.Errorf("TOML has no null")
	case d.B != nil:
		return *d.B, nil
	case d.I != nil:
		return strconv.ParseInt(*d.I, 10, 64)
	case d.FL != nil:
		return fl.add(*d.FL), nil
	case d.S != nil:
		return *d.S, nil
	case d.L != nil:
		l := make([]any, 0, len(*d.L))
		for i := range *d.L {
			x, err := toTOML(&(*d.L)[i], fl)
			if err != nil {
				return nil, err
			}
			l = append(l, x)
		}
		return l, nil
	case d.M != nil:
		m := make(map[string]any, len(*d.M))
		for i := range *d.M {
			x, err := toTOML(&(*d.M)[i].V, fl)
			if err != nil {
				return nil, err
			}
			m[(*d.M)[i].K] = x
		}
		return m, nil
	}
	return nil, fmt.Errorf("empty doc node")
}

func render(d *Doc, jsonOnly bool) (map[string]string, error) {
	res := map[string]string{}
	var jb bytes.Buffer
	if err := renderJSON(d, &jb); err != nil {
		return nil, fmt.Errorf("json: %v", err)
	}
	res["json"] = jb.String()
	if jsonOnly {
		return res, nil
	}

	var fy floats
	y, err := toYAML(d, &fy)
	if err != nil {
		return nil, fmt.Errorf("yaml: %v", err)
	}
	yb, err := yaml.Marshal(y)
	if err != nil {
		return nil, fmt.Errorf("yaml: %v", err)
	}
	res["yaml"] = fy.subst(string(yb), false)

	var ft floats
	t, err := toTOML(d, &ft)
	if err != nil {
		return nil, fmt.Errorf("toml: %v", err)
	}
	tb, err := toml.Marshal(t)
	if err != nil {
		return nil, fmt.Errorf("toml: %v", err)
	}
	res["toml"] = ft.subst(string(tb), true)
	return res, nil
}

// ---------------------------------------------------------------- running

func run(rt reflect.Type, call func(target any) error) (res Res) {
	target := reflect.New(rt)
	defer func() {
		if p := recover(); p != nil {
			res = Res{Verdict: "panic", Err: fmt.Sprint(p)}
		}
	}()
	if err := call(target.Interface()); err != nil {
		e := err.Error()
		if len(e) > 240 {
			e = e[:240]
		}
		return Res{Verdict: "error", Err: e}
	}
	return Res{Verdict: "ok", Val: dump(target.Elem())}
}

var formats = []string{"json", "yaml", "toml"}

func loadBytes(rt reflect.Type, texts map[string]string) map[string]Res {
	res := map[string]Res{}
	res["json"] = run(rt, func(t any) error { return conf.LoadFromJsonBytes([]byte(texts["json"]), t) })
	res["yaml"] = run(rt, func(t any) error { return conf.LoadFromYamlBytes([]byte(texts["yaml"]), t) })
	res["toml"] = run(rt, func(t any) error { return conf.LoadFromTomlBytes([]byte(texts["toml"]), t) })
	return res
}

func loadFiles(rt reflect.Type, dir string, texts map[string]string, opts ...conf.Option) (map[string]Res, error) {
	res := map[string]Res{}
	for _, f := range formats {
		p := filepath.Join(dir, "c."+f)
		if err := os.WriteFile(p, []byte(texts[f]), 0o600); err != nil {
			return nil, err
		}
		res[f] = run(rt, func(t any) error { return conf.Load(p, t, opts...) })
	}
	return res, nil
}

// extension -> format whose text is written into the file
var extFormat = [][2]string{{".json", "json"}, {".yaml", "yaml"}, {".yml", "yaml"}, {".toml", "toml"},
	{".YML", "yaml"}, {".Json", "json"}, {".txt", "json"}, {"", "yaml"}}

func loadByExt(rt reflect.Type, dir string, texts map[string]string) (map[string]Res, map[string]Res, error) {
	res, must := map[string]Res{}, map[string]Res{}
	for _, ef := range extFormat {
		p := filepath.Join(dir, "x"+ef[0])
		if err := os.WriteFile(p, []byte(texts[ef[1]]), 0o600); err != nil {
			return nil, nil, err
		}
		r := run(rt, func(t any) error { return conf.Load(p, t) })
		res[ef[0]] = r
		if r.Verdict == "ok" { // MustLoad exits the process on error
			must[ef[0]] = run(rt, func(t any) error { conf.MustLoad(p, t); return nil })
		}
	}
	return res, must, nil
}

func runCase(c Case, dir string) (out Out) {
	out.ID = c.ID
	rt, err := buildStruct(c.Type)
	if err != nil {
		out.Fail = "build type: " + err.Error()
		return
	}
	texts, err := render(&c.Doc, c.Kind == "std")
	if err != nil {
		out.Fail = "render: " + err.Error()
		return
	}
	out.Texts = texts
	switch c.Kind {
	case "std":
		raw := []byte(texts["json"])
		m := run(rt, func(t any) error { return mapping.UnmarshalJsonBytes(raw, t) })
		s := run(rt, func(t any) error { return json.Unmarshal(raw, t) })
		out.Map, out.Std = &m, &s
	case "load":
		out.Load = loadBytes(rt, texts)
		if out.ByExt, out.Must, err = loadByExt(rt, dir, texts); err != nil {
			out.Fail = "files: " + err.Error()
			return
		}
		f := run(rt, func(t any) error { return conf.FillDefault(t) })
		out.Fill = &f
		if c.Doc2 != nil {
			texts2, err := render(c.Doc2, false)
			if err != nil {
				out.Fail = "render doc2: " + err.Error()
				return
			}
			out.Texts2 = texts2
			out.Load2 = loadBytes(rt, texts2)
		}
		if c.Env != nil {
			for k, v := range c.Env {
				os.Setenv(k, v)
			}
			defer func() {
				for k := range c.Env {
					os.Unsetenv(k)
				}
			}()
			if out.EnvOn, err = loadFiles(rt, dir, texts, conf.UseEnv()); err != nil {
				out.Fail = "files: " + err.Error()
				return
			}
			exp := map[string]string{}
			for k, v := range texts {
				exp[k] = os.ExpandEnv(v)
			}
			out.EnvRef = loadBytes(rt, exp)
			if out.EnvOff, err = loadFiles(rt, dir, texts); err != nil {
				out.Fail = "files: " + err.Error()
				return
			}
		}
	default:
		out.Fail = "unknown kind " + c.Kind
	}
	return
}

func main() {
	var cases []Case
	hx.ReadCases(&cases)
	w := hx.NewWriter()
	defer w.Close()
	dir, err := os.MkdirTemp("/var/tmp", "c17-run-")
	if err != nil {
		hx.Fatal("tempdir: %v", err)
	}
	defer os.RemoveAll(dir)
	for _, c := range cases {
		w.Put(runCase(c, dir))
	}
}
