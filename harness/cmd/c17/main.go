// Executor for C17: builds Go configuration types at run time (verifh/c17t: reflect.StructOf,
// incl. embedded structs, arrays, declared named types, time.Duration, json.Number, any,
// []byte), renders the abstract document as JSON (encoding/json), YAML (gopkg.in/yaml.v2) and
// TOML (github.com/pelletier/go-toml/v2) — or takes hand-written texts — and loads them with
// conf.LoadFrom{Json,Yaml,Toml}Bytes, the deprecated LoadConfig* wrappers, conf.Load / MustLoad
// on files (by extension, with and without conf.UseEnv()), conf.LoadProperties, and a re-cased
// variant of the document; for "std" cases it decodes the JSON text with
// mapping.UnmarshalJsonBytes and with encoding/json.  All cases of a run are executed in ONE
// process, one after the other (state leaking from one call into a later one is visible).
// It only executes: generation, shrinking and rendering for Coq are in tools/props/c17.py.
package main

import (
	"bytes"
	"encoding/json"
	"fmt"
	"os"
	"path/filepath"
	"reflect"
	"sort"
	"strconv"
	"strings"
	"sync"

	toml "github.com/pelletier/go-toml/v2"
	"github.com/zeromicro/go-zero/core/conf"
	"github.com/zeromicro/go-zero/core/mapping"
	yaml "gopkg.in/yaml.v2"
	"verifh/c17t"
	"verifh/hx"
)

type Field = c17t.C17Field

// Doc is the abstract document.
type Doc struct {
	Null *int    `json:"null,omitempty"`
	B    *bool   `json:"b,omitempty"`
	I    *string `json:"i,omitempty"`  // integer, decimal
	FL   *string `json:"fl,omitempty"` // float literal (common JSON/YAML/TOML syntax)
	S    *string `json:"s,omitempty"`
	L    *[]Doc  `json:"l,omitempty"`
	M    *[]KV   `json:"m,omitempty"`
}

type KV struct {
	K string `json:"k"`
	V Doc    `json:"v"`
}

type Case struct {
	ID     int               `json:"id"`
	Kind   string            `json:"kind"` // "load" | "std" | "shape" | "bad" | "mfmt" | "nulls" | "conc"
	Type   []Field           `json:"type"`
	Doc    Doc               `json:"doc"`
	Doc2   *Doc              `json:"doc2"`
	Env    map[string]string `json:"env"`
	Texts  map[string]string `json:"texts"`  // hand-written renderings of Doc (instead of the printers')
	Order  []string          `json:"order"`  // the order in which the three byte loaders run (default json, yaml, toml)
	Texts2 map[string]string `json:"texts2"` // hand-written renderings of Doc2: ANOTHER SPELLING of the same document
	NoLoad bool              `json:"noload"` // shape: only the type is of interest (white-box run)
	Props  [][2]string       `json:"props"`  // env cases: lines of a properties file
	// conc: every member is loaded sequentially once, then all members are loaded Rounds times each
	// by their own goroutines at the same time
	Members []Member `json:"members"`
	Rounds  int      `json:"rounds"`
}

type Member struct {
	Type   []Field `json:"type"`
	Format string  `json:"format"` // json | yaml | toml | myaml | mtoml (mapping.Unmarshal*Bytes)
	Text   string  `json:"text"`
}

type MemberOut struct {
	Seq      string   `json:"seq"`      // the result of the sequential load (canonical JSON of Res)
	Distinct []string `json:"distinct"` // the distinct results seen by the member's goroutine
}

type Res struct {
	Verdict string `json:"verdict"`
	Err     string `json:"err,omitempty"`
	Val     any    `json:"val,omitempty"`
}

type Out struct {
	ID       int               `json:"id"`
	Fail     string            `json:"fail,omitempty"`
	TDesc    string            `json:"tdesc,omitempty"` // structure of the built type, as reflect sees it
	Texts    map[string]string `json:"texts,omitempty"`
	Texts2   map[string]string `json:"texts2,omitempty"`
	Load     map[string]Res    `json:"load,omitempty"`
	Load2    map[string]Res    `json:"load2,omitempty"`
	EnvOn    map[string]Res    `json:"envon,omitempty"`
	EnvOff   map[string]Res    `json:"envoff,omitempty"`
	EnvRef   map[string]Res    `json:"envref,omitempty"`  // LoadFrom*Bytes of os.ExpandEnv(text): what UseEnv must equal
	EnvMust  map[string]Res    `json:"envmust,omitempty"` // MustLoad / LoadConfig with conf.UseEnv() where Load succeeded
	ByExt    map[string]Res    `json:"byext,omitempty"`   // conf.Load on c<ext>, loader chosen by the extension
	Must     map[string]Res    `json:"must,omitempty"`    // conf.MustLoad where Load succeeded
	Depr     map[string]Res    `json:"depr,omitempty"`    // LoadConfigFromJsonBytes / LoadConfigFromYamlBytes / LoadConfig
	Fill     *Res              `json:"fill,omitempty"`    // conf.FillDefault on a fresh value
	Plain    []Res             `json:"plain,omitempty"`   // mapping.UnmarshalJsonBytes (exact keys) on the same type, before and after the conf loads
	PropsOn  map[string]string `json:"propson,omitempty"`
	PropsOff map[string]string `json:"propsoff,omitempty"`
	PropsErr string            `json:"propserr,omitempty"`
	MBytes   map[string]Res    `json:"mbytes,omitempty"`   // mapping.Unmarshal{Json,Yaml,Toml}Bytes
	MReaders map[string]Res    `json:"mreaders,omitempty"` // mapping.Unmarshal{Json,Yaml,Toml}Reader
	MCanon   map[string]Res    `json:"mcanon,omitempty"`   // the six entry points with WithCanonicalKeyFunc(strings.ToLower)
	Conc     []MemberOut       `json:"conc,omitempty"`
	Map      *Res              `json:"mapping,omitempty"`
	Std      *Res              `json:"stdjson,omitempty"`
}

// ---------------------------------------------------------------- rendering

// JSON: composed in document order; every leaf is printed by encoding/json
// (numbers as json.Number so that the literal survives).
func renderJSON(d *Doc, b *bytes.Buffer) error {
	leaf := func(v any) error {
		x, err := json.Marshal(v)
		if err != nil {
			return err
		}
		b.Write(x)
		return nil
	}
	switch {
	case d.Null != nil:
		return leaf(nil)
	case d.B != nil:
		return leaf(*d.B)
	case d.I != nil:
		return leaf(json.Number(*d.I))
	case d.FL != nil:
		return leaf(json.Number(*d.FL))
	case d.S != nil:
		return leaf(*d.S)
	case d.L != nil:
		b.WriteByte('[')
		for i := range *d.L {
			if i > 0 {
				b.WriteByte(',')
			}
			if err := renderJSON(&(*d.L)[i], b); err != nil {
				return err
			}
		}
		b.WriteByte(']')
		return nil
	case d.M != nil:
		b.WriteByte('{')
		for i := range *d.M {
			if i > 0 {
				b.WriteByte(',')
			}
			if err := leaf((*d.M)[i].K); err != nil {
				return err
			}
			b.WriteByte(':')
			if err := renderJSON(&(*d.M)[i].V, b); err != nil {
				return err
			}
		}
		b.WriteByte('}')
		return nil
	}
	return fmt.Errorf("empty doc node")
}

// float literals are carried through the YAML / TOML printers as placeholder strings and
// substituted afterwards, so that the literal (and with it the float type) survives.
type floats struct{ lits []string }

func (fl *floats) ph(i int) string { return fmt.Sprintf("ZZFLT%dZZ", i) }

func (fl *floats) add(lit string) string {
	fl.lits = append(fl.lits, lit)
	return fl.ph(len(fl.lits) - 1)
}

func (fl *floats) subst(text string, quoted bool) string {
	for i := len(fl.lits) - 1; i >= 0; i-- {
		p := fl.ph(i)
		if quoted {
			text = strings.ReplaceAll(text, "'"+p+"'", fl.lits[i])
			text = strings.ReplaceAll(text, `"`+p+`"`, fl.lits[i])
		}
		text = strings.ReplaceAll(text, p, fl.lits[i])
	}
	return text
}

func toYAML(d *Doc, fl *floats) (any, error) {
	switch {
	case d.Null != nil:
		return nil, nil
	case d.B != nil:
		return *d.B, nil
	case d.I != nil:
		if i, err := strconv.ParseInt(*d.I, 10, 64); err == nil {
			return i, nil
		}
		u, err := strconv.ParseUint(*d.I, 10, 64)
		return u, err
	case d.FL != nil:
		return fl.add(*d.FL), nil
	case d.S != nil:
		return *d.S, nil
	case d.L != nil:
		l := make([]any, 0, len(*d.L))
		for i := range *d.L {
			x, err := toYAML(&(*d.L)[i], fl)
			if err != nil {
				return nil, err
			}
			l = append(l, x)
		}
		return l, nil
	case d.M != nil:
		m := make(yaml.MapSlice, 0, len(*d.M))
		for i := range *d.M {
			x, err := toYAML(&(*d.M)[i].V, fl)
			if err != nil {
				return nil, err
			}
			m = append(m, yaml.MapItem{Key: (*d.M)[i].K, Value: x})
		}
		return m, nil
	}
	return nil, fmt.Errorf("empty doc node")
}

func toTOML(d *Doc, fl *floats) (any, error) {
	switch {
	case d.Null != nil:
		return nil, fmt.Errorf("TOML has no null")
	case d.B != nil:
		return *d.B, nil
	case d.I != nil:
		return strconv.ParseInt(*d.I, 10, 64)
	case d.FL != nil:
		return fl.add(*d.FL), nil
	case d.S != nil:
		return *d.S, nil
	case d.L != nil:
		l := make([]any, 0, len(*d.L))
		for i := range *d.L {
			x, err := toTOML(&(*d.L)[i], fl)
			if err != nil {
				return nil, err
			}
			l = append(l, x)
		}
		return l, nil
	case d.M != nil:
		m := make(map[string]any, len(*d.M))
		for i := range *d.M {
			x, err := toTOML(&(*d.M)[i].V, fl)
			if err != nil {
				return nil, err
			}
			m[(*d.M)[i].K] = x
		}
		return m, nil
	}
	return nil, fmt.Errorf("empty doc node")
}

func render(d *Doc, jsonOnly bool, noToml ...bool) (map[string]string, error) {
	res := map[string]string{}
	var jb bytes.Buffer
	if err := renderJSON(d, &jb); err != nil {
		return nil, fmt.Errorf("json: %v", err)
	}
	res["json"] = jb.String()
	if jsonOnly {
		return res, nil
	}

	var fy floats
	y, err := toYAML(d, &fy)
	if err != nil {
		return nil, fmt.Errorf("yaml: %v", err)
	}
	yb, err := yaml.Marshal(y)
	if err != nil {
		return nil, fmt.Errorf("yaml: %v", err)
	}
	res["yaml"] = fy.subst(string(yb), false)
	if len(noToml) > 0 && noToml[0] { // a document with nulls: TOML cannot write it
		return res, nil
	}

	var ft floats
	t, err := toTOML(d, &ft)
	if err != nil {
		return nil, fmt.Errorf("toml: %v", err)
	}
	tb, err := toml.Marshal(t)
	if err != nil {
		return nil, fmt.Errorf("toml: %v", err)
	}
	res["toml"] = ft.subst(string(tb), true)
	return res, nil
}

// ---------------------------------------------------------------- running

func run(rt reflect.Type, call func(target any) error) Res { return runInto(reflect.New(rt), call) }

func runInto(target reflect.Value, call func(target any) error) (res Res) {
	defer func() {
		if p := recover(); p != nil {
			res = Res{Verdict: "panic", Err: fmt.Sprint(p)}
		}
	}()
	if err := call(target.Interface()); err != nil {
		e := err.Error()
		if len(e) > 240 {
			e = e[:240]
		}
		return Res{Verdict: "error", Err: e}
	}
	if c17t.C17Shared(target.Elem()) {
		// accepted, but two positions of the decoded value share one cell
		return Res{Verdict: "shared", Val: c17t.C17Dump(target.Elem())}
	}
	return Res{Verdict: "ok", Val: c17t.C17Dump(target.Elem())}
}

var formats = []string{"json", "yaml", "toml"}

// run2: the same load twice into two fresh values; besides the verdict of the first, the two
// loaded configurations must be equal and must not share storage with each other
func run2(rt reflect.Type, call func(target any) error) Res {
	first := reflect.New(rt)
	r := runInto(first, call)
	if r.Verdict != "ok" {
		return r
	}
	second := reflect.New(rt)
	r2 := runInto(second, call)
	if r2.Verdict != "ok" || !reflect.DeepEqual(r.Val, r2.Val) || c17t.C17SharedAmong(first.Elem(), second.Elem()) {
		return Res{Verdict: "shared", Val: r.Val, Err: "a second load of the same text differs from or shares storage with the first"}
	}
	return r
}

// the order of the three loaders within a case (state kept by conf between loads must not matter)
var loadOrder = formats

func loadBytes(rt reflect.Type, texts map[string]string) map[string]Res {
	res := map[string]Res{}
	for _, f := range loadOrder {
		switch f {
		case "json":
			res["json"] = run2(rt, func(t any) error { return conf.LoadFromJsonBytes([]byte(texts["json"]), t) })
		case "yaml":
			res["yaml"] = run2(rt, func(t any) error { return conf.LoadFromYamlBytes([]byte(texts["yaml"]), t) })
		case "toml":
			res["toml"] = run2(rt, func(t any) error { return conf.LoadFromTomlBytes([]byte(texts["toml"]), t) })
		}
	}
	return res
}

func loadFiles(rt reflect.Type, dir string, texts map[string]string, opts ...conf.Option) (map[string]Res, error) {
	res := map[string]Res{}
	for _, f := range formats {
		p := filepath.Join(dir, "c."+f)
		if err := os.WriteFile(p, []byte(texts[f]), 0o600); err != nil {
			return nil, err
		}
		res[f] = run(rt, func(t any) error { return conf.Load(p, t, opts...) })
	}
	return res, nil
}

// extension -> format whose text is written into the file
var extFormat = [][2]string{{".json", "json"}, {".yaml", "yaml"}, {".yml", "yaml"}, {".toml", "toml"},
	{".YML", "yaml"}, {".Json", "json"}, {".txt", "json"}, {"", "yaml"}}

func loadByExt(rt reflect.Type, dir string, texts map[string]string) (map[string]Res, map[string]Res, error) {
	res, must := map[string]Res{}, map[string]Res{}
	for _, ef := range extFormat {
		p := filepath.Join(dir, "x"+ef[0])
		if err := os.WriteFile(p, []byte(texts[ef[1]]), 0o600); err != nil {
			return nil, nil, err
		}
		r := run(rt, func(t any) error { return conf.Load(p, t) })
		res[ef[0]] = r
		if r.Verdict == "ok" || r.Verdict == "shared" { // MustLoad exits the process on error
			must[ef[0]] = run(rt, func(t any) error { conf.MustLoad(p, t); return nil })
		}
	}
	// a file that does not exist: os.ReadFile's error, whatever the extension
	res["missing"] = run(rt, func(t any) error { return conf.Load(filepath.Join(dir, "nope.json"), t) })
	return res, must, nil
}

// the deprecated wrappers must behave like the functions they wrap
func loadDeprecated(rt reflect.Type, dir string, texts map[string]string) (map[string]Res, error) {
	res := map[string]Res{}
	res[".json"] = run(rt, func(t any) error { return conf.LoadConfigFromJsonBytes([]byte(texts["json"]), t) })
	res[".yaml"] = run(rt, func(t any) error { return conf.LoadConfigFromYamlBytes([]byte(texts["yaml"]), t) })
	p := filepath.Join(dir, "d.toml")
	if err := os.WriteFile(p, []byte(texts["toml"]), 0o600); err != nil {
		return nil, err
	}
	res[".toml"] = run(rt, func(t any) error { return conf.LoadConfig(p, t) })
	return res, nil
}

func loadProps(dir string, lines [][2]string, opts ...conf.Option) (map[string]string, error) {
	var b strings.Builder
	b.WriteString("# C17 properties\n\n")
	for _, kv := range lines {
		b.WriteString(kv[0] + " = " + kv[1] + "\n")
	}
	p := filepath.Join(dir, "p.properties")
	if err := os.WriteFile(p, []byte(b.String()), 0o600); err != nil {
		return nil, err
	}
	props, err := conf.LoadProperties(p, opts...)
	if err != nil {
		return nil, err
	}
	res := map[string]string{}
	for _, kv := range lines {
		res[kv[0]] = props.GetString(kv[0])
	}
	return res, nil
}

func buildType(fs []Field) (rt reflect.Type, err error) {
	defer func() {
		if p := recover(); p != nil { // reflect.StructOf refuses some embeddings
			err = fmt.Errorf("%v", p)
		}
	}()
	return c17t.C17BuildStruct(fs)
}

func loadMember(rt reflect.Type, m Member) string {
	r := run(rt, func(t any) error {
		switch m.Format {
		case "json":
			return conf.LoadFromJsonBytes([]byte(m.Text), t)
		case "yaml":
			return conf.LoadFromYamlBytes([]byte(m.Text), t)
		case "toml":
			return conf.LoadFromTomlBytes([]byte(m.Text), t)
		case "myaml":
			return mapping.UnmarshalYamlBytes([]byte(m.Text), t)
		case "mtoml":
			return mapping.UnmarshalTomlBytes([]byte(m.Text), t)
		}
		return fmt.Errorf("unknown format %q", m.Format)
	})
	r.Err = "" // error texts may quote addresses; the verdict is what counts
	b, _ := json.Marshal(r)
	return string(b)
}

func runConc(c Case) (out Out) {
	out.ID = c.ID
	types := make([]reflect.Type, len(c.Members))
	for i, m := range c.Members {
		rt, err := buildType(m.Type)
		if err != nil {
			out.Fail = "build type: " + err.Error()
			return
		}
		types[i] = rt
	}
	out.Conc = make([]MemberOut, len(c.Members))
	for i, m := range c.Members {
		out.Conc[i].Seq = loadMember(types[i], m)
	}
	var wg sync.WaitGroup
	start := make(chan struct{})
	for i := range c.Members {
		wg.Add(1)
		go func(i int) {
			defer wg.Done()
			seen := map[string]bool{}
			<-start
			for r := 0; r < c.Rounds; r++ {
				seen[loadMember(types[i], c.Members[i])] = true
			}
			for k := range seen {
				out.Conc[i].Distinct = append(out.Conc[i].Distinct, k)
			}
			sort.Strings(out.Conc[i].Distinct)
		}(i)
	}
	close(start)
	wg.Wait()
	return
}

func runCase(c Case, dir string) (out Out) {
	if c.Kind == "conc" {
		return runConc(c)
	}
	out.ID = c.ID
	loadOrder = formats
	if len(c.Order) == 3 {
		loadOrder = c.Order
	}
	rt, err := buildType(c.Type)
	if err != nil {
		out.Fail = "build type: " + err.Error()
		return
	}
	out.TDesc = c17t.C17Describe(rt)
	if c.Kind == "bad" { // malformed texts: every loader must answer with an error
		out.Texts = c.Texts
		out.Load = loadBytes(rt, c.Texts)
		return
	}
	texts := c.Texts
	if texts == nil {
		if texts, err = render(&c.Doc, c.Kind == "std", c.Kind == "nulls"); err != nil {
			out.Fail = "render: " + err.Error()
			return
		}
	}
	out.Texts = texts
	if c.Doc2 != nil {
		if c.Texts2 != nil {
			out.Texts2 = c.Texts2
		} else if out.Texts2, err = render(c.Doc2, false); err != nil {
			out.Fail = "render doc2: " + err.Error()
			return
		}
	}
	switch c.Kind {
	case "std":
		raw := []byte(texts["json"])
		m := run2(rt, func(t any) error { return mapping.UnmarshalJsonBytes(raw, t) })
		s := run(rt, func(t any) error { return json.Unmarshal(raw, t) })
		out.Map, out.Std = &m, &s
	case "nulls": // a document with nulls (outside the three-format quantifier): the JSON and the YAML loader
		out.Load = map[string]Res{
			"json": run2(rt, func(t any) error { return conf.LoadFromJsonBytes([]byte(texts["json"]), t) }),
			"yaml": run2(rt, func(t any) error { return conf.LoadFromYamlBytes([]byte(texts["yaml"]), t) }),
		}
	case "mfmt": // mapping's own format front ends (no conf layer: keys are matched exactly)
		out.MBytes = map[string]Res{
			"json": run2(rt, func(t any) error { return mapping.UnmarshalJsonBytes([]byte(texts["json"]), t) }),
			"yaml": run2(rt, func(t any) error { return mapping.UnmarshalYamlBytes([]byte(texts["yaml"]), t) }),
			"toml": run2(rt, func(t any) error { return mapping.UnmarshalTomlBytes([]byte(texts["toml"]), t) }),
		}
		// the options given to the YAML / TOML entry points must reach the unmarshaler like those given to the JSON one
		canon := mapping.WithCanonicalKeyFunc(strings.ToLower)
		out.MCanon = map[string]Res{
			"json": run(rt, func(t any) error { return mapping.UnmarshalJsonBytes([]byte(texts["json"]), t, canon) }),
			"yaml": run(rt, func(t any) error { return mapping.UnmarshalYamlBytes([]byte(texts["yaml"]), t, canon) }),
			"toml": run(rt, func(t any) error { return mapping.UnmarshalTomlBytes([]byte(texts["toml"]), t, canon) }),
			"rjson": run(rt, func(t any) error { return mapping.UnmarshalJsonReader(strings.NewReader(texts["json"]), t, canon) }),
			"ryaml": run(rt, func(t any) error { return mapping.UnmarshalYamlReader(strings.NewReader(texts["yaml"]), t, canon) }),
			"rtoml": run(rt, func(t any) error { return mapping.UnmarshalTomlReader(strings.NewReader(texts["toml"]), t, canon) }),
		}
		out.MReaders = map[string]Res{
			"json": run(rt, func(t any) error { return mapping.UnmarshalJsonReader(strings.NewReader(texts["json"]), t) }),
			"yaml": run(rt, func(t any) error { return mapping.UnmarshalYamlReader(strings.NewReader(texts["yaml"]), t) }),
			"toml": run(rt, func(t any) error { return mapping.UnmarshalTomlReader(strings.NewReader(texts["toml"]), t) }),
		}
	case "shape":
		if c.NoLoad {
			return
		}
		out.Load = loadBytes(rt, texts)
		if c.Doc2 != nil {
			out.Load2 = loadBytes(rt, out.Texts2)
		}
	case "load":
		// the same TYPE goes through unmarshalers with different options (exact keys, canonical keys,
		// fill-default) in one process, in varying order: whatever they memoise per type must not leak
		plain := func() Res {
			return run(rt, func(t any) error { return mapping.UnmarshalJsonBytes([]byte(texts["json"]), t) })
		}
		var fillFirst *Res
		if c.ID%2 == 1 {
			f := run(rt, func(t any) error { return conf.FillDefault(t) })
			fillFirst = &f
		} else {
			out.Plain = append(out.Plain, plain())
		}
		out.Load = loadBytes(rt, texts)
		if out.ByExt, out.Must, err = loadByExt(rt, dir, texts); err != nil {
			out.Fail = "files: " + err.Error()
			return
		}
		if out.Depr, err = loadDeprecated(rt, dir, texts); err != nil {
			out.Fail = "files: " + err.Error()
			return
		}
		f := run(rt, func(t any) error { return conf.FillDefault(t) })
		out.Fill = &f
		if fillFirst != nil && !reflect.DeepEqual(*fillFirst, f) {
			out.Fill = &Res{Verdict: "shared", Err: "FillDefault before and after the loads differ"}
		}
		out.Plain = append(out.Plain, plain())
		if c.Doc2 != nil {
			out.Load2 = loadBytes(rt, out.Texts2)
		}
		if c.Env != nil {
			for k, v := range c.Env {
				os.Setenv(k, v)
			}
			defer func() {
				for k := range c.Env {
					os.Unsetenv(k)
				}
			}()
			// the order matters: the calls WITH conf.UseEnv() come first, the ones without
			// afterwards must not be affected by them
			if out.EnvOn, err = loadFiles(rt, dir, texts, conf.UseEnv()); err != nil {
				out.Fail = "files: " + err.Error()
				return
			}
			// the option must reach Load through the wrappers too
			out.EnvMust = map[string]Res{}
			for _, f := range formats {
				r := out.EnvOn[f]
				if r.Verdict == "ok" || r.Verdict == "shared" {
					p := filepath.Join(dir, "c."+f)
					if f == "yaml" {
						r = run(rt, func(t any) error { return conf.LoadConfig(p, t, conf.UseEnv()) })
					} else {
						r = run(rt, func(t any) error { conf.MustLoad(p, t, conf.UseEnv()); return nil })
					}
				}
				out.EnvMust[f] = r
			}
			if c.Props != nil {
				if out.PropsOn, err = loadProps(dir, c.Props, conf.UseEnv()); err != nil {
					out.PropsErr = err.Error()
				}
			}
			exp := map[string]string{}
			for k, v := range texts {
				exp[k] = os.ExpandEnv(v)
			}
			out.EnvRef = loadBytes(rt, exp)
			if out.EnvOff, err = loadFiles(rt, dir, texts); err != nil {
				out.Fail = "files: " + err.Error()
				return
			}
			if c.Props != nil {
				if out.PropsOff, err = loadProps(dir, c.Props); err != nil {
					out.PropsErr = err.Error()
				}
			}
		}
	default:
		out.Fail = "unknown kind " + c.Kind
	}
	return
}

func main() {
	var cases []Case
	hx.ReadCases(&cases)
	w := hx.NewWriter()
	defer w.Close()
	dir, err := os.MkdirTemp("/var/tmp", "c17-run-")
	if err != nil {
		hx.Fatal("tempdir: %v", err)
	}
	defer os.RemoveAll(dir)
	// for `env=` tag options (mapping caches environment look-ups per process: set once, never changed)
	os.Setenv("C17_TAGENV", "from-the-environment")
	os.Setenv("C17_TAGPORT", "7")
	for _, c := range cases {
		w.Put(runCase(c, dir))
	}
}
