package main

// Sequences: several requests through ONE handler.TimeoutHandler instance.  The
// controller forces a complete order of events "start request i", "one handler
// action of request i", "cancel request i"; a handler abandoned at its timeout
// stays parked and is released later, while other requests are being served.

import (
	"context"
	"errors"
	"net/http"
	"runtime"
	"strconv"
	"sync/atomic"
	"time"

	"github.com/zeromicro/go-zero/rest/handler"
)

type SeqReqIn struct {
	H0     [][]any `json:"h0"`
	Script [][]any `json:"script"`
}

type SeqCase struct {
	ID    int        `json:"id"`
	Kind  string     `json:"kind"`
	DurNs int64      `json:"dur_ns"`
	Reqs  []SeqReqIn `json:"reqs"`
	Order [][]any    `json:"order"` // ["start", i] | ["H", i] | ["D", i]
	// Procs > 0: run the case with GOMAXPROCS(Procs).  With one P, per-P caches
	// (sync.Pool) hand an object released by one request to the very next one.
	Procs int `json:"procs"`
}

type SeqReqOut struct {
	SOut    string `json:"sout"`
	PKind   string `json:"pkind"`
	PVal    int64  `json:"pval"`
	Status  int    `json:"status"`
	Snap    []Hdr  `json:"snap"`
	Live    []Hdr  `json:"live"`
	Body    []int  `json:"body"`
	Extra   int    `json:"extra"`
	Late    int    `json:"late"`
	Foreign int    `json:"foreign"`
}

type SeqOut struct {
	ID     int         `json:"id"`
	Sched  [][]any     `json:"sched"` // [i, "H"|"Dc"|"St"|"Sd"|"Sp"]
	HObs   [][]any     `json:"hobs"`  // [i, obs...]
	Reqs   []SeqReqOut `json:"reqs"`
	RetAtD int         `json:"ret_at_d"`
	// Stuck >= 0: a handler action (or the handler's start) of that request did not
	// return within 5 s; the run was cut there and the request counts as not completed
	Stuck int    `json:"stuck"`
	Err   string `json:"err,omitempty"`
}

type seqReq struct {
	in       SeqReqIn
	gate     chan hcmd
	acks     chan hack
	rw       *recw
	sret     atomic.Bool
	sRet     chan struct{}
	sPanic   any
	hStarted chan struct{}
	cancel   context.CancelFunc
	parent   context.Context
	started  bool
	hEnded   bool
	sSeen    bool
}

const seqHeader = "X-Verif-Req"

func runSeq(c SeqCase) (out SeqOut) {
	out = SeqOut{ID: c.ID, RetAtD: -1, Stuck: -1, Sched: [][]any{}, HObs: [][]any{}}
	if c.Procs > 0 {
		defer runtime.GOMAXPROCS(runtime.GOMAXPROCS(c.Procs))
	}
	reqs := make([]*seqReq, len(c.Reqs))
	for i, in := range c.Reqs {
		q := &seqReq{in: in, gate: make(chan hcmd), acks: make(chan hack, len(in.Script)+4),
			sRet: make(chan struct{}), hStarted: make(chan struct{})}
		q.parent, q.cancel = context.WithCancel(context.Background())
		defer q.cancel()
		q.rw = &recw{hdr: http.Header{}, sret: &q.sret}
		for _, kv := range in.H0 {
			for _, v := range kv[1].([]any) {
				q.rw.hdr.Add(hname(num(kv[0])), hval(num(v)))
			}
		}
		reqs[i] = q
	}

	work := http.HandlerFunc(func(w http.ResponseWriter, r *http.Request) {
		i, err := strconv.Atoi(r.Header.Get(seqHeader))
		if err != nil || i < 0 || i >= len(reqs) {
			return
		}
		q := reqs[i]
		close(q.hStarted)
		defer func() {
			if p := recover(); p != nil {
				k, v := classifyPanic(p)
				q.acks <- hack{obs: []any{"panic", k, v}, ended: true}
				panic(p)
			}
		}()
		for _, a := range q.in.Script {
			<-q.gate
			switch a[0].(string) {
			case "set":
				w.Header().Set(hname(num(a[1])), hval(num(a[2])))
				q.acks <- hack{obs: []any{"none"}}
			case "add":
				w.Header().Add(hname(num(a[1])), hval(num(a[2])))
				q.acks <- hack{obs: []any{"none"}}
			case "del":
				w.Header().Del(hname(num(a[1])))
				q.acks <- hack{obs: []any{"none"}}
			case "wh":
				w.WriteHeader(int(num(a[1])))
				q.acks <- hack{obs: []any{"none"}}
			case "w":
				bs := a[1].([]any)
				p := make([]byte, len(bs))
				for j, b := range bs {
					p[j] = byte(num(b))
				}
				n, err := w.Write(p)
				switch {
				case err == nil:
					q.acks <- hack{obs: []any{"wok", n}}
				case errors.Is(err, http.ErrHandlerTimeout):
					q.acks <- hack{obs: []any{"wto"}, wto: true}
				default:
					q.acks <- hack{obs: []any{"werr"}}
				}
			case "chk":
				select {
				case <-r.Context().Done():
					q.acks <- hack{obs: []any{"ctx", true}, ctxd: true}
					goto ret
				default:
					q.acks <- hack{obs: []any{"ctx", false}}
				}
			case "panic":
				panic(pv(num(a[1])))
			}
		}
	ret:
		<-q.gate
		q.acks <- hack{obs: []any{"none"}, ended: true}
	})
	// ONE middleware instance for all requests
	h := handler.TimeoutHandler(time.Duration(c.DurNs))(work)

	emit := func(i int, e string) { out.Sched = append(out.Sched, []any{i, e}) }
	returned := func(q *seqReq, wait time.Duration) bool {
		if wait == 0 {
			select {
			case <-q.sRet:
				return true
			default:
				return false
			}
		}
		select {
		case <-q.sRet:
			return true
		case <-time.After(wait):
			return false
		}
	}
	emitS := func(i int, q *seqReq) {
		q.sSeen = true
		switch {
		case q.sPanic != nil:
			emit(i, "Sp")
		case !q.hEnded:
			emit(i, "St")
		default:
			q.rw.mu.Lock()
			st := q.rw.code
			q.rw.mu.Unlock()
			if st == 499 {
				emit(i, "St")
			} else {
				emit(i, "Sd")
			}
		}
	}
	start := func(i int, q *seqReq) bool {
		req, _ := http.NewRequestWithContext(q.parent, http.MethodGet, "http://localhost/x", http.NoBody)
		req.Header.Set(seqHeader, strconv.Itoa(i))
		sStarted := make(chan struct{})
		go func() {
			defer func() {
				q.sPanic = recover()
				q.sret.Store(true)
				close(q.sRet)
			}()
			q.rw.sgid = gid()
			close(sStarted)
			h.ServeHTTP(q.rw, req)
		}()
		<-sStarted
		q.started = true
		select {
		case <-q.hStarted:
			return true
		case <-time.After(5 * time.Second):
			return false
		}
	}
	stepH := func(i int, q *seqReq) bool {
		select {
		case q.gate <- hcmd{}:
		case <-time.After(5 * time.Second):
			return false
		}
		var a hack
		select {
		case a = <-q.acks:
		case <-time.After(5 * time.Second):
			return false
		}
		if a.wto && !q.sSeen {
			if !returned(q, waitS) {
				return false
			}
			emitS(i, q)
		}
		emit(i, "H")
		out.HObs = append(out.HObs, append([]any{i}, a.obs...))
		q.hEnded = a.ended
		if !q.sSeen {
			w := time.Duration(0)
			if q.hEnded {
				w = waitS
			}
			if returned(q, w) {
				emitS(i, q)
			}
		}
		return true
	}

loop:
	for _, ev := range c.Order {
		i := int(num(ev[1]))
		q := reqs[i]
		switch ev[0].(string) {
		case "start":
			if !q.started && !start(i, q) {
				out.Stuck = i
				break loop
			}
		case "H":
			if q.started && !q.hEnded && !stepH(i, q) {
				out.Stuck = i
				break loop
			}
		case "D":
			q.cancel()
			emit(i, "Dc")
			if q.started && !q.sSeen {
				if returned(q, waitS) {
					if !q.hEnded {
						out.RetAtD = 1
					}
					emitS(i, q)
				} else {
					out.RetAtD = 0
				}
			}
		}
	}
	// let every handler run to its end
	for i, q := range reqs {
		for out.Stuck < 0 && q.started && !q.hEnded {
			if !stepH(i, q) {
				out.Stuck = i
			}
		}
		if out.Stuck < 0 && q.started && !q.sSeen && returned(q, waitS) {
			emitS(i, q)
		}
	}
	for _, q := range reqs {
		o := SeqReqOut{Body: []int{}}
		switch {
		case !q.sret.Load():
			o.SOut = "wait"
		case q.sPanic != nil:
			o.SOut = "panic"
			o.PKind, o.PVal = classifyPanic(q.sPanic)
		default:
			o.SOut = "ret"
		}
		q.rw.mu.Lock()
		if q.rw.wrote {
			o.Status = q.rw.code
		}
		var e1, e2 int
		o.Snap, e1 = hdrOut(q.rw.snap)
		o.Live, e2 = hdrOut(q.rw.hdr)
		o.Extra = e1 + e2
		for _, b := range q.rw.body {
			o.Body = append(o.Body, int(b))
		}
		o.Late, o.Foreign = q.rw.late, q.rw.foreign
		q.rw.mu.Unlock()
		out.Reqs = append(out.Reqs, o)
	}
	return out
}
