package main

// Sequences: several requests through ONE handler.TimeoutHandler instance.  The
// controller forces a complete order of events "start request i", "one handler
// action of request i", "cancel request i"; a handler abandoned at its timeout
// stays parked and is released later, while other requests are being served.

import (
	"net/http"
	"time"

	"github.com/zeromicro/go-zero/rest/handler"
)

func runSeq(c SeqCase) SeqOut {
	// ONE middleware instance for all requests
	return runSeqCore(c, func(work http.HandlerFunc) (http.Handler, func(int) string, error) {
		var next http.Handler = work
		if c.Rec {
			// Timeout -> Recover -> work, the order of the engine's chain
			next = underRecover(handler.RecoverHandler, work)
		}
		return handler.TimeoutHandler(time.Duration(c.DurNs))(next), func(int) string { return "/x" }, nil
	})
}
