// Executor for C04 (REST and fx parts): drives handler.TimeoutHandler and
// fx.DoWithTimeout through their public API under controller-forced schedules.
//
// REST: the wrapped handler executes a script, one action per gate release; the
// Done event of the request context is produced by cancelling the parent context
// (499 branch), by a short real timeout / parent deadline with the handler parked
// (503 branch), or by the handler goroutine itself right before its next action
// (race: the wrapper's select runs concurrently with that action).  The executor
// reports the linearised schedule it observed, what every handler action
// returned, and the response as an http.ResponseWriter test double saw it.
package main

import (
	"context"
	"encoding/json"
	"fmt"
	"net/http"
	"runtime"
	"strconv"
	"strings"
	"sync/atomic"
	"time"

	"github.com/zeromicro/go-zero/core/fx"
	"github.com/zeromicro/go-zero/core/logx"
	"github.com/zeromicro/go-zero/rest/handler"
	"verifh/hx"
)

type DSpec struct {
	Mode string `json:"mode"` // none | cancel | deadline | race
	Pos  int    `json:"pos"`  // number of handler steps executed before D
	// race: how often the handler goroutine yields between its cancel() and its action
	Yield int `json:"yield"`
}

type Case struct {
	ID       int               `json:"id"`
	Kind     string            `json:"kind"` // rest | fx | free
	Req      string            `json:"req"`  // plain | ws | sse
	DurNs    int64             `json:"dur_ns"`
	ParentNs *int64            `json:"parent_ns"` // parent deadline, offset from the start; nil = none
	H0       [][]any           `json:"h0"`
	Script   [][]any           `json:"script"`
	Fl       bool              `json:"fl"`     // the real writer is an http.Flusher
	PShape   string            `json:"pshape"` // shape of the caller's context (ctxshape.go)
	Names    map[string]string `json:"names"`  // header names of the scripts' header keys (default "X-H<k>")
	D        DSpec             `json:"d"`
	// Rec: handler.RecoverHandler sits between the timeout middleware and the work (the order of
	// the chain the rest engine builds), with a gate in between (recGate, restctl.go)
	Rec bool `json:"rec"`
	// Stall (with d.mode "stall"): a slow client — the Write the handler's first effective Flush makes on the
	// real writer stalls; the request is cancelled meanwhile; 300 ms later the stall is lifted
	Stall bool `json:"stall"`
}

type Out struct {
	ID       int      `json:"id"`
	Wrapped  bool     `json:"wrapped"`
	Sched    []string `json:"sched"`
	HObs     [][]any  `json:"hobs"`
	SOut     string   `json:"sout"` // wait | ret | panic
	PKind    string   `json:"pkind"`
	PVal     int64    `json:"pval"`
	W        WOut     `json:"w"`
	HasDl    bool     `json:"has_dl"`
	DlSeenNs int64    `json:"dl_seen_ns"`
	T1Ns     int64    `json:"t1_ns"`
	RetAtD   int      `json:"ret_at_d"` // -1 n/a, 0 no, 1 yes
	// Hung: a handler action did not come back and for two seconds on end a goroutine was parked
	// on a mutex of rest/handler: the run was cut there (then D is produced once more: RetAtD)
	Hung bool   `json:"hung"`
	Dump string `json:"dump,omitempty"` // goroutine dump taken when a handler action hung
	Err  string `json:"err,omitempty"`
}

func runRest(c Case) (out Out) {
	out = Out{ID: c.ID, RetAtD: -1, Sched: []string{}, HObs: [][]any{}}
	setNames(c.Names)
	gate := make(chan hcmd)
	acks := make(chan hack, 4*len(c.Script)+16)
	var sret atomic.Bool
	sRet := make(chan struct{})
	var sPanic any
	var hgid atomic.Int64
	hStarted := make(chan struct{})
	var dlSeen time.Time
	var hasDl bool
	var t1 time.Time

	tA := time.Now()
	parent, cancelParent, releaseParent := mkParent(c.PShape, tA, c.ParentNs)
	defer releaseParent()
	defer cancelParent()

	script := c.Script
	pre := c.D.Mode == "pre"
	recvGate := func() hcmd {
		if pre {
			return hcmd{}
		}
		return <-gate
	}
	work := http.HandlerFunc(func(w http.ResponseWriter, r *http.Request) {
		w, rg := unwrapRec(w)
		t1 = time.Now()
		dlSeen, hasDl = r.Context().Deadline()
		hgid.Store(gid())
		close(hStarted)
		rcdl := false
		gate := func() {
			cmd := recvGate()
			if cmd.selfCancel {
				cancelParent()
				for j := 0; j < cmd.yield; j++ {
					runtime.Gosched()
				}
			}
			if rcdl {
				rcdl = false
				doRCDeadline(w)
			}
		}
		defer func() {
			if p := recover(); p != nil {
				k, v := classifyPanic(p)
				if rg != nil {
					// a RecoverHandler above: its reply and the return are actions still to come
					rg.armed, rg.gate, rg.ack = true, gate, func(a hack) { acks <- a }
					acks <- hack{obs: []any{"panic", k, v}}
				} else {
					acks <- hack{obs: []any{"panic", k, v}, ended: true}
				}
				panic(p)
			}
		}()
		for _, a := range script {
			switch a[0].(string) {
			case "rcdl":
				rcdl = true
				continue
			case "copy":
				doCopy(w, a, gate, func(k hack) { acks <- k })
				continue
			}
			gate()
			ack, stop := doAction(w, r, a)
			acks <- ack
			if stop {
				break
			}
		}
		gate()
		acks <- hack{obs: []any{"none"}, ended: true}
	})

	var next http.Handler = work
	if c.Rec {
		next = underRecover(handler.RecoverHandler, work)
	}
	h := handler.TimeoutHandler(time.Duration(c.DurNs))(next)
	req, _ := http.NewRequestWithContext(parent, http.MethodGet, "http://localhost/x", http.NoBody)
	switch c.Req {
	case "ws":
		req.Header.Set("Upgrade", "websocket")
	case "sse":
		req.Header.Set("Accept", "text/event-stream")
	}
	rw := newRecw(c.H0, &sret)
	if c.Stall {
		rw.stall, rw.stalled = make(chan struct{}), make(chan struct{}, 1)
	}
	rww := asWriter(rw, c.Fl)
	if pre {
		// the Done event precedes everything: ServeHTTP may enter its select with
		// several cases ready (the handler runs ungated)
		cancelParent()
	}
	sStarted := make(chan struct{})
	go func() {
		defer func() {
			sPanic = recover()
			sret.Store(true)
			close(sRet)
		}()
		rw.sgid = gid()
		close(sStarted)
		h.ServeHTTP(rww, req)
	}()
	<-sStarted
	select {
	case <-hStarted:
	case <-time.After(5 * time.Second):
		out.Err = "handler was not started"
		return
	}

	dKind := "Dc"
	if c.D.Mode == "deadline" {
		dKind = "Dd"
	}
	dEmitted, sSeen, hEnded := false, false, false
	emit := func(e string) { out.Sched = append(out.Sched, e) }
	emitD := func() {
		if !dEmitted {
			emit(dKind)
			dEmitted = true
		}
	}
	sReturned := func(wait time.Duration) bool {
		if wait == 0 {
			select {
			case <-sRet:
				return true
			default:
				return false
			}
		}
		select {
		case <-sRet:
			return true
		case <-time.After(wait):
			return false
		}
	}
	wrapped := func() bool { return hgid.Load() != 0 && hgid.Load() != rw.sgid }
	emitS := func() {
		// called once ServeHTTP has returned, in wrapped mode
		sSeen = true
		tor := rw.sawTimeoutReply()
		switch {
		case sPanic != nil:
			emit("Sp")
		case !hEnded:
			emitD()
			emit("St")
		case c.D.Mode != "none" && tor:
			emitD()
			emit("St")
		default:
			emit("Sd")
		}
	}
	// the handler has to start before anything is scheduled (it records its goroutine)
	stepH := func(selfCancel bool) (hack, bool) {
		select {
		case gate <- hcmd{selfCancel, c.D.Yield}:
		case <-time.After(7 * time.Second):
			out.Hung = true // the handler never took its next step
			return hack{}, false
		}
		if rw.stall != nil && !rw.stallUsed.Load() {
			select {
			case a := <-acks:
				return a, true
			case <-rw.stalled:
				// the handler is inside its Flush, the real writer does not take the bytes yet:
				// the Done event falls here.  With tw.mu held by Flush the timeout branch has to wait
				cancelParent()
				emitD()
				if wrapped() && !sSeen && sReturned(300*time.Millisecond) {
					emitS()
				}
				close(rw.stall)
			case <-time.After(5 * time.Second):
				return hack{}, false
			}
		}
		a, ok, hung := waitHack(acks)
		out.Hung = hung
		return a, ok
	}
	// a handler action hangs inside rest/handler: an observation.  The Done event is produced
	// (once more) and ServeHTTP is given the usual time to return
	cutHung := func() {
		out.Hung = true
		out.Dump = goroutineDump()
		cancelParent()
		out.RetAtD = 0
		if sReturned(waitS) {
			out.RetAtD = 1
		}
		out.Wrapped = wrapped()
		out.SOut = "wait"
		if sret.Load() {
			out.SOut = "ret"
			if sPanic != nil {
				out.SOut = "panic"
				out.PKind, out.PVal = classifyPanic(sPanic)
			}
		}
		out.W = rw.out()
		out.HasDl = hasDl
		if hasDl {
			out.DlSeenNs = int64(dlSeen.Sub(tA))
		}
		out.T1Ns = int64(t1.Sub(tA))
	}

	if pre {
		emitD()
		returned := sReturned(waitS)
		var obs [][]any
		firstRefused := -1
		for !hEnded {
			a, ok, hung := waitHack(acks)
			if !ok {
				if hung {
					out.Hung = true
					for _, o := range obs {
						emit("H")
						out.HObs = append(out.HObs, o)
					}
					cutHung()
					return
				}
				out.Err = "handler stuck (ungated run)"
				return
			}
			if a.wto && firstRefused < 0 {
				firstRefused = len(obs)
			}
			obs = append(obs, a.obs)
			hEnded = a.ended
		}
		if !returned {
			returned = sReturned(waitS)
		}
		timedOut := false
		if returned && wrapped() && sPanic == nil {
			timedOut = rw.sawTimeoutReply()
		}
		for i, o := range obs {
			if timedOut && i == firstRefused {
				emit("St")
				sSeen = true
			}
			emit("H")
			out.HObs = append(out.HObs, o)
		}
		if returned && wrapped() && !sSeen {
			switch {
			case sPanic != nil:
				emit("Sp")
			case timedOut:
				emit("St")
			default:
				emit("Sd")
			}
			sSeen = true
		}
	}
	for i := 0; !hEnded; i++ {
		self := false
		if i == c.D.Pos {
			switch c.D.Mode {
			case "cancel":
				cancelParent()
				emitD()
				if wrapped() && !sSeen {
					if sReturned(waitS) {
						out.RetAtD = 1
						emitS()
					} else {
						out.RetAtD = 0
					}
				}
			case "deadline":
				if wrapped() && !sSeen {
					if sReturned(waitS) {
						out.RetAtD = 1
						emitS()
					} else {
						out.RetAtD = 0
					}
				} else if !wrapped() && c.ParentNs != nil {
					<-parent.Done()
					emitD()
				}
			case "race":
				self = true
			}
		}
		a, ok := stepH(self)
		if !ok {
			if out.Hung {
				cutHung()
				return
			}
			out.Err = fmt.Sprintf("handler stuck at step %d", i)
			return
		}
		if self {
			emitD()
		}
		if a.ctxd {
			emitD()
		}
		if a.wto && !sSeen {
			if !sReturned(waitS) {
				out.Err = "write refused but ServeHTTP has not returned"
				return
			}
			emitS()
		}
		emit("H")
		out.HObs = append(out.HObs, a.obs)
		hEnded = a.ended
		if !sSeen && wrapped() {
			w := time.Duration(0)
			if hEnded || self {
				w = waitS
			}
			if sReturned(w) {
				emitS()
			}
		}
	}
	if c.D.Mode == "cancel" && !dEmitted {
		cancelParent()
		emitD()
	}
	if !sSeen {
		if sReturned(waitS) && wrapped() {
			emitS()
		}
	}
	out.Wrapped = wrapped()
	switch {
	case !sret.Load():
		out.SOut = "wait"
	case sPanic != nil:
		out.SOut = "panic"
		out.PKind, out.PVal = classifyPanic(sPanic)
	default:
		out.SOut = "ret"
	}
	// a grace period for anything that still wants to touch the writer
	hx.Quiesce(func(st string) bool {
		return strings.Contains(st, "rest/handler.") && !hx.Blocked(st)
	}, time.Second)
	out.W = rw.out()
	out.HasDl = hasDl
	if hasDl {
		out.DlSeenNs = int64(dlSeen.Sub(tA))
	}
	out.T1Ns = int64(t1.Sub(tA))
	return out
}

// runLockProbe (translator's behavioural fallback, tools/c04consts.py): does the timeout writer's Flush
// run under the mutex the timeout branch takes?  The real writer stalls inside the Write that Flush
// makes; the request is cancelled meanwhile; with the mutex held ServeHTTP cannot answer before the
// stall is lifted.  "locked" errs towards true on a slow machine (never a false alarm).
func runLockProbe(id int) map[string]any {
	var sret atomic.Bool
	rw := newRecw(nil, &sret)
	rw.stall, rw.stalled = make(chan struct{}), make(chan struct{}, 1)
	rw.sgid = -1
	parent, cancel := context.WithCancel(context.Background())
	defer cancel()
	work := http.HandlerFunc(func(w http.ResponseWriter, r *http.Request) {
		w.Write([]byte{200})
		if f, ok := w.(http.Flusher); ok {
			f.Flush()
		}
	})
	h := handler.TimeoutHandler(time.Hour)(work)
	req, _ := http.NewRequestWithContext(parent, http.MethodGet, "http://localhost/x", http.NoBody)
	ret := make(chan struct{})
	go func() {
		defer func() {
			recover()
			close(ret)
		}()
		h.ServeHTTP(recwF{rw}, req)
	}()
	res := map[string]any{"id": id, "kind": "lockprobe"}
	select {
	case <-rw.stalled:
	case <-ret:
		res["err"] = "the handler's Flush never wrote to the real writer"
		return res
	case <-time.After(5 * time.Second):
		res["err"] = "the handler's Flush never wrote to the real writer"
		return res
	}
	cancel()
	during := false
	select {
	case <-ret:
		during = true
	case <-time.After(300 * time.Millisecond):
	}
	close(rw.stall)
	select {
	case <-ret:
	case <-time.After(5 * time.Second):
		res["err"] = "ServeHTTP did not return after the stall was lifted"
		return res
	}
	res["locked"] = !during
	return res
}

// runRecoverProbe (translator, tools/c04consts.py): what does handler.RecoverHandler do to the writer it
// was given when the work panics?  The writer starts with every header name of the vocabulary set to "x";
// reported: names deleted, names set (with their values), the status, the chunks written.
func runRecoverProbe(id int, vocab []string) map[string]any {
	res := map[string]any{"id": id, "kind": "recoverprobe"}
	rec := &probeWriter{h: http.Header{}}
	for _, n := range vocab {
		rec.h.Set(n, "x")
	}
	before := rec.h.Clone()
	func() {
		defer func() {
			if p := recover(); p != nil {
				res["err"] = fmt.Sprintf("the RecoverHandler let a panic through: %v", p)
			}
		}()
		req, _ := http.NewRequest(http.MethodGet, "http://localhost/x", http.NoBody)
		handler.RecoverHandler(http.HandlerFunc(func(http.ResponseWriter, *http.Request) { panic(pv(1)) })).ServeHTTP(rec, req)
	}()
	dels, sets := []string{}, map[string][]string{}
	for n := range before {
		if _, ok := rec.h[n]; !ok {
			dels = append(dels, n)
		}
	}
	for n, vs := range rec.h {
		if old, ok := before[n]; !ok || strings.Join(old, "\x00") != strings.Join(vs, "\x00") {
			sets[n] = vs
		}
	}
	res["dels"], res["sets"], res["status"], res["writes"] = dels, sets, rec.code, rec.chunks
	return res
}

type probeWriter struct {
	h      http.Header
	code   int
	chunks [][]int
}

func (w *probeWriter) Header() http.Header { return w.h }
func (w *probeWriter) WriteHeader(c int)   { w.code = c }
func (w *probeWriter) Write(p []byte) (int, error) {
	c := make([]int, len(p))
	for i, b := range p {
		c[i] = int(b)
	}
	w.chunks = append(w.chunks, c)
	return len(p), nil
}

// errID identifies what a wrapper returned BY IDENTITY: nil, context.DeadlineExceeded,
// context.Canceled, one of the work's own errors "e<N>"; anything else (a custom cancel
// cause, a wrapped context error, ...) is -99 and belongs to no allowed result.
func errID(err error) int64 {
	switch {
	case err == nil:
		return 0
	case err == context.DeadlineExceeded:
		return -1
	case err == context.Canceled:
		return -2
	}
	if n, e := strconv.ParseInt(strings.TrimPrefix(err.Error(), "e"), 10, 64); e == nil && strings.HasPrefix(err.Error(), "e") {
		return n
	}
	return -99
}

func runFx(c SlotCase) SlotOut {
	return runSlot(c, func(parent context.Context, work func(ctx context.Context) (int64, int64)) (int64, int64) {
		err := fx.DoWithTimeout(func() error {
			// fn gets no context from DoWithTimeout: the work can only watch the caller's
			_, e := work(parent)
			if e == 0 {
				return nil
			}
			return fmt.Errorf("e%d", e)
		}, time.Duration(c.DurNs), fx.WithContext(parent))
		return 0, errID(err)
	})
}

func runFxSeq(c SlotSeqCase) SlotSeqOut {
	return runSlotSeq(c, func(i int, parent context.Context, work func(ctx context.Context) (int64, int64)) (int64, int64) {
		err := fx.DoWithTimeout(func() error {
			_, e := work(parent)
			if e == 0 {
				return nil
			}
			return fmt.Errorf("e%d", e)
		}, time.Duration(c.DurNs), fx.WithContext(parent))
		return 0, errID(err)
	})
}

func main() {
	logx.Disable()
	var raws []json.RawMessage
	hx.ReadCases(&raws)
	w := hx.NewWriter()
	defer w.Close()
	for _, raw := range raws {
		var k struct {
			ID   int    `json:"id"`
			Kind string `json:"kind"`
		}
		if err := json.Unmarshal(raw, &k); err != nil {
			hx.Fatal("case: %v", err)
		}
		switch k.Kind {
		case "rest", "free":
			var c Case
			if err := json.Unmarshal(raw, &c); err != nil {
				hx.Fatal("case: %v", err)
			}
			if k.Kind == "rest" {
				w.Put(runRest(c))
			} else {
				w.Put(runFree(c))
			}
		case "lockprobe":
			w.Put(runLockProbe(k.ID))
		case "recoverprobe":
			var c struct {
				Vocab []string `json:"vocab"`
			}
			_ = json.Unmarshal(raw, &c)
			w.Put(runRecoverProbe(k.ID, c.Vocab))
		case "seq":
			var c SeqCase
			if err := json.Unmarshal(raw, &c); err != nil {
				hx.Fatal("case: %v", err)
			}
			w.Put(runSeq(c))
		case "fxseq":
			var c SlotSeqCase
			if err := json.Unmarshal(raw, &c); err != nil {
				hx.Fatal("case: %v", err)
			}
			w.Put(runFxSeq(c))
		case "fx":
			var c SlotCase
			if err := json.Unmarshal(raw, &c); err != nil {
				hx.Fatal("case: %v", err)
			}
			w.Put(runFx(c))
		default:
			w.Put(Out{ID: k.ID, Err: "unknown kind " + k.Kind})
		}
	}
}
