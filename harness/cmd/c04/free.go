package main

// Free-running monitor (thorough tier, built with -race): the handler runs its
// script ungated with small random pauses while a very short real timeout fires
// somewhere inside it; every response must be exactly the script's complete
// response or exactly the 503 reply, and nothing may touch the writer afterwards.
// The race detector checks the atomicity the model assumes.

import (
	"context"
	"fmt"
	"math/rand"
	"net/http"
	"reflect"
	"runtime"
	"strings"
	"sync/atomic"
	"time"

	"github.com/zeromicro/go-zero/rest/handler"
)

type FreeOut struct {
	ID         int    `json:"id"`
	Iters      int    `json:"iters"`
	Complete   int    `json:"complete"`
	Timeouts   int    `json:"timeouts"`
	Violations int    `json:"violations"`
	First      string `json:"first,omitempty"`
	Err        string `json:"err,omitempty"`
}

// the script's own response (scripts here have no ctx check, no panic, valid final codes);
// flushedAt = the body lengths that were out at the script's effective Flush calls
func expected(c Case) (int, http.Header, []byte, []int) {
	h := http.Header{}
	code, wrote := 200, false
	var body []byte
	var frozen http.Header
	flushedAt := []int{}
	for _, a := range c.Script {
		switch a[0].(string) {
		case "flush":
			if c.Fl {
				wrote = true
				if frozen == nil {
					frozen = h.Clone()
				}
				flushedAt = append(flushedAt, len(body))
			}
		case "set":
			h.Set(hname(num(a[1])), hval(num(a[2])))
		case "add":
			h.Add(hname(num(a[1])), hval(num(a[2])))
		case "del":
			h.Del(hname(num(a[1])))
		case "wh":
			if !wrote {
				code, wrote = int(num(a[1])), true
			}
		case "w":
			wrote = true
			for _, b := range a[1].([]any) {
				body = append(body, byte(num(b)))
			}
		}
	}
	res := http.Header{}
	for _, kv := range c.H0 {
		for _, v := range kv[1].([]any) {
			res.Add(hname(num(kv[0])), hval(num(v)))
		}
	}
	if frozen != nil {
		h = frozen
	}
	for k, v := range h {
		res[k] = v
	}
	return code, res, body, flushedAt
}

func runFree(c Case) FreeOut {
	out := FreeOut{ID: c.ID}
	setNames(c.Names)
	rng := rand.New(rand.NewSource(int64(c.ID)*7919 + 1))
	wantCode, wantHdr, wantBody, flushedAt := expected(c)
	h0 := http.Header{}
	for _, kv := range c.H0 {
		for _, v := range kv[1].([]any) {
			h0.Add(hname(num(kv[0])), hval(num(v)))
		}
	}
	iters := c.D.Pos
	for it := 0; it < iters; it++ {
		pauses := make([]int, len(c.Script)+1)
		for i := range pauses {
			pauses[i] = rng.Intn(4)
		}
		dur := time.Duration(20+rng.Intn(300)) * time.Microsecond
		var sret atomic.Bool
		hDone := make(chan struct{})
		work := http.HandlerFunc(func(w http.ResponseWriter, r *http.Request) {
			defer close(hDone)
			for i, a := range c.Script {
				switch pauses[i] {
				case 1:
					runtime.Gosched()
				case 2:
					time.Sleep(time.Duration(10+rng.Intn(60)) * time.Microsecond)
				}
				switch a[0].(string) {
				case "set":
					w.Header().Set(hname(num(a[1])), hval(num(a[2])))
				case "add":
					w.Header().Add(hname(num(a[1])), hval(num(a[2])))
				case "del":
					w.Header().Del(hname(num(a[1])))
				case "wh":
					w.WriteHeader(int(num(a[1])))
				case "w":
					bs := a[1].([]any)
					p := make([]byte, len(bs))
					for i, b := range bs {
						p[i] = byte(num(b))
					}
					w.Write(p)
				case "flush":
					if f, ok := w.(http.Flusher); ok {
						f.Flush()
					}
				}
			}
		})
		rw := &recw{hdr: h0.Clone(), sret: &sret, sgid: gid()}
		req, _ := http.NewRequestWithContext(context.Background(), http.MethodGet, "http://localhost/x", http.NoBody)
		handler.TimeoutHandler(dur)(work).ServeHTTP(asWriter(rw, c.Fl), req)
		sret.Store(true)
		select {
		case <-hDone:
		case <-time.After(5 * time.Second):
			out.Err = "handler did not finish"
			return out
		}
		rw.mu.Lock()
		isComplete := rw.code == wantCode && reflect.DeepEqual(rw.snap, wantHdr) && string(rw.body) == string(wantBody)
		isTimeout := rw.code == 503 && reflect.DeepEqual(rw.snap, h0) && string(rw.body) == "Request Timeout"
		if !isTimeout && len(rw.infos) == 0 && strings.HasSuffix(string(rw.body), "Request Timeout") {
			// the handler had flushed before the deadline: its status and first-Flush headers, the
			// chunks that were out at one of its Flush calls, then the reply and nothing else
			pre := len(rw.body) - len("Request Timeout")
			for _, n := range flushedAt {
				if n == pre && string(rw.body[:pre]) == string(wantBody[:n]) && rw.code == wantCode &&
					reflect.DeepEqual(rw.snap, wantHdr) {
					isTimeout = true
				}
			}
		}
		late := rw.late
		rw.mu.Unlock()
		out.Iters++
		switch {
		case late > 0 || (!isComplete && !isTimeout):
			out.Violations++
			if out.First == "" {
				out.First = fmt.Sprintf("timeout %v: status %d headers %v body %v, %d writer call(s) after ServeHTTP returned",
					dur, rw.code, rw.snap, rw.body, late)
			}
		case isComplete:
			out.Complete++
		default:
			out.Timeouts++
		}
	}
	return out
}
