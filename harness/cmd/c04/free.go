package main

func runFree(c Case) Out { return Out{ID: c.ID, Err: "not implemented"} }
