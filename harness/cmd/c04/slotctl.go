package main

// Controller for the "result slot" timeout wrappers (zRPC UnaryTimeoutInterceptor,
// fx.DoWithTimeout).  Standard library only: tools/props/c04.py copies this file,
// with the package clause rewritten, next to the white-box test drivers that are
// injected into go-zero packages with `go test -overlay`.
//
// The work executes a script, one step per gate release; the Done event is produced
// by cancelling the parent context, by a short real timeout / parent deadline with
// the work parked, or by the work's own goroutine right before its next step (race).

import (
	"context"
	"fmt"
	"runtime"
	"strconv"
	"strings"
	"time"
)

type SlotD struct {
	Mode string `json:"mode"` // none | cancel | deadline | race
	Pos  int    `json:"pos"`
	// race: how often the work's goroutine yields between its cancel() and its step
	Yield int `json:"yield"`
}

type SlotCase struct {
	ID       int        `json:"id"`
	Kind     string     `json:"kind"`
	Steps    []string   `json:"steps"` // work | chk
	Bail     [2]int64   `json:"bail"`
	Fin      []any      `json:"fin"` // ["ret", r, e] | ["panic", p]
	D        SlotD      `json:"d"`
	DurNs    int64      `json:"dur_ns"`    // default timeout
	Confs    [][2]int64 `json:"confs"`     // zRPC: (method id, timeout ns); method 0 = ""
	Method   int64      `json:"method"`    // zRPC: method id of the call
	ParentNs *int64     `json:"parent_ns"` // caller's deadline, offset from the start
	Own      bool       `json:"own"`       // the work sees the wrapper's derived context (false for fx)
	PShape   string     `json:"pshape"`    // shape of the caller's context (ctxshape.go)
}

type SlotOut struct {
	ID       int      `json:"id"`
	Sched    []string `json:"sched"`
	HObs     [][]any  `json:"hobs"`
	Ret      bool     `json:"ret"`
	Panicked bool     `json:"panicked"`
	PVal     int64    `json:"pval"`
	Stack    bool     `json:"stack"`
	R        int64    `json:"r"`
	E        int64    `json:"e"`
	HasDl    bool     `json:"has_dl"`
	DlSeenNs int64    `json:"dl_seen_ns"`
	T1Ns     int64    `json:"t1_ns"`
	RetAtD   int      `json:"ret_at_d"`
	Leak     int      `json:"leak"` // wrapper goroutines left parked in a channel send after the abandoned work ended
	Err      string   `json:"err,omitempty"`
}

type slotPanic int64

type slotCmd struct {
	selfCancel bool
	yield      int
}

type slotAck struct {
	obs   []any
	ended bool
	ctxd  bool
}

// slotInvoke runs the wrapper under test around work and reports what it returned.
type slotInvoke func(parent context.Context, work func(ctx context.Context) (int64, int64)) (r, e int64)

const slotWait = 2 * time.Second

func slotNum(v any) int64 { return int64(v.(float64)) }

// leakedSenders: goroutines of a timeout wrapper (fx.DoWithTimeout, UnaryTimeoutInterceptor) parked in a
// channel send.  The wrappers' channels are buffered for one value and get one value ("to avoid goroutine
// leak", says the source), so on a tree where that holds the state never occurs; a goroutine seen in it
// after its work has ended stays there for ever.  Looked for only after a call that was abandoned at its
// timeout, for at most 3 ms.
func leakedSenders() int {
	n := 0
	for try := 0; try < 12 && n == 0; try++ {
		if try > 0 {
			time.Sleep(250 * time.Microsecond)
		}
		buf := make([]byte, 1<<18)
		for {
			k := runtime.Stack(buf, true)
			if k < len(buf) {
				buf = buf[:k]
				break
			}
			buf = make([]byte, 2*len(buf))
		}
		for _, g := range strings.Split(string(buf), "\n\n") {
			head, _, _ := strings.Cut(g, "\n")
			if strings.Contains(head, "[chan send") &&
				(strings.Contains(g, "core/fx.DoWithTimeout") || strings.Contains(g, "serverinterceptors.UnaryTimeoutInterceptor")) {
				n++
			}
		}
	}
	return n
}

func runSlot(c SlotCase, invoke slotInvoke) (out SlotOut) {
	out = SlotOut{ID: c.ID, RetAtD: -1, Sched: []string{}, HObs: [][]any{}}
	gate := make(chan slotCmd)
	acks := make(chan slotAck, len(c.Steps)+4)
	sRet := make(chan struct{})
	hStarted := make(chan struct{})
	var sPanic any
	var resR, resE int64
	var dlSeen time.Time
	var hasDl bool
	var t1 time.Time

	tA := time.Now()
	parent, cancelParent, releaseParent := mkParent(c.PShape, tA, c.ParentNs)
	defer releaseParent()
	defer cancelParent()

	pre := c.D.Mode == "pre"
	recvGate := func() slotCmd {
		if pre {
			return slotCmd{}
		}
		return <-gate
	}
	work := func(ctx context.Context) (int64, int64) {
		t1 = time.Now()
		dlSeen, hasDl = ctx.Deadline()
		close(hStarted)
		for _, st := range c.Steps {
			cmd := recvGate()
			if cmd.selfCancel {
				cancelParent()
				for j := 0; j < cmd.yield; j++ {
					runtime.Gosched()
				}
			}
			if st == "chk" {
				select {
				case <-ctx.Done():
					acks <- slotAck{obs: []any{"ctx", true}, ctxd: true, ended: true}
					return c.Bail[0], c.Bail[1]
				default:
					acks <- slotAck{obs: []any{"ctx", false}}
				}
			} else {
				acks <- slotAck{obs: []any{"none"}}
			}
		}
		cmd := recvGate()
		if cmd.selfCancel {
			cancelParent()
			for j := 0; j < cmd.yield; j++ {
				runtime.Gosched()
			}
		}
		if c.Fin[0].(string) == "panic" {
			p := slotNum(c.Fin[1])
			acks <- slotAck{obs: []any{"panic", "user", p}, ended: true}
			panic(slotPanic(p))
		}
		acks <- slotAck{obs: []any{"none"}, ended: true}
		return slotNum(c.Fin[1]), slotNum(c.Fin[2])
	}

	if pre {
		// the Done event precedes everything; the work runs ungated: the wrapper may
		// enter its select with several cases ready
		cancelParent()
	}
	go func() {
		defer func() {
			sPanic = recover()
			close(sRet)
		}()
		resR, resE = invoke(parent, work)
	}()

	dKind := "Dc"
	if c.D.Mode == "deadline" {
		dKind = "Dd"
	}
	dEmitted, sSeen, hEnded := false, false, false
	emit := func(e string) { out.Sched = append(out.Sched, e) }
	emitD := func() {
		if !dEmitted {
			emit(dKind)
			dEmitted = true
		}
	}
	sReturned := func(wait time.Duration) bool {
		if wait == 0 {
			select {
			case <-sRet:
				return true
			default:
				return false
			}
		}
		select {
		case <-sRet:
			return true
		case <-time.After(wait):
			return false
		}
	}
	emitS := func() {
		sSeen = true
		switch {
		case sPanic != nil:
			emit("Sp")
		case !hEnded:
			emitD()
			emit("St")
		case c.D.Mode != "none" && resR == 0 && (resE == -1 || resE == -2):
			emitD()
			emit("St")
		default:
			emit("Sd")
		}
	}
	stepH := func(selfCancel bool) (slotAck, bool) {
		select {
		case gate <- slotCmd{selfCancel, c.D.Yield}:
		case <-time.After(5 * time.Second):
			return slotAck{}, false
		}
		select {
		case a := <-acks:
			return a, true
		case <-time.After(5 * time.Second):
			return slotAck{}, false
		}
	}

	select {
	case <-hStarted:
	case <-sRet:
		// the wrapper returned before the work even started (timeout <= 0)
		emitS()
		select {
		case <-hStarted:
		case <-time.After(5 * time.Second):
			out.Err = "work was not started"
			return
		}
	case <-time.After(5 * time.Second):
		out.Err = "work was not started"
		return
	}

	if pre {
		emitD()
		returned := sSeen || sReturned(slotWait)
		for !hEnded {
			select {
			case a := <-acks:
				emit("H")
				out.HObs = append(out.HObs, a.obs)
				hEnded = a.ended
			case <-time.After(5 * time.Second):
				out.Err = "work stuck (ungated run)"
				return
			}
		}
		if !returned {
			returned = sReturned(slotWait)
		}
		if returned && !sSeen {
			emitS()
		}
	}
	// a bailing context check ends the work in the same step (the model's WCheck
	// publishes the bail-out result at once)
	for i := 0; !hEnded; i++ {
		self := false
		if i == c.D.Pos {
			switch c.D.Mode {
			case "cancel":
				cancelParent()
				emitD()
				if !sSeen {
					if sReturned(slotWait) {
						out.RetAtD = 1
						emitS()
					} else {
						out.RetAtD = 0
					}
				}
			case "deadline":
				if !sSeen {
					if sReturned(slotWait) {
						out.RetAtD = 1
						emitS()
					} else {
						out.RetAtD = 0
					}
				}
			case "race":
				self = true
			}
		}
		a, ok := stepH(self)
		if !ok {
			out.Err = fmt.Sprintf("work stuck at step %d", i)
			return
		}
		if self || a.ctxd {
			emitD()
		}
		emit("H")
		out.HObs = append(out.HObs, a.obs)
		hEnded = a.ended
		if !sSeen {
			w := time.Duration(0)
			if hEnded || self {
				w = slotWait
			}
			if sReturned(w) {
				emitS()
			}
		}
	}
	if c.D.Mode == "cancel" && !dEmitted {
		cancelParent()
		emitD()
	}
	if !sSeen && sReturned(slotWait) {
		emitS()
	}
	out.Ret = sReturned(0)
	if out.Ret {
		if sPanic != nil {
			out.Panicked = true
			out.PVal, out.Stack = slotPanicValue(sPanic)
		} else {
			out.R, out.E = resR, resE
		}
	}
	if out.Ret && hEnded {
		for j, e := range out.Sched {
			if e == "St" && j < len(out.Sched)-1 {
				out.Leak = leakedSenders() // the work ended after the wrapper had given up on it
				break
			}
		}
	}
	out.HasDl = hasDl
	if hasDl {
		out.DlSeenNs = int64(dlSeen.Sub(tA))
	}
	out.T1Ns = int64(t1.Sub(tA))
	return out
}

// the wrappers re-raise fmt.Sprintf("%+v\n\n%s", p, stack)
func slotPanicValue(p any) (int64, bool) {
	switch v := p.(type) {
	case slotPanic:
		return int64(v), false
	case string:
		head, rest, found := strings.Cut(v, "\n\n")
		n, err := strconv.ParseInt(strings.TrimSpace(head), 10, 64)
		if err != nil {
			return -1, false
		}
		return n, found && strings.Contains(rest, "goroutine ") && strings.Contains(rest, ".go:")
	}
	return -1, false
}

// ---------------------------------------------------------------------------
// Sequences: several calls through ONE interceptor instance (or one package, for
// fx).  The controller forces a complete order of events
//   ["start", i]  start call i
//   ["H", i]      one step of call i's work
//   ["D", i]      cancel call i's caller context
//   ["T", i]      wait for call i's own (short) deadline to fire
// The work of a call that timed out stays parked and returns / panics later, while
// other calls are in flight.

type SlotSeqCall struct {
	Steps    []string `json:"steps"`
	Bail     [2]int64 `json:"bail"`
	Fin      []any    `json:"fin"`
	ParentNs *int64   `json:"parent_ns"` // caller's deadline, offset from the call's start
	PShape   string   `json:"pshape"`    // shape of the caller's context (ctxshape.go)
}

type SlotSeqCase struct {
	ID    int           `json:"id"`
	Kind  string        `json:"kind"`
	DurNs int64         `json:"dur_ns"`
	Calls []SlotSeqCall `json:"calls"`
	Order [][]any       `json:"order"`
	Procs int           `json:"procs"` // > 0: GOMAXPROCS for this case (1: per-P caches are shared)
}

type SlotSeqCallOut struct {
	Ret      bool  `json:"ret"`
	Panicked bool  `json:"panicked"`
	PVal     int64 `json:"pval"`
	Stack    bool  `json:"stack"`
	R        int64 `json:"r"`
	E        int64 `json:"e"`
	HasDl    bool  `json:"has_dl"`
	DlSeenNs int64 `json:"dl_seen_ns"`
	T1Ns     int64 `json:"t1_ns"`
}

type SlotSeqOut struct {
	ID     int              `json:"id"`
	Sched  [][]any          `json:"sched"`
	HObs   [][]any          `json:"hobs"`
	Calls  []SlotSeqCallOut `json:"calls"`
	RetAtD int              `json:"ret_at_d"`
	Leak   int              `json:"leak"`
	Stuck  int              `json:"stuck"`
	Err    string           `json:"err,omitempty"`
}

type slotSeqInvoke func(i int, parent context.Context, work func(ctx context.Context) (int64, int64)) (r, e int64)

type slotSeqCall struct {
	in       SlotSeqCall
	gate     chan struct{}
	acks     chan slotAck
	sRet     chan struct{}
	hStarted chan struct{}
	sPanic   any
	r, e     int64
	parent   context.Context
	cancel   context.CancelFunc
	cancelDl context.CancelFunc
	tA, t1   time.Time
	dlSeen   time.Time
	hasDl    bool
	started  bool
	hEnded   bool
	sSeen    bool
	dKind    string
}

func runSlotSeq(c SlotSeqCase, invoke slotSeqInvoke) (out SlotSeqOut) {
	out = SlotSeqOut{ID: c.ID, RetAtD: -1, Stuck: -1, Sched: [][]any{}, HObs: [][]any{}}
	if c.Procs > 0 {
		defer runtime.GOMAXPROCS(runtime.GOMAXPROCS(c.Procs))
	}
	calls := make([]*slotSeqCall, len(c.Calls))
	for i, in := range c.Calls {
		calls[i] = &slotSeqCall{in: in, gate: make(chan struct{}), acks: make(chan slotAck, len(in.Steps)+4),
			sRet: make(chan struct{}), hStarted: make(chan struct{}), cancel: func() {}, cancelDl: func() {}}
	}
	defer func() {
		for _, q := range calls {
			q.cancel()
			q.cancelDl()
		}
	}()
	emit := func(i int, e string) { out.Sched = append(out.Sched, []any{i, e}) }
	returned := func(q *slotSeqCall, wait time.Duration) bool {
		if wait == 0 {
			select {
			case <-q.sRet:
				return true
			default:
				return false
			}
		}
		select {
		case <-q.sRet:
			return true
		case <-time.After(wait):
			return false
		}
	}
	// the Done event of a call is reported once; a timer that fired before the
	// controller got to its "T" event is reported where its effect was first seen
	emitD := func(i int, q *slotSeqCall, kind string) {
		if q.dKind == "" {
			q.dKind = kind
			emit(i, kind)
		}
	}
	emitS := func(i int, q *slotSeqCall) {
		q.sSeen = true
		timerKind := "Dc"
		if q.in.ParentNs != nil {
			timerKind = "Dd"
		}
		switch {
		case q.sPanic != nil:
			emit(i, "Sp")
		case !q.hEnded:
			emitD(i, q, timerKind)
			emit(i, "St")
		case q.r == 0 && (q.e == -1 || q.e == -2) && (q.dKind != "" || q.in.ParentNs != nil):
			emitD(i, q, timerKind)
			emit(i, "St")
		default:
			emit(i, "Sd")
		}
	}
	// calls that returned although nothing was done to them (a signal that was not theirs)
	sweep := func() {
		for j, q := range calls {
			if q.started && !q.sSeen && returned(q, 0) {
				emitS(j, q)
			}
		}
	}
	start := func(i int, q *slotSeqCall) bool {
		q.tA = time.Now()
		var cancelShape, releaseShape func()
		q.parent, cancelShape, releaseShape = mkParent(q.in.PShape, q.tA, q.in.ParentNs)
		q.cancel, q.cancelDl = context.CancelFunc(cancelShape), context.CancelFunc(releaseShape)
		work := func(ctx context.Context) (int64, int64) {
			q.t1 = time.Now()
			q.dlSeen, q.hasDl = ctx.Deadline()
			close(q.hStarted)
			for _, st := range q.in.Steps {
				<-q.gate
				if st == "chk" {
					select {
					case <-ctx.Done():
						q.acks <- slotAck{obs: []any{"ctx", true}, ctxd: true, ended: true}
						return q.in.Bail[0], q.in.Bail[1]
					default:
						q.acks <- slotAck{obs: []any{"ctx", false}}
					}
				} else {
					q.acks <- slotAck{obs: []any{"none"}}
				}
			}
			<-q.gate
			if q.in.Fin[0].(string) == "panic" {
				p := slotNum(q.in.Fin[1])
				q.acks <- slotAck{obs: []any{"panic", "user", p}, ended: true}
				panic(slotPanic(p))
			}
			q.acks <- slotAck{obs: []any{"none"}, ended: true}
			return slotNum(q.in.Fin[1]), slotNum(q.in.Fin[2])
		}
		go func() {
			defer func() {
				q.sPanic = recover()
				close(q.sRet)
			}()
			q.r, q.e = invoke(i, q.parent, work)
		}()
		q.started = true
		select {
		case <-q.hStarted:
			return true
		case <-time.After(5 * time.Second):
			return false
		}
	}
	stepH := func(i int, q *slotSeqCall) bool {
		select {
		case q.gate <- struct{}{}:
		case <-time.After(5 * time.Second):
			return false
		}
		var a slotAck
		select {
		case a = <-q.acks:
		case <-time.After(5 * time.Second):
			return false
		}
		if a.ctxd {
			if q.in.ParentNs != nil {
				emitD(i, q, "Dd")
			} else {
				emitD(i, q, "Dc")
			}
		}
		emit(i, "H")
		out.HObs = append(out.HObs, append([]any{i}, a.obs...))
		q.hEnded = a.ended
		if !q.sSeen {
			w := time.Duration(0)
			if q.hEnded {
				w = slotWait
			}
			if returned(q, w) {
				emitS(i, q)
			}
		}
		if q.hEnded {
			// the work's completion signal is on its way: give a stray one time to arrive
			time.Sleep(200 * time.Microsecond)
		}
		return true
	}
	waitD := func(i int, q *slotSeqCall) {
		if q.started && !q.sSeen {
			if returned(q, slotWait) {
				if !q.hEnded {
					out.RetAtD = 1
				}
				emitS(i, q)
			} else {
				out.RetAtD = 0
			}
		}
	}

loop:
	for _, ev := range c.Order {
		i := int(slotNum(ev[1]))
		q := calls[i]
		switch ev[0].(string) {
		case "start":
			if !q.started && !start(i, q) {
				out.Stuck = i
				break loop
			}
		case "H":
			if q.started && !q.hEnded && !stepH(i, q) {
				out.Stuck = i
				break loop
			}
		case "D":
			q.cancel()
			emitD(i, q, "Dc")
			waitD(i, q)
		case "T":
			emitD(i, q, "Dd")
			waitD(i, q)
		}
		sweep()
	}
	for i, q := range calls {
		for out.Stuck < 0 && q.started && !q.hEnded {
			if !stepH(i, q) {
				out.Stuck = i
			}
			sweep()
		}
	}
	for i, q := range calls {
		if q.started && !q.sSeen && returned(q, slotWait) {
			emitS(i, q)
		}
	}
	if out.Stuck < 0 {
		for _, e := range out.Sched {
			if e[1] == "St" {
				out.Leak = leakedSenders()
				break
			}
		}
	}
	for _, q := range calls {
		o := SlotSeqCallOut{}
		if q.started && returned(q, 0) {
			o.Ret = true
			if q.sPanic != nil {
				o.Panicked = true
				o.PVal, o.Stack = slotPanicValue(q.sPanic)
			} else {
				o.R, o.E = q.r, q.e
			}
		}
		o.HasDl = q.hasDl
		if q.hasDl {
			o.DlSeenNs = int64(q.dlSeen.Sub(q.tA))
		}
		o.T1Ns = int64(q.t1.Sub(q.tA))
		out.Calls = append(out.Calls, o)
	}
	return out
}
