package main

// Shared controller parts for the REST timeout cases.  Standard library only:
// tools/props/c04.py copies this file, with the package clause rewritten, next to
// the white-box test driver that is injected into go-zero's package rest with
// `go test -overlay` (a real rest.Server with several routes), and cmd/c04 uses it
// for handler.TimeoutHandler directly.
//
//   - recw / recwF: the real http.ResponseWriter double with net/http *server*
//     semantics: the first final WriteHeader / Write / Flush freezes status and
//     headers; 1xx codes other than 101 are informational (sent at once with the
//     headers of that moment, header map kept); recwF also is an http.Flusher.
//   - doAction: one scripted handler action against whatever writer it was given.
//   - runSeqCore: several requests through ONE http.Handler (a middleware instance
//     or a whole server), under a completely forced order of events
//     "start i" / "one handler action of i" / "cancel i" / "wait for i's own deadline".

import (
	"context"
	"errors"
	"fmt"
	"io"
	"net/http"
	"runtime"
	"sort"
	"strconv"
	"strings"
	"sync"
	"sync/atomic"
	"time"
)

type Hdr struct {
	K  int64   `json:"k"`
	Vs []int64 `json:"vs"`
}

// XHdr is a header outside the scripts' own namespace, reported literally (the
// Python side maps the names it knows from the regenerated constants).
type XHdr struct {
	Name string   `json:"name"`
	Vals []string `json:"vals"`
}

type Info struct {
	Code int    `json:"code"`
	Hdrs []Hdr  `json:"hdrs"`
	X    []XHdr `json:"x"`
}

func gid() int64 {
	var buf [64]byte
	n := runtime.Stack(buf[:], false)
	f := strings.Fields(string(buf[:n]))
	if len(f) < 2 {
		return -1
	}
	id, _ := strconv.ParseInt(f[1], 10, 64)
	return id
}

type recw struct {
	mu      sync.Mutex
	hdr     http.Header
	wrote   bool
	code    int
	snap    http.Header
	body    []byte
	infos   []recInfo
	flushes int
	rc      int // SetWriteDeadline calls that reached this writer
	last    int // argument of the last WriteHeader call (what an outer WithCodeResponseWriter records); 200 if none
	whCalls int // WriteHeader calls received
	// slow client: the first Write arriving from another goroutine than ServeHTTP's (that is, from
	// inside the handler's Flush) while stall is set reports on stalled (buffered) and waits for stall
	stall, stalled chan struct{}
	stallUsed      atomic.Bool
	sgid           int64
	sret           *atomic.Bool
	late           int
	foreign        int
}

type recInfo struct {
	code int
	hdr  http.Header
}

func (w *recw) note() {
	if w.sret.Load() {
		w.late++
	}
	if gid() != w.sgid {
		w.foreign++
	}
}

func (w *recw) Header() http.Header {
	w.mu.Lock()
	defer w.mu.Unlock()
	w.note()
	return w.hdr
}

func (w *recw) WriteHeader(code int) {
	w.mu.Lock()
	defer w.mu.Unlock()
	w.note()
	w.whCalls++
	w.writeHeader(code)
	w.last = code
}

func (w *recw) writeHeader(code int) {
	if w.wrote {
		return
	}
	if code < 100 || code > 999 {
		panic(fmt.Sprintf("invalid WriteHeader code %v", code))
	}
	if code >= 100 && code <= 199 && code != http.StatusSwitchingProtocols {
		// informational: goes out at once, the header map is kept
		w.infos = append(w.infos, recInfo{code, w.hdr.Clone()})
		return
	}
	w.wrote = true
	w.code = code
	w.snap = w.hdr.Clone()
}

func (w *recw) Write(p []byte) (int, error) {
	if w.stall != nil && gid() != w.sgid && w.stallUsed.CompareAndSwap(false, true) {
		w.stalled <- struct{}{}
		<-w.stall
	}
	w.mu.Lock()
	defer w.mu.Unlock()
	w.note()
	w.writeHeader(200)
	w.body = append(w.body, p...)
	return len(p), nil
}

// SetWriteDeadline is what http.NewResponseController(w).SetWriteDeadline reaches when every
// wrapper on the way has an Unwrap method (or the method itself).
func (w *recw) SetWriteDeadline(time.Time) error {
	w.mu.Lock()
	defer w.mu.Unlock()
	w.note()
	w.rc++
	return nil
}

// sawTimeoutReply: the timeout branch has written its reply (the status is its own
// unless the handler had flushed before; scripted handler bytes are >= 128).
func (w *recw) sawTimeoutReply() bool {
	w.mu.Lock()
	defer w.mu.Unlock()
	return w.code == 499 || w.code == 503 || strings.HasSuffix(string(w.body), "Request Timeout")
}

// recwF is a recw that also implements http.Flusher.
type recwF struct{ *recw }

func (w recwF) Flush() {
	w.mu.Lock()
	defer w.mu.Unlock()
	w.note()
	w.writeHeader(200)
	w.flushes++
}

func newRecw(h0 [][]any, sret *atomic.Bool) *recw {
	rw := &recw{hdr: http.Header{}, sret: sret, last: 200}
	for _, kv := range h0 {
		for _, v := range kv[1].([]any) {
			rw.hdr.Add(hname(num(kv[0])), hval(num(v)))
		}
	}
	return rw
}

// asWriter presents rw as a Flusher or not.
func asWriter(rw *recw, fl bool) http.ResponseWriter {
	if fl {
		return recwF{rw}
	}
	return rw
}

// Header NAMES are inputs: a case may map the scripts' integer header keys to real header
// names (possibly in a non-canonical spelling; Header.Set/Add/Del canonicalise it), drawn by
// the generator from a vocabulary of names some layer might special-case.  The executors run
// their cases one after the other, so the table of the current case is a package variable.
var (
	curNames   map[int64]string // key -> name as the handler spells it
	curReverse map[string]int64 // canonical name -> key
)

func setNames(names map[string]string) {
	curNames, curReverse = map[int64]string{}, map[string]int64{}
	for ks, name := range names {
		k, err := strconv.ParseInt(ks, 10, 64)
		if err != nil {
			continue
		}
		curNames[k] = name
		curReverse[http.CanonicalHeaderKey(name)] = k
	}
}

func hname(k int64) string {
	if n, ok := curNames[k]; ok {
		return n
	}
	return "X-H" + strconv.FormatInt(k, 10)
}

func hval(v int64) string { return "v" + strconv.FormatInt(v, 10) }

func hkey(name string) (int64, bool) {
	if k, ok := curReverse[name]; ok {
		return k, true
	}
	k, err := strconv.ParseInt(strings.TrimPrefix(name, "X-H"), 10, 64)
	if !strings.HasPrefix(name, "X-H") || err != nil {
		return 0, false
	}
	if _, taken := curNames[k]; taken {
		return 0, false // this key goes by another name in this case
	}
	return k, true
}

func hdrOut(h http.Header) ([]Hdr, []XHdr) {
	res := []Hdr{}
	xs := []XHdr{}
	for name, vals := range h {
		k, ok := hkey(name)
		if !ok {
			xs = append(xs, XHdr{name, append([]string{}, vals...)})
			continue
		}
		vs := []int64{}
		for _, s := range vals {
			v, err := strconv.ParseInt(strings.TrimPrefix(s, "v"), 10, 64)
			if err != nil || !strings.HasPrefix(s, "v") {
				v = -1
			}
			vs = append(vs, v)
		}
		res = append(res, Hdr{k, vs})
	}
	sort.Slice(res, func(i, j int) bool { return res[i].K < res[j].K })
	sort.Slice(xs, func(i, j int) bool { return xs[i].Name < xs[j].Name })
	return res, xs
}

// WOut is what the real writer saw, in the end.
type WOut struct {
	Status  int    `json:"status"` // 0 = header never written
	Snap    []Hdr  `json:"snap"`
	SnapX   []XHdr `json:"snap_x"`
	Live    []Hdr  `json:"live"`
	LiveX   []XHdr `json:"live_x"`
	Body    []int  `json:"body"`
	Infos   []Info `json:"infos"`
	Flushes int    `json:"flushes"`
	RC      int    `json:"rc"`       // ResponseController calls (SetWriteDeadline) that reached the real writer
	Code    int    `json:"code"`     // argument of the last WriteHeader call, 200 if none (the outer middlewares' record)
	WhCalls int    `json:"wh_calls"` // WriteHeader calls the real writer received (translator's behavioural fallback only)
	Late    int    `json:"late"`     // real-writer calls after ServeHTTP returned
	Foreign int    `json:"foreign"`  // real-writer calls from another goroutine than ServeHTTP's
}

func (w *recw) out() WOut {
	w.mu.Lock()
	defer w.mu.Unlock()
	o := WOut{Body: []int{}, Infos: []Info{}}
	if w.wrote {
		o.Status = w.code
	}
	o.Snap, o.SnapX = hdrOut(w.snap)
	o.Live, o.LiveX = hdrOut(w.hdr)
	for _, b := range w.body {
		o.Body = append(o.Body, int(b))
	}
	for _, in := range w.infos {
		hs, xs := hdrOut(in.hdr)
		o.Infos = append(o.Infos, Info{in.code, hs, xs})
	}
	o.Flushes = w.flushes
	o.Code = w.last
	o.WhCalls = w.whCalls
	o.RC = w.rc
	o.Late, o.Foreign = w.late, w.foreign
	return o
}

// ---------------------------------------------------------------------------

type pv int64

type hcmd struct {
	selfCancel bool
	yield      int
}

type hack struct {
	obs   []any
	ended bool // returned or panicked
	wto   bool
	ctxd  bool
}

func num(v any) int64 { return int64(v.(float64)) }

func classifyPanic(p any) (string, int64) {
	switch v := p.(type) {
	case pv:
		return "user", int64(v)
	case string:
		const pre = "invalid WriteHeader code "
		if strings.HasPrefix(v, pre) {
			n, err := strconv.ParseInt(strings.TrimSpace(v[len(pre):]), 10, 64)
			if err == nil {
				return "badcode", n
			}
		}
	}
	return "other", 0
}

// doAction performs one scripted action; stop = the handler returns now (a context
// check saw Done).  A "panic" action panics.
func doAction(w http.ResponseWriter, r *http.Request, a []any) (ack hack, stop bool) {
	switch a[0].(string) {
	case "set":
		w.Header().Set(hname(num(a[1])), hval(num(a[2])))
	case "add":
		w.Header().Add(hname(num(a[1])), hval(num(a[2])))
	case "del":
		w.Header().Del(hname(num(a[1])))
	case "wh":
		w.WriteHeader(int(num(a[1])))
	case "flush":
		if f, ok := w.(http.Flusher); ok {
			f.Flush()
		}
	case "rcflush":
		_ = http.NewResponseController(w).Flush()
	case "w", "ws", "printf":
		// the three ways a handler usually writes: w.Write, io.WriteString (probes the writer
		// for io.StringWriter), fmt.Fprintf
		p := toBytes(a[1])
		var n int
		var err error
		switch a[0].(string) {
		case "w":
			n, err = w.Write(p)
		case "ws":
			n, err = io.WriteString(w, string(p))
		default:
			n, err = fmt.Fprintf(w, "%s", p)
		}
		switch {
		case err == nil:
			return hack{obs: []any{"wok", n}}, false
		case errors.Is(err, http.ErrHandlerTimeout):
			return hack{obs: []any{"wto"}, wto: true}, false
		default:
			return hack{obs: []any{"werr"}}, false
		}
	case "chk":
		select {
		case <-r.Context().Done():
			return hack{obs: []any{"ctx", true}, ctxd: true}, true
		default:
			return hack{obs: []any{"ctx", false}}, false
		}
	case "panic":
		panic(pv(num(a[1])))
	}
	return hack{obs: []any{"none"}}, false
}

// "rcdl" is no step of its own: http.NewResponseController(w).SetWriteDeadline(...) is made
// right before the next scripted action (after that action's gate).  It reaches the real
// writer only through Unwrap methods; a timeoutWriter has none.
func doRCDeadline(w http.ResponseWriter) {
	_ = http.NewResponseController(w).SetWriteDeadline(time.Now().Add(time.Hour))
}

// ---------------------------------------------------------------------------
// RecoverHandler inside the timeout middleware (the chain the rest engine builds:
// Timeout -> Recover -> ... -> route handler).  A panic of the work is recovered in the
// handler goroutine and answered with w.WriteHeader(500) on the writer the timeout
// middleware handed down; then the handler returns normally.
//
// recGate sits between the RecoverHandler and that writer, so that the recovery's
// WriteHeader is a scheduled handler action of its own (gate, call, report) and the
// handler's return after it another one.  The scripted work unwraps it and acts on the
// timeout middleware's writer itself (optional interfaces included).
type recGate struct {
	http.ResponseWriter
	armed bool // the work has panicked: the next WriteHeader is the RecoverHandler's
	used  bool
	gate  func()
	ack   func(hack)
}

func (g *recGate) WriteHeader(code int) {
	if !g.armed {
		g.ResponseWriter.WriteHeader(code)
		return
	}
	g.used = true
	g.gate()
	g.ResponseWriter.WriteHeader(code)
	g.ack(hack{obs: []any{"rec", code}})
}

// Write: a RecoverHandler that also sends a body; every chunk is a scheduled action
func (g *recGate) Write(p []byte) (int, error) {
	if !g.armed {
		return g.ResponseWriter.Write(p)
	}
	g.used = true
	g.gate()
	n, err := g.ResponseWriter.Write(p)
	switch {
	case err == nil:
		g.ack(hack{obs: []any{"wok", n}})
	case errors.Is(err, http.ErrHandlerTimeout):
		g.ack(hack{obs: []any{"wto"}, wto: true})
	default:
		g.ack(hack{obs: []any{"werr"}})
	}
	return n, err
}

// underRecover: next(recover(work)) seen from the timeout middleware, with the gate in between.
func underRecover(recoverMw func(http.Handler) http.Handler, work http.Handler) http.Handler {
	inner := recoverMw(work)
	return http.HandlerFunc(func(w http.ResponseWriter, r *http.Request) {
		g := &recGate{ResponseWriter: w}
		inner.ServeHTTP(g, r)
		if g.used {
			g.gate() // the handler's return, as after a script that ran to its end
			g.ack(hack{obs: []any{"none"}, ended: true})
		}
	})
}

// unwrapRec: what the scripted work does first: (writer to act on, the gate if there is one)
func unwrapRec(w http.ResponseWriter) (http.ResponseWriter, *recGate) {
	if g, ok := w.(*recGate); ok {
		return g.ResponseWriter, g
	}
	return w, nil
}

// blockedOnWriterLock: some goroutine is parked in Mutex.Lock below go-zero's rest/handler
// package.  On a tree where every method of the timeout writer releases tw.mu this lasts
// microseconds; seen for seconds on end it is a hang of the code under test, not load.
func blockedOnWriterLock() bool {
	buf := make([]byte, 1<<18)
	for {
		n := runtime.Stack(buf, true)
		if n < len(buf) {
			buf = buf[:n]
			break
		}
		buf = make([]byte, 2*len(buf))
	}
	for _, g := range strings.Split(string(buf), "\n\n") {
		head, _, _ := strings.Cut(g, "\n")
		if (strings.Contains(head, "[sync.Mutex.Lock") || strings.Contains(head, "[semacquire")) &&
			strings.Contains(g, "go-zero/rest/handler.") {
			return true
		}
	}
	return false
}

const (
	hangTick    = 50 * time.Millisecond
	hangConfirm = 40 // consecutive ticks (2 s) with a goroutine parked on the writer's lock
	slowLimit   = 5 * time.Second
)

// goroutineDump: all stacks, cut to a size a replay file can carry.
func goroutineDump() string {
	buf := make([]byte, 1<<16)
	n := runtime.Stack(buf, true)
	return string(buf[:n])
}

// waitHack waits for a handler report.  ok: it came.  hung: it did not — either for two
// seconds on end a goroutine sat on a mutex of rest/handler, or nothing came for seven
// seconds whatever the handler is parked on.  That is an OBSERVATION: the caller then
// produces the Done event and reports whether ServeHTTP returns within the usual time
// (judged by "returns at the deadline"), with the goroutine dump.
func waitHack(acks <-chan hack) (a hack, ok, hung bool) {
	t0 := time.Now()
	seen := 0
	for time.Since(t0) < slowLimit+2*time.Second {
		select {
		case a = <-acks:
			return a, true, false
		case <-time.After(hangTick):
		}
		if blockedOnWriterLock() {
			seen++
			if seen >= hangConfirm {
				return hack{}, false, true
			}
		} else {
			seen = 0
		}
	}
	return hack{}, false, true
}

func toBytes(v any) []byte {
	bs := v.([]any)
	p := make([]byte, len(bs))
	for i, b := range bs {
		p[i] = byte(num(b))
	}
	return p
}

// gatedReader is a source the controller can stall: every Read that delivers a chunk first
// waits for the controller's release, ignoring the request context; it has no WriteTo, so
// io.Copy(w, src) probes the WRITER for io.ReaderFrom.  The result of writing chunk j is
// reported when the copy asks for chunk j+1 (or when it gives up).
type gatedReader struct {
	chunks [][]byte
	i      int
	gate   func()
	ack    func(hack)
}

func (g *gatedReader) Read(p []byte) (int, error) {
	if g.i > 0 && g.i <= len(g.chunks) {
		g.ack(hack{obs: []any{"wok", len(g.chunks[g.i-1])}})
	}
	if g.i >= len(g.chunks) {
		g.i = len(g.chunks) + 1
		return 0, io.EOF
	}
	g.gate()
	n := copy(p, g.chunks[g.i])
	g.i++
	return n, nil
}

// doCopy: io.Copy(w, stalled source).  One gate and one report per chunk that the copy got
// to; the copy gives up at the first refused chunk (the remaining chunks are never read).
func doCopy(w http.ResponseWriter, a []any, gate func(), ack func(hack)) {
	g := &gatedReader{gate: gate, ack: ack}
	for _, c := range a[1].([]any) {
		g.chunks = append(g.chunks, toBytes(c))
	}
	_, err := io.Copy(w, g)
	if err == nil {
		return
	}
	if g.i == 0 {
		g.gate() // refused before the first Read: keep the controller's lock step
	}
	if errors.Is(err, http.ErrHandlerTimeout) {
		ack(hack{obs: []any{"wto"}, wto: true})
	} else {
		ack(hack{obs: []any{"werr"}})
	}
}

const waitS = 2 * time.Second

// ---------------------------------------------------------------------------
// sequences

type SeqReqIn struct {
	H0     [][]any `json:"h0"`
	Script [][]any `json:"script"`
	Fl     bool    `json:"fl"`     // the real writer is an http.Flusher
	PShape string  `json:"pshape"` // shape of the caller's context (ctxshape.go)
	// server cases only
	Group    int         `json:"group"`
	Route    int         `json:"route"`
	Hdrs     [][2]string `json:"hdrs"`      // request headers
	ParentNs *int64      `json:"parent_ns"` // caller's deadline, offset from the start of the case
	Deadline bool        `json:"deadline"`  // the request is expected to be ended by a real timer ("T" event)
}

type SeqCase struct {
	ID    int        `json:"id"`
	Kind  string     `json:"kind"`
	DurNs int64      `json:"dur_ns"`
	Reqs  []SeqReqIn `json:"reqs"`
	Order [][]any    `json:"order"` // ["start", i] | ["H", i] | ["D", i] | ["T", i]
	// header names of the scripts' header keys (default "X-H<k>")
	Names map[string]string `json:"names"`
	// Procs > 0: run the case with GOMAXPROCS(Procs).  With one P, per-P caches
	// (sync.Pool) hand an object released by one request to the very next one.
	Procs int `json:"procs"`
	// server cases only
	ConfMs int64 `json:"conf_ms"`
	MwTo   bool  `json:"mw_timeout"`
	Inner  bool  `json:"mw_inner"` // also Metrics, MaxBytes, Gunzip (they run inside the timeout goroutine)
	// Rec: the RecoverHandler sits inside the timeout middleware (as in the chain the engine builds).
	// seq cases: with a gate in between (recGate); server cases: conf.Middlewares.Recover, ungated
	Rec    bool       `json:"rec"`
	Groups []SrvGroup `json:"groups"`
}

type SrvGroup struct {
	Opts [][]any `json:"opts"` // ["timeout", ns] | ["sse"]
	N    int     `json:"n"`    // routes in the group
}

type SeqReqOut struct {
	SOut     string `json:"sout"`
	PKind    string `json:"pkind"`
	PVal     int64  `json:"pval"`
	W        WOut   `json:"w"`
	Wrapped  bool   `json:"wrapped"` // the handler ran on another goroutine than ServeHTTP's caller
	HasDl    bool   `json:"has_dl"`
	DlSeenNs int64  `json:"dl_seen_ns"`
	T0Ns     int64  `json:"t0_ns"` // right before ServeHTTP was called
	T1Ns     int64  `json:"t1_ns"` // when the handler started
	// server cases: Code of the real response.WithCodeResponseWriter put in front of the router
	// (what BreakerHandler / LogHandler / PrometheusHandler read), -1 = none
	OuterCode int `json:"outer_code"`
}

type SeqOut struct {
	ID     int         `json:"id"`
	Sched  [][]any     `json:"sched"` // [i, "H"|"Dc"|"Dd"|"St"|"Sd"|"Sp"]
	HObs   [][]any     `json:"hobs"`  // [i, obs...]
	Reqs   []SeqReqOut `json:"reqs"`
	RetAtD int         `json:"ret_at_d"`
	// Stuck >= 0: a handler action (or the handler's start) of that request did not
	// return; the run was cut there and the request counts as not completed.  Hung: for two
	// seconds on end a goroutine was parked on a mutex of rest/handler meanwhile (a hang of the
	// code under test); without that it is an executor error (machine too slow)
	Stuck int    `json:"stuck"`
	Hung  bool   `json:"hung"`
	Dump  string `json:"dump,omitempty"` // goroutine dump taken when a request got stuck
	// server cases: http.Server.ReadTimeout / WriteTimeout after withTimeout(), ng.timeout
	ReadNs  int64  `json:"read_ns"`
	WriteNs int64  `json:"write_ns"`
	EngNs   int64  `json:"eng_ns"`
	Err     string `json:"err,omitempty"`
}

type seqReq struct {
	in        SeqReqIn
	gate      chan hcmd
	acks      chan hack
	rw        *recw
	sret      atomic.Bool
	sRet      chan struct{}
	sPanic    any
	hStarted  chan struct{}
	hgid      atomic.Int64
	cancel    context.CancelFunc
	parent    context.Context
	started   bool
	hEnded    bool
	sSeen     bool
	dSeen     bool
	hasDl     bool
	dlSeen    time.Time
	t0, t1    time.Time
	outerCode func() int
}

const seqHeader = "X-Verif-Req"

// wrapOuter, when set by a driver, puts an outer recording writer in front of the handler for
// one request and returns it with a reader of its record.
var wrapOuter func(w http.ResponseWriter) (http.ResponseWriter, func() int)

// runSeqCore drives the case through the handler returned by build(work); target(i)
// gives the URL path of request i.  ONE handler serves all requests.
func runSeqCore(c SeqCase, build func(work http.HandlerFunc) (http.Handler, func(i int) string, error)) (out SeqOut) {
	out = SeqOut{ID: c.ID, RetAtD: -1, Stuck: -1, Sched: [][]any{}, HObs: [][]any{}}
	if c.Procs > 0 {
		defer runtime.GOMAXPROCS(runtime.GOMAXPROCS(c.Procs))
	}
	setNames(c.Names)
	tA := time.Now()
	reqs := make([]*seqReq, len(c.Reqs))
	for i, in := range c.Reqs {
		q := &seqReq{in: in, gate: make(chan hcmd), acks: make(chan hack, 4*len(in.Script)+16),
			sRet: make(chan struct{}), hStarted: make(chan struct{})}
		var cancelShape, releaseShape func()
		q.parent, cancelShape, releaseShape = mkParent(in.PShape, tA, in.ParentNs)
		q.cancel = context.CancelFunc(cancelShape)
		defer releaseShape()
		defer q.cancel()
		q.rw = newRecw(in.H0, &q.sret)
		reqs[i] = q
	}

	work := func(w http.ResponseWriter, r *http.Request) {
		i, err := strconv.Atoi(r.Header.Get(seqHeader))
		if err != nil || i < 0 || i >= len(reqs) {
			return
		}
		q := reqs[i]
		w, rg := unwrapRec(w)
		q.t1 = time.Now()
		q.dlSeen, q.hasDl = r.Context().Deadline()
		q.hgid.Store(gid())
		close(q.hStarted)
		rcdl := false
		gate := func() {
			<-q.gate
			if rcdl {
				rcdl = false
				doRCDeadline(w)
			}
		}
		defer func() {
			if p := recover(); p != nil {
				k, v := classifyPanic(p)
				if rg != nil {
					// a RecoverHandler above: its reply and the return are actions still to come
					rg.armed, rg.gate, rg.ack = true, gate, func(a hack) { q.acks <- a }
					q.acks <- hack{obs: []any{"panic", k, v}}
				} else {
					q.acks <- hack{obs: []any{"panic", k, v}, ended: true}
				}
				panic(p)
			}
		}()
		for _, a := range q.in.Script {
			switch a[0].(string) {
			case "rcdl":
				rcdl = true
				continue
			case "copy":
				doCopy(w, a, gate, func(k hack) { q.acks <- k })
				continue
			}
			gate()
			ack, stop := doAction(w, r, a)
			q.acks <- ack
			if stop {
				break
			}
		}
		gate()
		q.acks <- hack{obs: []any{"none"}, ended: true}
	}
	h, target, err := build(work)
	if err != nil {
		out.Err = "build: " + err.Error()
		return out
	}

	emit := func(i int, e string) { out.Sched = append(out.Sched, []any{i, e}) }
	returned := func(q *seqReq, wait time.Duration) bool {
		if wait == 0 {
			select {
			case <-q.sRet:
				return true
			default:
				return false
			}
		}
		select {
		case <-q.sRet:
			return true
		case <-time.After(wait):
			return false
		}
	}
	wrapped := func(q *seqReq) bool { return q.hgid.Load() != 0 && q.hgid.Load() != q.rw.sgid }
	emitS := func(i int, q *seqReq) {
		q.sSeen = true
		if !wrapped(q) {
			return // no select: ServeHTTP simply returned (or re-panicked) with the handler
		}
		timeout := func() {
			if !q.dSeen {
				q.dSeen = true
				if q.in.Deadline {
					emit(i, "Dd")
				} else {
					emit(i, "Dc")
				}
			}
			emit(i, "St")
		}
		switch {
		case q.sPanic != nil:
			emit(i, "Sp")
		case !q.hEnded:
			timeout()
		default:
			if q.rw.sawTimeoutReply() && (q.dSeen || q.in.Deadline) {
				timeout()
			} else {
				emit(i, "Sd")
			}
		}
	}
	start := func(i int, q *seqReq) bool {
		req, _ := http.NewRequestWithContext(q.parent, http.MethodGet, "http://localhost"+target(i), http.NoBody)
		req.Header.Set(seqHeader, strconv.Itoa(i))
		for _, kv := range q.in.Hdrs {
			req.Header.Add(kv[0], kv[1]) // several values under one name stay several values
		}
		sStarted := make(chan struct{})
		w := asWriter(q.rw, q.in.Fl)
		if wrapOuter != nil {
			w, q.outerCode = wrapOuter(w)
		}
		go func() {
			defer func() {
				q.sPanic = recover()
				q.sret.Store(true)
				close(q.sRet)
			}()
			q.rw.sgid = gid()
			close(sStarted)
			q.t0 = time.Now()
			h.ServeHTTP(w, req)
		}()
		<-sStarted
		q.started = true
		select {
		case <-q.hStarted:
			return true
		case <-time.After(5 * time.Second):
			return false
		}
	}
	stepH := func(i int, q *seqReq) bool {
		select {
		case q.gate <- hcmd{}:
		case <-time.After(5 * time.Second):
			return false
		}
		a, ok, hung := waitHack(q.acks)
		if !ok {
			out.Hung = hung
			return false
		}
		if a.wto && !q.sSeen {
			if !returned(q, waitS) {
				return false
			}
			emitS(i, q)
		}
		if a.ctxd && !q.dSeen {
			// an unwrapped handler noticed its caller's own deadline
			q.dSeen = true
			emit(i, "Dd")
		}
		emit(i, "H")
		out.HObs = append(out.HObs, append([]any{i}, a.obs...))
		q.hEnded = a.ended
		if !q.sSeen {
			w := time.Duration(0)
			if q.hEnded {
				w = waitS
			}
			if returned(q, w) {
				emitS(i, q)
			}
		}
		return true
	}

loop:
	for _, ev := range c.Order {
		i := int(num(ev[1]))
		q := reqs[i]
		switch ev[0].(string) {
		case "start":
			if !q.started && !start(i, q) {
				out.Stuck = i
				break loop
			}
		case "H":
			if q.started && !q.hEnded && !stepH(i, q) {
				out.Stuck = i
				break loop
			}
		case "D":
			q.cancel()
			if !q.dSeen {
				q.dSeen = true
				emit(i, "Dc")
			}
			if q.started && !q.sSeen && wrapped(q) {
				if returned(q, waitS) {
					if !q.hEnded {
						out.RetAtD = 1
					}
					emitS(i, q)
				} else {
					out.RetAtD = 0
				}
			}
		case "T":
			// the request's own (short, real) deadline
			if q.started && !q.sSeen && wrapped(q) {
				if returned(q, waitS) {
					if !q.hEnded {
						out.RetAtD = 1
					}
					emitS(i, q)
				} else {
					out.RetAtD = 0
				}
			} else if q.started && !wrapped(q) && !q.dSeen {
				select {
				case <-q.parent.Done():
					q.dSeen = true
					emit(i, "Dd")
				case <-time.After(waitS):
				}
			}
		}
	}
	if out.Stuck >= 0 {
		// a handler action (or a start) never came back: the Done event for that request, and does
		// ServeHTTP return within the usual time whatever the handler is parked on?
		q := reqs[out.Stuck]
		out.Dump = goroutineDump()
		q.cancel()
		if q.started && !returned(q, waitS) {
			out.RetAtD = 0
		}
	}
	// let every handler run to its end
	for i, q := range reqs {
		for out.Stuck < 0 && q.started && !q.hEnded {
			if !stepH(i, q) {
				out.Stuck = i
			}
		}
		if out.Stuck < 0 && q.started && !q.sSeen && returned(q, waitS) {
			emitS(i, q)
		}
	}
	for _, q := range reqs {
		o := SeqReqOut{OuterCode: -1}
		if q.outerCode != nil {
			o.OuterCode = q.outerCode()
		}
		switch {
		case !q.sret.Load():
			o.SOut = "wait"
		case q.sPanic != nil:
			o.SOut = "panic"
			o.PKind, o.PVal = classifyPanic(q.sPanic)
		default:
			o.SOut = "ret"
		}
		o.W = q.rw.out()
		o.Wrapped = wrapped(q)
		o.HasDl = q.hasDl
		if q.hasDl {
			o.DlSeenNs = int64(q.dlSeen.Sub(tA))
		}
		if q.started {
			o.T0Ns = int64(q.t0.Sub(tA))
			o.T1Ns = int64(q.t1.Sub(tA))
		}
		out.Reqs = append(out.Reqs, o)
	}
	return out
}
