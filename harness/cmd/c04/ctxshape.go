package main

// The caller-supplied context is an input with structure.  Standard library only:
// tools/props/c04.py copies this file, with the package clause rewritten, next to the
// white-box test drivers injected with `go test -overlay`.
//
// mkParent builds the caller's context of a case in the requested shape and returns it
// with the function the controller calls to produce the caller's cancellation (the Done
// event "Dc") and a release function for the end of the case.
//
//	plain      WithCancel(WithDeadline?(Background))
//	value      plain, with a value attached on top
//	cause      WithCancelCause(WithDeadlineCause?(Background)); cancel(custom error)
//	cause_nil  WithCancelCause(WithDeadline?(Background));      cancel(nil)
//	nested     WithCancel(WithValue(WithCancelCause(WithDeadlineCause?(Background)))): the
//	           GRANDPARENT is cancelled with a custom error
//	detached   WithCancel(WithoutCancel(WithDeadline?(Background))): the ancestor's deadline
//	           does not reach the caller's context (the model is given no caller deadline)
//
// The custom causes wrap neither context.Canceled nor context.DeadlineExceeded: a wrapper
// that hands one of them to its caller returns something outside the allowed results.

import (
	"context"
	"errors"
	"time"
)

var (
	errVerifCauseCancel   = errors.New("verif: custom cancel cause")
	errVerifCauseDeadline = errors.New("verif: custom deadline cause")
)

type verifCtxKey struct{}

func mkParent(shape string, tA time.Time, parentNs *int64) (ctx context.Context, cancel func(), release func()) {
	var rel []func()
	release = func() {
		for i := len(rel) - 1; i >= 0; i-- {
			rel[i]()
		}
	}
	base := context.Background()
	withDl := func(cause bool) context.Context {
		if parentNs == nil {
			return base
		}
		d := tA.Add(time.Duration(*parentNs))
		var c context.Context
		var f context.CancelFunc
		if cause {
			c, f = context.WithDeadlineCause(base, d, errVerifCauseDeadline)
		} else {
			c, f = context.WithDeadline(base, d)
		}
		rel = append(rel, f)
		return c
	}
	switch shape {
	case "cause":
		c, f := context.WithCancelCause(withDl(true))
		rel = append(rel, func() { f(nil) })
		return c, func() { f(errVerifCauseCancel) }, release
	case "cause_nil":
		c, f := context.WithCancelCause(withDl(false))
		return c, func() { f(nil) }, release
	case "nested":
		g, gf := context.WithCancelCause(withDl(true))
		rel = append(rel, func() { gf(nil) })
		c, f := context.WithCancel(context.WithValue(g, verifCtxKey{}, 1))
		rel = append(rel, f)
		return c, func() { gf(errVerifCauseCancel) }, release
	case "detached":
		c, f := context.WithCancel(context.WithoutCancel(withDl(false)))
		return c, f, release
	case "value":
		c, f := context.WithCancel(withDl(false))
		return context.WithValue(c, verifCtxKey{}, 1), f, release
	default:
		c, f := context.WithCancel(withDl(false))
		return c, f, release
	}
}
