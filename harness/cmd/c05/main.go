// Executor for C05: drives syncx.Limit / TimeoutLimit / Pool, threading.TaskRunner and
// rest/handler.MaxConnsHandler with scripted threads under a forced schedule
// (verifh/sched), or free-running with direct monitors (atomic gauges inside the guarded
// regions; also mr and fx worker caps) for the -race run of the thorough tier.
//
// Case: {"id","kind":"lim"|"tr"|"pl"|"wp"|"wg"|"ctor"|"mrfx","obj":...,"n","maxage",
//        "scripts":[[[opcode,arg],...] per thread],"sched":[actor...],"free":bool,
//        "inst":[instance per thread],"ns":[capacity per instance]}   (several instances at once)
// lim opcodes: 0 Borrow, 1 TryBorrow, 2 Return, 3 TimeoutLimit.Borrow(arg=1: zero timeout),
//              4 TimeoutLimit.Return, 5 HTTP request (arg=1: handler panics), 6 cancel the request
//              context of thread arg (its handler, if inside, stays inside); obj maxconns with
//              n <= 0 is the documented "no limit" configuration;
//              7 HTTP request whose handler takes the connection over with http.Hijacker (arg 0: hijacks
//              when it enters, 1: hijacks when it is released, 2: hijacks and closes the connection
//              itself before it returns, 3: hijacks and panics); 8 Close() the connection hijacked by
//              thread arg's last such request (legal any number of times, by anybody)
// lim objs:    limit tlimit maxconns maxchain; maxhij = maxconns (same construction, the generator adds
//              opcodes 7 / 8); engine = a rest.Server configured by "eng" (RestConf.MaxConns = n, one
//              route per instance), routes bound by the engine itself (Server.StartWithOpts with an
//              address that cannot be listened on), requests served by the bound router
// tr opcodes:  0 Schedule(arg=1: task panics), 1 ScheduleImmediately, 2 Wait
// pl opcodes:  0 Get, 1 Put (most recently obtained resource), 2 advance clock by arg ns, 3 Put(nil),
//              4 Get whose create(), if it is called, panics (result -2)
//              5 Get during which the first call of destroy() panics, after the resource is gone (result -2)
// probe:       obj pool: Pool(1), the first create() panics; R = 1 if the next Get succeeds, 0 if it blocks
// wp objs:     mr (ForEach) mrdef (ForEach, default workers) mrmr (MapReduce) mrvoid (MapReduceVoid)
//              mrchan (MapReduceChan) finish (Finish) finishvoid (FinishVoid)
//              fx (Walk) fxp (Parallel) fxmap (Map) fxfilter (Filter) fxu (Walk, UnlimitedWorkers)
//              fxdef (Walk, default workers); n is passed as is to WithWorkers (may be <= 0);
//              items: 0 the user function returns, 1 panics, 2 (MapReduce family, Finish) cancels with an error
// wg:          threading.NewWorkerGroup(job, n).Start(); items[k] = the k-th job invocation panics
// ctor:        obj limit|tlimit|taskrunner|pool constructed with n (<= 0): R = 1 ok, 3 panicked
// Results: 1 = nil/true/200, 0 = ErrLimitReturn/false/503/ErrTaskRunnerBusy, 2 = ErrTimeout,
//          3 = handler panic propagated; pl: Get -> resource id, others -1.
package main

import (
	"bufio"
	"math"
	"unsafe"
	"context"
	"fmt"
	"net"
	"net/http"
	"net/http/httptest"
	"regexp"
	"runtime"
	"strconv"
	"sync"
	"sync/atomic"
	"time"

	"github.com/zeromicro/go-zero/core/fx"
	"github.com/zeromicro/go-zero/core/logx"
	"github.com/zeromicro/go-zero/core/mr"
	"github.com/zeromicro/go-zero/core/syncx"
	"github.com/zeromicro/go-zero/core/threading"
	"github.com/zeromicro/go-zero/core/timex"
	"github.com/zeromicro/go-zero/rest"
	"github.com/zeromicro/go-zero/rest/chain"
	"github.com/zeromicro/go-zero/rest/handler"
	"github.com/zeromicro/go-zero/rest/router"
	"verifh/hx"
	"verifh/sched"
)

type Case struct {
	ID      int         `json:"id"`
	Kind    string      `json:"kind"`
	Obj     string      `json:"obj"`
	N       int         `json:"n"`
	MaxAge  int64       `json:"maxage"`
	Scripts [][][]int64 `json:"scripts"`
	Sched   []int       `json:"sched"`
	Free    bool        `json:"free"`
	Items   []int64     `json:"items"` // kind "wp": per item, does the mapper / walk function panic
	Src     Src         `json:"src"`   // kind "wp", fx objs: how the stream under the stage is built
	Sink    int         `json:"sink"`  // fx: 0 Done(), 1 ForEach(noop), 2 ForAll(drain)
	Inst    []int       `json:"inst"`  // instance used by each thread (absent: all use instance 0)
	Ns      []int       `json:"ns"`    // capacity of each instance (absent: [n])
	Eng     Eng         `json:"eng"`   // obj "engine": how the rest.Server is configured
	VP      int         `json:"vp"`    // kind "pl": what VALUES create() returns (the k-th creation is resource k whatever its value)
}

// Value policies of the pooled resources (kind "pl").  A resource is the k-th call of create();
// its value is the pool user's business and must be irrelevant to the pool.
//   0 the int64 k (all different)      1 equal strings (distinct backing arrays)
//   2 equal struct values              3 NaNs (never equal, not even to themselves)
//   4 slices   5 maps   6 funcs        (uncomparable: == on them panics)
//   7 the same int   8 struct{}{}   9 one shared pointer   (equal AND indistinguishable: the
//     executor follows them with a shadow of the idle stack; single-threaded scripts without max-age only)
type endpoint struct{ addr string }

type valuer struct {
	vp     int
	mu     sync.Mutex
	byData map[*byte]int64
	shadow []int64 // policies 7-9: ids on the idle stack, top last
	shared *int
}

func newValuer(vp int) *valuer {
	return &valuer{vp: vp, byData: map[*byte]int64{}, shared: new(int)}
}

func (v *valuer) str(id int64) string {
	s := string([]byte("10.0.0.1:3306"))
	v.mu.Lock()
	v.byData[unsafe.StringData(s)] = id
	v.mu.Unlock()
	return s
}

func (v *valuer) mk(id int64) any {
	switch v.vp {
	case 1:
		return v.str(id)
	case 2:
		return endpoint{addr: v.str(id)}
	case 3:
		return math.Float64frombits(0x7ff8000000000001 + uint64(id))
	case 4:
		return []int64{id}
	case 5:
		return map[string]int64{"id": id}
	case 6:
		return func() int64 { return id }
	case 7:
		return int64(7)
	case 8:
		return struct{}{}
	case 9:
		return v.shared
	}
	return id
}

func (v *valuer) indistinct() bool { return v.vp >= 7 }

// idOf: which creation a distinguishable value is (-1 for the indistinguishable policies)
func (v *valuer) idOf(x any) int64 {
	switch t := x.(type) {
	case int64:
		if v.vp == 0 {
			return t
		}
	case string:
		v.mu.Lock()
		defer v.mu.Unlock()
		return v.byData[unsafe.StringData(t)]
	case endpoint:
		v.mu.Lock()
		defer v.mu.Unlock()
		return v.byData[unsafe.StringData(t.addr)]
	case float64:
		return int64(math.Float64bits(t) - 0x7ff8000000000001)
	case []int64:
		return t[0]
	case map[string]int64:
		return t["id"]
	case func() int64:
		return t()
	}
	return -1
}

func (v *valuer) push(id int64) {
	v.mu.Lock()
	v.shadow = append(v.shadow, id)
	v.mu.Unlock()
}

func (v *valuer) pop() int64 {
	v.mu.Lock()
	defer v.mu.Unlock()
	if len(v.shadow) == 0 {
		return -7 // the pool handed out something it cannot have
	}
	id := v.shadow[len(v.shadow)-1]
	v.shadow = v.shadow[:len(v.shadow)-1]
	return id
}

// Eng: configuration of the rest.Server of obj "engine".
//   Use    number of server.Use middlewares (their constructors are gated when they run on an actor's
//          goroutine, i.e. when the engine assembles a route's chain on a request)
//   Off    Middlewares.MaxConns = false: no limit
//   Chain  0 native chain with MaxConns only; 1 MaxConns + Timeout + Recover (the engine's order);
//          2 rest.WithChain(user chain that contains handler.MaxConnsHandler(n))
//   Group  0 one AddRoute per route; 1 all routes in one AddRoutes; 2 one AddRoutes with route-level
//          middlewares (rest.WithMiddlewares); 3 one AddRoute per route, each with rest.WithPrefix("/p")
type Eng struct {
	Use   int  `json:"use"`
	Off   bool `json:"off"`
	Chain int  `json:"chain"`
	Group int  `json:"group"`
}

// Src: the source of an fx stage and its state AT THE MOMENT THE STAGE IS ATTACHED.
//   from   fx.From(generator)            (unbuffered, the default)
//   just   fx.Just(items...)             (buffered with all items, closed)
//   range  fx.Range(caller's channel)    cap Cap, Pre items already in it at attach time, Closed
//                                        (only when all items are in): closed before the attach
//   buffer fx.Range(unbuffered).Buffer(Cap), Pre items in the buffer at attach time (exact when
//          Pre == Cap: the Buffer goroutine then holds item Pre and is blocked)
//   concat fx.Just(first half).Concat(fx.Range(full buffered channel with the rest))
//   chain  fx.From(generator).Walk(identity, WithWorkers(n+1)) in front of the stage
// For range / buffer the remaining items are delivered by a producer started right after the attach.
// concat and chain do not preserve the order of the items: workers are numbered by arrival.
type Src struct {
	Shape  string `json:"shape"`
	Cap    int    `json:"cap"`
	Pre    int    `json:"pre"`
	Closed bool   `json:"closed"`
}

func (c Case) caps() []int {
	if len(c.Ns) > 0 {
		return c.Ns
	}
	return []int{c.N}
}

func (c Case) instOf(tid int) int {
	if tid < len(c.Inst) {
		return c.Inst[tid]
	}
	return 0
}

type Out struct {
	ID      int             `json:"id"`
	Init    sched.StepObs   `json:"init"`
	Steps   []sched.StepObs `json:"steps"`
	Monitor []string        `json:"monitor,omitempty"`
	Err     string          `json:"err,omitempty"`
	R       int64           `json:"r,omitempty"`
}

const stepTimeout = 5 * time.Second

type monitor struct {
	mu  sync.Mutex
	out *Out
}

func (m *monitor) report(format string, a ...any) {
	m.mu.Lock()
	if len(m.out.Monitor) < 20 {
		m.out.Monitor = append(m.out.Monitor, fmt.Sprintf(format, a...))
	}
	m.mu.Unlock()
}

// how a holder ends: 0 returns; 1 panics with a string; 2 (handlers) / 4 (workers) panics with a
// sentinel error value; 3 (workers, tasks) runtime.Goexit(); 5 panic(nil) (a *runtime.PanicNilError)
func endHolder(code int64, sentinel error) {
	switch code {
	case 1:
		panic("holder panic")
	case 2, 4:
		panic(sentinel)
	case 3:
		runtime.Goexit()
	case 5:
		var v any
		panic(v)
	}
}

func spin(k int) {
	for s := 0; s < k; s++ {
		if s%2 == 0 {
			time.Sleep(time.Microsecond)
		}
	}
}

func runLim(c Case, ctl *sched.Ctl, mon *monitor, wg *sync.WaitGroup) {
	caps := append([]int(nil), c.caps()...)
	ni := len(caps)
	if c.Obj == "engine" && c.Eng.Off && c.Eng.Chain != 2 {
		for k := range caps {
			caps[k] = 0 // Middlewares.MaxConns = false: no limit (gauge of the free-running monitor)
		}
	}
	lims := make([]syncx.Limit, ni)
	tls := make([]syncx.TimeoutLimit, ni)
	hs := make([]http.Handler, ni)
	inside := make([]int32, ni)
	holders := make([]int32, ni)
	enter := func(p *int32, k int, what string) {
		if v := atomic.AddInt32(p, 1); int(v) > caps[k] && !(what == "maxconns" && caps[k] <= 0) {
			mon.report("%s: %d holders inside the guarded region, cap %d", what, v, caps[k])
		}
	}
	// connections taken over by handlers (opcode 7), per thread: what Hijack() handed to the handler
	conns := make([]net.Conn, len(c.Scripts))
	var cmu sync.Mutex
	hijack := func(w http.ResponseWriter, tid, i int) {
		hj, ok := w.(http.Hijacker)
		if !ok {
			return
		}
		if conn, _, err := hj.Hijack(); err == nil {
			cmu.Lock()
			conns[tid] = conn
			cmu.Unlock()
			ctl.Log(tid, "hij", i)
		}
	}
	body := http.HandlerFunc(func(w http.ResponseWriter, r *http.Request) {
		tid, _ := strconv.Atoi(r.Header.Get("X-Tid"))
		i, _ := strconv.Atoi(r.Header.Get("X-Op"))
		hj := r.Header.Get("X-Hijack")
		k := c.instOf(tid)
		enter(&inside[k], k, "maxconns")
		ctl.Log(tid, "fs", i)
		if hj == "0" || hj == "2" || hj == "3" {
			hijack(w, tid, i)
		}
		ctl.Gate(tid, "fn", i)
		if c.Free {
			spin(tid + i)
		}
		if hj == "1" {
			hijack(w, tid, i)
		}
		if hj == "2" {
			cmu.Lock()
			conn := conns[tid]
			cmu.Unlock()
			if conn != nil {
				ctl.Log(tid, "cls", i, int64(tid))
				conn.Close()
			}
		}
		ctl.Log(tid, "fe", i)
		atomic.AddInt32(&inside[k], -1)
		switch r.Header.Get("X-Panic") {
		case "1":
			panic("handler panic")
		case "2":
			panic(http.ErrAbortHandler)
		case "3":
			endHolder(5, nil)
		}
		if hj == "" {
			w.WriteHeader(http.StatusOK)
		}
	})
	// one middleware value per capacity; every route wrapped by it gets its own latch
	mws := map[int]func(http.Handler) http.Handler{}
	var engine http.Handler
	if c.Obj == "engine" {
		var err error
		if engine, err = buildEngine(c, ctl, body, ni); err != nil {
			mon.out.Err = "engine: " + err.Error()
			return
		}
	}
	for k, n := range caps {
		if c.Obj == "engine" {
			hs[k] = engine
		} else if c.Obj == "maxconns" || c.Obj == "maxhij" {
			if mws[n] == nil {
				mws[n] = handler.MaxConnsHandler(n)
			}
			hs[k] = mws[n](body)
		} else if c.Obj == "maxchain" {
			// the order of rest/engine.go: MaxConns outside Timeout outside Recover.  The body runs on
			// the TimeoutHandler's goroutine; a panic of the body is turned into a 500 by RecoverHandler
			if mws[n] == nil {
				mws[n] = handler.MaxConnsHandler(n)
			}
			hs[k] = mws[n](handler.TimeoutHandler(time.Hour)(handler.RecoverHandler(body)))
		} else if c.Obj == "tlimit" {
			tls[k] = syncx.NewTimeoutLimit(n)
		} else {
			lims[k] = syncx.NewLimit(n)
		}
	}
	// every request carries its own context; opcode 6 cancels the context of thread arg's current
	// (or last) request - "the client went away" - while its handler stays inside the body
	cancels := make([]context.CancelFunc, len(c.Scripts))
	for tid, script := range c.Scripts {
		tid, script := tid, script
		k := c.instOf(tid)
		lim, tl, h := lims[k], tls[k], hs[k]
		wg.Add(1)
		ctl.Go(tid, func() {
			defer wg.Done()
			held := 0
			for i, op := range script {
				ctl.Gate(tid, "call", i)
				ctl.SetOp(tid, i)
				ctl.Log(tid, "inv", i, op[0])
				var r int64
				switch op[0] {
				case 0:
					lim.Borrow()
					r = 1
					held++
					enter(&holders[k], k, "limit")
				case 1:
					ok := false
					if c.Obj == "tlimit" {
						ok = tl.TryBorrow()
					} else {
						ok = lim.TryBorrow()
					}
					if ok {
						r = 1
						held++
						enter(&holders[k], k, "limit")
					}
				case 2, 4:
					if c.Free && held == 0 {
						r = -1 // free mode keeps holders well-formed: skip rogue returns
						break
					}
					if held > 0 {
						atomic.AddInt32(&holders[k], -1)
						held--
					}
					var err error
					if op[0] == 2 {
						err = lim.Return()
					} else {
						err = tl.Return()
					}
					if err == nil {
						r = 1
					} else if err != syncx.ErrLimitReturn {
						r = -1
					}
				case 3:
					d := time.Hour
					if op[1] == 1 {
						d = 0
					} else if op[1] == 2 {
						d = -time.Second
					}
					if c.Free {
						d = time.Duration(50+20*tid) * time.Microsecond
					}
					if d <= 0 {
						ctl.Busy(1)
					}
					err := tl.Borrow(d)
					if d <= 0 {
						ctl.Busy(-1)
					}
					if err == nil {
						r = 1
						held++
						enter(&holders[k], k, "timeoutlimit")
					} else if err == syncx.ErrTimeout {
						r = 2
					} else {
						r = -1
					}
				case 5, 7:
					// the writer is hijackable, as the one of an HTTP/1.x server connection is
					rec := &hijackRec{ResponseRecorder: httptest.NewRecorder()}
					rctx, cancel := context.WithCancel(context.Background())
					cmu.Lock()
					cancels[tid] = cancel
					cmu.Unlock()
					path := fmt.Sprintf("/r%d", k)
					if c.Obj == "engine" && c.Eng.Group == 3 {
						path = "/p" + path
					}
					req := httptest.NewRequest(http.MethodGet, path, nil).WithContext(rctx)
					req.Header.Set("X-Tid", strconv.Itoa(tid))
					req.Header.Set("X-Op", strconv.Itoa(i))
					if op[0] == 5 {
						req.Header.Set("X-Panic", strconv.FormatInt(op[1], 10))
					} else {
						req.Header.Set("X-Hijack", strconv.FormatInt(op[1], 10))
						if op[1] == 3 {
							req.Header.Set("X-Panic", "1")
						}
					}
					func() {
						defer func() {
							if p := recover(); p != nil {
								r = 3
							}
						}()
						h.ServeHTTP(rec, req)
						if rec.Code == http.StatusOK {
							r = 1
						} else if rec.Code == http.StatusServiceUnavailable {
							r = 0
						} else if rec.Code == http.StatusInternalServerError && (c.Obj == "maxchain" || c.Obj == "engine" && c.Eng.Chain == 1) {
							r = 3 // the handler's panic, as RecoverHandler reports it
						} else {
							r = -1
						}
					}()
				case 6:
					var f context.CancelFunc
					cmu.Lock()
					if t := int(op[1]); t >= 0 && t < len(cancels) {
						f = cancels[t]
					}
					cmu.Unlock()
					if f != nil {
						f()
					}
					r = 1
				case 8:
					var conn net.Conn
					cmu.Lock()
					if t := int(op[1]); t >= 0 && t < len(conns) {
						conn = conns[t]
					}
					cmu.Unlock()
					if conn != nil {
						ctl.Log(tid, "cls", i, op[1])
						conn.Close()
					}
					r = 1
				}
				ctl.Log(tid, "ret", i, r)
			}
		})
	}
}

// hijackRec is a ResponseRecorder whose connection can be taken over, as the writer of an HTTP/1.x
// server connection can: Hijack hands out one end of an in-memory pipe.
type hijackRec struct {
	*httptest.ResponseRecorder
	peer net.Conn
}

func (h *hijackRec) Hijack() (net.Conn, *bufio.ReadWriter, error) {
	if h.peer != nil {
		return nil, nil, http.ErrHijacked
	}
	a, b := net.Pipe()
	h.peer = b
	return a, bufio.NewReadWriter(bufio.NewReader(a), bufio.NewWriter(a)), nil
}

// buildEngine configures a rest.Server (MaxConns = c.N, one route "/r<k>" per instance, all served
// by body) and lets the ENGINE bind the routes - through the public API: Server.StartWithOpts with a
// start option that makes the listen address unusable, so that Start returns (by panicking with
// the listen error) right after the routes have been bound to our router.  What comes back is the
// handler an http.Server started by go-zero would serve.
func buildEngine(c Case, ctl *sched.Ctl, body http.HandlerFunc, routes int) (http.Handler, error) {
	conf := rest.RestConf{Host: "127.0.0.1", MaxConns: c.N}
	conf.Middlewares.MaxConns = !c.Eng.Off
	if c.Eng.Chain == 1 {
		conf.Middlewares.Timeout = true
		conf.Middlewares.Recover = true
		conf.Timeout = int64(time.Hour / time.Millisecond)
	}
	rt := router.NewRouter()
	opts := []rest.RunOption{rest.WithRouter(rt)}
	if c.Eng.Chain == 2 {
		opts = append(opts, rest.WithChain(chain.New(handler.MaxConnsHandler(c.N))))
	}
	server, err := rest.NewServer(conf, opts...)
	if err != nil {
		return nil, err
	}
	// a user middleware: its constructor runs whenever the engine chains the middlewares of a route
	// together.  At bind time that is the goroutine that calls Start (not an actor: no gate); if the
	// engine does it on a request, the requesting actor parks here, inside the assembly.
	mw := func(next http.HandlerFunc) http.HandlerFunc {
		if a := ctl.Actor(); a >= 0 {
			ctl.Gate(a, "mw", ctl.CurOp(a))
		}
		return func(w http.ResponseWriter, r *http.Request) { next(w, r) }
	}
	for i := 0; i < c.Eng.Use; i++ {
		server.Use(mw)
	}
	rs := make([]rest.Route, routes)
	for k := range rs {
		rs[k] = rest.Route{Method: http.MethodGet, Path: fmt.Sprintf("/r%d", k), Handler: body}
	}
	switch c.Eng.Group {
	case 1:
		server.AddRoutes(rs)
	case 2:
		server.AddRoutes(rest.WithMiddlewares([]rest.Middleware{mw}, rs...))
	case 3:
		for _, r := range rs {
			server.AddRoute(r, rest.WithPrefix("/p"))
		}
	default:
		for _, r := range rs {
			server.AddRoute(r)
		}
	}
	bound := make(chan struct{})
	done := make(chan struct{})
	var startErr any
	go func() {
		defer close(done)
		defer func() { startErr = recover() }() // Start panics with the listen error
		server.StartWithOpts(func(svr *http.Server) {
			svr.Addr = "127.0.0.1:-1" // not an address: ListenAndServe fails at once
			close(bound)
		})
	}()
	select {
	case <-done:
	case <-time.After(20 * time.Second):
		select {
		case <-bound:
			return nil, fmt.Errorf("Start is serving although the address is unusable")
		default:
			return nil, fmt.Errorf("Start did not get to the start options")
		}
	}
	select {
	case <-bound:
	default:
		return nil, fmt.Errorf("Start returned before the start options were applied: %v", startErr)
	}
	return rt, nil
}

func runTR(c Case, ctl *sched.Ctl, mon *monitor, wg *sync.WaitGroup) {
	caps := c.caps()
	trs := make([]*threading.TaskRunner, len(caps))
	running := make([]int32, len(caps))
	for k, n := range caps {
		trs[k] = threading.NewTaskRunner(n)
	}
	nthreads := len(c.Scripts)
	var counter int32
	for tid, script := range c.Scripts {
		tid, script := tid, script
		k := c.instOf(tid)
		tr := trs[k]
		wg.Add(1)
		ctl.Go(tid, func() {
			defer wg.Done()
			for i, op := range script {
				i := i
				how := op[1]
				if how == 2 {
					how = 4
				}
				task := func() {
					id := nthreads + int(atomic.AddInt32(&counter, 1)) - 1
					if v := atomic.AddInt32(&running[k], 1); int(v) > caps[k] {
						mon.report("taskrunner: %d tasks running, cap %d", v, caps[k])
					}
					ctl.Log(id, "fs", 0, int64(k))
					ctl.Gate(id, "task", 0)
					if c.Free {
						spin(tid + i)
					}
					ctl.Log(id, "fe", 0, int64(k))
					atomic.AddInt32(&running[k], -1)
					ctl.Done(id)
					endHolder(how, threading.ErrTaskRunnerBusy)
				}
				ctl.Gate(tid, "call", i)
				ctl.SetOp(tid, i)
				ctl.Log(tid, "inv", i, op[0])
				var r int64
				switch {
				case op[0] == 0:
					tr.Schedule(task)
					r = 1
				case op[0] == 1:
					if tr.ScheduleImmediately(task) == nil {
						r = 1
					}
				default:
					// Wait concurrently with a Schedule that finds the counter at zero is a misuse of
					// sync.WaitGroup (not part of C05): free runs wait once, at the end
					if !c.Free {
						tr.Wait()
					}
					r = 1
				}
				ctl.Log(tid, "ret", i, r)
			}
		})
	}
	if c.Free {
		// Wait only after every Schedule has returned
		postRun = trs[0].Wait
	}
}

var postRun func()

// the goroutine waits for the pool's own mutex (sync.(*Mutex).Lock called directly by the
// decorated locker), not for a lock of the controller inside the decoration's callback
var poolLockWait = regexp.MustCompile(`sync\.\(\*Mutex\)\.Lock\([^\n]*\n[^\n]*\n[^\n]*syncx\.\(\*verifLocker\)\.Lock`)

func runPL(c Case, ctl *sched.Ctl, mon *monitor, wg *sync.WaitGroup) {
	timex.SetFakeNow(1000000)
	caps := c.caps()
	pools := make([]*syncx.Pool, len(caps))
	panicCreate := make([]int32, len(c.Scripts)) // per thread: the create() called for its current Get panics
	for k := range caps {
		k := k
		var next int64
		var live int32
		val := newValuer(c.VP)
		createdNow := make([]int64, len(c.Scripts)) // per thread: 1 + id created by its current Get, 0 = none
		panicDestroy := make([]int32, len(c.Scripts)) // per thread: the next destroy() called for its current Get panics
		inUse := map[int64]*int32{}
		var imu sync.Mutex
		flag := func(x int64) *int32 {
			imu.Lock()
			defer imu.Unlock()
			p := inUse[x]
			if p == nil {
				p = new(int32)
				inUse[x] = p
			}
			return p
		}
		create := func() any {
			if a := ctl.Actor(); a >= 0 && a < len(panicCreate) && atomic.LoadInt32(&panicCreate[a]) != 0 {
				panic("create failed") // opcode 4: nothing is created (and nobody overlaps: no gate)
			}
			id := next
			next++
			if v := atomic.AddInt32(&live, 1); int(v) > caps[k] {
				mon.report("pool: %d live resources, limit %d", v, caps[k])
			}
			// create() is called by Pool.Get with the pool lock held: the caller parks here, inside
			// the critical section; everybody else must block on the lock meanwhile
			a := ctl.Actor()
			if a < 0 {
				a = 0
			}
			op := ctl.CurOp(a)
			if a < len(createdNow) {
				atomic.StoreInt64(&createdNow[a], id+1)
			}
			ctl.Log(a, "create", op, id)
			ctl.Gate(a, "create", op)
			return val.mk(id)
		}
		destroy := func(x any) {
			atomic.AddInt32(&live, -1)
			id := val.idOf(x)
			if val.indistinct() {
				id = val.pop()
			}
			if atomic.LoadInt32(flag(id)) != 0 {
				mon.report("pool: destroyed resource %d while held", id)
			}
			a := ctl.Actor()
			if a < 0 {
				a = 0
			}
			ctl.Log(a, "destroy", ctl.CurOp(a), id)
			if a < len(panicDestroy) && atomic.CompareAndSwapInt32(&panicDestroy[a], 1, 0) {
				panic("destroy failed") // opcode 5: the resource is gone (counted as destroyed), the callback panics
			}
		}
		// which creation a Get handed out: read off the value, or (indistinguishable values) the one
		// just created by this very Get, else the top of the shadow stack
		type res struct {
			id int64
			v  any
		}
		var pool *syncx.Pool
		get := func(tid int) res {
			atomic.StoreInt64(&createdNow[tid], 0)
			x := pool.Get()
			id := val.idOf(x)
			if val.indistinct() {
				if cn := atomic.LoadInt64(&createdNow[tid]); cn > 0 {
					id = cn - 1
				} else {
					id = val.pop()
				}
			}
			return res{id, x}
		}
		put := func(x res) (r int64) {
			defer func() {
				if p := recover(); p != nil {
					r = -9 // Put panicked (e.g. == on an uncomparable value)
				}
			}()
			if val.indistinct() {
				val.push(x.id)
			}
			pool.Put(x.v)
			return x.id
		}
		pool = syncx.NewPool(caps[k], create, destroy, syncx.WithMaxAge(time.Duration(c.MaxAge)))
		// linearisation order of the critical sections (see harness/overlay/syncx/verif_c05_hooks.go)
		pool.VerifOnLock(func() {
			if a := ctl.Actor(); a >= 0 {
				ctl.Log(a, "lk", ctl.CurOp(a))
			}
		})
		pools[k] = pool
		for tid, script := range c.Scripts {
			if c.instOf(tid) != k {
				continue
			}
			tid, script := tid, script
			wg.Add(1)
			ctl.Go(tid, func() {
				defer wg.Done()
				var held []res
				for i, op := range script {
					ctl.Gate(tid, "call", i)
					ctl.SetOp(tid, i)
					ctl.Log(tid, "inv", i, op[0])
					r := int64(-1)
					switch op[0] {
					case 0:
						if c.Free && len(held) > 0 {
							break // free mode: hold at most one, so that the run cannot deadlock
						}
						x := get(tid)
						if !atomic.CompareAndSwapInt32(flag(x.id), 0, 1) {
							mon.report("pool: resource %d handed to two users", x.id)
						}
						held = append([]res{x}, held...)
						r = x.id
					case 1:
						if len(held) > 0 {
							x := held[0]
							held = held[1:]
							atomic.StoreInt32(flag(x.id), 0)
							r = put(x)
						}
					case 2:
						if !c.Free {
							timex.AdvanceFake(time.Duration(op[1]))
							ctl.Log(tid, "adv", i, op[1])
						}
					case 3:
						pool.Put(nil)
					case 4, 5:
						if c.Free && len(held) > 0 {
							break
						}
						if op[0] == 5 {
							atomic.StoreInt32(&panicDestroy[tid], 1)
						} else {
							atomic.StoreInt32(&panicCreate[tid], 1)
						}
						func() {
							defer func() {
								if p := recover(); p != nil {
									r = -2
								}
							}()
							x := get(tid)
							if !atomic.CompareAndSwapInt32(flag(x.id), 0, 1) {
								mon.report("pool: resource %d handed to two users", x.id)
							}
							held = append([]res{x}, held...)
							r = x.id
						}()
						atomic.StoreInt32(&panicCreate[tid], 0)
						atomic.StoreInt32(&panicDestroy[tid], 0)
					}
					ctl.Log(tid, "ret", i, r)
				}
				if c.Free {
					for _, x := range held {
						atomic.StoreInt32(flag(x.id), 0)
						put(x)
					}
				}
			})
		}
	}
	// a goroutine waiting for a pool's mutex while the lock holder is parked inside create()
	// is blocked by the library, not about to run
	ctl.MutexBlocked = func(stack string) bool {
		return poolLockWait.MatchString(stack) && ctl.AnyParked("create")
	}
}

// mr / fx entry points under a forced schedule: actor 0 is the caller, actor 1+i the worker
// that runs the user function on item i (gate inside the function).  c.N goes to WithWorkers
// unchanged; capLimit is only the bound used by the free-running gauge.
func effWorkers(c Case) int {
	switch c.Obj {
	case "mrdef", "fxdef":
		return 16
	case "finish", "finishvoid", "fxu", "fxuw", "fxwu":
		return len(c.Items)
	}
	if c.N < 1 {
		return 1
	}
	return c.N
}

func runWP(c Case, ctl *sched.Ctl, mon *monitor, wg *sync.WaitGroup) {
	var running int32
	limit := effWorkers(c)
	fn := func(i int) {
		id := 1 + i
		if v := atomic.AddInt32(&running, 1); int(v) > limit {
			mon.report("%s: %d workers inside the user function, cap %d", c.Obj, v, limit)
		}
		ctl.Log(id, "fs", 0)
		ctl.Gate(id, "fn", 0)
		if c.Free {
			spin(i % 4)
		}
		ctl.Log(id, "fe", 0)
		atomic.AddInt32(&running, -1)
		ctl.Done(id)
		if c.Items[i] != 2 {
			endHolder(c.Items[i], mr.ErrCancelWithNil)
		}
	}
	gen := func(source chan<- int) {
		for i := range c.Items {
			source <- i
		}
	}
	errStop := fmt.Errorf("stop")
	mapper := func(item int, w mr.Writer[int], cancel func(error)) {
		fn(item)
		if c.Items[item] == 2 {
			cancel(errStop)
		}
		w.Write(item)
	}
	reducer := func(pipe <-chan int, w mr.Writer[int], cancel func(error)) {
		s := 0
		for v := range pipe {
			s += v
		}
		w.Write(s)
	}
	wg.Add(1)
	ctl.Go(0, func() {
		defer wg.Done()
		ctl.Gate(0, "call", 0)
		ctl.Log(0, "inv", 0, 0)
		r := int64(1)
		func() {
			defer func() {
				if p := recover(); p != nil {
					r = 3
				}
			}()
			switch c.Obj {
			case "mr":
				mr.ForEach(gen, func(item int) { fn(item) }, mr.WithWorkers(c.N))
			case "mrdef":
				mr.ForEach(gen, func(item int) { fn(item) })
			case "mr2w": // the last WithWorkers wins
				mr.ForEach(gen, func(item int) { fn(item) }, mr.WithWorkers(c.N+3), mr.WithWorkers(c.N))
			case "mrctx": // a live context of the caller's next to the worker count
				ctx, stop := context.WithCancel(context.Background())
				if _, err := mr.MapReduce(gen, mapper, reducer, mr.WithContext(ctx), mr.WithWorkers(c.N)); err == errStop {
					r = 4
				} else if err != nil {
					r = -1
				}
				stop()
			case "mrmr":
				if _, err := mr.MapReduce(gen, mapper, reducer, mr.WithWorkers(c.N)); err == errStop {
					r = 4
				} else if err != nil {
					r = -1
				}
			case "mrvoid":
				if err := mr.MapReduceVoid(gen, mapper, func(pipe <-chan int, cancel func(error)) {
					for range pipe {
					}
				}, mr.WithWorkers(c.N)); err == errStop {
					r = 4
				} else if err != nil {
					r = -1
				}
			case "mrchan":
				src := make(chan int)
				go func() {
					gen(src)
					close(src)
				}()
				if _, err := mr.MapReduceChan(src, mapper, reducer, mr.WithWorkers(c.N)); err == errStop {
					r = 4
				} else if err != nil {
					r = -1
				}
			case "finish":
				fns := make([]func() error, len(c.Items))
				for i := range c.Items {
					i := i
					fns[i] = func() error {
						fn(i)
						if c.Items[i] == 2 {
							return errStop
						}
						return nil
					}
				}
				if err := mr.Finish(fns...); err == errStop {
					r = 4
				} else if err != nil {
					r = -1
				}
			case "finishvoid":
				fns := make([]func(), len(c.Items))
				for i := range c.Items {
					i := i
					fns[i] = func() { fn(i) }
				}
				mr.FinishVoid(fns...)
			default: // fx objs
				runFx(c, fn)
			}
		}()
		ctl.Log(0, "ret", 0, r)
	})
}

// fx: source x stage x sink.  The stage is attached while the source is in the chosen state;
// only then the rest of the items is delivered.
func runFx(c Case, fn func(int)) {
	k := len(c.Items)
	var arrival int32
	byArrival := c.Src.Shape == "concat" || c.Src.Shape == "chain"
	call := func(item any) {
		if byArrival {
			fn(int(atomic.AddInt32(&arrival, 1)) - 1)
		} else {
			fn(item.(int))
		}
	}
	feed := func(ch chan<- any, from int, closeIt bool) func() {
		return func() {
			go func() {
				for i := from; i < k; i++ {
					ch <- i
				}
				if closeIt {
					close(ch)
				}
			}()
		}
	}
	var st fx.Stream
	after := func() {}
	switch c.Src.Shape {
	case "just":
		items := make([]any, k)
		for i := range items {
			items[i] = i
		}
		st = fx.Just(items...)
	case "range":
		ch := make(chan any, c.Src.Cap)
		pre := min(c.Src.Pre, c.Src.Cap, k)
		for i := 0; i < pre; i++ {
			ch <- i
		}
		if c.Src.Closed && pre == k {
			close(ch)
		} else {
			after = feed(ch, pre, true)
		}
		st = fx.Range(ch)
	case "buffer":
		ch := make(chan any)
		st = fx.Range(ch).Buffer(c.Src.Cap)
		m := min(min(c.Src.Pre, max(c.Src.Cap, 0))+1, k)
		for i := 0; i < m; i++ {
			ch <- i
		}
		after = feed(ch, m, true)
	case "concat":
		h := k / 2
		first := make([]any, h)
		for i := range first {
			first[i] = i
		}
		ch := make(chan any, max(k-h, 1))
		for i := h; i < k; i++ {
			ch <- i
		}
		close(ch)
		st = fx.Just(first...).Concat(fx.Range(ch))
	case "chain":
		st = fx.From(func(source chan<- any) {
			for i := 0; i < k; i++ {
				source <- i
			}
		}).Walk(func(item any, pipe chan<- any) { pipe <- item }, fx.WithWorkers(c.N+1))
	default:
		st = fx.From(func(source chan<- any) {
			for i := 0; i < k; i++ {
				source <- i
			}
		})
	}
	walk := func(item any, pipe chan<- any) { call(item); pipe <- item }
	quiet := func(item any, pipe chan<- any) { call(item) }
	var out fx.Stream
	switch c.Obj {
	case "fx":
		out = st.Walk(walk, fx.WithWorkers(c.N))
	case "fxdef":
		out = st.Walk(quiet)
	case "fxu":
		out = st.Walk(walk, fx.UnlimitedWorkers())
	case "fxuw": // UnlimitedWorkers is not undone by a worker count, in either order
		out = st.Walk(quiet, fx.WithWorkers(c.N), fx.UnlimitedWorkers())
	case "fxwu":
		out = st.Walk(quiet, fx.UnlimitedWorkers(), fx.WithWorkers(c.N))
	case "fxmap":
		out = st.Map(func(item any) any { call(item); return item }, fx.WithWorkers(c.N))
	case "fxfilter":
		out = st.Filter(func(item any) bool { call(item); return true }, fx.WithWorkers(c.N))
	default: // fxp: Parallel attaches and drains in one call
		after()
		st.Parallel(func(item any) { call(item) }, fx.WithWorkers(c.N))
		return
	}
	after()
	switch c.Sink {
	case 1:
		out.ForEach(func(any) {})
	case 2:
		out.ForAll(func(pipe <-chan any) {
			for range pipe {
			}
		})
	default:
		out.Done()
	}
}

// threading.WorkerGroup: actor 0 calls Start, actor 1+k is the k-th invocation of job
func runWG(c Case, ctl *sched.Ctl, mon *monitor, wg *sync.WaitGroup) {
	var running, counter int32
	job := func() {
		k := int(atomic.AddInt32(&counter, 1)) - 1
		id := 1 + k
		if v := atomic.AddInt32(&running, 1); int(v) > c.N {
			mon.report("workergroup: %d workers inside job, workers %d", v, c.N)
		}
		ctl.Log(id, "fs", 0)
		ctl.Gate(id, "job", 0)
		if c.Free {
			spin(k % 4)
		}
		ctl.Log(id, "fe", 0)
		atomic.AddInt32(&running, -1)
		ctl.Done(id)
		if k < len(c.Items) {
			endHolder(c.Items[k], threading.ErrTaskRunnerBusy)
		}
	}
	wg.Add(1)
	ctl.Go(0, func() {
		defer wg.Done()
		ctl.Gate(0, "call", 0)
		ctl.Log(0, "inv", 0, 0)
		r := int64(1)
		func() {
			defer func() {
				if p := recover(); p != nil {
					r = 3
				}
			}()
			threading.NewWorkerGroup(job, c.N).Start()
		}()
		ctl.Log(0, "ret", 0, r)
	})
}

// behavioural probe used by the regeneration step (coq/gen/C05Consts.v), obj maxconns: the status
// code MaxConnsHandler(1) answers with while its only slot is taken (R = 1000 + code)
func runProbeStatus() int64 {
	entered := make(chan struct{})
	leave := make(chan struct{})
	first := int32(1)
	h := handler.MaxConnsHandler(1)(http.HandlerFunc(func(w http.ResponseWriter, r *http.Request) {
		if atomic.CompareAndSwapInt32(&first, 1, 0) {
			close(entered)
			<-leave
		}
	}))
	done := make(chan struct{})
	go func() {
		defer close(done)
		h.ServeHTTP(httptest.NewRecorder(), httptest.NewRequest(http.MethodGet, "/", nil))
	}()
	select {
	case <-entered:
	case <-time.After(10 * time.Second):
		return 0
	}
	rec := httptest.NewRecorder()
	h.ServeHTTP(rec, httptest.NewRequest(http.MethodGet, "/", nil))
	close(leave)
	<-done
	return 1000 + int64(rec.Code)
}

// behavioural probe used by the regeneration step (coq/gen/C05Consts.v)
func runProbe(c Case) int64 {
	if c.Obj == "maxconns" {
		return runProbeStatus() - 10
	}
	calls := 0
	p := syncx.NewPool(1, func() any {
		calls++
		if calls == 1 {
			panic("create failed")
		}
		return calls
	}, func(any) {})
	func() {
		defer func() { recover() }()
		p.Get()
	}()
	done := make(chan struct{})
	go func() {
		p.Get()
		close(done)
	}()
	select {
	case <-done:
		return 1
	case <-time.After(3 * time.Second):
		return 0
	}
}

// syncx.Cond, the wake-up discipline the TimeoutLimit model relies on (lsig): Wait blocks until a
// Signal; one Signal wakes exactly one waiter; a Signal without a waiter is dropped, not stored.
// R = bit mask of the five observations (31 = all as the model assumes).
func runCond(c Case) int64 {
	ctl := sched.New(false)
	cond := syncx.NewCond()
	var timedOut int32
	ctl.Go(0, func() { ctl.Gate(0, "call", 0); cond.Wait() })
	ctl.Go(1, func() { ctl.Gate(1, "call", 0); cond.Wait() })
	ctl.Go(2, func() {
		for i := 0; i < 3; i++ {
			ctl.Gate(2, "call", i)
			cond.Signal()
		}
		ctl.Gate(2, "call", 3)
		ctl.Busy(1)
		if _, ok := cond.WaitWithTimeout(0); !ok {
			atomic.StoreInt32(&timedOut, 1)
		}
		ctl.Busy(-1)
	})
	st := func(o sched.StepObs, a int) int {
		for _, x := range o.Status {
			if x.Actor == a {
				return x.St
			}
		}
		return -1
	}
	var r int64
	if _, ok := ctl.Start(stepTimeout); !ok {
		return -1
	}
	o, _ := ctl.Step(0, stepTimeout)
	if st(o, 0) == sched.StBlocked {
		r |= 1
	}
	o, _ = ctl.Step(1, stepTimeout)
	if st(o, 0) == sched.StBlocked && st(o, 1) == sched.StBlocked {
		r |= 2
	}
	o, _ = ctl.Step(2, stepTimeout) // first Signal: exactly one waiter returns
	if (st(o, 0) == sched.StDone) != (st(o, 1) == sched.StDone) {
		r |= 4
	}
	o, _ = ctl.Step(2, stepTimeout) // second Signal: the other one
	if st(o, 0) == sched.StDone && st(o, 1) == sched.StDone {
		r |= 8
	}
	ctl.Step(2, stepTimeout) // third Signal: nobody waits, it must not be kept
	ctl.Step(2, stepTimeout) // WaitWithTimeout(0)
	if atomic.LoadInt32(&timedOut) == 1 {
		r |= 16
	}
	ctl.Abort()
	return r
}

// constructors with n <= 0
func runCtor(c Case) int64 {
	r := int64(1)
	func() {
		defer func() {
			if p := recover(); p != nil {
				r = 3
			}
		}()
		switch c.Obj {
		case "limit":
			syncx.NewLimit(c.N)
		case "tlimit":
			syncx.NewTimeoutLimit(c.N)
		case "taskrunner":
			threading.NewTaskRunner(c.N)
		case "pool":
			syncx.NewPool(c.N, func() any { return 0 }, func(any) {})
		}
	}()
	return r
}

// worker caps of mr, fx and WorkerGroup: direct gauge only (free-running, under -race)
func runMrFx(c Case, mon *monitor) {
	// one gauge per entry point (a cancelled MapReduce returns while its mappers still run)
	gauges := map[string]*int32{}
	var gmu sync.Mutex
	work := func(what string, k int) {
		gmu.Lock()
		g := gauges[what]
		if g == nil {
			g = new(int32)
			gauges[what] = g
		}
		gmu.Unlock()
		if v := atomic.AddInt32(g, 1); int(v) > c.N {
			mon.report("%s: %d workers inside, cap %d", what, v, c.N)
		}
		spin(k % 5)
		atomic.AddInt32(g, -1)
	}
	items := 40 + 10*c.N
	// ONE option value of each package, shared by all the calls below (an option must not carry state)
	mo := mr.WithWorkers(c.N)
	fo := fx.WithWorkers(c.N)
	gen := func(source chan<- int) {
		for i := 0; i < items; i++ {
			source <- i
		}
	}
	fxgen := func(source chan<- any) {
		for i := 0; i < items; i++ {
			source <- i
		}
	}
	reducer := func(pipe <-chan int, w mr.Writer[int], cancel func(error)) {
		s := 0
		for v := range pipe {
			s += v
		}
		w.Write(s)
	}
	mr.ForEach(gen, func(item int) { work("mr.ForEach", item) }, mo)
	_, _ = mr.MapReduce(gen, func(item int, w mr.Writer[int], cancel func(error)) {
		work("mr.MapReduce", item)
		w.Write(item)
	}, reducer, mo)
	// cancelled half way: the cap must hold for the mappers still running
	_, _ = mr.MapReduce(gen, func(item int, w mr.Writer[int], cancel func(error)) {
		work("mr.MapReduce(cancel)", item)
		if item == items/2 {
			cancel(fmt.Errorf("stop"))
		}
		w.Write(item)
	}, reducer, mo)
	// the caller's context dies half way
	ctx, stop := context.WithCancel(context.Background())
	_, _ = mr.MapReduce(gen, func(item int, w mr.Writer[int], cancel func(error)) {
		work("mr.MapReduce(ctx)", item)
		if item == items/2 {
			stop()
		}
		w.Write(item)
	}, reducer, mr.WithContext(ctx), mo)
	stop()
	_ = mr.MapReduceVoid(gen, func(item int, w mr.Writer[int], cancel func(error)) {
		work("mr.MapReduceVoid", item)
		w.Write(item)
	}, func(pipe <-chan int, cancel func(error)) {
		for range pipe {
		}
	}, mo)
	src := make(chan int)
	go func() {
		gen(src)
		close(src)
	}()
	_, _ = mr.MapReduceChan(src, func(item int, w mr.Writer[int], cancel func(error)) {
		work("mr.MapReduceChan", item)
		w.Write(item)
	}, reducer, mo)
	fns := make([]func() error, c.N)
	vfns := make([]func(), c.N)
	for i := range fns {
		i := i
		fns[i] = func() error { work("mr.Finish", i); return nil }
		vfns[i] = func() { work("mr.FinishVoid", i) }
	}
	_ = mr.Finish(fns...)
	mr.FinishVoid(vfns...)
	fx.From(fxgen).Walk(func(item any, pipe chan<- any) {
		work("fx.Walk", item.(int))
		pipe <- item
	}, fo).Done()
	fx.From(fxgen).Parallel(func(item any) { work("fx.Parallel", item.(int)) }, fo)
	fx.From(fxgen).Map(func(item any) any { work("fx.Map", item.(int)); return item }, fo).
		Filter(func(item any) bool { work("fx.Filter", item.(int)); return true }, fo).Done()
	// an open buffered source that is exactly full (c.N items) when the stage is attached
	full := make(chan any, c.N)
	for i := 0; i < c.N; i++ {
		full <- i
	}
	stage := fx.Range(full).Walk(func(item any, pipe chan<- any) { work("fx.Walk(full buffer)", item.(int)) }, fo)
	go func() {
		for i := c.N; i < items; i++ {
			full <- i
		}
		close(full)
	}()
	stage.Done()
	fx.From(fxgen).Buffer(c.N).Walk(func(item any, pipe chan<- any) { work("fx.Buffer.Walk", item.(int)) }, fo).Done()
	threading.NewWorkerGroup(func() { work("WorkerGroup", 1) }, c.N).Start()
}

func runCase(c Case) (out Out) {
	out.ID = c.ID
	mon := &monitor{out: &out}
	if c.Kind == "mrfx" {
		runMrFx(c, mon)
		return out
	}
	if c.Kind == "ctor" {
		out.R = runCtor(c)
		return out
	}
	if c.Kind == "cond" {
		out.R = runCond(c)
		return out
	}
	if c.Kind == "probe" {
		out.R = 10 + runProbe(c)
		return out
	}
	ctl := sched.New(c.Free)
	var wg sync.WaitGroup
	switch c.Kind {
	case "lim":
		runLim(c, ctl, mon, &wg)
	case "tr":
		runTR(c, ctl, mon, &wg)
	case "pl":
		runPL(c, ctl, mon, &wg)
	case "wp":
		runWP(c, ctl, mon, &wg)
	case "wg":
		runWG(c, ctl, mon, &wg)
	default:
		out.Err = "unknown kind " + c.Kind
		return out
	}
	if c.Free {
		done := make(chan struct{})
		go func() {
			wg.Wait()
			if postRun != nil {
				postRun()
				postRun = nil
			}
			close(done)
		}()
		select {
		case <-done:
		case <-time.After(20 * time.Second):
			out.Err = "free run did not finish"
		}
		return out
	}
	var ok bool
	out.Init, ok = ctl.Start(stepTimeout)
	if !ok {
		out.Err = "no quiescence at start"
		ctl.Abort()
		return out
	}
	for _, a := range c.Sched {
		o, ok := ctl.Step(a, stepTimeout)
		out.Steps = append(out.Steps, o)
		if !ok {
			out.Err = "no quiescence"
			ctl.Abort()
			return out
		}
	}
	rest, ok := ctl.Drain(stepTimeout, 10000)
	out.Steps = append(out.Steps, rest...)
	if !ok {
		out.Err = "drain did not finish"
	}
	ctl.Abort()
	return out
}

func main() {
	logx.Disable()
	var cases []Case
	hx.ReadCases(&cases)
	w := hx.NewWriter()
	defer w.Close()
	for _, c := range cases {
		w.Put(runCase(c))
	}
}
