// Hand-declared request types for C08: shapes that reflect.StructOf cannot make (an embedded struct
// whose TYPE NAME is unexported; core/mapping reads its exported members all the same, as
// encoding/json does for promoted fields).  tools/props/c08.py (STATIC_TYPES) describes the same
// types in the type language of the model, field by field in the same order.
package main

import "reflect"

type pagingF struct {
	Page int    `form:"page"`
	Size int    `form:"size,range=[1:100]"`
	Sort string `form:"sort,default=asc,options=asc|desc"`
}

// PagingF is pagingF under an exported type name.
type PagingF struct {
	Page int    `form:"page"`
	Size int    `form:"size,range=[1:100]"`
	Sort string `form:"sort,default=asc,options=asc|desc"`
}

type identP struct {
	ID int `path:"id,range=[1:999]"`
}

type traceH struct {
	Trace string `header:"X-Trace"`
	Level int    `header:"X-Level,optional,range=[0:5]"`
}

type bodyJ struct {
	Filter string `json:"filter,optional"`
	Limit  int    `json:"limit,default=10,range=[1:50]"`
}

type lvl1F struct {
	pagingF
}

type lvl1H struct {
	traceH
}

// the embedded struct is the only carrier of the source's tag key
type reqFormU struct {
	pagingF
	Filter string `json:"filter,optional"`
}

type reqFormE struct {
	PagingF
	Filter string `json:"filter,optional"`
}

type reqFormPE struct {
	*PagingF
	Filter string `json:"filter,optional"`
}

// another field of the request type carries the same key
type reqFormUC struct {
	pagingF
	Keyword string `form:"keyword,optional"`
}

type reqPathU struct {
	identP
	Filter string `json:"filter,optional"`
}

type reqHeaderU struct {
	traceH
	Filter string `json:"filter,optional"`
}

// two levels of unexported embedding
type reqNestedF struct {
	lvl1F
	Filter string `json:"filter,optional"`
}

type reqNestedH struct {
	Filter string `json:"filter,optional"`
	lvl1H
}

// every source through an unexported embedded struct, the body too
type reqAllU struct {
	identP
	pagingF
	traceH
	bodyJ
}

// sources mixed: named path field, embedded form and header carriers
type reqMixed struct {
	ID int `path:"id"`
	pagingF
	lvl1H
	Filter string `json:"filter,optional"`
}

var staticTypes = map[string]reflect.Type{
	"reqFormU":   reflect.TypeOf(reqFormU{}),
	"reqFormE":   reflect.TypeOf(reqFormE{}),
	"reqFormPE":  reflect.TypeOf(reqFormPE{}),
	"reqFormUC":  reflect.TypeOf(reqFormUC{}),
	"reqPathU":   reflect.TypeOf(reqPathU{}),
	"reqHeaderU": reflect.TypeOf(reqHeaderU{}),
	"reqNestedF": reflect.TypeOf(reqNestedF{}),
	"reqNestedH": reflect.TypeOf(reqNestedH{}),
	"reqAllU":    reflect.TypeOf(reqAllU{}),
	"reqMixed":   reflect.TypeOf(reqMixed{}),
}
