// Executor for C08: builds Go struct types at run time (reflect.StructOf) from JSON
// type descriptions, renders the go-zero field tags, unmarshals the given document
// through the public mapping / httpx entry points and reports the verdict
// (ok / error / panic) plus a canonical dump of the decoded value.
// It only executes: generation, shrinking and rendering for Coq are in tools/props/c08.py.
package main

import (
	"bytes"
	"encoding/json"
	"fmt"
	"io"
	"math"
	"mime/multipart"
	"net/http"
	"net/http/httptest"
	"net/textproto"
	"net/url"
	"reflect"
	"runtime"
	"sort"
	"strconv"
	"strings"
	"sync"
	"sync/atomic"
	"time"

	"github.com/zeromicro/go-zero/core/mapping"
	"github.com/zeromicro/go-zero/rest/httpx"
	"github.com/zeromicro/go-zero/rest/pathvar"
	"verifh/hx"
)

type Range struct {
	LI bool    `json:"li"`
	L  *string `json:"l"`
	R  *string `json:"r"`
	RI bool    `json:"ri"`
}

type Opts struct {
	Opt     bool     `json:"opt"`
	Dep     *string  `json:"dep"`
	Neg     bool     `json:"neg"`
	Def     *string  `json:"def"`
	Range   *Range   `json:"range"`
	Options []string `json:"options"`
	Str     bool     `json:"str"`
	Bracket bool     `json:"bracket"` // render the options as options=[a,b] instead of options=a|b
}

// TagSpec is one struct tag of a field that carries several (json / form / path / header / key).
type TagSpec struct {
	Key string  `json:"key"`
	O   *Opts   `json:"o"`
	Raw *string `json:"raw"` // the tag value as text (spacing, bracket notation, escapes chosen by the generator)
}

type Field struct {
	Key   string             `json:"key"`
	T     *Type              `json:"t"`
	O     *Opts              `json:"o"`
	Anon  bool               `json:"anon"`  // embedded struct / *struct; O is nil or {opt:true}
	Raw   *string            `json:"raw"`   // single-tag fields: the tag value as text
	NoTag bool               `json:"notag"` // no struct tag at all: every unmarshaller kind reads the field under its Go name
	Tags  map[string]TagSpec `json:"tags"`  // several tags on one field; Key / O / Raw above are then unused
}

type Type struct {
	K string  `json:"k"`
	E *Type   `json:"e"`
	F []Field `json:"f"`
}

// Doc is the tagged document tree.
type Doc struct {
	Null *int       `json:"null,omitempty"`
	B    *bool      `json:"b,omitempty"`
	N    *string    `json:"n,omitempty"`
	S    *string    `json:"s,omitempty"`
	A    *[]Doc     `json:"a,omitempty"`
	O    *[]KV      `json:"o,omitempty"`
	G    *[2]string `json:"g,omitempty"` // native Go scalar: [kind, literal]
}

type KV struct {
	K string `json:"k"`
	V Doc    `json:"v"`
}

// Conc describes overlapping calls.
//
//	kind "canon": all steps go through ONE Unmarshaler built here with WithCanonicalKeyFunc; the key
//	  function is the gate: the goroutine making its Park-th invocation is held there (that is step 0,
//	  started alone), the other steps then run to completion, then step 0 is released.
//	kind "free": every step runs its own entry point (the package-level unmarshalers of mapping / rest)
//	  in its own goroutine, all released together.
type Conc struct {
	Kind    string `json:"kind"`
	Park    int    `json:"park"`
	Tag     string `json:"tag"`     // canon: tag key
	StrVals bool   `json:"strvals"` // canon: WithStringValues (header style); else document values
	Lower   bool   `json:"lower"`   // canon: keys are lower-cased (conf style) instead of MIME-canonicalised
}

// ParseReq is one HTTP request for httpx.Parse: path variables, query (or posted form)
// parameters, headers and a body at once.
type ParseReq struct {
	Path     *Doc    `json:"path"`
	Form     *Doc    `json:"form"`
	Header   *Doc    `json:"header"`
	Body     *string `json:"body"`
	Ctype    *string `json:"ctype"`    // Content-Type of the body (default application/json)
	PostForm bool    `json:"postform"` // send the form parameters as an x-www-form-urlencoded body
	// with PostForm: the body is multipart/form-data instead (GetFormValues then goes through ParseMultipartForm)
	Multipart bool `json:"multipart"`
	Query     *Doc `json:"query"` // with PostForm: parameters sent in the URL as well
}

type Repeat struct {
	Key string `json:"key"`
	Val string `json:"val"`
	N   int    `json:"n"`
}

// Case is one request, or (mode "seq") a sequence of requests run in order in this process.
type Case struct {
	ID   int     `json:"id"`
	Mode string  `json:"mode"`
	Type Type    `json:"type"`
	Doc  *Doc    `json:"doc"`
	Raw  *string `json:"raw"`
	// httpx modes only
	Direct    bool      `json:"direct"`    // call ParseJsonBody / ParseForm / ParsePath / ParseHeaders instead of Parse
	Pad       int       `json:"pad"`       // json body: insert that many spaces after the first byte
	Repeat    *Repeat   `json:"repeat"`    // form: add n more values for a key
	Req       *ParseReq `json:"req"`       // mode "parse"
	Validator *string   `json:"validator"` // httpx.SetValidator for this call: "accept" / "reject"
	Ctype     *string   `json:"ctype"`     // httpx-json: Content-Type (default application/json)
	Static    string    `json:"static"`    // "self": the target is the declared type selfReq (it validates itself)
	Entries   *Doc      `json:"entries"`   // mode "scribble": what the caller stores in the map it got back
	Mutate    bool      `json:"mutate"`    // after the call the caller overwrites every reference-typed part of ITS target
	Conc      *Conc     `json:"conc"`      // mode "seq": the steps are calls that OVERLAP (see runConc)
	// Entry (mode "parse"): the entry point applied to the request: "" / "Parse", "ParseForm", "ParsePath",
	// "ParseHeaders", "ParseJsonBody", "GetFormValues" (its result handed to an unmarshaller built like httpx's)
	Entry string `json:"entry"`
	// ReqID: inside a sequence, steps with the same ReqID are applied to ONE object of the caller: the same
	// *http.Request (its Form / Header / URL / path variables / body bytes), the same input map, the same bytes
	ReqID string `json:"reqid"`
	// Preparse: the caller has looked at the request itself (r.ParseForm / r.FormValue) before go-zero does
	Preparse bool `json:"preparse"`
	// sequences
	Steps  []Case `json:"steps"`
	Procs1 bool   `json:"procs1"` // run the sequence under GOMAXPROCS(1)
}

type Out struct {
	ID      int    `json:"id"`
	Verdict string `json:"verdict"`
	Err     string `json:"err,omitempty"`
	Val     any    `json:"val,omitempty"`
	Tag     string `json:"tag,omitempty"`
	Called  bool   `json:"called"`          // the installed request validator ran
	Alias   string `json:"alias,omitempty"` // two positions of the target share one pointer
	// Changed: after the call an object handed in by the caller (r.Form, r.PostForm, r.Header, r.URL, the path
	// variables, the body bytes, the input map, the input text) no longer holds what the caller put there
	Changed string `json:"changed,omitempty"`
	Fail    string `json:"fail,omitempty"` // executor problem (bad case), not an observation
	Steps   []Out  `json:"steps,omitempty"`
}

var prim = map[string]reflect.Type{
	"bool": reflect.TypeOf(false), "int": reflect.TypeOf(int(0)), "int8": reflect.TypeOf(int8(0)),
	"int16": reflect.TypeOf(int16(0)), "int32": reflect.TypeOf(int32(0)), "int64": reflect.TypeOf(int64(0)),
	"uint": reflect.TypeOf(uint(0)), "uint8": reflect.TypeOf(uint8(0)), "uint16": reflect.TypeOf(uint16(0)),
	"uint32": reflect.TypeOf(uint32(0)), "uint64": reflect.TypeOf(uint64(0)),
	"float32": reflect.TypeOf(float32(0)), "float64": reflect.TypeOf(float64(0)), "string": reflect.TypeOf(""),
}

func renderRange(r *Range) string {
	var b strings.Builder
	if r.LI {
		b.WriteByte('[')
	} else {
		b.WriteByte('(')
	}
	if r.L != nil {
		b.WriteString(*r.L)
	}
	b.WriteByte(':')
	if r.R != nil {
		b.WriteString(*r.R)
	}
	if r.RI {
		b.WriteByte(']')
	} else {
		b.WriteByte(')')
	}
	return b.String()
}

func renderTagValue(key string, o *Opts) string {
	segs := []string{key}
	if o != nil {
		if o.Opt {
			if o.Dep != nil {
				if o.Neg {
					segs = append(segs, "optional=!"+*o.Dep)
				} else {
					segs = append(segs, "optional="+*o.Dep)
				}
			} else {
				segs = append(segs, "optional")
			}
		}
		if o.Def != nil {
			segs = append(segs, "default="+*o.Def)
		}
		if o.Range != nil {
			segs = append(segs, "range="+renderRange(o.Range))
		}
		if len(o.Options) > 0 {
			if o.Bracket {
				segs = append(segs, "options=["+strings.Join(o.Options, ",")+"]")
			} else {
				segs = append(segs, "options="+strings.Join(o.Options, "|"))
			}
		}
		if o.Str {
			segs = append(segs, "string")
		}
	}
	return strings.Join(segs, ",")
}

func oneTag(tagKey, key string, o *Opts, raw *string) string {
	v := renderTagValue(key, o)
	if raw != nil {
		v = *raw
	}
	return tagKey + ":" + strconv.Quote(v)
}

// renderTag: the whole struct tag of a field (one tag for single-kind types, several otherwise)
func renderTag(tagKey string, f Field) string {
	if f.NoTag {
		return ""
	}
	if f.Tags == nil {
		return oneTag(tagKey, f.Key, f.O, f.Raw)
	}
	keys := make([]string, 0, len(f.Tags))
	for k := range f.Tags {
		keys = append(keys, k)
	}
	sort.Strings(keys)
	parts := make([]string, 0, len(keys))
	for _, k := range keys {
		ts := f.Tags[k]
		parts = append(parts, oneTag(k, ts.Key, ts.O, ts.Raw))
	}
	return strings.Join(parts, " ")
}

func build(tagKey string, t *Type) (reflect.Type, error) {
	if t == nil {
		return nil, fmt.Errorf("nil type")
	}
	switch t.K {
	case "ptr":
		e, err := build(tagKey, t.E)
		if err != nil {
			return nil, err
		}
		return reflect.PointerTo(e), nil
	case "slice":
		e, err := build(tagKey, t.E)
		if err != nil {
			return nil, err
		}
		return reflect.SliceOf(e), nil
	case "map":
		e, err := build(tagKey, t.E)
		if err != nil {
			return nil, err
		}
		return reflect.MapOf(prim["string"], e), nil
	case "struct":
		fs := make([]reflect.StructField, 0, len(t.F))
		for i, f := range t.F {
			ft, err := build(tagKey, f.T)
			if err != nil {
				return nil, err
			}
			if f.Anon {
				tag := ""
				if f.Tags != nil {
					tag = renderTag(tagKey, f)
				} else if f.O != nil && f.O.Opt {
					tag = tagKey + `:",optional"`
				}
				fs = append(fs, reflect.StructField{
					Name:      fmt.Sprintf("E%d", i),
					Type:      ft,
					Tag:       reflect.StructTag(tag),
					Anonymous: true,
				})
				continue
			}
			fs = append(fs, reflect.StructField{
				Name: fmt.Sprintf("F%d", i),
				Type: ft,
				Tag:  reflect.StructTag(renderTag(tagKey, f)),
			})
		}
		return reflect.StructOf(fs), nil
	default:
		p, ok := prim[t.K]
		if !ok {
			return nil, fmt.Errorf("unknown kind %q", t.K)
		}
		return p, nil
	}
}

func fmtFloat(f float64, bits int) string {
	if math.IsNaN(f) {
		return "NaN"
	}
	if math.IsInf(f, 1) {
		return "+Inf"
	}
	if math.IsInf(f, -1) {
		return "-Inf"
	}
	// the shortest decimal that reads back as the same float: equal (as a number) to the literal the
	// value was read from whenever that literal has <= 15 (float32: <= 6) significant digits or is
	// itself such a shortest decimal (the float64 neighbours of a bound)
	return strconv.FormatFloat(f, 'e', -1, bits)
}

func dump(v reflect.Value) any {
	switch v.Kind() {
	case reflect.Bool:
		return map[string]any{"b": v.Bool()}
	case reflect.Int, reflect.Int8, reflect.Int16, reflect.Int32, reflect.Int64:
		return map[string]any{"i": strconv.FormatInt(v.Int(), 10)}
	case reflect.Uint, reflect.Uint8, reflect.Uint16, reflect.Uint32, reflect.Uint64:
		return map[string]any{"i": strconv.FormatUint(v.Uint(), 10)}
	case reflect.Float32:
		return map[string]any{"f": fmtFloat(v.Float(), 32)}
	case reflect.Float64:
		return map[string]any{"f": fmtFloat(v.Float(), 64)}
	case reflect.String:
		return map[string]any{"s": v.String()}
	case reflect.Ptr:
		if v.IsNil() {
			return map[string]any{"z": 1}
		}
		return map[string]any{"p": dump(v.Elem())}
	case reflect.Slice:
		if v.IsNil() {
			return map[string]any{"z": 1}
		}
		l := make([]any, 0, v.Len())
		for i := 0; i < v.Len(); i++ {
			l = append(l, dump(v.Index(i)))
		}
		return map[string]any{"l": l}
	case reflect.Map:
		if v.IsNil() {
			return map[string]any{"z": 1}
		}
		keys := make([]string, 0, v.Len())
		for _, k := range v.MapKeys() {
			keys = append(keys, k.String())
		}
		sort.Strings(keys)
		l := make([]any, 0, len(keys))
		for _, k := range keys {
			l = append(l, []any{k, dump(v.MapIndex(reflect.ValueOf(k)))})
		}
		return map[string]any{"m": l}
	case reflect.Struct:
		l := make([]any, 0, v.NumField())
		for i := 0; i < v.NumField(); i++ {
			l = append(l, dump(v.Field(i)))
		}
		return map[string]any{"st": l}
	default:
		return map[string]any{"unknown": v.Kind().String()}
	}
}

// aliased walks the target and reports the first pointer (or map / slice backing store) that two
// different positions share: every position of a decoded value owns what it points to.
func aliased(v reflect.Value, path string, seen map[uintptr]string) string {
	switch v.Kind() {
	case reflect.Ptr:
		if v.IsNil() {
			return ""
		}
		if v.Elem().Type().Size() > 0 {
			p := v.Pointer()
			if q, ok := seen[p]; ok {
				return q + " and " + path + " share one pointer"
			}
			seen[p] = path
		}
		return aliased(v.Elem(), path+"*", seen)
	case reflect.Slice:
		if v.IsNil() {
			return ""
		}
		if v.Len() > 0 && v.Type().Elem().Size() > 0 {
			p := v.Pointer()
			if q, ok := seen[p]; ok {
				return q + " and " + path + " share one backing array"
			}
			seen[p] = path
		}
		for i := 0; i < v.Len(); i++ {
			if a := aliased(v.Index(i), fmt.Sprintf("%s[%d]", path, i), seen); a != "" {
				return a
			}
		}
	case reflect.Map:
		if v.IsNil() {
			return ""
		}
		p := v.Pointer()
		if q, ok := seen[p]; ok {
			return q + " and " + path + " share one map"
		}
		seen[p] = path
		for _, k := range v.MapKeys() {
			if a := aliased(v.MapIndex(k), fmt.Sprintf("%s[%s]", path, k.String()), seen); a != "" {
				return a
			}
		}
	case reflect.Struct:
		for i := 0; i < v.NumField(); i++ {
			if a := aliased(v.Field(i), fmt.Sprintf("%s.%d", path, i), seen); a != "" {
				return a
			}
		}
	}
	return ""
}

func native(kind, lit string) (any, error) {
	switch kind {
	case "bool":
		return lit == "true", nil
	case "string":
		return lit, nil
	case "float32":
		f, err := strconv.ParseFloat(lit, 32)
		return float32(f), err
	case "float64":
		f, err := strconv.ParseFloat(lit, 64)
		return f, err
	}
	if strings.HasPrefix(kind, "uint") {
		bits := 64
		if len(kind) > 4 {
			bits, _ = strconv.Atoi(kind[4:])
		}
		u, err := strconv.ParseUint(lit, 10, bits)
		if err != nil {
			return nil, err
		}
		switch kind {
		case "uint":
			return uint(u), nil
		case "uint8":
			return uint8(u), nil
		case "uint16":
			return uint16(u), nil
		case "uint32":
			return uint32(u), nil
		}
		return u, nil
	}
	if strings.HasPrefix(kind, "int") {
		bits := 64
		if len(kind) > 3 {
			bits, _ = strconv.Atoi(kind[3:])
		}
		i, err := strconv.ParseInt(lit, 10, bits)
		if err != nil {
			return nil, err
		}
		switch kind {
		case "int":
			return int(i), nil
		case "int8":
			return int8(i), nil
		case "int16":
			return int16(i), nil
		case "int32":
			return int32(i), nil
		}
		return i, nil
	}
	return nil, fmt.Errorf("unknown native kind %q", kind)
}

// toAny converts a document tree to what jsonx.Unmarshal(UseNumber) would produce,
// except for "g" nodes which become native Go scalars.
func toAny(d *Doc) (any, error) {
	switch {
	case d == nil || d.Null != nil:
		return nil, nil
	case d.B != nil:
		return *d.B, nil
	case d.N != nil:
		return json.Number(*d.N), nil
	case d.S != nil:
		return *d.S, nil
	case d.G != nil:
		return native(d.G[0], d.G[1])
	case d.A != nil:
		l := make([]any, 0, len(*d.A))
		for i := range *d.A {
			x, err := toAny(&(*d.A)[i])
			if err != nil {
				return nil, err
			}
			l = append(l, x)
		}
		return l, nil
	case d.O != nil:
		m := make(map[string]any, len(*d.O))
		for i := range *d.O {
			kv := &(*d.O)[i]
			x, err := toAny(&kv.V)
			if err != nil {
				return nil, err
			}
			m[kv.K] = x
		}
		return m, nil
	}
	return nil, fmt.Errorf("empty doc node")
}

// stringMap: top-level object whose values are strings or arrays of strings.
func stringMap(d *Doc) (map[string][]string, []string, error) {
	if d == nil || d.O == nil {
		return nil, nil, fmt.Errorf("string-valued modes need an object document")
	}
	res := map[string][]string{}
	var order []string
	for _, kv := range *d.O {
		k, sub := kv.K, kv.V
		switch {
		case sub.S != nil:
			res[k] = []string{*sub.S}
		case sub.A != nil:
			var l []string
			for _, e := range *sub.A {
				if e.S == nil {
					return nil, nil, fmt.Errorf("non-string element")
				}
				l = append(l, *e.S)
			}
			res[k] = l
		default:
			return nil, nil, fmt.Errorf("non-string value for %q", k)
		}
		order = append(order, k)
	}
	return res, order, nil
}

func tagKeyOf(mode string) string {
	switch mode {
	case "json", "httpx-json", "yaml", "toml", "jsonmap", "jsonreader", "ojson", "yamlreader", "tomlbytes":
		return "json"
	case "key", "okey", "keyvaluer":
		return "key"
	case "form", "httpx-form", "dform":
		return "form"
	case "path", "httpx-path":
		return "path"
	case "header", "httpx-header":
		return "header"
	case "parse":
		return "json" // types handed to httpx.Parse carry their tags per field
	}
	return ""
}

// selfReq implements validation.Validator: httpx.Parse calls its Validate after the passes
// (types made with reflect.StructOf have no methods).  tools/props/c08.py describes the same type.
type selfReq struct {
	A int    `form:"a,range=[1:5]"`
	B string `json:"b,optional"`
	C *int8  `header:"c,optional,options=1|2"`
}

var selfCalls int

func (r *selfReq) Validate() error {
	selfCalls++
	if r.B == "bad" {
		return fmt.Errorf("self validation failed")
	}
	return nil
}

// plainValuer is a mapping.Valuer over a map (for Unmarshaler.UnmarshalValuer).
type plainValuer map[string]any

func (p plainValuer) Value(key string) (any, bool) {
	v, ok := p[key]
	return v, ok
}

// hook is the request validator installed with httpx.SetValidator.
type hook struct {
	accept bool
	called bool
	seen   any
}

func (h *hook) Validate(r *http.Request, data any) error {
	h.called = true
	h.seen = dump(reflect.ValueOf(data).Elem())
	if h.accept {
		return nil
	}
	return fmt.Errorf("rejected by the request validator")
}

func addHeaders(r *http.Request, d *Doc) error {
	sm, order, err := stringMap(d)
	if err != nil {
		return err
	}
	for _, k := range order {
		for _, v := range sm[k] {
			r.Header.Add(k, v)
		}
	}
	return nil
}

func queryOf(d *Doc, rep *Repeat) (url.Values, error) {
	sm, order, err := stringMap(d)
	if err != nil {
		return nil, err
	}
	q := url.Values{}
	for _, k := range order {
		for _, v := range sm[k] {
			q.Add(k, v)
		}
	}
	if rep != nil {
		for i := 0; i < rep.N; i++ {
			q.Add(rep.Key, rep.Val)
		}
	}
	return q, nil
}

// scribble is what a caller may do with its own struct: unmarshal an empty document into
// struct{M map[string]any `<tag>:"m"`} and store entries in the map it received.
func scribble(c Case) (out Out) {
	out.ID = c.ID
	tag := "json"
	if c.Ctype != nil {
		tag = *c.Ctype
	}
	rt := reflect.StructOf([]reflect.StructField{{
		Name: "M", Type: reflect.TypeOf(map[string]any{}), Tag: reflect.StructTag(tag + `:"m"`)}})
	target := reflect.New(rt)
	var err error
	switch tag {
	case "json":
		err = mapping.UnmarshalJsonBytes([]byte("{}"), target.Interface())
	case "key":
		err = mapping.UnmarshalKey(map[string]any{}, target.Interface())
	case "form":
		err = mapping.NewUnmarshaler("form", mapping.WithStringValues(), mapping.WithOpaqueKeys(), mapping.WithFromArray()).
			Unmarshal(map[string]any{}, target.Interface())
	default:
		err = mapping.NewUnmarshaler(tag).Unmarshal(map[string]any{}, target.Interface())
	}
	if err != nil {
		out.Verdict = "scribbled"
		out.Err = err.Error()
		return
	}
	m := target.Elem().Field(0)
	if !m.IsNil() && c.Entries != nil {
		x, err := toAny(c.Entries)
		if err != nil {
			out.Fail = "entries: " + err.Error()
			return
		}
		for k, v := range x.(map[string]any) {
			m.SetMapIndex(reflect.ValueOf(k), reflect.ValueOf(&v).Elem())
		}
	}
	out.Verdict = "scribbled"
	return
}

// seqState is what the calls of one sequence share in the executor: the storage (pointers, maps,
// slice backing arrays) owned by the targets and inputs of the earlier calls — a later target must
// not share any of it — and the targets themselves, kept alive so that no address is reused.
type seqState struct {
	seen   map[uintptr]string
	keep   []any
	step   int
	reqs   map[string]*sharedReq // by ReqID: the caller's request objects
	inputs map[string]any        // by ReqID: the caller's input maps
	raws   map[string][]byte     // by ReqID: the caller's input texts
}

// sharedReq is one request object of the caller together with a record of what the caller put into
// it, taken from a twin request that only net/http has looked at.
type sharedReq struct {
	r        *http.Request
	jsonBody bool   // the body is not a form: the caller restores it (r.Body) before every call, as a
	body     []byte // body-caching middleware does; body = the caller's bytes, bodyCopy = what they held
	bodyCopy []byte
	form     url.Values
	postForm url.Values
	multi    map[string][]string
	header   http.Header
	url      string
	vars     map[string]string
	reported string // the change reported after the last call
}

func sameValues(a, b map[string][]string) string {
	for k, va := range a {
		vb, ok := b[k]
		if !ok && len(va) > 0 {
			return fmt.Sprintf("%q is %q, the caller supplied none", k, va)
		}
		if len(va) != len(vb) {
			return fmt.Sprintf("%q is %q, the caller supplied %q", k, va, vb)
		}
		for i := range va {
			if va[i] != vb[i] {
				return fmt.Sprintf("%q is %q, the caller supplied %q", k, va, vb)
			}
		}
	}
	for k, vb := range b {
		if _, ok := a[k]; !ok && len(vb) > 0 {
			return fmt.Sprintf("%q is gone, the caller supplied %q", k, vb)
		}
	}
	return ""
}

// changed compares everything the caller handed in with what it held before go-zero looked at it.
func (sr *sharedReq) changed() string {
	r := sr.r
	if r.Form != nil {
		if d := sameValues(r.Form, sr.form); d != "" {
			return "r.Form: " + d
		}
	}
	if r.PostForm != nil {
		if d := sameValues(r.PostForm, sr.postForm); d != "" {
			return "r.PostForm: " + d
		}
	}
	if r.MultipartForm != nil {
		if d := sameValues(r.MultipartForm.Value, sr.multi); d != "" {
			return "r.MultipartForm.Value: " + d
		}
	}
	if d := sameValues(r.Header, sr.header); d != "" {
		return "r.Header: " + d
	}
	if r.URL.String() != sr.url {
		return fmt.Sprintf("r.URL is %q, was %q", r.URL.String(), sr.url)
	}
	vars := pathvar.Vars(r)
	if len(vars) != len(sr.vars) {
		return fmt.Sprintf("path variables are %q, were %q", vars, sr.vars)
	}
	for k, v := range sr.vars {
		if w, ok := vars[k]; !ok || w != v {
			return fmt.Sprintf("path variables are %q, were %q", vars, sr.vars)
		}
	}
	if !bytes.Equal(sr.body, sr.bodyCopy) {
		return "the body bytes were overwritten"
	}
	return ""
}

// sameDoc: equality of document trees; a NaN equals a NaN.
func sameDoc(a, b any) bool {
	switch x := a.(type) {
	case map[string]any:
		y, ok := b.(map[string]any)
		if !ok || len(x) != len(y) || (x == nil) != (y == nil) {
			return false
		}
		for k, e := range x {
			f, ok := y[k]
			if !ok || !sameDoc(e, f) {
				return false
			}
		}
		return true
	case []any:
		y, ok := b.([]any)
		if !ok || len(x) != len(y) || (x == nil) != (y == nil) {
			return false
		}
		for i := range x {
			if !sameDoc(x[i], y[i]) {
				return false
			}
		}
		return true
	case float64:
		y, ok := b.(float64)
		return ok && (x == y || (x != x && y != y))
	case float32:
		y, ok := b.(float32)
		return ok && (x == y || (x != x && y != y))
	}
	return reflect.DeepEqual(a, b)
}

// deepCopy copies a document tree (what toAny / stringMap produce).
func deepCopy(x any) any {
	switch v := x.(type) {
	case map[string]any:
		if v == nil {
			return v
		}
		m := make(map[string]any, len(v))
		for k, e := range v {
			m[k] = deepCopy(e)
		}
		return m
	case []any:
		if v == nil {
			return v
		}
		l := make([]any, len(v))
		for i, e := range v {
			l[i] = deepCopy(e)
		}
		return l
	case []string:
		if v == nil {
			return v
		}
		return append(make([]string, 0, len(v)), v...)
	}
	return x
}

// makeRequest builds the request of an httpx case: called once for the request go-zero gets and
// once for its twin.  It returns the body bytes when the body is not a form, and the path variables.
func makeRequest(c Case) (r *http.Request, body []byte, jsonBody bool, vars map[string]string, err error) {
	switch c.Mode {
	case "httpx-json":
		if c.Raw == nil {
			return nil, nil, false, nil, fmt.Errorf("httpx-json mode needs raw")
		}
		body = []byte(*c.Raw)
		if c.Pad > 0 && len(body) > 0 {
			padded := make([]byte, 0, len(body)+c.Pad)
			padded = append(padded, body[0])
			padded = append(padded, bytes.Repeat([]byte{' '}, c.Pad)...)
			body = append(padded, body[1:]...)
		}
		jsonBody = true
		r = httptest.NewRequest(http.MethodPost, "/x", bytes.NewReader(body))
		ct := "application/json"
		if c.Ctype != nil {
			ct = *c.Ctype
		}
		if ct != "" {
			r.Header.Set("Content-Type", ct)
		}
	case "httpx-form":
		q, err := queryOf(c.Doc, c.Repeat)
		if err != nil {
			return nil, nil, false, nil, fmt.Errorf("doc: %v", err)
		}
		r = httptest.NewRequest(http.MethodGet, "/x?"+q.Encode(), nil)
	case "httpx-path":
		sm, _, err := stringMap(c.Doc)
		if err != nil {
			return nil, nil, false, nil, fmt.Errorf("doc: %v", err)
		}
		vars = map[string]string{}
		for k, v := range sm {
			vars[k] = v[0]
		}
		r = httptest.NewRequest(http.MethodGet, "/x", nil)
	case "httpx-header":
		r = httptest.NewRequest(http.MethodGet, "/x", nil)
		if err := addHeaders(r, c.Doc); err != nil {
			return nil, nil, false, nil, fmt.Errorf("doc: %v", err)
		}
	case "parse":
		if c.Req == nil {
			return nil, nil, false, nil, fmt.Errorf("parse mode needs req")
		}
		q := url.Values{}
		if c.Req.Form != nil {
			if q, err = queryOf(c.Req.Form, nil); err != nil {
				return nil, nil, false, nil, fmt.Errorf("form: %v", err)
			}
		}
		switch {
		case c.Req.PostForm:
			target := "/x"
			if c.Req.Query != nil {
				uq, err := queryOf(c.Req.Query, nil)
				if err != nil {
					return nil, nil, false, nil, fmt.Errorf("query: %v", err)
				}
				target = "/x?" + uq.Encode()
			}
			if c.Req.Multipart {
				var buf bytes.Buffer
				mw := multipart.NewWriter(&buf)
				if err := mw.SetBoundary("verifc08boundary7d1f3a"); err != nil {
					return nil, nil, false, nil, err
				}
				sm, order, err := stringMap(c.Req.Form)
				if c.Req.Form == nil {
					sm, order, err = nil, nil, nil
				}
				if err != nil {
					return nil, nil, false, nil, fmt.Errorf("form: %v", err)
				}
				for _, k := range order {
					for _, v := range sm[k] {
						if err := mw.WriteField(k, v); err != nil {
							return nil, nil, false, nil, err
						}
					}
				}
				mw.Close()
				r = httptest.NewRequest(http.MethodPost, target, bytes.NewReader(buf.Bytes()))
				r.Header.Set("Content-Type", mw.FormDataContentType())
			} else {
				r = httptest.NewRequest(http.MethodPost, target, strings.NewReader(q.Encode()))
				r.Header.Set("Content-Type", "application/x-www-form-urlencoded")
			}
		case c.Req.Body != nil:
			body = []byte(*c.Req.Body)
			jsonBody = true
			r = httptest.NewRequest(http.MethodPost, "/x?"+q.Encode(), bytes.NewReader(body))
			ct := "application/json"
			if c.Req.Ctype != nil {
				ct = *c.Req.Ctype
			}
			if ct != "" {
				r.Header.Set("Content-Type", ct)
			}
		default:
			r = httptest.NewRequest(http.MethodGet, "/x?"+q.Encode(), nil)
		}
		if c.Req.Header != nil {
			if err := addHeaders(r, c.Req.Header); err != nil {
				return nil, nil, false, nil, fmt.Errorf("header: %v", err)
			}
		}
		if c.Req.Path != nil {
			sm, _, err := stringMap(c.Req.Path)
			if err != nil {
				return nil, nil, false, nil, fmt.Errorf("path: %v", err)
			}
			vars = map[string]string{}
			for k, v := range sm {
				vars[k] = v[0]
			}
		}
	default:
		return nil, nil, false, nil, fmt.Errorf("not a request mode: %s", c.Mode)
	}
	return r, body, jsonBody, vars, nil
}

// newSharedReq: the caller's request and the record of what it holds.
func newSharedReq(c Case) (*sharedReq, error) {
	r, body, jsonBody, vars, err := makeRequest(c)
	if err != nil {
		return nil, err
	}
	twin, _, _, _, err := makeRequest(c)
	if err != nil {
		return nil, err
	}
	sr := &sharedReq{r: r, jsonBody: jsonBody, body: body, bodyCopy: append([]byte(nil), body...)}
	// net/http alone reads the twin: this is what r.Form / r.PostForm / r.MultipartForm hold once parsed
	_ = twin.ParseMultipartForm(32 << 20)
	sr.form, sr.postForm = twin.Form, twin.PostForm
	if twin.MultipartForm != nil {
		sr.multi = twin.MultipartForm.Value
	}
	sr.header = twin.Header
	sr.url = twin.URL.String()
	if vars != nil {
		sr.vars = map[string]string{}
		for k, v := range vars {
			sr.vars[k] = v
		}
		sr.r = pathvar.WithVars(r, vars)
	}
	if c.Preparse {
		_ = sr.r.ParseMultipartForm(32 << 20)
	}
	return sr, nil
}

// junk overwrites a scalar with a value the documents never hold.
func junk(v reflect.Value) {
	if !v.CanSet() {
		return
	}
	switch v.Kind() {
	case reflect.Bool:
		v.SetBool(!v.Bool())
	case reflect.Int, reflect.Int8, reflect.Int16, reflect.Int32, reflect.Int64:
		if v.Int() == 77 {
			v.SetInt(78)
		} else {
			v.SetInt(77)
		}
	case reflect.Uint, reflect.Uint8, reflect.Uint16, reflect.Uint32, reflect.Uint64:
		if v.Uint() == 77 {
			v.SetUint(78)
		} else {
			v.SetUint(77)
		}
	case reflect.Float32, reflect.Float64:
		v.SetFloat(77.5)
	case reflect.String:
		v.SetString("scribbled")
	}
}

// mutateAll is what a caller may do with its own value: overwrite what pointers point to, the
// elements of slices (and one more within capacity), the entries of maps (and one more).
func mutateAll(v reflect.Value) {
	switch v.Kind() {
	case reflect.Ptr:
		if !v.IsNil() {
			mutateAll(v.Elem())
			junk(v.Elem())
		}
	case reflect.Slice:
		if v.IsNil() {
			return
		}
		for i := 0; i < v.Len(); i++ {
			mutateAll(v.Index(i))
			junk(v.Index(i))
		}
		if v.Cap() > v.Len() && v.CanSet() {
			n := v.Len()
			v.Set(v.Slice(0, n+1))
			junk(v.Index(n))
		}
	case reflect.Map:
		if v.IsNil() {
			return
		}
		et := v.Type().Elem()
		for _, k := range v.MapKeys() {
			e := v.MapIndex(k)
			mutateAll(e)
			switch et.Kind() {
			case reflect.Ptr, reflect.Slice, reflect.Map, reflect.Struct:
			default:
				n := reflect.New(et).Elem()
				n.Set(e)
				junk(n)
				v.SetMapIndex(k, n)
			}
		}
		v.SetMapIndex(reflect.ValueOf("scribbled-key"), reflect.Zero(et))
	case reflect.Struct:
		for i := 0; i < v.NumField(); i++ {
			mutateAll(v.Field(i))
		}
	}
}

// inputStorage registers the maps and slices of the caller's input.
func inputStorage(x any, path string, seen map[uintptr]string) {
	switch v := x.(type) {
	case map[string]any:
		seen[reflect.ValueOf(v).Pointer()] = path
		for k, e := range v {
			inputStorage(e, path+"["+k+"]", seen)
		}
	case []any:
		if len(v) > 0 {
			seen[reflect.ValueOf(v).Pointer()] = path
		}
		for i, e := range v {
			inputStorage(e, fmt.Sprintf("%s[%d]", path, i), seen)
		}
	case []string:
		if len(v) > 0 {
			seen[reflect.ValueOf(v).Pointer()] = path
		}
	}
}

// disturb runs the SAME struct type through unmarshallers with other option sets (fill-default mode,
// string values with and without opaque keys / from-array, a canonical key function) on an empty and
// on the given document; the results are not judged — what they leave behind in the process is.
func disturb(c Case) (out Out) {
	out.ID = c.ID
	out.Verdict = "scribbled"
	tag := "json"
	if c.Ctype != nil {
		tag = *c.Ctype
	}
	rt, err := build(tag, &c.Type)
	if err != nil {
		out.Fail = "build type: " + err.Error()
		return
	}
	var doc map[string]any
	if x, err := toAny(c.Doc); err == nil {
		doc, _ = x.(map[string]any)
	}
	sets := [][]mapping.UnmarshalOption{
		{mapping.WithDefault()},
		{mapping.WithStringValues()},
		{mapping.WithStringValues(), mapping.WithOpaqueKeys(), mapping.WithFromArray()},
		{mapping.WithOpaqueKeys()},
		{mapping.WithCanonicalKeyFunc(strings.ToUpper)},
		{},
	}
	for _, opts := range sets {
		for _, m := range []map[string]any{{}, doc} {
			if m == nil {
				continue
			}
			func() {
				defer func() { _ = recover() }()
				_ = mapping.NewUnmarshaler(tag, opts...).Unmarshal(m, reflect.New(rt).Interface())
			}()
		}
	}
	return
}

func runCase(c Case) (out Out) {
	return runStep(c, nil)
}

// runConc: overlapping calls, each reported like a call of its own.
func runConc(c Case) (out Out) {
	out.ID = c.ID
	out.Steps = make([]Out, len(c.Steps))
	if c.Conc.Kind == "free" {
		var wg sync.WaitGroup
		start := make(chan struct{})
		for i := range c.Steps {
			wg.Add(1)
			go func(i int) {
				defer wg.Done()
				st := c.Steps[i]
				st.ID = i
				<-start
				out.Steps[i] = runStep(st, nil)
			}(i)
		}
		close(start)
		wg.Wait()
		for i, o := range out.Steps {
			if o.Fail != "" {
				out.Fail = fmt.Sprintf("step %d: %s", i, o.Fail)
				return
			}
		}
		out.Verdict = "seq"
		return
	}
	canon := textproto.CanonicalMIMEHeaderKey
	if c.Conc.Lower {
		canon = strings.ToLower
	}
	var calls int32
	armed := int32(1) // the gate is for step 0 only: disarmed once step 0 has parked or finished
	parked := make(chan struct{})
	release := make(chan struct{})
	keyfn := func(k string) string {
		if int(atomic.AddInt32(&calls, 1)) == c.Conc.Park && atomic.LoadInt32(&armed) == 1 {
			close(parked)
			select {
			case <-release:
			case <-time.After(20 * time.Second):
			}
		}
		return canon(k)
	}
	opts := []mapping.UnmarshalOption{mapping.WithCanonicalKeyFunc(keyfn)}
	if c.Conc.StrVals {
		opts = append(opts, mapping.WithStringValues())
	}
	u := mapping.NewUnmarshaler(c.Conc.Tag, opts...)
	type job struct {
		target reflect.Value
		m      map[string]any
	}
	jobs := make([]job, len(c.Steps))
	for i := range c.Steps {
		st := &c.Steps[i]
		rt, err := build(c.Conc.Tag, &st.Type)
		if err != nil {
			out.Fail = "build type: " + err.Error()
			return
		}
		m := map[string]any{}
		if c.Conc.StrVals {
			sm, _, err := stringMap(st.Doc)
			if err != nil {
				out.Fail = "doc: " + err.Error()
				return
			}
			for k, v := range sm {
				if len(v) == 1 {
					m[canon(k)] = v[0]
				} else {
					m[canon(k)] = v
				}
			}
		} else {
			x, err := toAny(st.Doc)
			if err != nil {
				out.Fail = "doc: " + err.Error()
				return
			}
			mm, ok := x.(map[string]any)
			if !ok {
				out.Fail = "conc needs object documents"
				return
			}
			m = mm
		}
		jobs[i] = job{reflect.New(rt), m}
	}
	run := func(i int) (o Out) {
		o.ID = i
		defer func() {
			if p := recover(); p != nil {
				o.Verdict = "panic"
				o.Err = fmt.Sprint(p)
			}
		}()
		if err := u.Unmarshal(jobs[i].m, jobs[i].target.Interface()); err != nil {
			o.Verdict = "error"
			o.Err = err.Error()
			if len(o.Err) > 300 {
				o.Err = o.Err[:300]
			}
			return
		}
		o.Verdict = "ok"
		o.Val = dump(jobs[i].target.Elem())
		o.Alias = aliased(jobs[i].target.Elem(), "", map[uintptr]string{})
		return
	}
	done0 := make(chan Out, 1)
	go func() { done0 <- run(0) }()
	finished0 := false
	select {
	case <-parked:
	case o := <-done0:
		out.Steps[0] = o
		finished0 = true
	case <-time.After(20 * time.Second):
		out.Fail = "step 0 neither parked nor finished"
		return
	}
	atomic.StoreInt32(&armed, 0)
	for i := 1; i < len(c.Steps); i++ {
		di := make(chan Out, 1)
		go func(i int) { di <- run(i) }(i)
		select {
		case out.Steps[i] = <-di:
		case <-time.After(10 * time.Second):
			// the call waits for the parked one (a lock held across the key function): let it go on
			select {
			case <-release:
			default:
				close(release)
			}
			out.Steps[i] = <-di
			out.Steps[i].Tag = "blocked-behind-the-parked-call"
		}
	}
	select {
	case <-release:
	default:
		close(release)
	}
	if !finished0 {
		out.Steps[0] = <-done0
	}
	out.Verdict = "seq"
	return
}

func runStep(c Case, sq *seqState) (out Out) {
	out.ID = c.ID
	if c.Mode == "seq" {
		if c.Procs1 {
			old := runtime.GOMAXPROCS(1)
			defer runtime.GOMAXPROCS(old)
		}
		if c.Conc != nil {
			return runConc(c)
		}
		sq = &seqState{seen: map[uintptr]string{}, reqs: map[string]*sharedReq{}, inputs: map[string]any{}, raws: map[string][]byte{}}
		for i, st := range c.Steps {
			st.ID = i
			sq.step = i
			o := runStep(st, sq)
			if o.Fail != "" {
				out.Fail = fmt.Sprintf("step %d: %s", i, o.Fail)
				return
			}
			out.Steps = append(out.Steps, o)
		}
		out.Verdict = "seq"
		return
	}
	if c.Mode == "scribble" {
		return scribble(c)
	}
	if c.Mode == "disturb" {
		return disturb(c)
	}
	tagKey := tagKeyOf(c.Mode)
	if tagKey == "" {
		out.Fail = "unknown mode " + c.Mode
		return
	}
	if c.Type.K != "struct" {
		out.Fail = "top-level type must be a struct"
		return
	}
	rt, err := build(tagKey, &c.Type)
	if err != nil {
		out.Fail = "build type: " + err.Error()
		return
	}
	if len(c.Type.F) > 0 {
		out.Tag = renderTag(tagKey, c.Type.F[0])
	}
	target := reflect.New(rt)
	if c.Static == "self" {
		target = reflect.ValueOf(&selfReq{})
	} else if c.Static != "" {
		st, ok := staticTypes[c.Static]
		if !ok {
			out.Fail = "unknown static type " + c.Static
			return
		}
		target = reflect.New(st)
	}
	selfBefore := selfCalls

	var call func() error
	var input any       // the caller's own map, for the entry points that take one
	var inputBefore any // what it held before the call
	var rawIn, rawBefore []byte
	var sr *sharedReq // the caller's request
	switch c.Mode {
	case "json", "yaml", "toml", "jsonreader", "ojson", "yamlreader", "tomlbytes":
		if c.Raw == nil {
			out.Fail = c.Mode + " mode needs raw"
			return
		}
		raw := []byte(*c.Raw)
		if sq != nil && c.ReqID != "" {
			// the caller hands the same bytes in again
			if prev, ok := sq.raws[c.ReqID]; ok {
				raw = prev
			} else {
				sq.raws[c.ReqID] = raw
			}
		}
		rawIn, rawBefore = raw, append([]byte(nil), raw...)
		switch c.Mode {
		case "json":
			call = func() error { return mapping.UnmarshalJsonBytes(raw, target.Interface()) }
		case "ojson":
			// a JSON document read with opaque keys
			call = func() error { return mapping.UnmarshalJsonBytes(raw, target.Interface(), mapping.WithOpaqueKeys()) }
		case "jsonreader":
			call = func() error { return mapping.UnmarshalJsonReader(bytes.NewReader(raw), target.Interface()) }
		case "yaml":
			call = func() error { return mapping.UnmarshalYamlBytes(raw, target.Interface()) }
		case "yamlreader":
			call = func() error { return mapping.UnmarshalYamlReader(bytes.NewReader(raw), target.Interface()) }
		case "tomlbytes":
			call = func() error { return mapping.UnmarshalTomlBytes(raw, target.Interface()) }
		case "toml":
			call = func() error { return mapping.UnmarshalTomlReader(bytes.NewReader(raw), target.Interface()) }
		}
	case "key", "okey", "jsonmap", "keyvaluer":
		x, err := toAny(c.Doc)
		if err != nil {
			out.Fail = "doc: " + err.Error()
			return
		}
		m, ok := x.(map[string]any)
		if !ok {
			out.Fail = c.Mode + " mode needs an object document"
			return
		}
		if sq != nil && c.ReqID != "" {
			// the caller hands the same map in again
			if prev, ok := sq.inputs[c.ReqID]; ok {
				m = prev.(map[string]any)
			} else {
				sq.inputs[c.ReqID] = m
			}
		}
		input, inputBefore = m, deepCopy(m)
		switch c.Mode {
		case "key":
			call = func() error { return mapping.UnmarshalKey(m, target.Interface()) }
		case "okey":
			u := mapping.NewUnmarshaler("key", mapping.WithOpaqueKeys())
			call = func() error { return u.Unmarshal(m, target.Interface()) }
		case "jsonmap":
			call = func() error { return mapping.UnmarshalJsonMap(m, target.Interface()) }
		case "keyvaluer":
			u := mapping.NewUnmarshaler("key")
			call = func() error { return u.UnmarshalValuer(plainValuer(m), target.Interface()) }
		}
	case "form", "path", "header", "dform":
		sm, _, err := stringMap(c.Doc)
		if err != nil {
			out.Fail = "doc: " + err.Error()
			return
		}
		m := map[string]any{}
		var u *mapping.Unmarshaler
		switch c.Mode {
		case "form", "dform":
			// as rest/httpx: every parameter is a []string
			for k, v := range sm {
				m[k] = v
			}
			if c.Mode == "form" {
				u = mapping.NewUnmarshaler("form", mapping.WithStringValues(), mapping.WithOpaqueKeys(), mapping.WithFromArray())
			} else {
				// the same without opaque keys: dotted keys are paths
				u = mapping.NewUnmarshaler("form", mapping.WithStringValues(), mapping.WithFromArray())
			}
		case "path":
			for k, v := range sm {
				if len(v) != 1 {
					out.Fail = "path values are single strings"
					return
				}
				m[k] = v[0]
			}
			u = mapping.NewUnmarshaler("path", mapping.WithStringValues(), mapping.WithOpaqueKeys())
		case "header":
			// as rest/internal/encoding.ParseHeaders
			for k, v := range sm {
				ck := textproto.CanonicalMIMEHeaderKey(k)
				if len(v) == 1 {
					m[ck] = v[0]
				} else {
					m[ck] = v
				}
			}
			u = mapping.NewUnmarshaler("header", mapping.WithStringValues(),
				mapping.WithCanonicalKeyFunc(textproto.CanonicalMIMEHeaderKey))
		}
		if sq != nil && c.ReqID != "" {
			if prev, ok := sq.inputs[c.ReqID]; ok {
				m = prev.(map[string]any)
			} else {
				sq.inputs[c.ReqID] = m
			}
		}
		input, inputBefore = m, deepCopy(m)
		call = func() error { return u.Unmarshal(m, target.Interface()) }
	case "httpx-json", "httpx-form", "httpx-path", "httpx-header", "parse":
		if sq != nil && c.ReqID != "" {
			sr = sq.reqs[c.ReqID]
		}
		if sr == nil {
			var err error
			if sr, err = newSharedReq(c); err != nil {
				out.Fail = err.Error()
				return
			}
			if sq != nil && c.ReqID != "" {
				sq.reqs[c.ReqID] = sr
			}
		}
		if d := sr.changed(); d != "" {
			if d == sr.reported {
				out.Changed = "as an earlier call left it: " + d
			} else {
				out.Changed = "before this call, while the caller only wrote into results it had been given: " + d
			}
		}
		if sr.jsonBody {
			// a body can be read once: the caller puts its bytes back before every call
			sr.r.Body = io.NopCloser(bytes.NewReader(sr.body))
		}
		r := sr.r
		call = func() error { return httpx.Parse(r, target.Interface()) }
		entry := c.Entry
		if c.Direct {
			entry = map[string]string{"httpx-json": "ParseJsonBody", "httpx-form": "ParseForm", "httpx-path": "ParsePath",
				"httpx-header": "ParseHeaders"}[c.Mode]
		}
		switch entry {
		case "", "Parse":
		case "ParseJsonBody":
			call = func() error { return httpx.ParseJsonBody(r, target.Interface()) }
		case "ParseForm":
			call = func() error { return httpx.ParseForm(r, target.Interface()) }
		case "ParsePath":
			call = func() error { return httpx.ParsePath(r, target.Interface()) }
		case "ParseHeaders":
			call = func() error { return httpx.ParseHeaders(r, target.Interface()) }
		case "GetFormValues":
			// the parameter map as a caller of its own gets it, handed to an unmarshaller built like httpx's
			call = func() error {
				params, err := httpx.GetFormValues(r)
				if err != nil {
					return err
				}
				input = params
				return mapping.NewUnmarshaler("form", mapping.WithStringValues(), mapping.WithOpaqueKeys(),
					mapping.WithFromArray()).Unmarshal(params, target.Interface())
			}
		default:
			out.Fail = "unknown entry " + entry
			return
		}
	}

	var h *hook
	if c.Validator != nil {
		h = &hook{accept: *c.Validator == "accept"}
		httpx.SetValidator(h)
		defer httpx.SetValidator(nil)
	}
	func() {
		defer func() {
			if p := recover(); p != nil {
				out.Verdict = "panic"
				out.Err = fmt.Sprint(p)
			}
		}()
		if err := call(); err != nil {
			out.Verdict = "error"
			out.Err = err.Error()
			return
		}
		out.Verdict = "ok"
		out.Val = dump(target.Elem())
		seen := map[uintptr]string{}
		prefix := ""
		if sq != nil {
			seen = sq.seen
			prefix = fmt.Sprintf("call%d", sq.step)
			sq.keep = append(sq.keep, target.Interface(), input)
		}
		inputStorage(input, prefix+"-input", seen)
		if sr != nil {
			for name, vs := range map[string]map[string][]string{"r.Form": sr.r.Form, "r.PostForm": sr.r.PostForm, "r.Header": sr.r.Header} {
				for k, v := range vs {
					if len(v) > 0 {
						seen[reflect.ValueOf(v).Pointer()] = fmt.Sprintf("%s-%s[%s]", prefix, name, k)
					}
				}
			}
		}
		out.Alias = aliased(target.Elem(), prefix, seen)
	}()
	// what the caller handed in must hold what it held before the call, whatever the verdict
	if sr != nil && out.Changed == "" {
		out.Changed = sr.changed()
		sr.reported = out.Changed
	}
	if inputBefore != nil && out.Changed == "" && !sameDoc(input, inputBefore) {
		out.Changed = fmt.Sprintf("the input map is %v, was %v", input, inputBefore)
	}
	if rawIn != nil && out.Changed == "" && !bytes.Equal(rawIn, rawBefore) {
		out.Changed = "the input text was overwritten"
	}
	if len(out.Changed) > 300 {
		out.Changed = out.Changed[:300]
	}
	if c.Mutate && out.Verdict == "ok" {
		// the caller uses what it got: its target, and the parameter map GetFormValues returned to it
		mutateAll(target.Elem())
		if c.Entry == "GetFormValues" {
			if params, ok := input.(map[string]any); ok {
				for k, v := range params {
					if vs, ok := v.([]string); ok {
						for i := range vs {
							vs[i] = "scribbled"
						}
						if cap(vs) > len(vs) {
							vs = vs[:len(vs)+1]
							vs[len(vs)-1] = "scribbled"
							params[k] = vs
						}
					}
				}
				params["scribbled-key"] = []string{"1"}
			}
		}
	}
	if c.Static == "self" {
		out.Called = selfCalls > selfBefore
	}
	if h != nil {
		out.Called = h.called
		if h.called && out.Verdict == "ok" && !reflect.DeepEqual(h.seen, out.Val) {
			out.Verdict = "error"
			out.Err = "the validator saw a target different from the one returned"
		}
	}
	if len(out.Err) > 300 {
		out.Err = out.Err[:300]
	}
	return
}

func main() {
	var cases []Case
	hx.ReadCases(&cases)
	w := hx.NewWriter()
	defer w.Close()
	for _, c := range cases {
		w.Put(runCase(c))
	}
}
