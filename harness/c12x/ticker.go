package c12x

import (
	"sort"
	"strings"
	"sync"
	"time"

	"github.com/zeromicro/go-zero/core/timex"
	"verifh/hx"
)

// Kind "ticker": core/timex/ticker.go itself.  The wheel receives its ticks from a
// timex.Ticker and the executor above drives wheels with timex.NewFakeTicker, so the
// ticker is part of the glue between "a tick" in the property text and onTick in the code.
//
// Fake ticker: every operation of the case (Tick, a receive from Chan(), Stop, Done, Wait)
// is started on a goroutine of its own; the executor then waits until every started
// operation has either returned or is parked in a channel operation, and reports which
// operations completed during the step and how.  A received stamp is identified with the
// Tick that produced it (Tick evaluates time.Now() before it may block, and the steps are
// sequential, so the stamps of different Ticks lie in disjoint, ordered time windows).
//
// outcome codes: 0 returned, 3 panicked, 4 receive on the closed channel, 5 Wait -> nil,
// 6 Wait -> timeout, 100+j received the tick of operation j, 99 received a value that no
// Tick of the case produced.

type TickerDone struct {
	Op  int `json:"op"`
	Out int `json:"out"`
}

type tickRes struct {
	op    int
	out   int
	stamp time.Time
	got   bool
}

//go:noinline
func tickerOp(op int, f func() (int, time.Time, bool), res chan<- tickRes) {
	r := tickRes{op: op}
	func() {
		defer func() {
			if recover() != nil {
				r.out = 3
			}
		}()
		r.out, r.stamp, r.got = f()
	}()
	res <- r
}

func tickerParked() int {
	n := 0
	for _, g := range hx.Stacks() {
		if strings.Contains(g, "c12x.tickerOp(") && hx.Blocked(g) && !strings.Contains(g, "(*fakeTicker).Wait(") {
			n++
		}
	}
	return n
}

const waitFor = 150 * time.Millisecond

func runTickerCase(c Case) Out {
	out := Out{ID: c.ID}
	if c.RealUs > 0 {
		return runRealTicker(c)
	}
	ft := timex.NewFakeTicker()
	res := make(chan tickRes, len(c.Ops)+1)
	type window struct{ from, to time.Time }
	win := map[int]*window{}
	received := map[int]bool{}
	launched, completed := 0, 0
	for j, op := range c.Ops {
		var f func() (int, time.Time, bool)
		kind := op[0].(string)
		switch kind {
		case "tick":
			win[j] = &window{from: time.Now()}
			f = func() (int, time.Time, bool) { ft.Tick(); return 0, time.Time{}, false }
		case "recv":
			f = func() (int, time.Time, bool) {
				t, ok := <-ft.Chan()
				if !ok {
					return 4, t, false
				}
				return 0, t, true
			}
		case "stop":
			f = func() (int, time.Time, bool) { ft.Stop(); return 0, time.Time{}, false }
		case "done":
			f = func() (int, time.Time, bool) { ft.Done(); return 0, time.Time{}, false }
		case "wait":
			f = func() (int, time.Time, bool) {
				if ft.Wait(waitFor) == nil {
					return 5, time.Time{}, false
				}
				return 6, time.Time{}, false
			}
		default:
			out.Err = "ticker: unknown operation " + kind
			return out
		}
		go tickerOp(j, f, res)
		launched++
		var got []tickRes
		deadline := time.Now().Add(30 * time.Second)
		seen := false // a Wait must have returned before the step ends
		for {
			drained := false
			for !drained {
				select {
				case r := <-res:
					got = append(got, r)
					completed++
					if r.op == j {
						seen = true
					}
				default:
					drained = true
				}
			}
			if (kind != "wait" || seen) && completed+tickerParked() == launched && len(res) == 0 {
				break
			}
			if time.Now().After(deadline) {
				out.Err = "ticker: operations neither returned nor parked"
				return out
			}
			time.Sleep(50 * time.Microsecond)
		}
		if w := win[j]; w != nil {
			w.to = time.Now()
		}
		st := Step{F: [][2]int64{}}
		for _, r := range got {
			o := r.out
			if r.got {
				// the earliest Tick not received yet whose window contains the stamp
				o = 99
				for tj := 0; tj <= j; tj++ {
					w := win[tj]
					if w == nil || received[tj] {
						continue
					}
					if !r.stamp.Before(w.from) && (w.to.IsZero() || !r.stamp.After(w.to)) {
						o = 100 + tj
						received[tj] = true
						break
					}
				}
			}
			st.D = append(st.D, TickerDone{Op: r.op, Out: o})
		}
		sort.Slice(st.D, func(a, b int) bool { return st.D[a].Op < st.D[b].Op })
		out.Obs = append(out.Obs, st)
	}
	// let the goroutines still parked go: Stop (if not stopped yet) frees blocked receivers and makes
	// blocked Ticks panic; a blocked Done needs a Wait
	func() {
		defer func() { recover() }()
		ft.Stop()
	}()
	for deadline := time.Now().Add(20 * time.Second); completed < launched && time.Now().Before(deadline); {
		select {
		case <-res:
			completed++
		case <-time.After(5 * time.Millisecond):
			ft.Wait(time.Millisecond)
		}
	}
	return out
}

// a real timex.NewTicker: ticks arrive with increasing stamps; after Stop at most the one
// buffered tick is still delivered; a second Stop is harmless
func runRealTicker(c Case) Out {
	out := Out{ID: c.ID}
	period := time.Duration(c.RealUs) * time.Microsecond
	start := time.Now()
	tk := timex.NewTicker(period)
	incr := true
	last := start
	got := 0
	for got < 3 {
		select {
		case t := <-tk.Chan():
			if !t.After(last) {
				incr = false
			}
			last = t
			got++
		case <-time.After(30 * time.Second):
			out.Err = "real ticker: no tick within 30 s"
			return out
		}
	}
	panicked := false
	var mu sync.Mutex
	func() {
		defer func() {
			if recover() != nil {
				mu.Lock()
				panicked = true
				mu.Unlock()
			}
		}()
		tk.Stop()
		tk.Stop()
	}()
	after := 0
	quiet := 20 * period
	if quiet < 20*time.Millisecond {
		quiet = 20 * time.Millisecond
	}
	end := time.After(quiet)
loop:
	for {
		select {
		case <-tk.Chan():
			after++
		case <-end:
			break loop
		}
	}
	b := func(x bool) int {
		if x {
			return 1
		}
		return 0
	}
	out.Obs = []Step{{F: [][2]int64{}, D: []TickerDone{{Op: got, Out: b(incr)}, {Op: after, Out: b(panicked)}}}}
	return out
}
