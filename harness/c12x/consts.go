package c12x

import (
	"encoding/json"
	"errors"
	"fmt"
	"os"
	"time"

	"github.com/zeromicro/go-zero/core/collection"
	"github.com/zeromicro/go-zero/core/logx"
	rcache "github.com/zeromicro/go-zero/core/stores/cache"
	"verifh/hx"
)

// Consts are read off the RUNNING code, not off its text: the parameters of the wheels that
// collection.NewCache and the cache cleaner build (read from the wheels themselves by the
// relay overlay) and the cleaner's retry schedule, observed by letting a clean task fail
// for ever on a relayed wheel: the delays of the SetTimer requests the cleaner makes for it,
// until it gives up.  A rewrite of cleaner.go / cache.go that keeps the behaviour keeps
// these values, whatever it does to names, literals and control flow.
type Consts struct {
	CacheSlots      int     `json:"cache_slots"`
	CacheInterval   int64   `json:"cache_interval"`
	CleanerSlots    int     `json:"cleaner_slots"`
	CleanerInterval int64   `json:"cleaner_interval"`
	Schedule        []int64 `json:"cleaner_schedule"`
	// fix 1b06186: Drain delivers off the wheel goroutine - after a Drain of 9 timers whose callbacks
	// all call back into the wheel, the wheel still takes a call from another goroutine
	DrainOffLoop bool `json:"drain_off_loop"`
}

// drainOffLoop observes it on the running code (10 slots, 9 timers, re-entrant drain callbacks).
func drainOffLoop() bool {
	tk := &rticker{c: make(chan time.Time)}
	tw, err := collection.NewTimingWheelWithTicker(time.Second, 10, func(k, v any) {}, tk)
	if err != nil {
		return false
	}
	defer tw.Stop()
	for i := 0; i < 9; i++ {
		tw.SetTimer(int64(i), int64(i), 3*time.Second)
	}
	tw.Drain(func(k, v any) { tw.SetTimer(k, v, 5*time.Second) })
	done := make(chan struct{})
	go func() { tw.SetTimer("later", int64(1), time.Second); close(done) }()
	select {
	case <-done:
		return true
	case <-time.After(5 * time.Second):
		return false
	}
}

func ReadConsts() (Consts, error) {
	var k Consts
	k.DrainOffLoop = drainOffLoop()
	ci, err := newCacheInst(60000, 0)
	if err != nil {
		return k, err
	}
	k.CacheSlots, k.CacheInterval = ci.tap.NumSlots, int64(ci.tap.Interval)
	ci.tap.Stop()

	rec := &recorder{keyOf: func(any) (int64, bool) { return 0, true }, valOf: intVal}
	tk := &rticker{c: make(chan time.Time)}
	n, interval, stop, err := rcache.VerifC12CleanerWheel(tk, rec)
	if err != nil {
		return k, err
	}
	defer stop()
	k.CleanerSlots, k.CleanerInterval = n, int64(interval)
	rcache.AddCleanTask(func() error { return errFetch }, "key")
	idle := 0
	for ticks := 0; ticks < 2000000 && len(k.Schedule) < 64; ticks++ {
		if !hx.Quiesce(busy, 30*time.Second) {
			return k, errors.New("cleaner did not quiesce")
		}
		sets := 0
		for _, op := range rec.takeOps() {
			if op[0].(string) == "set" {
				k.Schedule = append(k.Schedule, op[3].(int64))
				sets++
			}
		}
		fired := len(rec.fs.take())
		if fired > 0 && sets == 0 {
			return k, nil // the task ran and was not re-armed: the cleaner gave up
		}
		if sets > 0 {
			idle = 0
		} else if idle++; int64(idle) > 400*int64(n) {
			return k, errors.New("no callback within 400 revolutions")
		}
		tk.c <- time.Now()
	}
	return k, errors.New("the cleaner's retry schedule does not end")
}

func ConstsMain() {
	logx.Disable()
	_ = collection.ErrClosed
	k, err := ReadConsts()
	if err != nil {
		fmt.Fprintln(os.Stderr, "c12consts:", err)
		os.Exit(1)
	}
	json.NewEncoder(os.Stdout).Encode(k)
}
