package c12x

import (
	"runtime"
	"strings"
	"sync"
	"sync/atomic"
	"time"

	"github.com/zeromicro/go-zero/core/collection"
	"verifh/hx"
)

// Free-running monitor (thorough tier, built with -race): several goroutines call
// SetTimer / MoveTimer / RemoveTimer concurrently while another one delivers ticks.
// Every call and every tick is stamped with a global counter before it starts and
// after it returns; the tick goroutine waits, after each tick, until the callbacks of
// that tick have run (the calling goroutines keep running meanwhile), so every callback
// is attributed to exactly one tick.  Whether the observed callbacks are those of SOME
// order of the calls consistent with the stamps is decided in Coq (Lin.v).

type FreeOp struct {
	S int64      `json:"s"`
	E int64      `json:"e"`
	R int        `json:"r"`
	F [][2]int64 `json:"f,omitempty"` // Drain: the callbacks of this very Drain
}

type FreeTick struct {
	S int64      `json:"s"`
	E int64      `json:"e"`
	F [][2]int64 `json:"f"`
}

type FreeOut struct {
	Threads [][]FreeOp `json:"threads"`
	Ticks   []FreeTick `json:"ticks"`
}

// callbacks of the wheel run on goroutines started by runTasks / GoSafe / the drain runner
func cbBusy(stack string) bool {
	if strings.Contains(stack, "hx.Stacks(") {
		return false
	}
	if strings.Contains(stack, "(*TimingWheel).runTasks") || strings.Contains(stack, "go-zero/core/threading") {
		return true
	}
	// any other goroutine of the wheel itself (a refactoring may deliver callbacks from a long-lived
	// worker): busy unless it is a caller inside the public API, the run loop, or parked waiting for work
	if !strings.Contains(stack, "collection.(*TimingWheel).") || strings.Contains(stack, "collection.(*TimingWheel).run(") {
		return false
	}
	for _, l := range strings.Split(stack, "\n") {
		if apiFrame(l) {
			return false
		}
	}
	return busy(stack)
}

func pause(us int64) {
	switch {
	case us <= 0:
	case us == 1:
		runtime.Gosched()
	default:
		time.Sleep(time.Duration(us) * time.Microsecond)
	}
}

// free: the stamp of the t-th tick (Stamps is cycled through; empty = time.Now())
func (c Case) stampOf(t int64) []any {
	if len(c.Stamps) == 0 {
		return nil
	}
	return c.Stamps[int(t-1)%len(c.Stamps)]
}

func runFree(c Case) Out {
	out := Out{ID: c.ID}
	var clock, curTick atomic.Int64
	var mu sync.Mutex
	perTick := map[int64][][2]int64{}
	record := func(k, v any) {
		t := curTick.Load()
		mu.Lock()
		perTick[t] = append(perTick[t], [2]int64{k.(int64), v.(int64)})
		mu.Unlock()
	}
	tk := &rticker{c: make(chan time.Time)}
	st := newStamper()
	tw, err := collection.NewTimingWheelWithTicker(time.Duration(c.Interval), c.N, record, tk)
	if err != nil {
		out.Err = err.Error()
		return out
	}
	var stopped atomic.Bool
	defer func() {
		if !stopped.Load() {
			tw.Stop()
		}
	}()
	res := &FreeOut{Threads: make([][]FreeOp, len(c.Threads))}
	var wg sync.WaitGroup
	start := make(chan struct{})
	stopCh := make(chan struct{}) // closed once Stop has returned: ticks are no longer forced on the wheel
	type drainRec struct {
		ti, oi int
		mu     sync.Mutex
		f      [][2]int64
	}
	var dmu sync.Mutex
	var drains []*drainRec
	for ti, script := range c.Threads {
		wg.Add(1)
		go func(ti int, script [][]any) {
			defer wg.Done()
			<-start
			log := make([]FreeOp, 0, len(script))
			for _, op := range script {
				var err error
				s := clock.Add(1)
				switch op[0].(string) {
				case "set":
					err = tw.SetTimer(num(op[1]), num(op[2]), time.Duration(num(op[3])))
				case "move":
					err = tw.MoveTimer(num(op[1]), time.Duration(num(op[2])))
				case "remove":
					err = tw.RemoveTimer(num(op[1]))
				case "drain":
					dr := &drainRec{ti: ti, oi: len(log)}
					dmu.Lock()
					drains = append(drains, dr)
					dmu.Unlock()
					err = tw.Drain(func(k, v any) {
						dr.mu.Lock()
						dr.f = append(dr.f, [2]int64{k.(int64), v.(int64)})
						dr.mu.Unlock()
					})
				case "stop":
					tw.Stop()
					stopped.Store(true)
					close(stopCh)
				}
				e := clock.Add(1)
				log = append(log, FreeOp{S: s, E: e, R: errClass(err)})
				pause(num(op[len(op)-1]))
			}
			res.Threads[ti] = log
		}(ti, script)
	}
	close(start)
	for t := int64(1); t <= int64(c.Ticks); t++ {
		pause(c.TickPauseUs)
		curTick.Store(t)
		s := clock.Add(1)
		taken := true
		select {
		case tk.c <- st.stamp(c.stampOf(t)):
		case <-stopCh:
			taken = false // Stop has returned; the loop may be gone: this tick did not happen
		}
		e := clock.Add(1)
		if !taken {
			res.Ticks = append(res.Ticks, FreeTick{S: -1})
			continue
		}
		// the loop has taken the tick; once it takes this no-op the slot has been scanned
		// and the goroutine running this tick's callbacks has been started
		tw.RemoveTimer(sentinel)
		if !hx.Quiesce(cbBusy, 30*time.Second) {
			out.Stuck = "callbacks did not quiesce"
			return out
		}
		res.Ticks = append(res.Ticks, FreeTick{S: s, E: e})
	}
	wg.Wait()
	if !hx.Quiesce(cbBusy, 30*time.Second) {
		out.Stuck = "callbacks did not quiesce"
		return out
	}
	mu.Lock()
	kept := res.Ticks[:0]
	for i := range res.Ticks {
		if res.Ticks[i].S < 0 {
			continue // not received
		}
		f := perTick[int64(i+1)]
		if f == nil {
			f = [][2]int64{}
		}
		res.Ticks[i].F = f
		kept = append(kept, res.Ticks[i])
	}
	res.Ticks = kept
	mu.Unlock()
	for _, dr := range drains {
		dr.mu.Lock()
		f := dr.f
		if f == nil {
			f = [][2]int64{}
		}
		res.Threads[dr.ti][dr.oi].F = f
		dr.mu.Unlock()
	}
	out.Free = res
	return out
}
