// Executor for C12.  Kinds of cases:
//
//	wheel  : drives collection.TimingWheel through its public API (SetTimer, MoveTimer,
//	         RemoveTimer, Drain, Stop) with a rendezvous ticker or timex.NewFakeTicker and
//	         reports, per operation, the returned error class and the (key,value)
//	         callbacks that ran.  Callbacks may panic (value % 1000 == 999).
//	new    : collection.NewTimingWheel argument validation.
//	cache  : drives collection.Cache (with and without WithLimit) and reports, per cache
//	         operation, what its timing wheel was asked to do (requests in the order in
//	         which the wheel received them, with the delays actually passed), which
//	         callbacks the wheel ran, and the keys held by the cache afterwards; ends
//	         with a Drain of the wheel.  The wheel is observed through the relay of
//	         harness/overlay/collection/zz_verif_c12.go.
//	cleaner: drives the cache cleaner (core/stores/cache AddCleanTask, retry schedule)
//	         on a relayed wheel.
package c12x

import (
	"encoding/json"
	"errors"
	"fmt"
	"os"
	"sort"
	"strconv"
	"strings"
	"sync"
	"time"

	"github.com/zeromicro/go-zero/core/collection"
	"github.com/zeromicro/go-zero/core/logx"
	rcache "github.com/zeromicro/go-zero/core/stores/cache"
	"github.com/zeromicro/go-zero/core/timex"
	"verifh/hx"
)

type Case struct {
	ID       int     `json:"id"`
	Kind     string  `json:"kind"`
	N        int     `json:"n"`
	Interval int64   `json:"interval"`
	Ticker   string  `json:"ticker"`
	Exec     bool    `json:"exec"`
	Limit    int     `json:"limit"`
	ExpireMs int64   `json:"expire_ms"`
	Ops      [][]any `json:"ops"`
	// wheel: values whose execute callback blocks until ["release", value] (gated delivery)
	Hold []int64 `json:"hold"`
	// wheel: value -> the call the execute callback makes into the wheel when it runs with that value
	React map[string][]any `json:"react"`
	// wheel: string and int64 keys with the same digits; a second wheel alongside
	SKeys     bool   `json:"skeys"`
	N2        int    `json:"n2"`
	Interval2 int64  `json:"interval2"`
	Ticker2   string `json:"ticker2"`
	// cache: a second cache alongside, with its own limit
	Two    bool `json:"two"`
	Limit2 int  `json:"limit2"`
	// free: one script per goroutine (last element of an op = pause afterwards, in us), ticks
	// ticker: the ticker object under test is a real timex.NewTicker (period in us) instead of a FakeTicker
	RealUs      int64     `json:"real_us"`
	Threads     [][][]any `json:"threads"`
	Ticks       int       `json:"ticks"`
	TickPauseUs int64     `json:"tick_pause_us"`
	Stamps      [][]any   `json:"stamps"` // free: ["tick", mode, off] per tick, cycled
}

// one entry per operation of the case
type Step struct {
	F     [][2]int64   `json:"f"`               // callbacks (key, value), sorted
	R     int          `json:"r"`               // 0 nil, 1 ErrArgument, 2 ErrClosed / tick not taken, 3 panic
	T     [][]any      `json:"t,omitempty"`     // cache/cleaner: wheel requests [kind, key, value, delay]
	Keys  []int64      `json:"keys,omitempty"`  // cache: keys of c.data afterwards
	Ret   []any        `json:"ret,omitempty"`   // cache: Get -> [v|null]; Take -> [v|null, loaderCalled]
	C     [][2]int64   `json:"c,omitempty"`     // cleaner: task invocations (task id, how many-th call)
	X     [][2]int64   `json:"x,omitempty"`     // two wheels / caches: callbacks of the OTHER one during this operation
	XT    [][]any      `json:"xt,omitempty"`    // two caches: requests received by the OTHER cache's wheel
	XKeys []int64      `json:"xkeys,omitempty"` // two caches: keys of the OTHER cache afterwards
	E     [][]any      `json:"e,omitempty"`     // wheel: the calls made by callbacks during this operation, in order
	D     []TickerDone `json:"d,omitempty"`     // ticker: the operations that completed during this step, and how
}

type Out struct {
	ID       int      `json:"id"`
	Obs      []Step   `json:"obs"`
	N        int      `json:"n,omitempty"`        // cache/cleaner: numSlots of the client's wheel
	Interval int64    `json:"interval,omitempty"` // cache/cleaner: its interval (ns)
	Accepted bool     `json:"accepted"`           // new
	Free     *FreeOut `json:"free,omitempty"`     // free
	Err      string   `json:"err,omitempty"`
	// the history could not be completed: a call into the wheel did not return (its loop is blocked) or
	// the callbacks never came to rest; Obs holds the operations completed before.  The process exits
	// after reporting it (its goroutines are in an unknown state).
	Stuck string `json:"stuck,omitempty"`
}

type rticker struct{ c chan time.Time }

func (t *rticker) Chan() <-chan time.Time { return t.c }
func (t *rticker) Stop()                  {}

// The VALUE carried by a tick is chosen by the case: ["tick"] = time.Now(), ["tick", mode, off]:
//
//	"z" the zero time.Time          "b" t0 + off ns (monotonic reading kept; off may be negative)
//	"w" t0 + off, wall clock only   "u" time.Unix(0, off) (the epoch, the far future)
//	"n" time.Now()
//
// t0 is taken just before the wheel is built.  The wheel must not look at it.
type stamper struct{ t0 time.Time }

func newStamper() *stamper { return &stamper{t0: time.Now()} }

func (b *stamper) stamp(op []any) time.Time {
	if len(op) < 3 {
		return time.Now()
	}
	off := time.Duration(num(op[2]))
	switch op[1].(string) {
	case "z":
		return time.Time{}
	case "b":
		return b.t0.Add(off)
	case "w":
		return b.t0.Round(0).Add(off)
	case "u":
		return time.Unix(0, int64(off))
	}
	return time.Now()
}

// a real timex.NewTicker whose ticks the executor lets through one at a time: the stamps are
// those of the runtime's ticker (stale when the executor was slow: time.Ticker keeps one tick
// buffered and drops the rest)
type gatedReal struct {
	inner timex.Ticker
	c     chan time.Time
}

func (g *gatedReal) Chan() <-chan time.Time { return g.c }
func (g *gatedReal) Stop()                  { g.inner.Stop() }
func (g *gatedReal) forward()               { g.c <- <-g.inner.Chan() }

const sentinel = int64(-424242)

// A goroutine is busy when it runs (or is about to run) code of the wheel, of a wheel
// callback or of a wheel client, except: event loops parked in their select, the
// cache's statistics loop, and the goroutine taking the dump.  A send on one of the
// wheel's unbuffered channels returns only after the loop has taken the value, and a
// goroutine that has been handed a value is no longer reported as waiting in select,
// so polling after an operation returned cannot miss work in progress.
func busy(stack string) bool {
	if strings.Contains(stack, "hx.Stacks(") {
		return false
	}
	// a callback held open by the controller is at rest as long as it is parked on its
	// gate (closing the gate makes it runnable before release() returns)
	if strings.Contains(stack, "c12x.(*gates).wait(") {
		head := stack
		if nl := strings.IndexByte(stack, '\n'); nl >= 0 {
			head = stack[:nl]
		}
		return !strings.Contains(head, "[chan receive")
	}
	if !strings.Contains(stack, "go-zero/core/collection") &&
		!strings.Contains(stack, "go-zero/core/threading") &&
		!strings.Contains(stack, "go-zero/core/stores/cache") {
		return false
	}
	if strings.Contains(stack, "(*cacheStat).statLoop") {
		return false
	}
	lines := strings.SplitN(stack, "\n", 3)
	if len(lines) >= 2 && strings.Contains(lines[0], "[select") &&
		(strings.Contains(lines[1], "collection.(*TimingWheel).run(") ||
			strings.Contains(lines[1], "collection.verifC12RelayLoop(")) {
		return false
	}
	// a helper goroutine of the wheel itself (not the public API, not a callback, not the drain
	// runner) parked waiting for work - a refactoring may add long-lived workers - is at rest
	if len(lines) >= 2 && (strings.Contains(lines[0], "[chan receive") || strings.Contains(lines[0], "[select")) &&
		strings.Contains(lines[1], "collection.(*TimingWheel).") && !apiFrame(lines[1]) &&
		!strings.Contains(stack, "verifh/c12x.") && !strings.Contains(stack, "go-zero/core/threading") &&
		!strings.Contains(stack, "collection.(*TimingWheel).run(") {
		return false
	}
	return true
}

func apiFrame(l string) bool {
	for _, m := range []string{"SetTimer(", "MoveTimer(", "RemoveTimer(", "Drain(", "Stop("} {
		if strings.Contains(l, "collection.(*TimingWheel)."+m) {
			return true
		}
	}
	return false
}

// the run loop of some wheel is parked in a blocking operation inside one of its handlers
// (not in the select of run itself): requests can no longer be received
func loopStuck() bool {
	for _, g := range hx.Stacks() {
		if !strings.Contains(g, "collection.(*TimingWheel).run(") || !hx.Blocked(g) {
			continue
		}
		lines := strings.SplitN(g, "\n", 3)
		if len(lines) >= 2 && !strings.Contains(lines[1], "collection.(*TimingWheel).run(") {
			return true
		}
	}
	return false
}

// guarded runs one operation of a case; if it does not return (the wheel's loop no longer
// takes requests) it says so instead of hanging the run
func guarded(op []any, f func()) string {
	done := make(chan struct{})
	go func() { f(); close(done) }()
	began := time.Now()
	for {
		select {
		case <-done:
			return ""
		case <-time.After(500 * time.Millisecond):
			// the call waits for the loop: is the loop itself parked somewhere other than its select?
			if el := time.Since(began); el > 20*time.Second || (el > 3*time.Second && loopStuck()) {
				return fmt.Sprintf("%v did not return within %v: the wheel's loop is blocked", op, el.Round(time.Second))
			}
		}
	}
}

func num(v any) int64 { return int64(v.(float64)) }

func errClass(err error) int {
	switch {
	case err == nil:
		return 0
	case errors.Is(err, collection.ErrArgument):
		return 1
	case errors.Is(err, collection.ErrClosed):
		return 2
	}
	return 9
}

type fires struct {
	mu  sync.Mutex
	cur [][2]int64
}

func (f *fires) add(k, v int64) {
	f.mu.Lock()
	f.cur = append(f.cur, [2]int64{k, v})
	f.mu.Unlock()
}

func (f *fires) take() [][2]int64 {
	f.mu.Lock()
	r := f.cur
	f.cur = nil
	f.mu.Unlock()
	sort.Slice(r, func(i, j int) bool {
		if r[i][0] != r[j][0] {
			return r[i][0] < r[j][0]
		}
		return r[i][1] < r[j][1]
	})
	if r == nil {
		r = [][2]int64{}
	}
	return r
}

// ---- gates: execute callbacks the controller holds open across further operations -------

type gates struct {
	mu   sync.Mutex
	hold map[int64]bool
	ch   map[int64]chan struct{}
}

func newGates(hold []int64) *gates {
	g := &gates{hold: map[int64]bool{}, ch: map[int64]chan struct{}{}}
	for _, v := range hold {
		g.hold[v] = true
		g.ch[v] = make(chan struct{})
	}
	return g
}

// wait blocks the calling callback until the value is released (at once if it is not held)
func (g *gates) wait(v int64) {
	g.mu.Lock()
	c := g.ch[v]
	g.mu.Unlock()
	if c != nil {
		<-c
	}
}

func (g *gates) release(v int64) {
	g.mu.Lock()
	if c := g.ch[v]; c != nil {
		close(c)
		delete(g.ch, v)
	}
	g.mu.Unlock()
}

func (g *gates) releaseAll() {
	g.mu.Lock()
	for v, c := range g.ch {
		close(c)
		delete(g.ch, v)
	}
	g.mu.Unlock()
}

// ---- the wheel through its public API ------------------------------------------------

// one wheel driven through its public API
type wheelInst struct {
	tw      *collection.TimingWheel
	rv      *rticker
	fk      timex.FakeTicker
	gr      *gatedReal
	st      *stamper
	fs      fires
	gt      *gates
	stopped bool
	skeys   bool
	react   map[string][]any
	rmu     sync.Mutex
	dmu     sync.Mutex
	reacted [][]any
}

const nilValue = int64(-777)

// with skeys, odd keys k are passed as the string of k-1 and even keys as int64: the wheel
// must keep int64(2) and "2" apart
func (w *wheelInst) key(v any) any {
	if v == nil {
		return nil
	}
	k := num(v)
	if w.skeys && k%2 != 0 {
		return strconv.FormatInt(k-1, 10)
	}
	return k
}

func (w *wheelInst) unkey(k any) int64 {
	switch x := k.(type) {
	case int64:
		return x
	case string:
		n, _ := strconv.ParseInt(x, 10, 64)
		return n + 1
	}
	return -1
}

func unval(v any) int64 {
	if v == nil {
		return nilValue
	}
	return v.(int64)
}

func val(v any) any {
	if v == nil {
		return nil
	}
	return num(v)
}

func newWheelInst(n int, interval int64, ticker string, hold []int64, skeys bool, react map[string][]any) (*wheelInst, error) {
	w := &wheelInst{gt: newGates(hold), skeys: skeys, react: react, st: newStamper()}
	var tk timex.Ticker
	switch ticker {
	case "fake":
		w.fk = timex.NewFakeTicker()
		tk = w.fk
	case "buf": // like the FakeTicker (one tick buffered), with stamps of the case's choosing
		w.rv = &rticker{c: make(chan time.Time, 1)}
		tk = w.rv
	case "real": // ticks of a real timex.NewTicker (period 200us, unrelated to the wheel's interval), gated
		w.gr = &gatedReal{inner: timex.NewTicker(200 * time.Microsecond), c: make(chan time.Time)}
		tk = w.gr
	default:
		w.rv = &rticker{c: make(chan time.Time)}
		tk = w.rv
	}
	tw, err := collection.NewTimingWheelWithTicker(time.Duration(interval), n, w.record, tk)
	w.tw = tw
	return w, err
}

// the call a callback makes into the wheel (re-entrancy); the result is not looked at
func (w *wheelInst) reactTo(x int64) {
	op, ok := w.react[strconv.FormatInt(x, 10)]
	if !ok {
		return
	}
	w.rmu.Lock()
	w.reacted = append(w.reacted, op)
	w.rmu.Unlock()
	switch op[0].(string) {
	case "set":
		w.tw.SetTimer(w.key(op[1]), val(op[2]), time.Duration(num(op[3])))
	case "move":
		w.tw.MoveTimer(w.key(op[1]), time.Duration(num(op[2])))
	case "remove":
		w.tw.RemoveTimer(w.key(op[1]))
	case "drain":
		w.tw.Drain(w.drainedQuiet)
	}
}

func (w *wheelInst) takeReacted() [][]any {
	w.rmu.Lock()
	defer w.rmu.Unlock()
	r := w.reacted
	w.reacted = nil
	return r
}

func (w *wheelInst) record(k, v any) {
	x := unval(v)
	w.fs.add(w.unkey(k), x)
	w.gt.wait(x)
	w.reactTo(x)
	if x%1000 == 999 {
		panic("verif: callback panics")
	}
}

// Drain hands its callbacks to a bounded runner (8 at a time): they are gated too (the generator
// holds fewer than 8 values) and they call back into the wheel like the tick callbacks do
// (cache/cleaner.go's clean re-arms a failed task from the shutdown Drain).  The callbacks of
// one Drain run concurrently; their calls into the wheel are made one at a time (dmu), so
// that the order recorded is the order in which the wheel received them.
func (w *wheelInst) drained(k, v any) {
	x := unval(v)
	w.fs.add(w.unkey(k), x)
	w.gt.wait(x)
	if _, ok := w.react[strconv.FormatInt(x, 10)]; ok {
		w.dmu.Lock()
		w.reactTo(x)
		w.dmu.Unlock()
	}
	if x%1000 == 999 {
		panic("verif: callback panics")
	}
}

// the callbacks of a Drain that was itself called from a callback do not call back
func (w *wheelInst) drainedQuiet(k, v any) {
	x := unval(v)
	w.fs.add(w.unkey(k), x)
	w.gt.wait(x)
	if x%1000 == 999 {
		panic("verif: callback panics")
	}
}

func (w *wheelInst) close() {
	w.gt.releaseAll()
	if !w.stopped {
		w.tw.Stop()
	}
}

func (w *wheelInst) do(op []any) int {
	r := 0
	switch op[0].(string) {
	case "set":
		r = errClass(w.tw.SetTimer(w.key(op[1]), val(op[2]), time.Duration(num(op[3]))))
	case "move":
		r = errClass(w.tw.MoveTimer(w.key(op[1]), time.Duration(num(op[2]))))
	case "remove":
		r = errClass(w.tw.RemoveTimer(w.key(op[1])))
	case "tick":
		if w.stopped {
			// the loop has returned: nobody receives from the ticker any more
			// (a FakeTicker is closed by Stop, sending would panic)
			if w.rv != nil && cap(w.rv.c) == 0 {
				select {
				case w.rv.c <- w.st.stamp(op):
					r = 0
				case <-time.After(3 * time.Millisecond):
					r = 2
				}
			} else {
				r = 2
			}
		} else if w.rv != nil {
			w.rv.c <- w.st.stamp(op)
		} else if w.gr != nil {
			w.gr.forward()
		} else {
			w.fk.Tick()
		}
	case "drain":
		r = errClass(w.tw.Drain(w.drained))
	case "release":
		w.gt.release(num(op[1]))
	case "stop":
		func() {
			defer func() {
				if recover() != nil {
					r = 3
				}
			}()
			w.tw.Stop()
		}()
		w.stopped = true
	}
	if !w.stopped {
		// the loop is sequential: once it takes this no-op, the operation above is done
		w.tw.RemoveTimer(sentinel)
	}
	return r
}

// one wheel, or two wheels living side by side (operations ["@", index, op...])
func runWheel(c Case) Out {
	out := Out{ID: c.ID}
	w0, err := newWheelInst(c.N, c.Interval, c.Ticker, c.Hold, c.SKeys, c.React)
	if err != nil {
		out.Err = err.Error()
		return out
	}
	defer w0.close()
	ws := []*wheelInst{w0}
	if c.N2 > 0 {
		w1, err := newWheelInst(c.N2, c.Interval2, c.Ticker2, c.Hold, c.SKeys, nil)
		if err != nil {
			out.Err = err.Error()
			return out
		}
		defer w1.close()
		ws = append(ws, w1)
	}
	for _, op := range c.Ops {
		target := 0
		if op[0].(string) == "@" {
			target = int(num(op[1]))
			op = op[2:]
		}
		// a call into the wheel that never returns (its loop is stuck behind a callback) must not hang the run
		var r int
		if out.Stuck = guarded(op, func() { r = ws[target].do(op) }); out.Stuck != "" {
			return out
		}
		if !hx.Quiesce(busy, 30*time.Second) {
			out.Stuck = "callbacks did not quiesce"
			return out
		}
		st := Step{F: ws[target].fs.take(), R: r, E: ws[target].takeReacted()}
		if len(ws) > 1 {
			st.X = ws[1-target].fs.take()
		}
		out.Obs = append(out.Obs, st)
	}
	return out
}

func runNew(c Case) Out {
	out := Out{ID: c.ID}
	var exec collection.Execute
	if c.Exec {
		exec = func(k, v any) {}
	}
	tw, err := collection.NewTimingWheel(time.Duration(c.Interval), c.N, exec)
	if err == nil {
		out.Accepted = true
		// a real ticker runs: set a timer, stop, the wheel is closed
		e1 := tw.SetTimer(int64(1), int64(1), time.Hour)
		tw.Stop()
		hx.Quiesce(busy, 30*time.Second)
		e2 := tw.SetTimer(int64(1), int64(1), time.Hour)
		out.Obs = []Step{{F: [][2]int64{}, R: errClass(e1)}, {F: [][2]int64{}, R: errClass(e2)}}
	}
	return out
}

// ---- a client's wheel seen through the relay ---------------------------------------------

type recorder struct {
	mu    sync.Mutex
	ops   [][]any
	fs    fires
	keyOf func(any) (int64, bool)
	valOf func(any) int64
}

func (r *recorder) Op(kind string, k, v any, delay time.Duration) {
	var row []any
	switch kind {
	case "set":
		kk, _ := r.keyOf(k)
		row = []any{kind, kk, r.valOf(v), int64(delay)}
	case "move":
		kk, _ := r.keyOf(k)
		row = []any{kind, kk, int64(delay)}
	case "remove":
		kk, _ := r.keyOf(k)
		row = []any{kind, kk}
	default:
		row = []any{kind}
	}
	r.mu.Lock()
	r.ops = append(r.ops, row)
	r.mu.Unlock()
}

func (r *recorder) Fire(k, v any) {
	kk, _ := r.keyOf(k)
	r.fs.add(kk, r.valOf(v))
}

func (r *recorder) takeOps() [][]any {
	r.mu.Lock()
	o := r.ops
	r.ops = nil
	r.mu.Unlock()
	if o == nil {
		o = [][]any{}
	}
	return o
}

func cacheKey(k any) (int64, bool) {
	s, ok := k.(string)
	if !ok || !strings.HasPrefix(s, "k") {
		return -1, false
	}
	n, err := strconv.ParseInt(s[1:], 10, 64)
	if err != nil {
		return -1, false
	}
	return n, true
}

var errFetch = errors.New("fetch failed")

func intVal(v any) int64 {
	if n, ok := v.(int64); ok {
		return n
	}
	return -1
}

type cacheInst struct {
	cache *collection.Cache
	tap   *collection.VerifC12Tap
	rec   *recorder
	tk    *rticker
	st    *stamper
}

func newCacheInst(expireMs int64, limit int) (*cacheInst, error) {
	ci := &cacheInst{rec: &recorder{keyOf: cacheKey, valOf: intVal}, tk: &rticker{c: make(chan time.Time)}, st: newStamper()}
	var opts []collection.CacheOption
	if limit != 0 {
		opts = append(opts, collection.WithLimit(limit))
	}
	cache, err := collection.NewCache(time.Duration(expireMs)*time.Millisecond, opts...)
	if err != nil {
		return nil, err
	}
	ci.cache = cache
	ci.tap, err = collection.VerifC12TapCache(cache, ci.tk, ci.rec)
	return ci, err
}

func (ci *cacheInst) do(op []any, st *Step) {
	cache := ci.cache
	k := func() string { return "k" + strconv.FormatInt(num(op[1]), 10) }
	switch op[0].(string) {
	case "set":
		cache.SetWithExpire(k(), num(op[2]), time.Duration(num(op[3])))
	case "setd":
		cache.Set(k(), num(op[2]))
	case "get":
		v, ok := cache.Get(k())
		if ok {
			st.Ret = []any{v}
		} else {
			st.Ret = []any{nil}
		}
	case "del":
		cache.Del(k())
	case "take":
		called := false
		v, err := cache.Take(k(), func() (any, error) {
			called = true
			if op[2] == nil {
				return nil, errFetch
			}
			return num(op[2]), nil
		})
		if err != nil {
			st.Ret = []any{nil, called}
		} else {
			st.Ret = []any{v, called}
		}
	case "tick":
		ci.tk.c <- ci.st.stamp(op)
	case "drain":
		st.R = errClass(ci.tap.Drain(func(k, v any) { ci.rec.Fire(k, v) }))
	}
}

func (ci *cacheInst) keys() []int64 {
	ks := []int64{}
	for _, s := range ci.tap.Keys() {
		n, _ := cacheKey(s)
		ks = append(ks, n)
	}
	sort.Slice(ks, func(i, j int) bool { return ks[i] < ks[j] })
	return ks
}

// one cache, or two caches side by side using the same key strings (operations ["@", index, op...])
func runCache(c Case) Out {
	out := Out{ID: c.ID}
	c0, err := newCacheInst(c.ExpireMs, c.Limit)
	if err != nil {
		out.Err = err.Error()
		return out
	}
	defer c0.tap.Stop()
	cs := []*cacheInst{c0}
	if c.Two {
		c1, err := newCacheInst(c.ExpireMs, c.Limit2)
		if err != nil {
			out.Err = err.Error()
			return out
		}
		defer c1.tap.Stop()
		cs = append(cs, c1)
	}
	out.N = c0.tap.NumSlots
	out.Interval = int64(c0.tap.Interval)
	if !hx.Quiesce(busy, 30*time.Second) {
		out.Err = "the replaced wheel did not stop"
		return out
	}
	for _, op := range c.Ops {
		target := 0
		if op[0].(string) == "@" {
			target = int(num(op[1]))
			op = op[2:]
		}
		st := Step{}
		cs[target].do(op, &st)
		if !hx.Quiesce(busy, 30*time.Second) {
			out.Stuck = "wheel callbacks did not quiesce"
			return out
		}
		st.T = cs[target].rec.takeOps()
		st.F = cs[target].rec.fs.take()
		st.Keys = cs[target].keys()
		if len(cs) > 1 {
			o := cs[1-target]
			st.XT = o.rec.takeOps()
			st.X = o.rec.fs.take()
			st.XKeys = o.keys()
		}
		out.Obs = append(out.Obs, st)
	}
	return out
}

// ---- the cache cleaner: a failed clean task is re-armed from its own callback ------------

func runCleaner(c Case) Out {
	out := Out{ID: c.ID}
	var mu sync.Mutex
	ids := map[string]int64{}
	rec := &recorder{}
	rec.keyOf = func(k any) (int64, bool) {
		s, _ := k.(string)
		mu.Lock()
		defer mu.Unlock()
		if _, ok := ids[s]; !ok {
			ids[s] = int64(len(ids))
		}
		return ids[s], true
	}
	// the value is a delayTask (private): the overlay reports its delay field instead
	rec.valOf = intVal
	tk := &rticker{c: make(chan time.Time)}
	stp := newStamper()
	n, interval, stop, err := rcache.VerifC12CleanerWheel(tk, rec)
	if err != nil {
		out.Err = err.Error()
		return out
	}
	defer stop()
	out.N = n
	out.Interval = int64(interval)
	var cmu sync.Mutex
	calls := [][2]int64{}
	for _, op := range c.Ops {
		st := Step{}
		if out.Stuck = guarded(op, func() {
			switch op[0].(string) {
			case "add":
				// a task that fails op[2] times, then succeeds; op[1] identifies it
				// op[3]: which cache key the task is about (tasks of different stores may name the same key)
				id, fails := num(op[1]), num(op[2])
				kid := id
				if len(op) > 3 {
					kid = num(op[3])
				}
				cnt := int64(0)
				rcache.AddCleanTask(func() error {
					cmu.Lock()
					cnt++
					n := cnt
					calls = append(calls, [2]int64{id, n})
					cmu.Unlock()
					if n <= fails {
						return errFetch
					}
					return nil
				}, "key"+strconv.FormatInt(kid, 10))
			case "tick":
				tk.c <- stp.stamp(op)
			}
		}); out.Stuck != "" {
			return out
		}
		if !hx.Quiesce(busy, 30*time.Second) {
			out.Stuck = "cleaner did not quiesce"
			return out
		}
		st.T = rec.takeOps()
		st.F = rec.fs.take()
		cmu.Lock()
		st.C = calls
		calls = [][2]int64{}
		cmu.Unlock()
		sort.Slice(st.C, func(i, j int) bool {
			if st.C[i][0] != st.C[j][0] {
				return st.C[i][0] < st.C[j][0]
			}
			return st.C[i][1] < st.C[j][1]
		})
		out.Obs = append(out.Obs, st)
	}
	return out
}

// Main reads the cases from $VERIF_IN and writes one observation per case to $VERIF_OUT
// (unbuffered: what has been written survives a crash of the process).
func Main() {
	logx.Disable()
	var cases []Case
	hx.ReadCases(&cases)
	f, err := os.Create(os.Getenv("VERIF_OUT"))
	if err != nil {
		hx.Fatal("create VERIF_OUT: %v", err)
	}
	defer f.Close()
	for _, c := range cases {
		var o Out
		fin := make(chan Out, 1)
		go func(c Case) {
			switch c.Kind {
			case "new":
				fin <- runNew(c)
			case "cache":
				fin <- runCache(c)
			case "cleaner":
				fin <- runCleaner(c)
			case "free":
				fin <- runFree(c)
			case "ticker":
				fin <- runTickerCase(c)
			default:
				fin <- runWheel(c)
			}
		}(c)
		select {
		case o = <-fin:
		case <-time.After(300 * time.Second):
			o = Out{ID: c.ID, Stuck: "the case did not finish within 300 s"}
		}
		b, err := json.Marshal(o)
		if err != nil {
			hx.Fatal("marshal: %v", err)
		}
		f.Write(append(b, '\n'))
		if o.Stuck != "" {
			f.Close()
			fmt.Fprintf(os.Stderr, "executor: case %d: %s\n", c.ID, o.Stuck)
			os.Exit(5)
		}
	}
}
