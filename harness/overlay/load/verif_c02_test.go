// White-box executor for property C02 (adaptive load shedder), injected into
// package core/load with `go test -overlay` (never written under /repo).
// It only executes histories: generation, shrinking and judging are done by
// tools/props/c02.py and coq/theories/C02/Check.v.
package load

import (
	"bufio"
	"bytes"
	"encoding/json"
	"fmt"
	"io"
	"math"
	"os"
	"reflect"
	"runtime"
	"sync/atomic"
	"testing"
	"time"

	"github.com/zeromicro/go-zero/core/logx"
	"github.com/zeromicro/go-zero/core/stat"
	"github.com/zeromicro/go-zero/core/timex"
)

type c02Cfg struct {
	Window    int64  `json:"window"`
	Buckets   int    `json:"buckets"`
	Threshold int64  `json:"threshold"`
	Via       string `json:"via"` // direct | group
	Key       string `json:"key"` // group key
	Grp       int    `json:"grp"` // which group (index into "groups")
	// every option is passed twice, first with another value: the later one must win
	Dup bool `json:"dup"`
	// options NOT passed to the constructor (the case then carries the default value of that setting)
	Omit []string `json:"omit"`
}

// One case = one process-wide scenario on a virtual clock: shedders are built ("new") at chosen
// moments, directly or through ShedderGroups, load.Disable() may be called at ANY position (before or
// after NewShedderGroup - op "group" -, between two GetShedder calls, in the middle of the traffic), and
// Allow / Pass / Fail operations on the different shedders are interleaved.  A group that no "group"
// op names is built before the first operation.
type c02Case struct {
	ID       int      `json:"id"`
	T0       int64    `json:"t0"`
	Mode     string   `json:"mode"` // real (package's own checker) | split (checker replaced)
	Group    *c02Cfg  `json:"group"`
	Groups   []c02Cfg `json:"groups"`
	Shedders []c02Cfg `json:"shedders"`
	Ops      [][]any  `json:"ops"`
}

type c02Obs struct {
	K     string `json:"k"`
	Shed  bool   `json:"shed"`
	Done  bool   `json:"done"`
	Fl    int64  `json:"fl"`
	Mp    int64  `json:"mp"`
	Rt    int64  `json:"rt"`
	Am    int64  `json:"am"`
	Ae    int    `json:"ae"`
	Cm    int64  `json:"cm"` // maxFlight() just before the Allow = Cm * 2^Ce
	Ce    int    `json:"ce"`
	Other bool   `json:"other"` // an error other than ErrServiceOverloaded
	Nop   bool   `json:"nop"`   // new: the constructor returned a nopShedder
	Same  bool   `json:"same"`  // new: GetShedder(key) twice gave the same shedder, Close() = nil
	Wm    int64  `json:"wm"`    // new: windowScale = Wm * 2^We
	We    int    `json:"we"`
	Bad   string `json:"bad,omitempty"`
}

type c02Out struct {
	ID    int      `json:"id"`
	Obs   []c02Obs `json:"obs"`
	Tries int      `json:"tries"`
	Err   string   `json:"err,omitempty"`
}

func c02Int(v any) int64 {
	switch x := v.(type) {
	case json.Number:
		n, err := x.Int64()
		if err != nil {
			panic("verif c02: not an int64: " + x.String())
		}
		return n
	case float64:
		if x != math.Trunc(x) || math.Abs(x) >= 1<<53 {
			panic("verif c02: number decoded through float64 is not exact")
		}
		return int64(x)
	}
	panic("verif c02: not a number")
}

// clock values go up to ~3e16 ns: beyond 2^53, so numbers inside the [][]any operations must NOT be
// decoded through float64 (json.Unmarshal's default) - they would be rounded to multiples of 4 ns.
func c02Decode(data []byte, v any) error {
	d := json.NewDecoder(bytes.NewReader(data))
	d.UseNumber()
	return d.Decode(v)
}

// what a ShedderGroup hands out wraps the member in a closer: unwrap it without naming the wrapper type
// (a struct that is an io.Closer and embeds a Shedder)
func c02Unwrap(s Shedder) (inner Shedder, closeErr error, ok bool) {
	cl, isCloser := s.(io.Closer)
	v := reflect.ValueOf(s)
	if !isCloser || v.Kind() != reflect.Struct {
		return nil, nil, false
	}
	for i := 0; i < v.NumField(); i++ {
		f := v.Field(i)
		if f.Kind() == reflect.Interface && f.CanInterface() {
			if sh, isSh := f.Interface().(Shedder); isSh {
				return sh, cl.Close(), true
			}
		}
	}
	return nil, nil, false
}

func c02Dyadic(v float64) (int64, int) {
	if v == 0 || math.IsNaN(v) || math.IsInf(v, 0) {
		return 0, 0
	}
	fr, e := math.Frexp(v)
	return int64(fr * (1 << 53)), e - 53
}

func c02Opts(c c02Cfg) []ShedderOption {
	omit := map[string]bool{}
	for _, o := range c.Omit {
		omit[o] = true
	}
	var opts []ShedderOption
	if c.Dup { // only the options that are passed again below
		if !omit["buckets"] {
			opts = append(opts, WithBuckets(c.Buckets+3))
		}
		if !omit["threshold"] {
			opts = append(opts, WithCpuThreshold(c.Threshold/2+7))
		}
		if !omit["window"] {
			opts = append(opts, WithWindow(time.Duration(c.Window)*2+time.Second))
		}
	}
	// the order of the options is irrelevant to the constructor; vary it with the configuration
	if !omit["threshold"] && c.Buckets%2 == 1 {
		opts = append(opts, WithCpuThreshold(c.Threshold))
	}
	if !omit["window"] {
		opts = append(opts, WithWindow(time.Duration(c.Window)))
	}
	if !omit["buckets"] {
		opts = append(opts, WithBuckets(c.Buckets))
	}
	if !omit["threshold"] && c.Buckets%2 == 0 {
		opts = append(opts, WithCpuThreshold(c.Threshold))
	}
	return opts
}

// runs one scenario; stable=false when the CPU gauge was changed behind our back
func c02Run(c c02Case, orig func(int64) bool) (out c02Out, stable bool) {
	out.ID = c.ID
	stable = true
	timex.SetFakeNow(time.Duration(c.T0))
	enabled.Set(true)
	defer enabled.Set(true) // white-box reset: the public API has no Enable()
	gcfgs := c.Groups
	if len(gcfgs) == 0 && c.Group != nil {
		gcfgs = []c02Cfg{*c.Group}
	}
	groups := make([]*ShedderGroup, len(gcfgs))
	explicit := map[int]bool{}
	for _, op := range c.Ops {
		if k, _ := op[0].(string); k == "group" {
			explicit[int(c02Int(op[1]))] = true
		}
	}
	for g := range gcfgs {
		if !explicit[g] {
			groups[g] = NewShedderGroup(c02Opts(gcfgs[g])...)
		}
	}
	shs := make([]Shedder, len(c.Shedders))
	ass := make([]*adaptiveShedder, len(c.Shedders))
	var cpu1, cpu2 int64
	if c.Mode == "split" {
		systemOverloadChecker = func(th int64) bool {
			r := cpu1 >= th
			stat.VerifSetCpuUsage(cpu2)
			return r
		}
	} else {
		systemOverloadChecker = orig
	}
	defer func() { systemOverloadChecker = orig }()
	proms := map[int]Promise{}
	snap := func(k int, o *c02Obs) {
		as := ass[k]
		if as == nil {
			return
		}
		o.Fl = atomic.LoadInt64(&as.flying)
		as.avgFlyingLock.Lock()
		avg := as.avgFlying
		as.avgFlyingLock.Unlock()
		o.Am, o.Ae = c02Dyadic(avg)
	}
	for i, op := range c.Ops {
		var o c02Obs
		kind, _ := op[0].(string)
		o.K = kind
		switch kind {
		case "disable":
			Disable()
		case "group":
			g := int(c02Int(op[1]))
			groups[g] = NewShedderGroup(c02Opts(gcfgs[g])...)
		case "get":
			// GetShedder once more for a key that has its shedder: the same instance, whatever happened since
			k := int(c02Int(op[1]))
			cfg := c.Shedders[k]
			o.Same = cfg.Via == "group" && groups[cfg.Grp] != nil && groups[cfg.Grp].GetShedder(cfg.Key) == shs[k]
		case "new":
			k := int(c02Int(op[1]))
			timex.SetFakeNow(time.Duration(c02Int(op[2])))
			cfg := c.Shedders[k]
			o.Same = true
			if cfg.Via == "group" {
				group := groups[cfg.Grp]
				if group == nil {
					o.Bad = "group not built"
					break
				}
				s1 := group.GetShedder(cfg.Key)
				s2 := group.GetShedder(cfg.Key)
				o.Same = s1 == s2
				inner, cerr, ok := c02Unwrap(s1)
				if !ok || cerr != nil {
					o.Same = false
				}
				shs[k] = s1
				if ok {
					ass[k], _ = inner.(*adaptiveShedder)
				}
			} else {
				shs[k] = NewAdaptiveShedder(c02Opts(cfg)...)
				ass[k], _ = shs[k].(*adaptiveShedder)
			}
			o.Nop = ass[k] == nil
			if ass[k] != nil {
				o.Wm, o.We = c02Dyadic(ass[k].windowScale)
			}
		case "allow":
			k := int(c02Int(op[1]))
			timex.SetFakeNow(time.Duration(c02Int(op[2])))
			cpu1, cpu2 = c02Int(op[3]), c02Int(op[4])
			if as := ass[k]; as != nil {
				o.Mp = as.maxPass()
				o.Rt = int64(as.minRt())
				o.Cm, o.Ce = c02Dyadic(as.maxFlight())
			}
			if c.Mode == "split" {
				stat.VerifSetCpuUsage(cpu1)
			} else {
				stat.VerifSetCpuUsage(cpu2)
			}
			p, err := shs[k].Allow()
			if ass[k] != nil {
				// split mode: the gauge holds cpu2 once the checker has run, cpu1 if Allow never called it
				if cur := stat.CpuUsage(); cur != cpu2 && !(c.Mode == "split" && cur == cpu1) {
					stable = false
				}
			}
			if err != nil {
				o.Shed = err == ErrServiceOverloaded
				o.Other = !o.Shed
			} else {
				proms[i] = p
			}
			snap(k, &o)
		case "pass":
			k := int(c02Int(op[1]))
			if p, ok := proms[int(c02Int(op[2]))]; ok {
				timex.SetFakeNow(time.Duration(c02Int(op[3])))
				p.Pass()
				o.Done = true
			}
			snap(k, &o)
		case "fail":
			k := int(c02Int(op[1]))
			if p, ok := proms[int(c02Int(op[2]))]; ok {
				p.Fail()
				o.Done = true
			}
			snap(k, &o)
		default:
			o.Bad = "unknown op " + kind
		}
		out.Obs = append(out.Obs, o)
	}
	return out, stable
}

func TestVerifC02(t *testing.T) {
	in := os.Getenv("VERIF_IN")
	if in == "" {
		t.Skip("VERIF_IN not set")
	}
	logx.Disable()
	DisableLog()
	stat.SetReporter(nil)
	data, err := os.ReadFile(in)
	if err != nil {
		t.Fatal(err)
	}
	var cases []c02Case
	if err := c02Decode(data, &cases); err != nil {
		t.Fatal(err)
	}
	f, err := os.Create(os.Getenv("VERIF_OUT"))
	if err != nil {
		t.Fatal(err)
	}
	defer f.Close()
	w := bufio.NewWriterSize(f, 1<<20)
	defer w.Flush()
	orig := systemOverloadChecker
	for _, c := range cases {
		var out c02Out
		tries := 0
		for {
			tries++
			var stable bool
			func() {
				defer func() {
					if e := recover(); e != nil {
						out = c02Out{ID: c.ID, Err: fmt.Sprint("panic: ", e)}
						stable = true
						enabled.Set(true)
						systemOverloadChecker = orig
					}
				}()
				out, stable = c02Run(c, orig)
			}()
			if stable || tries >= 20 {
				if !stable {
					out.Err = "cpu gauge unstable"
				}
				break
			}
		}
		out.Tries = tries
		b, _ := json.Marshal(out)
		w.Write(b)
		w.WriteByte('\n')
	}
}

// Free-running monitor (thorough tier, run with -race): concurrent Allow / Pass / Fail on one
// shedder under the real clock with a toggling overload checker.  Reports, as JSON on
// $VERIF_OUT: data races are reported by the race detector itself (non-zero exit);
// "final" must be 0 once every promise has been resolved once, "negative" counts
// observations of flying < 0, "idleShed" sheds observed by a goroutine while it was the
// only caller and nothing was in flight.
func TestVerifC02Race(t *testing.T) {
	outp := os.Getenv("VERIF_OUT")
	if outp == "" || os.Getenv("VERIF_C02_RACE") == "" {
		t.Skip("monitor not requested")
	}
	logx.Disable()
	DisableLog()
	stat.SetReporter(nil)
	timex.ClearFake()
	orig := systemOverloadChecker
	defer func() { systemOverloadChecker = orig }()
	var tick int64
	systemOverloadChecker = func(int64) bool {
		return atomic.AddInt64(&tick, 1)%3 != 0
	}
	stat.VerifSetCpuUsage(1000)
	as := NewAdaptiveShedder(WithWindow(200*time.Millisecond), WithBuckets(10), WithCpuThreshold(900)).(*adaptiveShedder)
	const workers, iters = 16, 3000
	var admitted, resolved, shed, negative int64
	done := make(chan struct{})
	for w := 0; w < workers; w++ {
		go func(w int) {
			defer func() { done <- struct{}{} }()
			var held []Promise
			for i := 0; i < iters; i++ {
				p, err := as.Allow()
				if err != nil {
					atomic.AddInt64(&shed, 1)
				} else {
					atomic.AddInt64(&admitted, 1)
					held = append(held, p)
				}
				if atomic.LoadInt64(&as.flying) < 0 {
					atomic.AddInt64(&negative, 1)
				}
				if len(held) > (w+i)%7 {
					q := held[0]
					held = held[1:]
					if (w+i)%4 == 0 {
						q.Fail()
					} else {
						q.Pass()
					}
					atomic.AddInt64(&resolved, 1)
				}
			}
			for _, q := range held {
				q.Pass()
				atomic.AddInt64(&resolved, 1)
			}
		}(w)
	}
	for w := 0; w < workers; w++ {
		<-done
	}
	// idle: nothing in flight, overloaded -> must be admitted
	systemOverloadChecker = func(int64) bool { return true }
	idleShed := 0
	for i := 0; i < 100; i++ {
		p, err := as.Allow()
		if err != nil {
			idleShed++
		} else {
			p.Fail()
		}
	}
	avgRounds, avgMismatch := c02RaceAvg()
	res := map[string]int64{"final": atomic.LoadInt64(&as.flying), "admitted": admitted, "resolved": resolved,
		"shed": shed, "negative": negative, "idleShed": int64(idleShed), "avgRounds": avgRounds, "avgMismatch": avgMismatch}
	b, _ := json.Marshal(res)
	os.WriteFile(outp, append(b, '\n'), 0o644)
}

// Free-running monitor of "every resolution contributes exactly one sample to the moving average": a
// contender goroutine keeps taking avgFlyingLock for short moments (what Allow's highThru and other
// completions do) while, round after round, three requests are let in and two of them are resolved on two
// goroutines at once.  After each round avgFlying must be bit-for-bit one of the two values the two samples
// (the in-flight values their own decrements returned) give in either order.
func c02RaceAvg() (rounds, mismatch int64) {
	systemOverloadChecker = func(int64) bool { return false }
	as := NewAdaptiveShedder(WithCpuThreshold(900)).(*adaptiveShedder)
	var stop int32
	contDone := make(chan struct{})
	go func() {
		defer close(contDone)
		for atomic.LoadInt32(&stop) == 0 {
			as.avgFlyingLock.Lock()
			runtime.Gosched()
			as.avgFlyingLock.Unlock()
			runtime.Gosched()
		}
	}()
	fold := func(avg float64, fl int64) float64 { return avg*flyingBeta + float64(fl)*(1-flyingBeta) }
	prev := 0.0
	for r := 0; r < 4000; r++ {
		var ps [3]Promise
		for i := range ps {
			ps[i], _ = as.Allow()
		}
		f := atomic.LoadInt64(&as.flying)
		d := make(chan struct{}, 2)
		go func() { ps[0].Fail(); d <- struct{}{} }()
		go func() { ps[1].Pass(); d <- struct{}{} }()
		<-d
		<-d
		as.avgFlyingLock.Lock()
		got := as.avgFlying
		as.avgFlyingLock.Unlock()
		if got != fold(fold(prev, f-1), f-2) && got != fold(fold(prev, f-2), f-1) {
			mismatch++
		}
		prev = got
		rounds++
	}
	atomic.StoreInt32(&stop, 1)
	<-contDone
	return rounds, mismatch
}

// ShedderGroup: GetShedder(key) for a sequence of keys, each followed by one Allow (CPU idle, so
// it is let in).  Reports, per call, the index of the first call that returned the same instance
// and the in-flight count of that instance afterwards.
type c02GroupCase struct {
	ID   int   `json:"id"`
	Keys []int `json:"keys"`
}

func TestVerifC02Group(t *testing.T) {
	in := os.Getenv("VERIF_IN")
	if in == "" {
		t.Skip("VERIF_IN not set")
	}
	logx.Disable()
	DisableLog()
	stat.SetReporter(nil)
	data, err := os.ReadFile(in)
	if err != nil {
		t.Fatal(err)
	}
	var cases []c02GroupCase
	if err := c02Decode(data, &cases); err != nil {
		t.Fatal(err)
	}
	f, err := os.Create(os.Getenv("VERIF_OUT"))
	if err != nil {
		t.Fatal(err)
	}
	defer f.Close()
	w := bufio.NewWriter(f)
	defer w.Flush()
	timex.SetFakeNow(time.Duration(1e12))
	enabled.Set(true)
	systemOverloadChecker = func(int64) bool { return false }
	for _, c := range cases {
		g := NewShedderGroup()
		var seen []Shedder
		var obs [][2]int64
		for _, k := range c.Keys {
			s := g.GetShedder("k" + string(rune('a'+k%26)) + string(rune('0'+k/26)))
			idx := -1
			for i, x := range seen {
				if x == s {
					idx = i
					break
				}
			}
			if idx < 0 {
				idx = len(seen)
			}
			seen = append(seen, s)
			s.Allow()
			var fl int64 = -1
			if inner, _, ok := c02Unwrap(s); ok {
				if as, ok := inner.(*adaptiveShedder); ok {
					fl = atomic.LoadInt64(&as.flying)
				}
			}
			obs = append(obs, [2]int64{int64(idx), fl})
		}
		b, _ := json.Marshal(map[string]any{"id": c.ID, "obs": obs})
		w.Write(b)
		w.WriteByte('\n')
	}
}
