// White-box executor for property C02 (adaptive load shedder), injected into
// package core/load with `go test -overlay` (never written under /repo).
// It only executes histories: generation, shrinking and judging are done by
// tools/props/c02.py and coq/theories/C02/Check.v.
package load

import (
	"bufio"
	"encoding/json"
	"math"
	"os"
	"sync/atomic"
	"testing"
	"time"

	"github.com/zeromicro/go-zero/core/logx"
	"github.com/zeromicro/go-zero/core/stat"
	"github.com/zeromicro/go-zero/core/timex"
)

type c02Case struct {
	ID        int     `json:"id"`
	Window    int64   `json:"window"`
	Buckets   int     `json:"buckets"`
	Threshold int64   `json:"threshold"`
	T0        int64   `json:"t0"`
	Enabled   bool    `json:"enabled"`
	Via       string  `json:"via"`  // direct | group
	Mode      string  `json:"mode"` // real (package's own checker) | split (checker replaced)
	Ops       [][]any `json:"ops"`
}

type c02Obs struct {
	K     string `json:"k"`
	Shed  bool   `json:"shed"`
	Done  bool   `json:"done"`
	Fl    int64  `json:"fl"`
	Mp    int64  `json:"mp"`
	Rt    int64  `json:"rt"`
	Am    int64  `json:"am"`
	Ae    int    `json:"ae"`
	Other bool   `json:"other"` // an error other than ErrServiceOverloaded
}

type c02Out struct {
	ID    int      `json:"id"`
	Obs   []c02Obs `json:"obs"`
	Same  bool     `json:"same"`
	Nop   bool     `json:"nop"`
	Tries int      `json:"tries"`
	Err   string   `json:"err,omitempty"`
}

func c02Int(v any) int64 {
	switch x := v.(type) {
	case float64:
		return int64(x)
	case json.Number:
		n, _ := x.Int64()
		return n
	}
	return 0
}

func c02Dyadic(v float64) (int64, int) {
	if v == 0 || math.IsNaN(v) || math.IsInf(v, 0) {
		return 0, 0
	}
	fr, e := math.Frexp(v)
	return int64(fr * (1 << 53)), e - 53
}

// runs one history; stable=false when the CPU gauge was changed behind our back
func c02Run(c c02Case, orig func(int64) bool) (out c02Out, stable bool) {
	out.ID = c.ID
	stable = true
	timex.SetFakeNow(time.Duration(c.T0))
	enabled.Set(c.Enabled)
	defer enabled.Set(true)
	opts := []ShedderOption{WithWindow(time.Duration(c.Window)), WithBuckets(c.Buckets), WithCpuThreshold(c.Threshold)}
	var sh Shedder
	out.Same = true
	if c.Via == "group" {
		g := NewShedderGroup(opts...)
		s1 := g.GetShedder("k")
		s2 := g.GetShedder("k")
		out.Same = s1 == s2
		sh = s1.(nopCloser).Shedder
	} else {
		sh = NewAdaptiveShedder(opts...)
	}
	as, _ := sh.(*adaptiveShedder)
	out.Nop = as == nil
	var cpu1, cpu2 int64
	if c.Mode == "split" {
		systemOverloadChecker = func(th int64) bool {
			r := cpu1 >= th
			stat.VerifSetCpuUsage(cpu2)
			return r
		}
	} else {
		systemOverloadChecker = orig
	}
	defer func() { systemOverloadChecker = orig }()
	proms := map[int]Promise{}
	snap := func(o *c02Obs) {
		if as == nil {
			return
		}
		o.Fl = atomic.LoadInt64(&as.flying)
		as.avgFlyingLock.Lock()
		avg := as.avgFlying
		as.avgFlyingLock.Unlock()
		o.Am, o.Ae = c02Dyadic(avg)
	}
	for i, op := range c.Ops {
		var o c02Obs
		kind, _ := op[0].(string)
		o.K = kind
		switch kind {
		case "allow":
			timex.SetFakeNow(time.Duration(c02Int(op[1])))
			cpu1, cpu2 = c02Int(op[2]), c02Int(op[3])
			if as != nil {
				o.Mp = as.maxPass()
				o.Rt = int64(as.minRt())
			}
			if c.Mode == "split" {
				stat.VerifSetCpuUsage(cpu1)
			} else {
				stat.VerifSetCpuUsage(cpu2)
			}
			p, err := sh.Allow()
			if as != nil && stat.CpuUsage() != cpu2 {
				stable = false
			}
			if err != nil {
				o.Shed = err == ErrServiceOverloaded
				o.Other = !o.Shed
			} else {
				proms[i] = p
			}
		case "pass":
			if p, ok := proms[int(c02Int(op[1]))]; ok {
				timex.SetFakeNow(time.Duration(c02Int(op[2])))
				p.Pass()
				o.Done = true
			}
		case "fail":
			if p, ok := proms[int(c02Int(op[1]))]; ok {
				p.Fail()
				o.Done = true
			}
		}
		snap(&o)
		out.Obs = append(out.Obs, o)
	}
	return out, stable
}

func TestVerifC02(t *testing.T) {
	in := os.Getenv("VERIF_IN")
	if in == "" {
		t.Skip("VERIF_IN not set")
	}
	logx.Disable()
	DisableLog()
	stat.SetReporter(nil)
	data, err := os.ReadFile(in)
	if err != nil {
		t.Fatal(err)
	}
	var cases []c02Case
	if err := json.Unmarshal(data, &cases); err != nil {
		t.Fatal(err)
	}
	f, err := os.Create(os.Getenv("VERIF_OUT"))
	if err != nil {
		t.Fatal(err)
	}
	defer f.Close()
	w := bufio.NewWriterSize(f, 1<<20)
	defer w.Flush()
	orig := systemOverloadChecker
	for _, c := range cases {
		var out c02Out
		tries := 0
		for {
			tries++
			var stable bool
			out, stable = c02Run(c, orig)
			if stable || tries >= 20 {
				if !stable {
					out.Err = "cpu gauge unstable"
				}
				break
			}
		}
		out.Tries = tries
		b, _ := json.Marshal(out)
		w.Write(b)
		w.WriteByte('\n')
	}
}
