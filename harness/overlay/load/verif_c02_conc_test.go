// White-box executor for property C02, kind "conc": OVERLAPPING Allow calls on one adaptive
// shedder under a forced schedule.  Injected into package core/load with `go test -overlay`
// together with verif_c02_test.go (never written under /repo).
//
// The two places where the code under test calls out while an Allow is in progress are used as
// parking places:
//
//	P1  systemOverloadChecker (package variable, called by systemOverloaded() at the start of
//	    shouldDrop): a gated checker parks the calling Allow until the schedule releases it with
//	    the checker's answer;
//	P2  logx.Error (called by shouldDrop once it has decided to drop, before Allow stores
//	    droppedRecently and returns): a blocking logx.Writer parks the dropper.
//
// Operations (executed by the test's main goroutine, one at a time):
//
//	["allow", now, cpu1, cpu2] ["pass", id, now] ["fail", id]    as in the sequential executor
//	["enter"]                 start a goroutine that calls Allow; wait until it is parked at P1
//	["decide", tid, now, cpu1, cpu2]   set the clock and the gauge, release thread tid (the index
//	                          of its "enter") from P1 with the answer cpu1 >= threshold; wait until
//	                          it has returned or is parked at P2
//	["finish", tid]           release thread tid from P2; wait until it has returned
//	["hold"]                  the main goroutine takes the shedder's avgFlyingLock (what a goroutine
//	                          preempted inside highThru / addFlying does).  Until "release" only
//	                          "pass" / "fail" may follow: each runs on its own goroutine; the main
//	                          goroutine waits until the in-flight counter shows that the resolution is
//	                          past its atomic decrement (it then spins on the lock)
//	["release"]               give the lock back; wait until every started resolution has returned
//
// "pass" / "fail" name the index of the "allow" or of the "decide" that produced the promise.
package load

import (
	"bufio"
	"encoding/json"
	"fmt"
	"os"
	"runtime"
	"sync/atomic"
	"testing"
	"time"

	"github.com/zeromicro/go-zero/core/logx"
	"github.com/zeromicro/go-zero/core/stat"
	"github.com/zeromicro/go-zero/core/timex"
)

type c02ConcCase struct {
	ID        int     `json:"id"`
	Window    int64   `json:"window"`
	Buckets   int     `json:"buckets"`
	Threshold int64   `json:"threshold"`
	T0        int64   `json:"t0"`
	Ops       [][]any `json:"ops"`
}

type c02Thr struct {
	entered, parked, returned chan struct{}
	gate                      chan bool
	logGate                   chan struct{}
	decided, finished         bool
	p                         Promise
	err                       error
}

// set by the main goroutine before it starts / releases a thread; read by that thread only
var (
	c02Launching atomic.Pointer[c02Thr]
	c02Running   atomic.Pointer[c02Thr]
	c02SeqCpu1   atomic.Int64
)

type c02Writer struct{}

func (c02Writer) Alert(any)                   {}
func (c02Writer) Close() error                { return nil }
func (c02Writer) Debug(any, ...logx.LogField) {}
func (c02Writer) Info(any, ...logx.LogField)  {}
func (c02Writer) Severe(any)                  {}
func (c02Writer) Slow(any, ...logx.LogField)  {}
func (c02Writer) Stack(any)                   {}
func (c02Writer) Stat(any, ...logx.LogField)  {}
func (c02Writer) Error(any, ...logx.LogField) {
	if t := c02Running.Load(); t != nil {
		t.parked <- struct{}{}
		<-t.logGate
	}
}

type c02ConcObs struct {
	K    string `json:"k"`
	Shed bool   `json:"shed"` // allow: ErrServiceOverloaded; decide: parked at the drop log line
	Done bool   `json:"done"`
	Ok   bool   `json:"ok"` // enter: parked in the checker; finish: has returned ErrServiceOverloaded
	Fl   int64  `json:"fl"`
	Mp   int64  `json:"mp"`
	Rt   int64  `json:"rt"`
	Am   int64  `json:"am"`
	Ae   int    `json:"ae"`
	Cm   int64  `json:"cm"`
	Ce   int    `json:"ce"`
	Bad  string `json:"bad,omitempty"`
}

const c02Wait = 20 * time.Second

func c02RunConc(c c02ConcCase) (obs []c02ConcObs, ws [2]int64, stable bool, errs string) {
	stable = true
	timex.SetFakeNow(time.Duration(c.T0))
	enabled.Set(true)
	th := c.Threshold
	orig := systemOverloadChecker
	defer func() { systemOverloadChecker = orig }()
	systemOverloadChecker = func(int64) bool {
		if t := c02Launching.Swap(nil); t != nil {
			t.entered <- struct{}{}
			return <-t.gate
		}
		return c02SeqCpu1.Load() >= th
	}
	as := NewAdaptiveShedder(WithWindow(time.Duration(c.Window)), WithBuckets(c.Buckets), WithCpuThreshold(th)).(*adaptiveShedder)
	wm, we := c02Dyadic(as.windowScale)
	ws = [2]int64{wm, int64(we)}
	thr := map[int]*c02Thr{}
	defer func() {
		// release whatever is still parked so that no goroutine outlives the case
		c02Running.Store(nil)
		for _, t := range thr {
			if !t.decided {
				t.gate <- false
			} else if !t.finished {
				close(t.logGate)
			}
		}
		for _, t := range thr {
			select {
			case <-t.returned:
			case <-time.After(c02Wait):
			}
		}
		c02Running.Store(nil)
	}()
	proms := map[int]Promise{}
	held := false
	var resolving []chan struct{}
	defer func() {
		if held {
			as.avgFlyingLock.Unlock()
		}
		for _, d := range resolving {
			select {
			case <-d:
			case <-time.After(c02Wait):
			}
		}
	}()
	snap := func(o *c02ConcObs) {
		o.Fl = atomic.LoadInt64(&as.flying)
		if held {
			o.Am, o.Ae = c02Dyadic(as.avgFlying) // the lock is ours
			return
		}
		as.avgFlyingLock.Lock()
		avg := as.avgFlying
		as.avgFlyingLock.Unlock()
		o.Am, o.Ae = c02Dyadic(avg)
	}
	before := func(o *c02ConcObs) {
		o.Mp = as.maxPass()
		o.Rt = int64(as.minRt())
		o.Cm, o.Ce = c02Dyadic(as.maxFlight())
	}
	for i, op := range c.Ops {
		var o c02ConcObs
		kind, _ := op[0].(string)
		o.K = kind
		if held && kind != "pass" && kind != "fail" && kind != "release" && kind != "hold" {
			return nil, ws, true, fmt.Sprintf("op %d: %s while the lock is held", i, kind)
		}
		switch kind {
		case "allow":
			timex.SetFakeNow(time.Duration(c02Int(op[1])))
			cpu2 := c02Int(op[3])
			c02SeqCpu1.Store(c02Int(op[2]))
			before(&o)
			stat.VerifSetCpuUsage(cpu2)
			p, err := as.Allow()
			if stat.CpuUsage() != cpu2 {
				stable = false
			}
			if err != nil {
				o.Shed = err == ErrServiceOverloaded
			} else {
				proms[i] = p
			}
		case "pass", "fail":
			id := int(c02Int(op[1]))
			p := proms[id]
			if p == nil {
				if d := c.Ops[id]; len(d) > 1 && d[0] == "decide" {
					if t := thr[int(c02Int(d[1]))]; t != nil && t.finished {
						p = t.p
					}
				}
			}
			if p != nil && held {
				if kind == "pass" {
					timex.SetFakeNow(time.Duration(c02Int(op[2])))
				}
				want := atomic.LoadInt64(&as.flying) - 1
				done := make(chan struct{})
				resolving = append(resolving, done)
				go func(pass bool) {
					defer close(done)
					if pass {
						p.Pass()
					} else {
						p.Fail()
					}
				}(kind == "pass")
				deadline := time.Now().Add(c02Wait)
				for atomic.LoadInt64(&as.flying) != want {
					if time.Now().After(deadline) {
						return nil, ws, true, fmt.Sprintf("op %d: resolution did not decrement the in-flight count", i)
					}
					runtime.Gosched()
				}
				o.Done = true
			} else if p != nil {
				if kind == "pass" {
					timex.SetFakeNow(time.Duration(c02Int(op[2])))
					p.Pass()
				} else {
					p.Fail()
				}
				o.Done = true
			}
		case "hold":
			if !held {
				as.avgFlyingLock.Lock()
				held = true
			}
			o.Ok = true
		case "release":
			if held {
				// give the resolutions a moment to show what they do while the lock is taken
				for k := 0; k < 50; k++ {
					runtime.Gosched()
				}
				as.avgFlyingLock.Unlock()
				held = false
			}
			for _, d := range resolving {
				select {
				case <-d:
				case <-time.After(c02Wait):
					return nil, ws, true, fmt.Sprintf("op %d: a resolution did not return after the lock was released", i)
				}
			}
			resolving = nil
			o.Ok = true
		case "enter":
			t := &c02Thr{entered: make(chan struct{}), parked: make(chan struct{}), returned: make(chan struct{}),
				gate: make(chan bool), logGate: make(chan struct{})}
			thr[i] = t
			c02Launching.Store(t)
			go func() {
				defer close(t.returned)
				t.p, t.err = as.Allow()
			}()
			select {
			case <-t.entered:
				o.Ok = true
			case <-t.returned:
				t.decided, t.finished = true, true
			case <-time.After(c02Wait):
				return nil, ws, true, fmt.Sprintf("op %d: Allow neither reached the checker nor returned", i)
			}
		case "decide":
			t := thr[int(c02Int(op[1]))]
			if t == nil || t.decided {
				o.Bad = "decide: no such parked thread"
				break
			}
			timex.SetFakeNow(time.Duration(c02Int(op[2])))
			cpu1, cpu2 := c02Int(op[3]), c02Int(op[4])
			before(&o)
			stat.VerifSetCpuUsage(cpu2)
			c02Running.Store(t)
			t.decided = true
			t.gate <- cpu1 >= th
			select {
			case <-t.parked:
				o.Shed = true
			case <-t.returned:
				t.finished = true
				o.Shed = t.err == ErrServiceOverloaded // dropped without reaching the log line
			case <-time.After(c02Wait):
				return nil, ws, true, fmt.Sprintf("op %d: released Allow neither returned nor reached the drop log", i)
			}
			c02Running.Store(nil)
			if stat.CpuUsage() != cpu2 {
				stable = false
			}
		case "finish":
			t := thr[int(c02Int(op[1]))]
			if t != nil && t.decided && !t.finished {
				close(t.logGate)
				select {
				case <-t.returned:
				case <-time.After(c02Wait):
					return nil, ws, true, fmt.Sprintf("op %d: dropper did not return", i)
				}
				t.finished = true
			}
			o.Ok = t != nil && t.finished && t.err == ErrServiceOverloaded
		default:
			o.Bad = "unknown op " + kind
		}
		snap(&o)
		obs = append(obs, o)
	}
	return obs, ws, stable, ""
}

func TestVerifC02Conc(t *testing.T) {
	in := os.Getenv("VERIF_IN")
	if in == "" {
		t.Skip("VERIF_IN not set")
	}
	DisableLog()
	stat.SetReporter(nil)
	logx.Reset()
	logx.SetWriter(c02Writer{})
	logx.SetLevel(logx.InfoLevel)
	data, err := os.ReadFile(in)
	if err != nil {
		t.Fatal(err)
	}
	var cases []c02ConcCase
	if err := c02Decode(data, &cases); err != nil {
		t.Fatal(err)
	}
	f, err := os.Create(os.Getenv("VERIF_OUT"))
	if err != nil {
		t.Fatal(err)
	}
	defer f.Close()
	w := bufio.NewWriterSize(f, 1<<20)
	defer w.Flush()
	for _, c := range cases {
		var obs []c02ConcObs
		var ws [2]int64
		var errs string
		tries := 0
		for {
			tries++
			var stable bool
			obs, ws, stable, errs = c02RunConc(c)
			if stable || tries >= 20 {
				if !stable {
					errs = "cpu gauge unstable"
				}
				break
			}
		}
		m := map[string]any{"id": c.ID, "obs": obs, "ws": ws, "tries": tries}
		if errs != "" {
			m["err"] = errs
		}
		b, _ := json.Marshal(m)
		w.Write(b)
		w.WriteByte('\n')
	}
}
