// Overlay replacement for core/timex/ticker.go, injected at build time with
// `go build -overlay` by the C16 executor (never committed to /repo).  Identical to
// the original except that NewTicker consults a hook, so that a TimingWheel created
// inside go-zero (collection.NewCache -> NewTimingWheel -> timex.NewTicker) can be
// driven tick by tick by the harness.  With no hook set nothing changes.
package timex

import (
	"errors"
	"sync/atomic"
	"time"

	"github.com/zeromicro/go-zero/core/lang"
)

// errTimeout indicates a timeout.
var errTimeout = errors.New("timeout")

type (
	// Ticker interface wraps the Chan and Stop methods.
	Ticker interface {
		Chan() <-chan time.Time
		Stop()
	}

	// FakeTicker interface is used for unit testing.
	FakeTicker interface {
		Ticker
		Done()
		Tick()
		Wait(d time.Duration) error
	}

	fakeTicker struct {
		c    chan time.Time
		done chan lang.PlaceholderType
	}

	realTicker struct {
		*time.Ticker
	}
)

var tickerHook atomic.Pointer[func(d time.Duration) Ticker]

// SetTickerHook makes NewTicker return f(d) whenever f(d) is not nil; nil clears the hook.
func SetTickerHook(f func(d time.Duration) Ticker) {
	if f == nil {
		tickerHook.Store(nil)
		return
	}
	tickerHook.Store(&f)
}

// NewTicker returns a Ticker.
func NewTicker(d time.Duration) Ticker {
	if f := tickerHook.Load(); f != nil {
		if t := (*f)(d); t != nil {
			return t
		}
	}
	return &realTicker{
		Ticker: time.NewTicker(d),
	}
}

func (rt *realTicker) Chan() <-chan time.Time {
	return rt.C
}

// NewFakeTicker returns a FakeTicker.
func NewFakeTicker() FakeTicker {
	return &fakeTicker{
		c:    make(chan time.Time, 1),
		done: make(chan lang.PlaceholderType, 1),
	}
}

func (ft *fakeTicker) Chan() <-chan time.Time {
	return ft.c
}

func (ft *fakeTicker) Done() {
	ft.done <- lang.Placeholder
}

func (ft *fakeTicker) Stop() {
	close(ft.c)
}

func (ft *fakeTicker) Tick() {
	ft.c <- time.Now()
}

func (ft *fakeTicker) Wait(d time.Duration) error {
	select {
	case <-time.After(d):
		return errTimeout
	case <-ft.done:
		return nil
	}
}
