package conf

// White-box executor for C17 (injected with `go test -overlay` together with a copy of
// harness/c17t/types.go whose package clause is rewritten to `package conf`; nothing is
// written under /repo).  For a generated configuration type and the JSON rendering of a
// document (and of its re-cased twin) it dumps
//   - the fieldInfo tree that buildFieldsInfo computes for the type, and
//   - the map that toLowerCaseKeyMap hands to the unmarshaller,
// i.e. exactly the part of LoadFromJsonBytes that implements "keys are matched
// case-insensitively".  tools/props/c17.py compares both with the model (info_fields / lc_obj)
// and, model-free, the two lower-cased maps of a document and its twin with each other.

import (
	"bufio"
	"bytes"
	"encoding/json"
	"fmt"
	"os"
	"reflect"
	"sort"
	"testing"

	"github.com/zeromicro/go-zero/core/jsonx"
	"github.com/zeromicro/go-zero/internal/encoding"
)

type c17wCase struct {
	ID    int        `json:"id"`
	Type  []C17Field `json:"type"`
	JSON  string     `json:"json"`
	JSON2 string     `json:"json2"`
	YAML  string     `json:"yaml"` // with TOML: interleave the two steps of the loaders with another load
	TOML  string     `json:"toml"`
}

type c17wRes struct {
	Verdict string `json:"verdict"`
	Err     string `json:"err,omitempty"`
	Val     any    `json:"val,omitempty"`
}

func c17wLoad(rt reflect.Type, call func(target any) error) (res c17wRes) {
	target := reflect.New(rt)
	defer func() {
		if p := recover(); p != nil {
			res = c17wRes{Verdict: "panic", Err: fmt.Sprint(p)}
		}
	}()
	if err := call(target.Interface()); err != nil {
		return c17wRes{Verdict: "error", Err: err.Error()}
	}
	if C17Shared(target.Elem()) {
		return c17wRes{Verdict: "shared", Val: C17Dump(target.Elem())}
	}
	return c17wRes{Verdict: "ok", Val: C17Dump(target.Elem())}
}

// the OTHER load that runs between the two steps of the load under test
type c17Other struct {
	Name  string            `json:"name"`
	Port  int               `json:"port"`
	Items map[string]string `json:"items,optional"`
}

const c17OtherYAML = "name: the-other-configuration-the-other-configuration\nport: 65535\nitems:\n  k1: vvvvvvvvvvvvvvvvvvvvvvvvvvvvvvvvvvvvvvvvvvvvvvvvvvvvvvvvvvvvvvvv\n  k2: wwwwwwwwwwwwwwwwwwwwwwwwwwwwwwwwwwwwwwwwwwwwwwwwwwwwwwwwwwwwwwww\n"
const c17OtherTOML = "name = \"the-other-configuration-the-other-configuration\"\nport = 65535\n[items]\nk1 = \"vvvvvvvvvvvvvvvvvvvvvvvvvvvvvvvvvvvvvvvvvvvvvvvvvvvvvvvvvvvvvvvv\"\nk2 = \"wwwwwwwwwwwwwwwwwwwwwwwwwwwwwwwwwwwwwwwwwwwwwwwwwwwwwwwwwwwwwwww\"\n"

// LoadFromYamlBytes / LoadFromTomlBytes are "convert, then LoadFromJsonBytes".  [seq]: the loader
// as it is.  [inter]: its two steps with a complete other load (both formats) in between — what a
// concurrent load does to it.  The two must agree.
func c17Interleave(rt reflect.Type, text string, convert func([]byte) ([]byte, error),
	loader func([]byte, any) error) [2]c17wRes {
	seq := c17wLoad(rt, func(t any) error { return loader([]byte(text), t) })
	inter := c17wLoad(rt, func(t any) error {
		b, err := convert([]byte(text))
		if err != nil {
			return err
		}
		var o1, o2 c17Other
		_ = LoadFromYamlBytes([]byte(c17OtherYAML), &o1)
		_ = LoadFromTomlBytes([]byte(c17OtherTOML), &o2)
		return LoadFromJsonBytes(b, t)
	})
	return [2]c17wRes{seq, inter}
}

type c17wOut struct {
	ID      int                   `json:"id"`
	Fail    string                `json:"fail,omitempty"`
	TDesc   string                `json:"tdesc,omitempty"`
	InfoErr string                `json:"infoerr,omitempty"`
	Info    any                   `json:"info,omitempty"`
	LC      string                `json:"lc,omitempty"`
	LC2     string                `json:"lc2,omitempty"`
	LCErr   string                `json:"lcerr,omitempty"`
	Inter   map[string][2]c17wRes `json:"inter,omitempty"`
}

func c17DumpInfo(fi *fieldInfo) any {
	if fi == nil {
		return nil
	}
	ch := map[string]any{}
	for k, v := range fi.children {
		ch[k] = c17DumpInfo(v)
	}
	return map[string]any{"c": ch, "m": c17DumpInfo(fi.mapField)}
}

// JSON text of the lower-cased map; a nil []any (what toLowerCaseInterface makes of an empty
// array) is written as [null], which no generated document contains.
func c17WriteLC(b *bytes.Buffer, v any) error {
	switch vv := v.(type) {
	case map[string]any:
		keys := make([]string, 0, len(vv))
		for k := range vv {
			keys = append(keys, k)
		}
		sort.Strings(keys)
		b.WriteByte('{')
		for i, k := range keys {
			if i > 0 {
				b.WriteByte(',')
			}
			kb, _ := json.Marshal(k)
			b.Write(kb)
			b.WriteByte(':')
			if err := c17WriteLC(b, vv[k]); err != nil {
				return err
			}
		}
		b.WriteByte('}')
	case []any:
		if vv == nil {
			b.WriteString("[null]")
			return nil
		}
		b.WriteByte('[')
		for i, x := range vv {
			if i > 0 {
				b.WriteByte(',')
			}
			if err := c17WriteLC(b, x); err != nil {
				return err
			}
		}
		b.WriteByte(']')
	case json.Number:
		b.WriteString(vv.String())
	case string, bool, nil:
		x, _ := json.Marshal(vv)
		b.Write(x)
	default:
		return fmt.Errorf("unexpected %T in the lower-cased map", v)
	}
	return nil
}

func c17Lower(info *fieldInfo, text string) (string, error) {
	var m map[string]any
	if err := jsonx.Unmarshal([]byte(text), &m); err != nil {
		return "", err
	}
	var b bytes.Buffer
	if err := c17WriteLC(&b, toLowerCaseKeyMap(m, info)); err != nil {
		return "", err
	}
	return b.String(), nil
}

func c17wRun(c c17wCase) (o c17wOut) {
	o.ID = c.ID
	defer func() {
		if p := recover(); p != nil {
			o.Fail = fmt.Sprint("panic: ", p)
		}
	}()
	rt, err := C17BuildStruct(c.Type)
	if err != nil {
		o.Fail = "build type: " + err.Error()
		return
	}
	o.TDesc = C17Describe(rt)
	if c.YAML != "" || c.TOML != "" {
		o.Inter = map[string][2]c17wRes{
			"yaml": c17Interleave(rt, c.YAML, encoding.YamlToJson, LoadFromYamlBytes),
			"toml": c17Interleave(rt, c.TOML, encoding.TomlToJson, LoadFromTomlBytes),
		}
	}
	// LoadFromJsonBytes calls buildFieldsInfo(reflect.TypeOf(v), "") with v a pointer to the struct
	info, err := buildFieldsInfo(reflect.PointerTo(rt), "")
	if err != nil {
		o.InfoErr = err.Error()
		return
	}
	o.Info = c17DumpInfo(info)
	if c.JSON != "" {
		if o.LC, err = c17Lower(info, c.JSON); err != nil {
			o.LCErr = err.Error()
		}
	}
	if c.JSON2 != "" {
		if o.LC2, err = c17Lower(info, c.JSON2); err != nil {
			o.LCErr = err.Error()
		}
	}
	return
}

func TestVerifC17Conf(t *testing.T) {
	in, out := os.Getenv("VERIF_IN"), os.Getenv("VERIF_OUT")
	if in == "" || out == "" {
		t.Skip("no VERIF_IN/VERIF_OUT")
	}
	data, err := os.ReadFile(in)
	if err != nil {
		t.Fatal(err)
	}
	var cases []c17wCase
	if err := json.Unmarshal(data, &cases); err != nil {
		t.Fatal(err)
	}
	f, err := os.Create(out)
	if err != nil {
		t.Fatal(err)
	}
	defer f.Close()
	w := bufio.NewWriter(f)
	defer w.Flush()
	for _, c := range cases {
		b, err := json.Marshal(c17wRun(c))
		if err != nil {
			t.Fatal(err)
		}
		w.Write(b)
		w.WriteByte('\n')
	}
}
