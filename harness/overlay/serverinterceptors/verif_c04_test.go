package serverinterceptors

// White-box executor for C04 (zRPC server side), injected with `go test -overlay`
// together with a copy of harness/cmd/c04/slotctl.go (package clause rewritten).

import (
	"bufio"
	"context"
	"encoding/json"
	"errors"
	"fmt"
	"os"
	"strconv"
	"strings"
	"testing"
	"time"

	"google.golang.org/grpc"
	"google.golang.org/grpc/codes"
	"google.golang.org/grpc/status"
)

func verifMethod(id int64) string {
	if id == 0 {
		return ""
	}
	return "/svc/m" + strconv.FormatInt(id, 10)
}

func verifErrID(err error) int64 {
	if err == nil {
		return 0
	}
	if st, ok := status.FromError(err); ok {
		switch st.Code() {
		case codes.DeadlineExceeded:
			return -1
		case codes.Canceled:
			return -2
		}
	}
	switch {
	case errors.Is(err, context.DeadlineExceeded):
		return -3 // a bare context error instead of a gRPC status
	case errors.Is(err, context.Canceled):
		return -4
	}
	s := err.Error()
	if n, e := strconv.ParseInt(strings.TrimPrefix(s, "e"), 10, 64); e == nil && strings.HasPrefix(s, "e") {
		return n
	}
	return -99
}

func verifCall(interceptor grpc.UnaryServerInterceptor, info *grpc.UnaryServerInfo, parent context.Context,
	work func(ctx context.Context) (int64, int64)) (int64, int64) {
	resp, err := interceptor(parent, "req", info, func(ctx context.Context, req any) (any, error) {
		r, e := work(ctx)
		var resp any
		if r != 0 {
			resp = r
		}
		if e != 0 {
			return resp, fmt.Errorf("e%d", e)
		}
		return resp, nil
	})
	var r int64
	switch v := resp.(type) {
	case nil:
	case int64:
		r = v
	default:
		r = -99
	}
	return r, verifErrID(err)
}

func verifIO(t *testing.T, cases any) *bufio.Writer {
	data, err := os.ReadFile(os.Getenv("VERIF_IN"))
	if err != nil {
		t.Skip("no VERIF_IN")
	}
	if err := json.Unmarshal(data, cases); err != nil {
		t.Fatal(err)
	}
	f, err := os.Create(os.Getenv("VERIF_OUT"))
	if err != nil {
		t.Fatal(err)
	}
	w := bufio.NewWriter(f)
	t.Cleanup(func() {
		w.Flush()
		f.Close()
	})
	return w
}

func TestVerifC04(t *testing.T) {
	var cases []SlotCase
	w := verifIO(t, &cases)
	for _, c := range cases {
		var confs []MethodTimeoutConf
		for _, mt := range c.Confs {
			confs = append(confs, MethodTimeoutConf{FullMethod: verifMethod(mt[0]), Timeout: time.Duration(mt[1])})
		}
		interceptor := UnaryTimeoutInterceptor(time.Duration(c.DurNs), confs...)
		info := &grpc.UnaryServerInfo{FullMethod: verifMethod(c.Method)}
		out := runSlot(c, func(parent context.Context, work func(ctx context.Context) (int64, int64)) (int64, int64) {
			return verifCall(interceptor, info, parent, work)
		})
		b, _ := json.Marshal(out)
		w.Write(b)
		w.WriteByte('\n')
	}
}

// several calls through ONE interceptor instance
func TestVerifC04Seq(t *testing.T) {
	var cases []SlotSeqCase
	w := verifIO(t, &cases)
	for _, c := range cases {
		interceptor := UnaryTimeoutInterceptor(time.Duration(c.DurNs))
		out := runSlotSeq(c, func(i int, parent context.Context, work func(ctx context.Context) (int64, int64)) (int64, int64) {
			info := &grpc.UnaryServerInfo{FullMethod: verifMethod(int64(i + 1))}
			return verifCall(interceptor, info, parent, work)
		})
		b, _ := json.Marshal(out)
		w.Write(b)
		w.WriteByte('\n')
	}
}
