// Executor for property C02 (wrappers): drives the real UnarySheddingInterceptor
//
//	kind "rpc":  one call at a time against a recording Shedder (every outcome class);
//	kind "wrpc": overlapping calls against ONE long-lived real load.NewAdaptiveShedder behind a
//	             forwarding Shedder (virtual clock, injected CPU gauge), handlers blocked on gates.
//
// Injected with `go test -overlay`; never written under /repo.
package serverinterceptors

import (
	"bufio"
	"bytes"
	"context"
	"encoding/json"
	"errors"
	"fmt"
	"math"
	"os"
	"reflect"
	"testing"
	"time"

	"github.com/zeromicro/go-zero/core/load"
	"github.com/zeromicro/go-zero/core/logx"
	"github.com/zeromicro/go-zero/core/stat"
	"github.com/zeromicro/go-zero/core/timex"
	"google.golang.org/grpc"
	"google.golang.org/grpc/codes"
	"google.golang.org/grpc/status"
)

type c02Rec struct {
	shed                  bool
	allows, passes, fails int
}

type c02Prom struct{ r *c02Rec }

func (p c02Prom) Pass() { p.r.passes++ }
func (p c02Prom) Fail() { p.r.fails++ }

func (r *c02Rec) Allow() (load.Promise, error) {
	r.allows++
	if r.shed {
		return nil, load.ErrServiceOverloaded
	}
	return c02Prom{r}, nil
}

type c02RpcReq struct {
	Shed bool   `json:"shed"`
	Out  string `json:"out"` // ok | err | deadline | wrapped | status_deadline | panic
}

type c02RpcCase struct {
	ID   int         `json:"id"`
	Kind string      `json:"kind"`
	Reqs []c02RpcReq `json:"reqs"`
	// kind wrpc
	Window    int64    `json:"window"`
	Buckets   int      `json:"buckets"`
	Threshold int64    `json:"threshold"`
	T0        int64    `json:"t0"`
	Omit      []string `json:"omit"` // options not passed to the constructor (the case carries the defaults)
	Ops       [][]any  `json:"ops"`  // ["start", now, cpu, reqIndex] | ["finish", opIndex, now]
}

type c02RpcObs struct {
	Runs   int    `json:"runs"`
	Allows int    `json:"allows"`
	Passes int    `json:"passes"`
	Fails  int    `json:"fails"`
	Vis    string `json:"vis"`
	Val    bool   `json:"val"` // the handler's value came back
	Panic  bool   `json:"panic"`
}

var errC02 = errors.New("verif plain error")

func c02PanicVis(e any) string {
	if err, ok := e.(error); ok && err == load.ErrServiceOverloaded {
		return "panic_overloaded"
	}
	return "panic"
}

func c02Classify(err error) string {
	switch {
	case err == nil:
		return "ok"
	case err == context.DeadlineExceeded:
		return "deadline"
	case errors.Is(err, context.DeadlineExceeded):
		return "wrapped"
	case err == errC02:
		return "err"
	case err == load.ErrServiceOverloaded:
		return "overloaded"
	case err == context.Canceled:
		return "canceled"
	case status.Code(err) == codes.ResourceExhausted:
		return "exhausted"
	case status.Code(err) == codes.DeadlineExceeded:
		return "status_deadline"
	}
	return "other:" + err.Error()
}

// ---- kind wrpc ----------------------------------------------------------------

type c02Fwd struct {
	real load.Shedder
	cur  *c02Flight
}

type c02Flight struct {
	allows, passes, fails, runs int
	gate                        chan struct{}
	entered, returned           chan struct{}
	vis                         string
	val                         bool
	panicked                    bool
	released                    bool
}

type c02FwdProm struct {
	p load.Promise
	f *c02Flight
}

func (p c02FwdProm) Pass() { p.f.passes++; p.p.Pass() }
func (p c02FwdProm) Fail() { p.f.fails++; p.p.Fail() }

func (s *c02Fwd) Allow() (load.Promise, error) {
	f := s.cur
	f.allows++
	p, err := s.real.Allow()
	if err != nil {
		return nil, err
	}
	return c02FwdProm{p, f}, nil
}

type c02WObs struct {
	K      string `json:"k"`
	Shed   bool   `json:"shed"`
	Done   bool   `json:"done"`
	Runs   int    `json:"runs"`
	Allows int    `json:"allows"`
	Passes int    `json:"passes"`
	Fails  int    `json:"fails"`
	Vis    string `json:"vis"`
	Val    bool   `json:"val"`
	Panic  bool   `json:"panic"`
	Fl     int64  `json:"fl"`
	Am     int64  `json:"am"`
	Ae     int    `json:"ae"`
}

func c02Num(v any) int64 {
	switch x := v.(type) {
	case json.Number:
		n, err := x.Int64()
		if err != nil {
			panic("verif c02: not an int64: " + x.String())
		}
		return n
	case float64:
		if x != math.Trunc(x) || math.Abs(x) >= 1<<53 {
			panic("verif c02: number decoded through float64 is not exact")
		}
		return int64(x)
	}
	panic("verif c02: not a number")
}

// clock values go up to ~3e16 ns: beyond 2^53, so numbers inside the [][]any operations must NOT be
// decoded through float64 (json.Unmarshal's default) - they would be rounded to multiples of 4 ns.
func c02Decode(data []byte, v any) error {
	d := json.NewDecoder(bytes.NewReader(data))
	d.UseNumber()
	return d.Decode(v)
}

func c02Dyadic(v float64) (int64, int) {
	if v == 0 || math.IsNaN(v) || math.IsInf(v, 0) {
		return 0, 0
	}
	fr, e := math.Frexp(v)
	return int64(fr * (1 << 53)), e - 53
}

// flying / avgFlying of the real shedder, read (not written) through reflection
func c02Peek(sh load.Shedder) (int64, float64) {
	v := reflect.ValueOf(sh)
	if v.Kind() != reflect.Ptr || v.Elem().Kind() != reflect.Struct {
		return -1, 0
	}
	e := v.Elem()
	fl, avg := e.FieldByName("flying"), e.FieldByName("avgFlying")
	if !fl.IsValid() || !avg.IsValid() || fl.Kind() != reflect.Int64 || avg.Kind() != reflect.Float64 {
		return -1, 0
	}
	return fl.Int(), avg.Float()
}

func c02Handler(out string, before func()) func(ctx context.Context, req any) (any, error) {
	return func(ctx context.Context, req any) (any, error) {
		before()
		switch out {
		case "err":
			return "v", errC02
		case "deadline":
			return "v", context.DeadlineExceeded
		case "wrapped":
			return "v", fmt.Errorf("downstream: %w", context.DeadlineExceeded)
		case "status_deadline":
			return "v", status.Error(codes.DeadlineExceeded, "late")
		case "panic":
			panic("verif")
		case "overloaded":
			return "v", load.ErrServiceOverloaded
		case "own_exhausted":
			return "v", status.Error(codes.ResourceExhausted, load.ErrServiceOverloaded.Error())
		case "canceled":
			return "v", context.Canceled
		case "panic_overloaded":
			panic(load.ErrServiceOverloaded)
		}
		return "v", nil
	}
}

func c02RunWrpc(c c02RpcCase, metrics *stat.Metrics) (obs []c02WObs, stable bool, err string) {
	stable = true
	timex.SetFakeNow(time.Duration(c.T0))
	omit := map[string]bool{}
	for _, o := range c.Omit {
		omit[o] = true
	}
	var opts []load.ShedderOption
	if !omit["window"] {
		opts = append(opts, load.WithWindow(time.Duration(c.Window)))
	}
	if !omit["buckets"] {
		opts = append(opts, load.WithBuckets(c.Buckets))
	}
	if !omit["threshold"] {
		opts = append(opts, load.WithCpuThreshold(c.Threshold))
	}
	real := load.NewAdaptiveShedder(opts...)
	fwd := &c02Fwd{real: real}
	icp := UnarySheddingInterceptor(fwd, metrics)
	flights := map[int]*c02Flight{}
	defer func() {
		for _, f := range flights {
			if !f.released {
				close(f.gate)
			}
		}
	}()
	snap := func(o *c02WObs) {
		fl, avg := c02Peek(real)
		o.Fl = fl
		o.Am, o.Ae = c02Dyadic(avg)
	}
	for i, op := range c.Ops {
		var o c02WObs
		kind, _ := op[0].(string)
		o.K = kind
		switch kind {
		case "start":
			timex.SetFakeNow(time.Duration(c02Num(op[1])))
			cpu := c02Num(op[2])
			q := c.Reqs[int(c02Num(op[3]))]
			f := &c02Flight{gate: make(chan struct{}), entered: make(chan struct{}), returned: make(chan struct{})}
			flights[i] = f
			handler := c02Handler(q.Out, func() {
				f.runs++
				f.entered <- struct{}{}
				<-f.gate
			})
			fwd.cur = f
			stat.VerifSetCpuUsage(cpu)
			go func() {
				defer close(f.returned)
				defer func() {
					if e := recover(); e != nil {
						f.panicked = true
						f.vis = c02PanicVis(e)
					}
				}()
				val, err := icp(context.Background(), "req", &grpc.UnaryServerInfo{FullMethod: "/verif/c02"}, handler)
				f.vis = c02Classify(err)
				f.val = val == "v"
			}()
			select {
			case <-f.entered:
			case <-f.returned:
				o.Shed = true
				o.Vis = f.vis
				f.released = true
				close(f.gate)
			case <-time.After(20 * time.Second):
				return nil, true, fmt.Sprintf("op %d: call neither entered its handler nor returned", i)
			}
			if stat.CpuUsage() != cpu {
				stable = false
			}
			o.Runs, o.Allows = f.runs, f.allows
		case "finish":
			f := flights[int(c02Num(op[1]))]
			if f != nil && !f.released {
				timex.SetFakeNow(time.Duration(c02Num(op[2])))
				f.released = true
				close(f.gate)
				select {
				case <-f.returned:
				case <-time.After(20 * time.Second):
					return nil, true, fmt.Sprintf("op %d: call did not return", i)
				}
				o.Done = true
				o.Vis, o.Val, o.Panic = f.vis, f.val, f.panicked
			}
			if f != nil {
				o.Runs, o.Allows, o.Passes, o.Fails = f.runs, f.allows, f.passes, f.fails
			}
		}
		snap(&o)
		obs = append(obs, o)
	}
	return obs, stable, ""
}

func TestVerifC02Rpc(t *testing.T) {
	in := os.Getenv("VERIF_IN")
	if in == "" {
		t.Skip("VERIF_IN not set")
	}
	logx.Disable()
	load.DisableLog()
	data, err := os.ReadFile(in)
	if err != nil {
		t.Fatal(err)
	}
	var cases []c02RpcCase
	if err := c02Decode(data, &cases); err != nil {
		t.Fatal(err)
	}
	f, err := os.Create(os.Getenv("VERIF_OUT"))
	if err != nil {
		t.Fatal(err)
	}
	defer f.Close()
	w := bufio.NewWriter(f)
	defer w.Flush()
	metrics := stat.NewMetrics("verif-c02")
	for _, c := range cases {
		if c.Kind == "wrpc" {
			var wobs []c02WObs
			var errs string
			tries := 0
			for {
				tries++
				var stable bool
				wobs, stable, errs = c02RunWrpc(c, metrics)
				if stable || tries >= 20 {
					if !stable {
						errs = "cpu gauge unstable"
					}
					break
				}
			}
			m := map[string]any{"id": c.ID, "obs": wobs, "tries": tries}
			if errs != "" {
				m["err"] = errs
			}
			b, _ := json.Marshal(m)
			w.Write(b)
			w.WriteByte('\n')
			continue
		}
		var obs []c02RpcObs
		for _, q := range c.Reqs {
			q := q
			rec := &c02Rec{shed: q.Shed}
			var o c02RpcObs
			handler := c02Handler(q.Out, func() { o.Runs++ })
			icp := UnarySheddingInterceptor(rec, metrics)
			func() {
				defer func() {
					if e := recover(); e != nil {
						o.Panic = true
						o.Vis = c02PanicVis(e)
					}
				}()
				val, err := icp(context.Background(), "req", &grpc.UnaryServerInfo{FullMethod: "/verif/c02"}, handler)
				o.Vis = c02Classify(err)
				o.Val = val == "v"
			}()
			o.Allows, o.Passes, o.Fails = rec.allows, rec.passes, rec.fails
			obs = append(obs, o)
		}
		b, _ := json.Marshal(map[string]any{"id": c.ID, "obs": obs})
		w.Write(b)
		w.WriteByte('\n')
	}
}
