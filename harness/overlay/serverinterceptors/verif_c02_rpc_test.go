// Executor for property C02 (wrappers): drives the real UnarySheddingInterceptor with a
// recording Shedder.  Injected with `go test -overlay`; never written under /repo.
package serverinterceptors

import (
	"bufio"
	"context"
	"encoding/json"
	"errors"
	"fmt"
	"os"
	"testing"

	"github.com/zeromicro/go-zero/core/load"
	"github.com/zeromicro/go-zero/core/logx"
	"github.com/zeromicro/go-zero/core/stat"
	"google.golang.org/grpc"
	"google.golang.org/grpc/codes"
	"google.golang.org/grpc/status"
)

type c02Rec struct {
	shed                  bool
	allows, passes, fails int
}

type c02Prom struct{ r *c02Rec }

func (p c02Prom) Pass() { p.r.passes++ }
func (p c02Prom) Fail() { p.r.fails++ }

func (r *c02Rec) Allow() (load.Promise, error) {
	r.allows++
	if r.shed {
		return nil, load.ErrServiceOverloaded
	}
	return c02Prom{r}, nil
}

type c02RpcReq struct {
	Shed bool   `json:"shed"`
	Out  string `json:"out"` // ok | err | deadline | wrapped | status_deadline | panic
}

type c02RpcCase struct {
	ID   int         `json:"id"`
	Reqs []c02RpcReq `json:"reqs"`
}

type c02RpcObs struct {
	Runs   int    `json:"runs"`
	Allows int    `json:"allows"`
	Passes int    `json:"passes"`
	Fails  int    `json:"fails"`
	Vis    string `json:"vis"`
	Val    bool   `json:"val"` // the handler's value came back
	Panic  bool   `json:"panic"`
}

var errC02 = errors.New("verif plain error")

func c02Classify(err error) string {
	switch {
	case err == nil:
		return "ok"
	case err == context.DeadlineExceeded:
		return "deadline"
	case errors.Is(err, context.DeadlineExceeded):
		return "wrapped"
	case err == errC02:
		return "err"
	case status.Code(err) == codes.ResourceExhausted:
		return "exhausted"
	case status.Code(err) == codes.DeadlineExceeded:
		return "status_deadline"
	}
	return "other:" + err.Error()
}

func TestVerifC02Rpc(t *testing.T) {
	in := os.Getenv("VERIF_IN")
	if in == "" {
		t.Skip("VERIF_IN not set")
	}
	logx.Disable()
	load.DisableLog()
	data, err := os.ReadFile(in)
	if err != nil {
		t.Fatal(err)
	}
	var cases []c02RpcCase
	if err := json.Unmarshal(data, &cases); err != nil {
		t.Fatal(err)
	}
	f, err := os.Create(os.Getenv("VERIF_OUT"))
	if err != nil {
		t.Fatal(err)
	}
	defer f.Close()
	w := bufio.NewWriter(f)
	defer w.Flush()
	metrics := stat.NewMetrics("verif-c02")
	for _, c := range cases {
		var obs []c02RpcObs
		for _, q := range c.Reqs {
			q := q
			rec := &c02Rec{shed: q.Shed}
			var o c02RpcObs
			handler := func(ctx context.Context, req any) (any, error) {
				o.Runs++
				switch q.Out {
				case "err":
					return "v", errC02
				case "deadline":
					return "v", context.DeadlineExceeded
				case "wrapped":
					return "v", fmt.Errorf("downstream: %w", context.DeadlineExceeded)
				case "status_deadline":
					return "v", status.Error(codes.DeadlineExceeded, "late")
				case "panic":
					panic("verif")
				}
				return "v", nil
			}
			icp := UnarySheddingInterceptor(rec, metrics)
			func() {
				defer func() {
					if e := recover(); e != nil {
						o.Panic = true
						o.Vis = "panic"
					}
				}()
				val, err := icp(context.Background(), "req", &grpc.UnaryServerInfo{FullMethod: "/verif/c02"}, handler)
				o.Vis = c02Classify(err)
				o.Val = val == "v"
			}()
			o.Allows, o.Passes, o.Fails = rec.allows, rec.passes, rec.fails
			obs = append(obs, o)
		}
		b, _ := json.Marshal(map[string]any{"id": c.ID, "obs": obs})
		w.Write(b)
		w.WriteByte('\n')
	}
}
