//go:build verif

// Custom TaskContainers for property C11: a bare PeriodicalExecutor driven with containers
// whose RemoveAll hands out values of every reflect kind hasTasks distinguishes - slice, map,
// chan, array (measured with Len()), struct, int, string, bool, pointer (the "unknown type"
// branch), through a named interface, and the untyped nil - including batches that are the
// ZERO VALUE of their type although tasks were added (the batch that holds only task 0: an
// offset range {0, nil}, a gauge set to 0, a flag set to false, an empty payload, a typed nil
// pointer).  "Nothing added" is rendered as the untyped nil, as the zero value of the batch
// type or as a non-zero idle value / an empty non-nil collection.
//
// Every value a container hands out is recorded together with the tasks the container put
// into it and with what reflect says about it (kind, Len, IsZero); Execute decodes the value
// it RECEIVES back into tasks - that is what the exactly-once judgement is made on.
//
// This file is ADDED to package executors at build time (-overlay); nothing is written
// under /repo.
package executors

import (
	"reflect"
	"sort"
	"strconv"
	"strings"
	"sync/atomic"
)

// VerifRemoved is one value handed out by a container's RemoveAll.
type VerifRemoved struct {
	IDs  []int64 `json:"ids"`
	Kind string  `json:"kind"`
	Len  int     `json:"len"`
	Zero bool    `json:"zero"`
}

// what hasTasks could look at
func vReflectFacts(v any) (kind string, n int, zero bool) {
	if v == nil {
		return "nil", 0, true
	}
	rv := reflect.ValueOf(v)
	switch rv.Kind() {
	case reflect.Array:
		kind, n = "array", rv.Len()
	case reflect.Chan:
		kind, n = "chan", rv.Len()
	case reflect.Map:
		kind, n = "map", rv.Len()
	case reflect.Slice:
		kind, n = "slice", rv.Len()
	case reflect.Struct:
		kind = "struct"
	case reflect.Int, reflect.Int8, reflect.Int16, reflect.Int32, reflect.Int64:
		kind = "int"
	case reflect.String:
		kind = "string"
	case reflect.Bool:
		kind = "bool"
	case reflect.Ptr:
		kind = "ptr"
	default:
		kind = "other"
	}
	return kind, n, rv.IsZero()
}

func (rt *VerifRT) record(ids []int64, v any) {
	k, n, z := vReflectFacts(v)
	rt.mu.Lock()
	rt.removed = append(rt.removed, VerifRemoved{IDs: append([]int64{}, ids...), Kind: k, Len: n, Zero: z})
	rt.mu.Unlock()
}

// vSpy records what the container of a built-in kind hands out (the container itself is untouched)
type vSpy struct {
	inner TaskContainer
	rt    *VerifRT
	ids   func(any) []int64
}

func (s *vSpy) AddTask(task any) bool { return s.inner.AddTask(task) }
func (s *vSpy) Execute(tasks any)     { s.inner.Execute(tasks) }
func (s *vSpy) RemoveAll() any {
	v := s.inner.RemoveAll()
	s.rt.record(s.ids(v), v)
	return v
}

func vSpyOn(pe *PeriodicalExecutor, rt *VerifRT, ids func(any) []int64) {
	VerifWrapContainer(pe, func(c TaskContainer) TaskContainer { return &vSpy{inner: c, rt: rt, ids: ids} })
}

func vSliceIDs(v any) []int64 {
	if s, ok := v.([]any); ok {
		return vIDs(s)
	}
	return nil
}

type vAggS struct {
	First int64
	Rest  []int64
}

type vAggP struct{ IDs []int64 }

// a named interface type the struct shape can be handed out through
type vBatchI interface{ verifBatch() }

func (vAggS) verifBatch() {}

type vAgg struct {
	rt    *VerifRT
	shape string // slice | map | chan | array | struct | int | string | bool | ptr | iface
	empty string // nil | zero | mark
	ids   []int64
	size  int
	maxw  int
	// Execute calls for batches without tasks (idle aggregates of unknown kinds)
	idleRuns int32
}

// VerifZeroTaskOK: may task 0 be added to this instance?  (When "nothing added" is rendered as
// the zero value of an aggregating type, the zero value cannot also stand for the batch [0].)
func vAggAccepts(shape, empty string, id int64) bool {
	switch shape {
	case "bool":
		if id != 0 && id != 1 {
			return false
		}
	}
	if id == 0 && empty == "zero" {
		switch shape {
		case "struct", "iface", "int", "string", "bool", "ptr":
			return false
		}
	}
	return id >= 0
}

func (c *vAgg) AddTask(task any) bool {
	t := task.(vTask)
	c.ids = append(c.ids, t.id)
	c.size += t.w
	return c.size >= c.maxw
}

func (c *vAgg) RemoveAll() any {
	ids := c.ids
	c.ids = nil
	c.size = 0
	v := c.render(ids)
	c.rt.record(ids, v)
	return v
}

func (c *vAgg) Execute(tasks any) {
	ids, ok := c.decode(tasks)
	if !ok {
		ids = []int64{-999} // not a batch this container handed out
	}
	if len(ids) == 0 {
		atomic.AddInt32(&c.idleRuns, 1)
		return
	}
	g := c.rt.Park(ids)
	end := ids
	if c.shape != "chan" { // a channel can be drained only once
		if again, ok2 := c.decode(tasks); ok2 {
			end = again
		} else {
			end = []int64{-999}
		}
	}
	g.SetEnd(end)
	if c.rt.Bad(ids) {
		panic("verif: bad task")
	}
}

func (c *vAgg) zeroMeansEmpty() bool { return c.empty == "zero" }

func (c *vAgg) render(ids []int64) any {
	n := len(ids)
	cp := append([]int64{}, ids...)
	switch c.shape {
	case "slice":
		if n == 0 {
			switch c.empty {
			case "nil":
				return nil
			case "zero":
				return []int64(nil)
			}
			return []int64{}
		}
		return cp
	case "map":
		if n == 0 {
			switch c.empty {
			case "nil":
				return nil
			case "zero":
				return map[int64]int(nil)
			}
			return map[int64]int{}
		}
		m := make(map[int64]int, n)
		for i, id := range ids {
			m[id] = i
		}
		return m
	case "chan":
		if n == 0 {
			switch c.empty {
			case "nil":
				return nil
			case "zero":
				return (chan int64)(nil)
			}
			return make(chan int64, 1)
		}
		ch := make(chan int64, n)
		for _, id := range ids {
			ch <- id
		}
		return ch
	case "array":
		if n == 0 && c.empty == "nil" {
			return nil
		}
		a := reflect.New(reflect.ArrayOf(n, reflect.TypeOf(int64(0)))).Elem()
		for i, id := range ids {
			a.Index(i).SetInt(id)
		}
		return a.Interface()
	case "struct", "iface":
		var v vAggS
		if n == 0 {
			switch c.empty {
			case "nil":
				return nil
			case "zero":
			default:
				v.First = -1
			}
		} else {
			v.First = ids[0]
			if n > 1 {
				v.Rest = cp[1:]
			}
		}
		if c.shape == "iface" {
			var b vBatchI = v
			return b
		}
		return v
	case "int":
		if n == 0 {
			switch c.empty {
			case "nil":
				return nil
			case "zero":
				return int64(0)
			}
			return int64(-1)
		}
		if n > 1 {
			panic("verif: the int container holds one task at a time")
		}
		return ids[0]
	case "string":
		if n == 0 {
			switch c.empty {
			case "nil":
				return nil
			case "zero":
				return ""
			}
			return "-"
		}
		parts := make([]string, n)
		for i, id := range ids {
			if id != 0 {
				parts[i] = strconv.FormatInt(id, 10)
			}
		}
		return strings.Join(parts, ",")
	case "bool":
		if n == 0 {
			if c.empty == "nil" {
				return nil
			}
			return false
		}
		if n > 1 {
			panic("verif: the bool container holds one task at a time")
		}
		return ids[0] != 0
	case "ptr":
		if n == 0 {
			switch c.empty {
			case "nil":
				return nil
			case "zero":
				return (*vAggP)(nil)
			}
			return &vAggP{}
		}
		if n == 1 && ids[0] == 0 {
			return (*vAggP)(nil)
		}
		return &vAggP{IDs: cp}
	}
	panic("verif: unknown shape " + c.shape)
}

// decode reads the tasks back out of a value Execute received
func (c *vAgg) decode(v any) ([]int64, bool) {
	zero := func() []int64 {
		if c.zeroMeansEmpty() {
			return nil
		}
		return []int64{0}
	}
	if v == nil {
		return nil, true
	}
	switch c.shape {
	case "slice":
		s, ok := v.([]int64)
		return append([]int64{}, s...), ok
	case "map":
		m, ok := v.(map[int64]int)
		if !ok {
			return nil, false
		}
		ids := make([]int64, 0, len(m))
		for id := range m {
			ids = append(ids, id)
		}
		sort.Slice(ids, func(i, j int) bool { return m[ids[i]] < m[ids[j]] })
		return ids, true
	case "chan":
		ch, ok := v.(chan int64)
		if !ok {
			return nil, false
		}
		var ids []int64
		for ch != nil && len(ch) > 0 {
			ids = append(ids, <-ch)
		}
		return ids, true
	case "array":
		rv := reflect.ValueOf(v)
		if rv.Kind() != reflect.Array {
			return nil, false
		}
		ids := make([]int64, rv.Len())
		for i := range ids {
			ids[i] = rv.Index(i).Int()
		}
		return ids, true
	case "struct", "iface":
		s, ok := v.(vAggS)
		if !ok {
			return nil, false
		}
		if s.First == -1 {
			return nil, true
		}
		if s.First == 0 && s.Rest == nil {
			return zero(), true
		}
		return append([]int64{s.First}, s.Rest...), true
	case "int":
		i, ok := v.(int64)
		if !ok {
			return nil, false
		}
		if i == -1 {
			return nil, true
		}
		if i == 0 {
			return zero(), true
		}
		return []int64{i}, true
	case "string":
		s, ok := v.(string)
		if !ok {
			return nil, false
		}
		if s == "-" {
			return nil, true
		}
		if s == "" {
			return zero(), true
		}
		var ids []int64
		for _, p := range strings.Split(s, ",") {
			if p == "" {
				ids = append(ids, 0)
				continue
			}
			id, err := strconv.ParseInt(p, 10, 64)
			if err != nil {
				return nil, false
			}
			ids = append(ids, id)
		}
		return ids, true
	case "bool":
		b, ok := v.(bool)
		if !ok {
			return nil, false
		}
		if b {
			return []int64{1}, true
		}
		return zero(), true
	case "ptr":
		p, ok := v.(*vAggP)
		if !ok {
			return nil, false
		}
		if p == nil {
			return zero(), true
		}
		return append([]int64{}, p.IDs...), true
	}
	return nil, false
}
