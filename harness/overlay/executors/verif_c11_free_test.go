// Free-running monitor for property C11 (thorough tier, run under -race): producers,
// Flush and Wait callers and a real 1ms ticker run uncontrolled; a multiset monitor
// checks that every added task reaches the callback exactly once (panicking batches
// included), that a batch reads the same at the end of a (sometimes slow) callback as at its
// start, and that nothing is left after the final Wait.  A few rounds (VERIF_FREE_ROUNDS,
// result in VERIF_FREE_OUT) also ride along with every quick run, without -race: they are
// the only runs with the executor's own ticker (timex.NewTicker).  Injected with -overlay.
package executors

import (
	"encoding/json"
	"math/rand"
	"os"
	"sync"
	"testing"
	"time"

	"github.com/zeromicro/go-zero/core/logx"
	"github.com/zeromicro/go-zero/core/timex"
)

type vFreeResult struct {
	Round   int     `json:"round"`
	Kind    string  `json:"kind"`
	Maxw    int     `json:"maxw"`
	Added   int     `json:"added"`
	Dup     []int64 `json:"dup"`
	Missing []int64 `json:"missing"`
	Unknown []int64 `json:"unknown"`
	Changed int     `json:"changed"` // batches that did not read the same at the end of their callback
}

func TestVerifC11Free(t *testing.T) {
	outp := os.Getenv("VERIF_FREE_OUT")
	nrounds := 40
	if outp == "" {
		if os.Getenv("VERIF_IN") != "" {
			if data, err := os.ReadFile(os.Getenv("VERIF_IN")); err != nil || len(data) > 4 {
				t.Skip("forced-schedule run without VERIF_FREE_OUT")
			}
		}
		outp = os.Getenv("VERIF_OUT")
	} else if s := os.Getenv("VERIF_FREE_ROUNDS"); s != "" {
		json.Unmarshal([]byte(s), &nrounds)
	}
	if outp == "" {
		t.Skip("VERIF_OUT not set")
	}
	logx.Disable()
	timex.ClearFake()
	per := 150
	if nrounds < 40 {
		per = 60
	}
	seed := int64(1)
	if s := os.Getenv("VERIF_SEED"); s != "" {
		json.Unmarshal([]byte(s), &seed)
	}
	var results []vFreeResult
	for round := 0; round < nrounds; round++ {
		rng := rand.New(rand.NewSource(seed*1000 + int64(round)))
		kind := []string{"bulk", "chunk"}[round%2]
		maxw := 1 + rng.Intn(4)
		var mu sync.Mutex
		seen := map[int64]int{}
		changed := 0
		var ncb int64
		cb := func(tasks []any) {
			mu.Lock()
			bad := false
			first := make([]int64, len(tasks))
			for i, x := range tasks {
				id, _ := x.(int64)
				first[i] = id
				seen[id]++
				if id%37 == 0 {
					bad = true
				}
			}
			ncb++
			slow := ncb%5 == 0
			mu.Unlock()
			if slow { // a slow sink: other goroutines add and flush meanwhile
				time.Sleep(300 * time.Microsecond)
			}
			mu.Lock()
			for i, x := range tasks {
				if id, _ := x.(int64); id != first[i] {
					changed++
					break
				}
			}
			mu.Unlock()
			if bad {
				panic("verif: bad task")
			}
		}
		var add func(id int64)
		var flush, wait func()
		if kind == "bulk" {
			be := NewBulkExecutor(cb, WithBulkTasks(maxw), WithBulkInterval(time.Millisecond))
			add, flush, wait = func(id int64) { be.Add(id) }, be.Flush, be.Wait
		} else {
			ce := NewChunkExecutor(cb, WithChunkBytes(maxw*3), WithFlushInterval(time.Millisecond))
			add, flush, wait = func(id int64) { ce.Add(id, int(id%4)) }, ce.Flush, ce.Wait
		}
		const producers = 3
		var wg sync.WaitGroup
		for p := 0; p < producers; p++ {
			wg.Add(1)
			go func(p int, r *rand.Rand) {
				defer wg.Done()
				for i := 0; i < per; i++ {
					add(int64(p*per + i + 1))
					switch r.Intn(40) {
					case 0:
						flush()
					case 1:
						wait()
					case 2:
						time.Sleep(time.Duration(r.Intn(15)) * time.Millisecond) // lets the flusher go idle and quit
					}
				}
			}(p, rand.New(rand.NewSource(seed*7919+int64(round*10+p))))
		}
		wg.Wait()
		wait()
		// a batch handed over by a producer that returned may still be on its way (F6): a
		// second Wait after all producers returned covers it, since Add returns only after
		// the flusher entered the execution of the batch
		wait()
		res := vFreeResult{Round: round, Kind: kind, Maxw: maxw, Added: producers * per}
		mu.Lock()
		res.Changed = changed
		for id := int64(1); id <= int64(producers*per); id++ {
			switch n := seen[id]; {
			case n == 0:
				res.Missing = append(res.Missing, id)
			case n > 1:
				res.Dup = append(res.Dup, id)
			}
		}
		for id := range seen {
			if id < 1 || id > int64(producers*per) {
				res.Unknown = append(res.Unknown, id)
			}
		}
		mu.Unlock()
		results = append(results, res)
	}
	b, _ := json.Marshal(results)
	os.WriteFile(outp, append(b, '\n'), 0o644)
}
