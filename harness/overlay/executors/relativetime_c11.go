// C11 variant of the shared virtual-clock overlay (same API plus SinceHook, called at the
// start of Since: the executor's only caller is shallQuit, which lets the harness park the
// flusher between its tick Flush and the idle-quit decision).
// Overlay replacement for core/timex/relativetime.go, injected at build time with
// `go build/test -overlay` by the verification harness (never committed to /repo).
// Now/Since keep their meaning; once a fake time has been set they read an atomic
// virtual clock that the harness advances.
package timex

import (
	"sync/atomic"
	"time"
)

// Use the long enough past time as start time, in case timex.Now() - lastTime equals 0.
var initTime = time.Now().AddDate(-1, -1, -1)

var (
	fakeOn  atomic.Bool
	fakeNow atomic.Int64
)

// Now returns a relative time duration since initTime, which is not important.
// The caller only needs to care about the relative value.
func Now() time.Duration {
	if fakeOn.Load() {
		return time.Duration(fakeNow.Load())
	}
	return time.Since(initTime)
}

// Since returns a diff since given d.
func Since(d time.Duration) time.Duration {
	if h := SinceHook.Load(); h != nil {
		(*h)()
	}
	return Now() - d
}

// SinceHook, when set, is called at the start of every Since.
var SinceHook atomic.Pointer[func()]

// SetFakeNow switches to the virtual clock and sets it to d.
func SetFakeNow(d time.Duration) {
	fakeNow.Store(int64(d))
	fakeOn.Store(true)
}

// AdvanceFake advances the virtual clock by d.
func AdvanceFake(d time.Duration) {
	fakeNow.Add(int64(d))
	fakeOn.Store(true)
}

// FakeNow returns the virtual clock.
func FakeNow() time.Duration {
	return time.Duration(fakeNow.Load())
}

// ClearFake switches back to the real clock.
func ClearFake() {
	fakeOn.Store(false)
}
