//go:build verif

// Forced-schedule controller for property C11.  This file is ADDED to package executors
// at build time with `go build/test -overlay` (never written under /repo); it is shared by
// the white-box executor of this package (verif_c11_test.go) and by the executor of
// core/stores/sqlx (BulkInserter, harness/overlay/sqlx/verif_c11_sqlx_test.go), which needs
// the unexported fields of the PeriodicalExecutor inside the BulkInserter.
//
// A case runs SEVERAL executor instances at once (bulk / chunk / bare periodical with a
// custom container / periodical with a container whose batches are not slices / foreign
// kinds supplied by a factory).  Client goroutines start Add/Flush/Wait/Sync calls one at a
// time, every Execute callback parks on a gate until the controller releases it, ticks come
// from fake tickers, time from the virtual clock overlay of core/timex, the shutdown
// listeners are triggered with proc.Shutdown().  After every controller action the
// controller waits for quiescence (every goroutine that belongs to go-zero or to the harness
// is blocked; the census and the observation are taken twice and must coincide) and records
// what is observable of EVERY instance.  The content of a batch is recorded when its
// callback starts and again when it returns.  It only executes; generation and checking are
// done elsewhere.
package executors

import (
	"bufio"
	"encoding/json"
	"os"
	"reflect"
	"runtime"
	"sort"
	"strconv"
	"strings"
	"sync"
	"sync/atomic"
	"time"

	"github.com/zeromicro/go-zero/core/proc"
	"github.com/zeromicro/go-zero/core/timex"
)

type VerifInst struct {
	Kind     string `json:"kind"` // bulk | chunk | periodical | bag | agg | <foreign>
	Shape    string `json:"shape"` // agg: the Go type of a batch (verif_c11_agg.go)
	Empty    string `json:"empty"` // agg: what RemoveAll returns when nothing was added: nil | zero | mark
	Maxw     int    `json:"maxw"`
	Interval int64  `json:"interval"`
	Nclients int    `json:"nclients"`
}

type VerifCase struct {
	ID       int         `json:"id"`
	Insts    []VerifInst `json:"insts"`
	Bad      []int64     `json:"bad"`
	Gateq    bool        `json:"gateq"`    // park a flusher at shallQuit until "qgo"
	Gates    bool        `json:"gates"`    // park a quitting flusher inside ticker.Stop() until "sgo"
	Scribble bool        `json:"scribble"` // callbacks overwrite their batch before they return
	Ops      [][]any     `json:"ops"`
}

type VerifObs struct {
	Idle     []bool    `json:"idle"`
	Parked   [][]int64 `json:"parked"`
	Cont     []int64   `json:"cont"`
	Size     int       `json:"size"`
	Inflight int       `json:"inflight"`
	Guarded  bool      `json:"guarded"`
	Cmd      bool      `json:"cmd"`
	Tick     bool      `json:"tick"`
	Benter   bool      `json:"benter"`
	Bexit    bool      `json:"bexit"`
	Qpark    bool      `json:"qpark"`
	Spark    bool      `json:"spark"`
	Split    []bool    `json:"split"` // client parked between addAndCheck and the send on commander ("adds")
}

type VerifStep struct {
	Act []any      `json:"act"`
	Obs []VerifObs `json:"obs"`
}

type VerifOut struct {
	ID    int         `json:"id"`
	Steps []VerifStep `json:"steps"`
	Err   string      `json:"err,omitempty"`
	// proc.Shutdown() was started by a "shutdown" action / had returned at the end of the history
	ShutStarted bool `json:"shut_started"`
	ShutDone    bool `json:"shut_done"`
	// per instance: every value RemoveAll handed out (not recorded for foreign kinds)
	Removed [][]VerifRemoved `json:"removed"`
}

// VerifHooks is what the controller needs from an instance.
type VerifHooks struct {
	PE    *PeriodicalExecutor
	Add   func(id int64, w int)
	Flush func(variant int) // 0: through the wrapper type, other values: kind specific
	Wait  func(variant int)
	Sync  func(fn func())  // runs fn through the public Sync (fn may be ignored by foreign kinds)
	Tasks func() []int64   // content of the container; called with the executor's lock held
	Size  func() int       // accumulated weight; called with the executor's lock held
	// optional admission control for foreign kinds (calls that would block outside the executor)
	CanAdd       func() bool
	CanAddTask   func(id int64, w int) bool
	FlushVariant func(variant int, anyBusy bool) int
	// optional: a malformed call (variant) that the wrapper must refuse with an error and without
	// any effect on the executor; returns whether it was refused
	Reject func(variant int, id int64) bool
	// optional: the task value Add hands to the inner PeriodicalExecutor (for "adds")
	Task func(id int64, w int) any
}

type VerifFactory func(in VerifInst, rt *VerifRT) *VerifHooks

type VerifGate struct {
	batch []int64
	end   []int64
	ch    chan struct{}
	mu    sync.Mutex
}

// SetEnd records the content of the batch as read when the callback is about to return.
func (g *VerifGate) SetEnd(ids []int64) {
	g.mu.Lock()
	g.end = append([]int64{}, ids...)
	g.mu.Unlock()
}

type vTicker struct {
	c       chan time.Time
	stopped atomic.Bool
	rt      *VerifRT
}

func (t *vTicker) Chan() <-chan time.Time { return t.c }

// Stop is a schedule point: with gates on, the quitting flusher parks here (the ticker
// still counts as live) until the controller's "sgo".
func (t *vTicker) Stop() {
	if rt := t.rt; rt != nil && rt.gateStop.Load() {
		g := make(chan struct{})
		rt.mu.Lock()
		rt.sgates = append(rt.sgates, g)
		rt.mu.Unlock()
		<-g
	}
	t.stopped.Store(true)
}

type vTask struct {
	id int64
	w  int
}

// container used for the bare PeriodicalExecutor: tasks with weights, flush at maxw
type vContainer struct {
	tasks []any
	size  int
	maxw  int
	exec  func([]any)
}

func (c *vContainer) AddTask(task any) bool {
	t := task.(vTask)
	c.tasks = append(c.tasks, t.id)
	c.size += t.w
	return c.size >= c.maxw
}
func (c *vContainer) Execute(tasks any) { c.exec(tasks.([]any)) }
func (c *vContainer) RemoveAll() any {
	t := c.tasks
	c.tasks = nil
	c.size = 0
	return t
}

// a container whose batches are not slices: RemoveAll returns an untyped nil when there is
// nothing and a pointer to a struct otherwise (hasTasks: nil / "unknown type")
type vBag struct{ ids []any }

type vBagContainer struct {
	vContainer
}

func (c *vBagContainer) Execute(tasks any) { c.exec(tasks.(*vBag).ids) }
func (c *vBagContainer) RemoveAll() any {
	if len(c.tasks) == 0 {
		return nil
	}
	b := &vBag{ids: c.tasks}
	c.tasks = nil
	c.size = 0
	return b
}

type vClient struct {
	cmds chan func()
	idle atomic.Bool
}

func verifClient(c *vClient) {
	for f := range c.cmds {
		f()
		c.idle.Store(true)
	}
}

// VerifRT is the controller's state for one executor instance.
type VerifRT struct {
	idx      int
	in       VerifInst
	cs       *VerifCase
	hooks    *VerifHooks
	mu       sync.Mutex
	parked   []*VerifGate
	ticker   *vTicker
	qgate    chan struct{}
	sgates   []chan struct{}
	gateStop atomic.Bool
	gateQuit atomic.Bool
	clients  []*vClient
	goids    map[int64]bool // goroutines of this instance's background flushers
	bad      map[int64]bool
	removed  []VerifRemoved
	agg      *vAgg
	tickers  []*vTicker            // every ticker the instance's flushers have asked for
	split    map[int]chan struct{} // clients parked between addAndCheck and the send on commander
}

// addSplit is (pe *PeriodicalExecutor).Add with a gate between its two halves: a producer that
// removed the threshold batch under the lock and was descheduled before `pe.commander <- vals`.
// (A copy of Add's three lines: the window exists in Add itself but nothing there can be parked.)
func (rt *VerifRT) addSplit(ci int, task any) {
	pe := rt.hooks.PE
	if vals, ok := pe.addAndCheck(task); ok {
		g := make(chan struct{})
		rt.mu.Lock()
		rt.split[ci] = g
		rt.mu.Unlock()
		<-g
		pe.commander <- vals
		<-pe.confirmChan
	}
}

func (rt *VerifRT) sendGo(ci int, force bool) bool {
	rt.mu.Lock()
	g := rt.split[ci]
	if g != nil && (force || len(rt.hooks.PE.commander) == 0) {
		delete(rt.split, ci)
	} else {
		g = nil
	}
	rt.mu.Unlock()
	if g != nil {
		close(g)
	}
	return g != nil
}

// Park registers a batch whose callback has started and blocks until the controller
// releases it.
func (rt *VerifRT) Park(ids []int64) *VerifGate {
	g := &VerifGate{batch: append([]int64{}, ids...), ch: make(chan struct{})}
	rt.mu.Lock()
	rt.parked = append(rt.parked, g)
	rt.mu.Unlock()
	<-g.ch
	return g
}

func (rt *VerifRT) Bad(ids []int64) bool {
	for _, id := range ids {
		if rt.bad[id] {
			return true
		}
	}
	return false
}

func (rt *VerifRT) Scribble() bool { return rt.cs.Scribble }

func vIDs(tasks []any) []int64 {
	ids := make([]int64, len(tasks))
	for i, t := range tasks {
		if v, ok := t.(int64); ok {
			ids[i] = v
		} else {
			ids[i] = -999 // not a task that anybody added
		}
	}
	return ids
}

// the Execute callback of the built-in kinds
func (rt *VerifRT) callback(tasks []any) {
	ids := vIDs(tasks)
	g := rt.Park(ids)
	g.SetEnd(vIDs(tasks))
	if rt.Scribble() {
		for i := range tasks {
			tasks[i] = int64(-1000 - i)
		}
	}
	if rt.Bad(ids) {
		panic("verif: bad task")
	}
}

// VerifWrapContainer replaces the container of pe (foreign kinds: content checks around Execute).
func VerifWrapContainer(pe *PeriodicalExecutor, wrap func(TaskContainer) TaskContainer) {
	pe.lock.Lock()
	pe.container = wrap(pe.container)
	pe.lock.Unlock()
}

// VerifGoid returns the id of the calling goroutine.
func VerifGoid() int64 {
	var buf [64]byte
	n := runtime.Stack(buf[:], false)
	return vParseGoid(string(buf[:n]))
}

func vParseGoid(s string) int64 {
	s = strings.TrimPrefix(s, "goroutine ")
	if i := strings.IndexByte(s, ' '); i > 0 {
		if id, err := strconv.ParseInt(s[:i], 10, 64); err == nil {
			return id
		}
	}
	return -1
}

func vStacks() []string {
	buf := make([]byte, 1<<16)
	for {
		n := runtime.Stack(buf, true)
		if n < len(buf) {
			buf = buf[:n]
			break
		}
		buf = make([]byte, 2*len(buf))
	}
	return strings.Split(strings.TrimSpace(string(buf)), "\n\n")
}

func vBlocked(stack string) bool {
	head := stack
	if nl := strings.IndexByte(stack, '\n'); nl >= 0 {
		head = stack[:nl]
	}
	for _, s := range []string{"[chan send", "[chan receive", "[select", "[sync.Cond.Wait",
		"[semacquire", "[sync.WaitGroup.Wait", "[sync.Mutex.Lock", "[sync.RWMutex"} {
		if strings.Contains(head, s) {
			return true
		}
	}
	return false
}

// every goroutine that runs (or was created by) go-zero code of the packages involved or
// harness code; the controller itself is excluded by the caller
func vRelevant(stack string) bool {
	for _, s := range []string{"go-zero/core/executors.", "go-zero/core/stores/sqlx.", "go-zero/core/threading.",
		"go-zero/core/proc.(*listenerManager)", "go-zero/core/proc.Shutdown", "go-zero/core/syncx."} {
		if strings.Contains(stack, s) {
			return true
		}
	}
	return false
}

type vCensus struct {
	benter map[int64]bool // flusher blocked in enterExecution for a commanded batch
	bexit  map[int64]bool // flusher blocked in the enterExecution of a Flush (tick or deferred)
}

// vQuiesce waits until every relevant goroutine but the caller is blocked (two consecutive
// censuses).
func vQuiesce(limit time.Duration, need int) (bool, vCensus) {
	deadline := time.Now().Add(limit)
	self := VerifGoid()
	stable := 0
	var cs vCensus
	for spin := 0; ; spin++ {
		busy := false
		cs = vCensus{benter: map[int64]bool{}, bexit: map[int64]bool{}}
		for _, g := range vStacks() {
			id := vParseGoid(g)
			if id == self || !vRelevant(g) {
				continue
			}
			if !vBlocked(g) {
				busy = true
				break
			}
			if strings.Contains(g, "backgroundFlush.func1") && strings.Contains(g, ").enterExecution") {
				if strings.Contains(g, "(*PeriodicalExecutor).Flush") {
					cs.bexit[id] = true
				} else {
					cs.benter[id] = true
				}
			}
		}
		if !busy {
			stable++
			if stable >= need {
				return true, cs
			}
		} else {
			stable = 0
		}
		if time.Now().After(deadline) {
			return false, cs
		}
		if spin < 50 {
			runtime.Gosched()
		} else {
			time.Sleep(20 * time.Microsecond)
		}
	}
}

type vRun struct {
	c         VerifCase
	rts       []*VerifRT
	shutStart bool
	shutDone  atomic.Bool
}

func vMin(b []int64) int64 {
	if len(b) == 0 {
		return -1
	}
	m := b[0]
	for _, x := range b {
		if x < m {
			m = x
		}
	}
	return m
}

func (rt *VerifRT) sortedParked() []*VerifGate {
	rt.mu.Lock()
	ps := append([]*VerifGate(nil), rt.parked...)
	rt.mu.Unlock()
	sort.SliceStable(ps, func(i, j int) bool { return vMin(ps[i].batch) < vMin(ps[j].batch) })
	return ps
}

func (rt *VerifRT) release(g *VerifGate) {
	rt.mu.Lock()
	for i, p := range rt.parked {
		if p == g {
			rt.parked = append(rt.parked[:i:i], rt.parked[i+1:]...)
			break
		}
	}
	rt.mu.Unlock()
	close(g.ch)
}

func (rt *VerifRT) observe(cs vCensus) VerifObs {
	o := VerifObs{Parked: [][]int64{}, Cont: []int64{}}
	for _, c := range rt.clients {
		o.Idle = append(o.Idle, c.idle.Load())
	}
	for _, g := range rt.sortedParked() {
		o.Parked = append(o.Parked, g.batch)
	}
	pe := rt.hooks.PE
	pe.lock.Lock()
	o.Cont = append(o.Cont, rt.hooks.Tasks()...)
	o.Size = rt.hooks.Size()
	o.Guarded = pe.guarded
	pe.lock.Unlock()
	o.Inflight = vInflight(pe)
	o.Cmd = len(pe.commander) > 0
	rt.mu.Lock()
	if rt.ticker != nil && !rt.ticker.stopped.Load() {
		o.Tick = len(rt.ticker.c) > 0
	}
	o.Qpark = rt.qgate != nil
	o.Spark = len(rt.sgates) > 0
	for ci := range rt.clients {
		o.Split = append(o.Split, rt.split[ci] != nil)
	}
	for id := range rt.goids {
		if cs.benter[id] {
			o.Benter = true
		}
		if cs.bexit[id] {
			o.Bexit = true
		}
	}
	rt.mu.Unlock()
	return o
}

func (r *vRun) observeAll(cs vCensus) []VerifObs {
	res := make([]VerifObs, len(r.rts))
	for i, rt := range r.rts {
		res[i] = rt.observe(cs)
	}
	return res
}

func vNum(v any) int64 { return int64(v.(float64)) }

func verifShutdown(done *atomic.Bool, ch chan struct{}) {
	proc.Shutdown()
	done.Store(true)
	if ch != nil {
		close(ch)
	}
}

// shutdown listeners of executors of earlier cases (all drained) are dropped before a case
// starts, so that a "shutdown" action concerns the instances of the case only
var vShutdownBroken atomic.Bool

// set when proc.Shutdown() hangs: the remaining cases are reported as skipped (the caller
// re-runs them in a fresh process)
var vStuck atomic.Bool

func vClearListeners() {
	if vShutdownBroken.Load() {
		return
	}
	var done atomic.Bool
	ch := make(chan struct{})
	go verifShutdown(&done, ch)
	select {
	case <-ch:
	case <-time.After(3 * time.Second):
		// a listener of an earlier case never returns: proc's listener lock stays held, no
		// further executor can be created in this process
		vShutdownBroken.Store(true)
		vStuck.Store(true)
	}
}

func (rt *VerifRT) builtin() *VerifHooks {
	iv := time.Duration(rt.in.Interval)
	switch rt.in.Kind {
	case "bulk":
		be := NewBulkExecutor(rt.callback, WithBulkTasks(rt.in.Maxw), WithBulkInterval(iv))
		vSpyOn(be.executor, rt, vSliceIDs)
		return &VerifHooks{PE: be.executor,
			Add: func(id int64, w int) { be.Add(id) },
			Flush: func(v int) {
				if v == 0 {
					be.Flush()
				} else {
					be.executor.Flush()
				}
			},
			Wait: func(v int) {
				if v == 0 {
					be.Wait()
				} else {
					be.executor.Wait()
				}
			},
			Sync:  be.executor.Sync,
			Task:  func(id int64, w int) any { return id },
			Tasks: func() []int64 { return vIDs(be.container.tasks) },
			Size:  func() int { return len(be.container.tasks) }}
	case "chunk":
		ce := NewChunkExecutor(rt.callback, WithChunkBytes(rt.in.Maxw), WithFlushInterval(iv))
		vSpyOn(ce.executor, rt, vSliceIDs)
		return &VerifHooks{PE: ce.executor,
			Add: func(id int64, w int) { ce.Add(id, w) },
			Flush: func(v int) {
				if v == 0 {
					ce.Flush()
				} else {
					ce.executor.Flush()
				}
			},
			Wait: func(v int) {
				if v == 0 {
					ce.Wait()
				} else {
					ce.executor.Wait()
				}
			},
			Sync:  ce.executor.Sync,
			Task:  func(id int64, w int) any { return chunk{val: id, size: w} },
			Tasks: func() []int64 { return vIDs(ce.container.tasks) },
			Size:  func() int { return ce.container.size }}
	case "bag":
		vc := &vBagContainer{vContainer{maxw: rt.in.Maxw, exec: rt.callback}}
		pe := NewPeriodicalExecutor(iv, vc)
		vSpyOn(pe, rt, func(v any) []int64 {
			if b, ok := v.(*vBag); ok && b != nil {
				return vIDs(b.ids)
			}
			return nil
		})
		return &VerifHooks{PE: pe,
			Add:   func(id int64, w int) { pe.Add(vTask{id: id, w: w}) },
			Flush: func(int) { pe.Flush() }, Wait: func(int) { pe.Wait() }, Sync: pe.Sync,
			Task:  func(id int64, w int) any { return vTask{id: id, w: w} },
			Tasks: func() []int64 { return vIDs(vc.tasks) }, Size: func() int { return vc.size }}
	case "periodical":
		vc := &vContainer{maxw: rt.in.Maxw, exec: rt.callback}
		pe := NewPeriodicalExecutor(iv, vc)
		vSpyOn(pe, rt, vSliceIDs)
		return &VerifHooks{PE: pe,
			Add:   func(id int64, w int) { pe.Add(vTask{id: id, w: w}) },
			Flush: func(int) { pe.Flush() }, Wait: func(int) { pe.Wait() }, Sync: pe.Sync,
			Task:  func(id int64, w int) any { return vTask{id: id, w: w} },
			Tasks: func() []int64 { return vIDs(vc.tasks) }, Size: func() int { return vc.size }}
	case "agg":
		ac := &vAgg{rt: rt, shape: rt.in.Shape, empty: rt.in.Empty, maxw: rt.in.Maxw}
		rt.agg = ac
		pe := NewPeriodicalExecutor(iv, ac)
		return &VerifHooks{PE: pe,
			Add:   func(id int64, w int) { pe.Add(vTask{id: id, w: w}) },
			Flush: func(int) { pe.Flush() }, Wait: func(int) { pe.Wait() }, Sync: pe.Sync,
			Task:  func(id int64, w int) any { return vTask{id: id, w: w} },
			Tasks: func() []int64 { return append([]int64{}, ac.ids...) }, Size: func() int { return ac.size },
			CanAddTask: func(id int64, w int) bool {
				if (ac.shape == "int" || ac.shape == "bool") && (w < 1 || ac.maxw > 1) {
					return false // these containers hold one task at a time
				}
				return vAggAccepts(ac.shape, ac.empty, id)
			}}
	}
	return nil
}

// vInflight reads pe.inflight whatever its representation (int32 updated with sync/atomic, an
// atomic.Int32, a plain counter, a flag): a refactoring of that field must not keep the
// executor from building.  Read at quiescence only.
func vInflight(pe *PeriodicalExecutor) int {
	f := reflect.ValueOf(pe).Elem().FieldByName("inflight")
	for f.IsValid() && f.Kind() == reflect.Struct && f.NumField() > 0 {
		f = f.Field(f.NumField() - 1) // atomic.Int32{_ noCopy; v int32}
	}
	if !f.IsValid() {
		return -1
	}
	switch f.Kind() {
	case reflect.Int, reflect.Int8, reflect.Int16, reflect.Int32, reflect.Int64:
		return int(f.Int())
	case reflect.Uint, reflect.Uint8, reflect.Uint16, reflect.Uint32, reflect.Uint64:
		return int(f.Uint())
	case reflect.Bool:
		if f.Bool() {
			return 1
		}
		return 0
	}
	return -1
}

func vSameObs(a, b []VerifObs) bool { return reflect.DeepEqual(a, b) }

// VerifRunCase runs one case; factory (may be nil) supplies the kinds this file does not know.
func VerifRunCase(c VerifCase, factory VerifFactory) (out VerifOut) {
	out.ID = c.ID
	vClearListeners()
	if vStuck.Load() {
		out.Err = "skipped: proc.Shutdown() hangs since an earlier case"
		return out
	}
	timex.SetFakeNow(1000000)
	r := &vRun{c: c}
	for i, in := range c.Insts {
		rt := &VerifRT{idx: i, in: in, cs: &r.c, goids: map[int64]bool{}, bad: map[int64]bool{}, split: map[int]chan struct{}{}}
		for _, b := range c.Bad {
			rt.bad[b] = true
		}
		rt.hooks = rt.builtin()
		if rt.hooks == nil && factory != nil {
			rt.hooks = factory(in, rt)
		}
		if rt.hooks == nil {
			out.Err = "unknown kind " + in.Kind
			return out
		}
		rt.hooks.PE.newTicker = func(time.Duration) timex.Ticker {
			// runs on the background goroutine that is starting
			t := &vTicker{c: make(chan time.Time, 1), rt: rt}
			id := VerifGoid()
			rt.mu.Lock()
			rt.ticker = t
			rt.tickers = append(rt.tickers, t)
			rt.goids[id] = true
			rt.mu.Unlock()
			return t
		}
		rt.gateStop.Store(c.Gates)
		rt.gateQuit.Store(c.Gateq)
		for k := 0; k < in.Nclients; k++ {
			cl := &vClient{cmds: make(chan func())}
			cl.idle.Store(true)
			rt.clients = append(rt.clients, cl)
			go verifClient(cl)
		}
		r.rts = append(r.rts, rt)
	}
	if c.Gateq {
		hook := func() {
			id := VerifGoid()
			for _, rt := range r.rts {
				rt.mu.Lock()
				mine := rt.goids[id] && rt.gateQuit.Load()
				var g chan struct{}
				if mine {
					g = make(chan struct{})
					rt.qgate = g
				}
				rt.mu.Unlock()
				if mine {
					<-g
					return
				}
			}
		}
		timex.SinceHook.Store(&hook)
	}
	sgo := func(rt *VerifRT) bool {
		rt.mu.Lock()
		var g chan struct{}
		if len(rt.sgates) > 0 {
			g = rt.sgates[0]
			rt.sgates = rt.sgates[1:]
		}
		rt.mu.Unlock()
		if g != nil {
			close(g)
		}
		return g != nil
	}
	qgo := func(rt *VerifRT) bool {
		rt.mu.Lock()
		g := rt.qgate
		rt.qgate = nil
		rt.mu.Unlock()
		if g != nil {
			close(g)
		}
		return g != nil
	}
	// quiescence, observation, quiescence, observation: the two observations must coincide
	settle := func(act []any) bool {
		deadline := time.Now().Add(20 * time.Second)
		for {
			ok, cs := vQuiesce(10*time.Second, 2)
			if !ok {
				out.Err = "no quiescence after " + toJSON(act)
				return false
			}
			o1 := r.observeAll(cs)
			runtime.Gosched()
			ok2, cs2 := vQuiesce(10*time.Second, 1)
			if !ok2 {
				out.Err = "no quiescence after " + toJSON(act)
				return false
			}
			o2 := r.observeAll(cs2)
			if vSameObs(o1, o2) {
				out.Steps = append(out.Steps, VerifStep{Act: act, Obs: o2})
				return true
			}
			if time.Now().After(deadline) {
				out.Err = "observation does not settle after " + toJSON(act)
				return false
			}
		}
	}
	inst := func(v any) *VerifRT {
		i := int(vNum(v))
		if i < 0 || i >= len(r.rts) {
			return nil
		}
		return r.rts[i]
	}
	anyBusy := func(rt *VerifRT) bool {
		for _, cl := range rt.clients {
			if !cl.idle.Load() {
				return true
			}
		}
		return false
	}
	start := func(rt *VerifRT, ci int, f func()) bool {
		if ci < 0 || ci >= len(rt.clients) || !rt.clients[ci].idle.Load() {
			return false
		}
		rt.clients[ci].idle.Store(false)
		rt.clients[ci].cmds <- f
		return true
	}
	tick := func(rt *VerifRT) {
		rt.mu.Lock()
		t := rt.ticker
		rt.mu.Unlock()
		if t != nil && !t.stopped.Load() {
			select {
			case t.c <- time.Now():
			default:
			}
		}
	}
	relOne := func(rt *VerifRT, g *VerifGate) bool {
		rt.release(g)
		// the callback records what it reads on return before it goes on; wait for quiescence first
		if ok, _ := vQuiesce(10*time.Second, 2); !ok {
			out.Err = "no quiescence after a release"
			return false
		}
		g.mu.Lock()
		end := append([]int64{}, g.end...)
		g.mu.Unlock()
		return settle([]any{"rel", rt.idx, vMin(g.batch), end})
	}
	okRun := true
	for _, op := range c.Ops {
		if !okRun {
			break
		}
		name := op[0].(string)
		switch name {
		case "add":
			rt := inst(op[1])
			if rt == nil || (rt.hooks.CanAdd != nil && !rt.hooks.CanAdd()) {
				continue
			}
			ci, id, w := int(vNum(op[2])), vNum(op[3]), int(vNum(op[4]))
			if rt.hooks.CanAddTask != nil && !rt.hooks.CanAddTask(id, w) {
				continue
			}
			start(rt, ci, func() { rt.hooks.Add(id, w) })
			okRun = settle([]any{"add", rt.idx, ci, id, w})
		case "adds": // Add with its producer parked between addAndCheck and the send (released by "sendgo")
			rt := inst(op[1])
			if rt == nil || rt.hooks.Task == nil {
				continue
			}
			ci, id, w := int(vNum(op[2])), vNum(op[3]), int(vNum(op[4]))
			if rt.hooks.CanAddTask != nil && !rt.hooks.CanAddTask(id, w) {
				continue
			}
			start(rt, ci, func() { rt.addSplit(ci, rt.hooks.Task(id, w)) })
			okRun = settle([]any{"adds", rt.idx, ci, id, w})
		case "sendgo": // only when the send will not block (commander empty): the model's next action of that client
			rt := inst(op[1])
			if rt == nil {
				continue
			}
			ci := int(vNum(op[2]))
			if rt.sendGo(ci, false) {
				okRun = settle([]any{"sendgo", rt.idx, ci})
			}
		case "addn": // n Adds of weight 1 in a row by one client (ids first, first+1, ...)
			rt := inst(op[1])
			if rt == nil || (rt.hooks.CanAdd != nil && !rt.hooks.CanAdd()) || rt.hooks.CanAddTask != nil {
				continue
			}
			ci, first, n := int(vNum(op[2])), vNum(op[3]), int(vNum(op[4]))
			// only when none of the n Adds reaches the threshold (nobody else is adding: quiescent)
			rt.hooks.PE.lock.Lock()
			size := rt.hooks.Size()
			rt.hooks.PE.lock.Unlock()
			if size+n >= rt.in.Maxw {
				continue
			}
			start(rt, ci, func() {
				for k := 0; k < n; k++ {
					rt.hooks.Add(first+int64(k), 1)
				}
			})
			okRun = settle([]any{"addn", rt.idx, ci, first, n})
		case "flush":
			rt := inst(op[1])
			if rt == nil {
				continue
			}
			ci, v := int(vNum(op[2])), int(vNum(op[3]))
			if rt.hooks.FlushVariant != nil {
				v = rt.hooks.FlushVariant(v, anyBusy(rt))
			}
			start(rt, ci, func() { rt.hooks.Flush(v) })
			okRun = settle([]any{"flush", rt.idx, ci, v})
		case "wait":
			rt := inst(op[1])
			if rt == nil {
				continue
			}
			ci, v := int(vNum(op[2])), int(vNum(op[3]))
			start(rt, ci, func() { rt.hooks.Wait(v) })
			okRun = settle([]any{"wait", rt.idx, ci, v})
		case "sync": // Sync(fn): fn reads the container (it runs under the executor's lock)
			rt := inst(op[1])
			if rt == nil {
				continue
			}
			ci := int(vNum(op[2]))
			var snap []int64
			var ran atomic.Bool
			started := start(rt, ci, func() {
				rt.hooks.Sync(func() {
					snap = append([]int64{}, rt.hooks.Tasks()...)
					ran.Store(true)
				})
			})
			okRun = settle(nil)
			if okRun {
				st := &out.Steps[len(out.Steps)-1]
				if started && ran.Load() {
					st.Act = []any{"sync", rt.idx, ci, true, append([]int64{}, snap...)}
				} else {
					st.Act = []any{"sync", rt.idx, ci, false, []int64{}}
				}
			}
		case "reject":
			rt := inst(op[1])
			if rt == nil || rt.hooks.Reject == nil || (rt.hooks.CanAdd != nil && !rt.hooks.CanAdd()) {
				continue
			}
			ci, v, id := int(vNum(op[2])), int(vNum(op[3])), vNum(op[4])
			var refused atomic.Bool
			started := start(rt, ci, func() { refused.Store(rt.hooks.Reject(v, id)) })
			okRun = settle(nil)
			if okRun {
				out.Steps[len(out.Steps)-1].Act = []any{"reject", rt.idx, ci, v, id}
				if started && rt.clients[ci].idle.Load() && !refused.Load() {
					out.Err = "a malformed call was accepted: " + toJSON(op)
					okRun = false
				}
			}
		case "rel":
			rt := inst(op[1])
			if rt == nil {
				continue
			}
			ps := rt.sortedParked()
			if len(ps) > 0 {
				okRun = relOne(rt, ps[int(vNum(op[2]))%len(ps)])
			} else {
				okRun = settle([]any{"rel", rt.idx, -1, []int64{}})
			}
		case "relall":
			for _, rt := range r.rts {
				for _, g := range rt.sortedParked() {
					if okRun = relOne(rt, g); !okRun {
						break
					}
				}
			}
		case "qgo":
			for _, rt := range r.rts {
				if okRun && qgo(rt) {
					okRun = settle([]any{"qgo", rt.idx})
				}
			}
		case "sgo":
			for _, rt := range r.rts {
				if okRun && sgo(rt) {
					okRun = settle([]any{"sgo", rt.idx})
				}
			}
		case "tick":
			rt := inst(op[1])
			if rt == nil {
				continue
			}
			tick(rt)
			okRun = settle([]any{"tick", rt.idx})
		case "clock":
			d := vNum(op[1])
			timex.AdvanceFake(time.Duration(d))
			okRun = settle([]any{"clock", d})
		case "shutdown": // proc.Shutdown(): every instance's listener calls Flush on a goroutine of its own
			if r.shutStart || vShutdownBroken.Load() {
				continue
			}
			r.shutStart = true
			go verifShutdown(&r.shutDone, nil)
			okRun = settle([]any{"shutdown"})
		}
	}
	out.ShutStarted = r.shutStart
	out.ShutDone = r.shutDone.Load()
	for _, rt := range r.rts {
		rt.mu.Lock()
		out.Removed = append(out.Removed, append([]VerifRemoved{}, rt.removed...))
		rt.mu.Unlock()
	}
	// clean-up (not part of the observed history): let everything finish and make
	// the flushers quit so that no goroutine of this case survives
	timex.SinceHook.Store(nil)
	for _, rt := range r.rts {
		rt.gateStop.Store(false)
		rt.gateQuit.Store(false)
	}
	for i := 0; i < 50; i++ {
		released, guarded := 0, false
		for _, rt := range r.rts {
			qgo(rt)
			for sgo(rt) {
			}
			for ci := range rt.clients {
				rt.sendGo(ci, true)
			}
			for _, g := range rt.sortedParked() {
				rt.release(g)
				released++
			}
		}
		if ok, _ := vQuiesce(5*time.Second, 2); !ok {
			break
		}
		left := 0
		for _, rt := range r.rts {
			rt.hooks.PE.lock.Lock()
			guarded = guarded || rt.hooks.PE.guarded
			rt.hooks.PE.lock.Unlock()
			left += len(rt.sortedParked())
		}
		if released == 0 && !guarded && left == 0 {
			break
		}
		for _, rt := range r.rts {
			timex.AdvanceFake(time.Duration(rt.in.Interval * 100))
			tick(rt)
			// a flusher that runs on an OLD ticker (one that was stopped) gets its ticks too, so that
			// no goroutine of this case outlives it whatever the code under test does with its tickers
			rt.mu.Lock()
			ts := append([]*vTicker(nil), rt.tickers...)
			rt.mu.Unlock()
			for _, t := range ts {
				select {
				case t.c <- time.Now():
				default:
				}
			}
		}
		vQuiesce(5*time.Second, 2)
		if i >= 12 && released == 0 && left == 0 {
			break // a flusher that does not quit after a dozen idle rounds will not: leave it
		}
	}
	for _, rt := range r.rts {
		for _, cl := range rt.clients {
			if cl.idle.Load() {
				close(cl.cmds)
			}
		}
	}
	if r.shutStart && !r.shutDone.Load() {
		vStuck.Store(true)
	}
	return out
}

func toJSON(v any) string {
	b, _ := json.Marshal(v)
	return string(b)
}

// VerifRunFile reads the JSON array of cases from in and writes one JSON object per line to outp.
func VerifRunFile(in, outp string, factory VerifFactory) error {
	data, err := os.ReadFile(in)
	if err != nil {
		return err
	}
	var cases []VerifCase
	if err := json.Unmarshal(data, &cases); err != nil {
		return err
	}
	f, err := os.Create(outp)
	if err != nil {
		return err
	}
	w := bufio.NewWriterSize(f, 1<<20)
	for _, c := range cases {
		var o VerifOut
		if vStuck.Load() {
			o = VerifOut{ID: c.ID, Err: "skipped: proc.Shutdown() hangs since an earlier case"}
		} else {
			o = VerifRunCase(c, factory)
		}
		b, _ := json.Marshal(o)
		w.Write(b)
		w.WriteByte('\n')
	}
	w.Flush()
	return f.Close()
}
