// White-box executor for property C11, injected into package executors with
// `go test -overlay` (never written under /repo).  It forces schedules on a
// PeriodicalExecutor / BulkExecutor / ChunkExecutor: client goroutines start
// Add/Flush/Wait calls one at a time, every Execute callback parks on a gate until
// the controller releases it, ticks come from a fake ticker, time from the virtual
// clock overlay of core/timex.  After every controller action the controller waits
// for quiescence (every goroutine of the package blocked) and records what is
// observable.  It only executes; generation and checking are done elsewhere.
package executors

import (
	"bufio"
	"encoding/json"
	"os"
	"runtime"
	"sort"
	"strings"
	"sync"
	"sync/atomic"
	"testing"
	"time"

	"github.com/zeromicro/go-zero/core/logx"
	"github.com/zeromicro/go-zero/core/timex"
)

type vCase struct {
	ID       int     `json:"id"`
	Kind     string  `json:"kind"` // bulk | chunk | periodical
	Maxw     int     `json:"maxw"`
	Interval int64   `json:"interval"`
	Bad      []int64 `json:"bad"`
	Nclients int     `json:"nclients"`
	Gateq    bool    `json:"gateq"` // park the flusher at shallQuit until "qgo"
	Gates    bool    `json:"gates"` // park the quitting flusher inside ticker.Stop() until "sgo"
	Ops      [][]any `json:"ops"`
}

type vObs struct {
	Idle     []bool    `json:"idle"`
	Parked   [][]int64 `json:"parked"`
	Cont     []int64   `json:"cont"`
	Inflight int       `json:"inflight"`
	Guarded  bool      `json:"guarded"`
	Cmd      bool      `json:"cmd"`
	Tick     bool      `json:"tick"`
	Benter   bool      `json:"benter"`
	Bexit    bool      `json:"bexit"`
	Qpark    bool      `json:"qpark"`
	Spark    bool      `json:"spark"`
}

type vStep struct {
	Act []any `json:"act"`
	Obs vObs  `json:"obs"`
}

type vOut struct {
	ID    int     `json:"id"`
	Steps []vStep `json:"steps"`
	Err   string  `json:"err,omitempty"`
}

type vGate struct {
	batch []int64
	ch    chan struct{}
}

type vTicker struct {
	c       chan time.Time
	stopped atomic.Bool
	run     *vRun
}

func (t *vTicker) Chan() <-chan time.Time { return t.c }

// Stop is a schedule point: with gates on, the quitting flusher parks here (the ticker
// still counts as live) until the controller's "sgo".
func (t *vTicker) Stop() {
	if r := t.run; r != nil && r.gateStop.Load() {
		g := make(chan struct{})
		r.mu.Lock()
		r.sgates = append(r.sgates, g)
		r.mu.Unlock()
		<-g
	}
	t.stopped.Store(true)
}

type vTask struct {
	id int64
	w  int
}

// container used for the bare PeriodicalExecutor: tasks with weights, flush at maxw
type vContainer struct {
	tasks []any
	size  int
	maxw  int
	exec  func([]any)
}

func (c *vContainer) AddTask(task any) bool {
	t := task.(vTask)
	c.tasks = append(c.tasks, t.id)
	c.size += t.w
	return c.size >= c.maxw
}
func (c *vContainer) Execute(tasks any) { c.exec(tasks.([]any)) }
func (c *vContainer) RemoveAll() any {
	t := c.tasks
	c.tasks = nil
	c.size = 0
	return t
}

type vClient struct {
	cmds chan func()
	idle atomic.Bool
}

func verifClient(c *vClient) {
	for f := range c.cmds {
		f()
		c.idle.Store(true)
	}
}

func vStacks() []string {
	buf := make([]byte, 1<<16)
	for {
		n := runtime.Stack(buf, true)
		if n < len(buf) {
			buf = buf[:n]
			break
		}
		buf = make([]byte, 2*len(buf))
	}
	return strings.Split(strings.TrimSpace(string(buf)), "\n\n")
}

func vBlocked(stack string) bool {
	head := stack
	if nl := strings.IndexByte(stack, '\n'); nl >= 0 {
		head = stack[:nl]
	}
	for _, s := range []string{"[chan send", "[chan receive", "[select", "[sync.Cond.Wait",
		"[semacquire", "[sync.WaitGroup.Wait", "[sync.Mutex.Lock", "[sync.RWMutex"} {
		if strings.Contains(head, s) {
			return true
		}
	}
	return false
}

func vRelevant(stack string) bool {
	return strings.Contains(stack, "executors.(*PeriodicalExecutor)") ||
		strings.Contains(stack, "executors.verifClient")
}

// vQuiesce waits until every goroutine of the executor and every client is blocked
// (two consecutive censuses).  benter: the flusher is blocked in enterExecution for a
// batch it received from the commander channel.
func vQuiesce() (ok bool, benter bool, bexit bool) {
	deadline := time.Now().Add(5 * time.Second)
	stable := 0
	for spin := 0; ; spin++ {
		busy := false
		benter, bexit = false, false
		for _, g := range vStacks() {
			if !vRelevant(g) {
				continue
			}
			if !vBlocked(g) {
				busy = true
				break
			}
			if strings.Contains(g, "backgroundFlush.func1") && strings.Contains(g, ").enterExecution") &&
				!strings.Contains(g, "(*PeriodicalExecutor).Flush") {
				benter = true
			}
			if strings.Contains(g, "backgroundFlush.func1") && strings.Contains(g, ").enterExecution") &&
				strings.Contains(g, "(*PeriodicalExecutor).Flush") {
				bexit = true
			}
		}
		if !busy {
			stable++
			if stable >= 2 {
				return true, benter, bexit
			}
		} else {
			stable = 0
		}
		if time.Now().After(deadline) {
			return false, benter, bexit
		}
		if spin < 50 {
			runtime.Gosched()
		} else {
			time.Sleep(20 * time.Microsecond)
		}
	}
}

type vRun struct {
	c        vCase
	pe       *PeriodicalExecutor
	add      func(id int64, w int)
	tasks    func() []any
	mu       sync.Mutex
	parked   []*vGate
	ticker   *vTicker
	qgate    chan struct{}
	sgates   []chan struct{}
	gateStop atomic.Bool
	clients  []*vClient
	bad      map[int64]bool
}

func (r *vRun) callback(tasks []any) {
	ids := make([]int64, len(tasks))
	for i, t := range tasks {
		ids[i] = t.(int64)
	}
	g := &vGate{batch: ids, ch: make(chan struct{})}
	r.mu.Lock()
	r.parked = append(r.parked, g)
	r.mu.Unlock()
	<-g.ch
	for _, id := range ids {
		if r.bad[id] {
			panic("verif: bad task")
		}
	}
}

func vMin(b []int64) int64 {
	m := b[0]
	for _, x := range b {
		if x < m {
			m = x
		}
	}
	return m
}

func (r *vRun) sortedParked() []*vGate {
	r.mu.Lock()
	ps := append([]*vGate(nil), r.parked...)
	r.mu.Unlock()
	sort.Slice(ps, func(i, j int) bool { return vMin(ps[i].batch) < vMin(ps[j].batch) })
	return ps
}

func (r *vRun) release(g *vGate) {
	r.mu.Lock()
	for i, p := range r.parked {
		if p == g {
			r.parked = append(r.parked[:i:i], r.parked[i+1:]...)
			break
		}
	}
	r.mu.Unlock()
	close(g.ch)
}

func (r *vRun) observe(benter, bexit bool) vObs {
	o := vObs{Benter: benter, Bexit: bexit, Parked: [][]int64{}, Cont: []int64{}}
	for _, c := range r.clients {
		o.Idle = append(o.Idle, c.idle.Load())
	}
	for _, g := range r.sortedParked() {
		o.Parked = append(o.Parked, g.batch)
	}
	r.pe.lock.Lock()
	for _, t := range r.tasks() {
		o.Cont = append(o.Cont, t.(int64))
	}
	o.Guarded = r.pe.guarded
	r.pe.lock.Unlock()
	o.Inflight = int(atomic.LoadInt32(&r.pe.inflight))
	o.Cmd = len(r.pe.commander) > 0
	r.mu.Lock()
	if r.ticker != nil && !r.ticker.stopped.Load() {
		o.Tick = len(r.ticker.c) > 0
	}
	o.Qpark = r.qgate != nil
	o.Spark = len(r.sgates) > 0
	r.mu.Unlock()
	return o
}

func vNum(v any) int64 { return int64(v.(float64)) }

func vRunCase(c vCase) (out vOut) {
	out.ID = c.ID
	r := &vRun{c: c, bad: map[int64]bool{}}
	for _, b := range c.Bad {
		r.bad[b] = true
	}
	iv := time.Duration(c.Interval)
	switch c.Kind {
	case "bulk":
		be := NewBulkExecutor(r.callback, WithBulkTasks(c.Maxw), WithBulkInterval(iv))
		r.pe = be.executor
		r.add = func(id int64, w int) { be.Add(id) }
		r.tasks = func() []any { return be.container.tasks }
	case "chunk":
		ce := NewChunkExecutor(r.callback, WithChunkBytes(c.Maxw), WithFlushInterval(iv))
		r.pe = ce.executor
		r.add = func(id int64, w int) { ce.Add(id, w) }
		r.tasks = func() []any { return ce.container.tasks }
	default:
		vc := &vContainer{maxw: c.Maxw, exec: r.callback}
		r.pe = NewPeriodicalExecutor(iv, vc)
		r.add = func(id int64, w int) { r.pe.Add(vTask{id: id, w: w}) }
		r.tasks = func() []any { return vc.tasks }
	}
	r.pe.newTicker = func(time.Duration) timex.Ticker {
		t := &vTicker{c: make(chan time.Time, 1), run: r}
		r.mu.Lock()
		r.ticker = t
		r.mu.Unlock()
		return t
	}
	timex.SetFakeNow(1000000)
	if c.Gateq {
		hook := func() {
			g := make(chan struct{})
			r.mu.Lock()
			r.qgate = g
			r.mu.Unlock()
			<-g
		}
		timex.SinceHook.Store(&hook)
	}
	r.gateStop.Store(c.Gates)
	sgo := func() bool {
		r.mu.Lock()
		var g chan struct{}
		if len(r.sgates) > 0 {
			g = r.sgates[0]
			r.sgates = r.sgates[1:]
		}
		r.mu.Unlock()
		if g != nil {
			close(g)
		}
		return g != nil
	}
	qgo := func() bool {
		r.mu.Lock()
		g := r.qgate
		r.qgate = nil
		r.mu.Unlock()
		if g != nil {
			close(g)
		}
		return g != nil
	}
	for i := 0; i < c.Nclients; i++ {
		cl := &vClient{cmds: make(chan func())}
		cl.idle.Store(true)
		r.clients = append(r.clients, cl)
		go verifClient(cl)
	}
	settle := func(act []any) bool {
		ok, benter, bexit := vQuiesce()
		if !ok {
			out.Err = "no quiescence after " + toJSON(act)
			return false
		}
		out.Steps = append(out.Steps, vStep{Act: act, Obs: r.observe(benter, bexit)})
		return true
	}
	start := func(ci int, f func()) bool {
		if ci < 0 || ci >= len(r.clients) || !r.clients[ci].idle.Load() {
			return false
		}
		r.clients[ci].idle.Store(false)
		r.clients[ci].cmds <- f
		return true
	}
	tick := func() {
		r.mu.Lock()
		t := r.ticker
		r.mu.Unlock()
		if t != nil && !t.stopped.Load() {
			select {
			case t.c <- time.Now():
			default:
			}
		}
	}
	okRun := true
	for _, op := range c.Ops {
		if !okRun {
			break
		}
		switch op[0].(string) {
		case "add":
			ci, id, w := int(vNum(op[1])), vNum(op[2]), int(vNum(op[3]))
			start(ci, func() { r.add(id, w) })
			okRun = settle([]any{"add", ci, id, w})
		case "flush":
			ci := int(vNum(op[1]))
			start(ci, func() { r.pe.Flush() })
			okRun = settle([]any{"flush", ci})
		case "wait":
			ci := int(vNum(op[1]))
			start(ci, func() { r.pe.Wait() })
			okRun = settle([]any{"wait", ci})
		case "rel":
			ps := r.sortedParked()
			m := int64(-1)
			if len(ps) > 0 {
				g := ps[int(vNum(op[1]))%len(ps)]
				m = vMin(g.batch)
				r.release(g)
			}
			okRun = settle([]any{"rel", m})
		case "relall":
			for _, g := range r.sortedParked() {
				r.release(g)
				if okRun = settle([]any{"rel", vMin(g.batch)}); !okRun {
					break
				}
			}
		case "qgo":
			if qgo() {
				okRun = settle([]any{"qgo"})
			}
		case "sgo":
			if sgo() {
				okRun = settle([]any{"sgo"})
			}
		case "tick":
			tick()
			okRun = settle([]any{"tick"})
		case "clock":
			d := vNum(op[1])
			timex.AdvanceFake(time.Duration(d))
			okRun = settle([]any{"clock", d})
		}
	}
	// clean-up (not part of the observed history): let everything finish and make
	// the flusher quit so that no goroutine of this case survives
	timex.SinceHook.Store(nil)
	r.gateStop.Store(false)
	for i := 0; i < 50; i++ {
		qgo()
		for sgo() {
		}
		ps := r.sortedParked()
		for _, g := range ps {
			r.release(g)
		}
		if ok, _, _ := vQuiesce(); !ok {
			break
		}
		r.pe.lock.Lock()
		guarded := r.pe.guarded
		r.pe.lock.Unlock()
		if len(ps) == 0 && !guarded && len(r.sortedParked()) == 0 {
			break
		}
		timex.AdvanceFake(time.Duration(c.Interval * 100))
		tick()
		vQuiesce()
	}
	for _, cl := range r.clients {
		if cl.idle.Load() {
			close(cl.cmds)
		}
	}
	return out
}

func toJSON(v any) string {
	b, _ := json.Marshal(v)
	return string(b)
}

func TestVerifC11(t *testing.T) {
	in, outp := os.Getenv("VERIF_IN"), os.Getenv("VERIF_OUT")
	if in == "" || outp == "" {
		t.Skip("VERIF_IN/VERIF_OUT not set")
	}
	logx.Disable()
	data, err := os.ReadFile(in)
	if err != nil {
		t.Fatal(err)
	}
	var cases []vCase
	if err := json.Unmarshal(data, &cases); err != nil {
		t.Fatal(err)
	}
	f, err := os.Create(outp)
	if err != nil {
		t.Fatal(err)
	}
	w := bufio.NewWriterSize(f, 1<<20)
	for _, c := range cases {
		o := vRunCase(c)
		b, _ := json.Marshal(o)
		w.Write(b)
		w.WriteByte('\n')
	}
	w.Flush()
	f.Close()
}
