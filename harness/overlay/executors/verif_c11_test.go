// White-box executor for property C11, injected into package executors with
// `go test -overlay` (never written under /repo).  The controller (forced schedules on
// several Bulk / Chunk / Periodical executors at once) lives in verif_c11_ctl.go, which is
// added to the package the same way; this file is the test entry point.
package executors

import (
	"os"
	"testing"

	"github.com/zeromicro/go-zero/core/logx"
)

func TestVerifC11(t *testing.T) {
	in, outp := os.Getenv("VERIF_IN"), os.Getenv("VERIF_OUT")
	if in == "" || outp == "" {
		t.Skip("VERIF_IN/VERIF_OUT not set")
	}
	logx.Disable()
	if err := VerifRunFile(in, outp, nil); err != nil {
		t.Fatal(err)
	}
}
