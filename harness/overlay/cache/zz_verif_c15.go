// Build-time instrumentation for the C15 executor (ADDED to package cache with
// `go build -overlay`; nothing is replaced and nothing is written under /repo).
// The executor drives the cleaner's timing wheel with its own ticker, so that the
// asynchronous retry of a failed DEL (cacheNode.asyncRetryDelCache -> AddCleanTask)
// becomes an explicit, replayable event of a cluster script.  The wheel has the
// same interval, slot count and callback (`clean`) as the one built by init() in
// cleaner.go.
package cache

import (
	"time"

	"github.com/zeromicro/go-zero/core/collection"
	"github.com/zeromicro/go-zero/core/timex"
)

// VerifC15CleanerWheel replaces the package's cleaner wheel by one ticking on tk.
func VerifC15CleanerWheel(tk timex.Ticker) (*collection.TimingWheel, error) {
	tw, err := collection.NewTimingWheelWithTicker(time.Second, timingWheelSlots, clean, tk)
	if err != nil {
		return nil, err
	}
	timingWheel.Store(tw)
	return tw, nil
}
