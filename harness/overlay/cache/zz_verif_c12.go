// Build-time instrumentation for the C12 executor (ADDED to package cache with
// `go build -overlay`; nothing is replaced and nothing is written under /repo).
// The cleaner's timing wheel (cleaner.go init) is rebuilt with the same interval,
// slot count and callback (`clean`), ticking on the executor's ticker, behind the
// recording relay of core/collection/zz_verif_c12.go.
package cache

import (
	"time"

	"github.com/zeromicro/go-zero/core/collection"
	"github.com/zeromicro/go-zero/core/timex"
)

type verifC12Conv struct{ rec collection.VerifC12Recorder }

func verifC12Val(v any) any {
	if dt, ok := v.(delayTask); ok {
		return int64(dt.delay)
	}
	return v
}

func (c verifC12Conv) Op(kind string, k, v any, d time.Duration) {
	c.rec.Op(kind, k, verifC12Val(v), d)
}

func (c verifC12Conv) Fire(k, v any) { c.rec.Fire(k, v) }

var verifC12Orig *collection.TimingWheel

// VerifC12CleanerWheel replaces the cleaner's wheel; stop restores the original one.
func VerifC12CleanerWheel(tk timex.Ticker, rec collection.VerifC12Recorder) (numSlots int,
	interval time.Duration, stop func(), err error) {
	if verifC12Orig == nil {
		verifC12Orig = timingWheel.Load().(*collection.TimingWheel)
	}
	relay, inner, err := collection.VerifC12Retap(verifC12Orig, tk, verifC12Conv{rec}, verifC12Val)
	if err != nil {
		return 0, 0, nil, err
	}
	timingWheel.Store(relay)
	interval, numSlots = collection.VerifC12Params(verifC12Orig)
	return numSlots, interval, func() {
		inner.Stop()
		timingWheel.Store(verifC12Orig)
	}, nil
}
