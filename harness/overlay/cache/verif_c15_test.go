package cache

// White-box executor for C15 (injected with `go test -overlay`): the empty-ring error path of
// cacheCluster, which the public constructor cannot reach (New exits on a zero total weight).

import (
	"encoding/json"
	"errors"
	"os"
	"testing"

	"github.com/zeromicro/go-zero/core/hash"
)

func TestVerifC15Empty(t *testing.T) {
	errNF := errors.New("verif: not found")
	cc := cacheCluster{dispatcher: hash.NewConsistentHash(), errNotFound: errNF}
	var v string
	e1 := cc.Get("k", &v)
	e2 := cc.Set("k", "v")
	e3 := cc.Del("k")
	e4 := cc.Del("a", "b")
	e5 := cc.Take(&v, "k", func(any) error { return nil })
	out := map[string]any{
		"pkg":  "cache",
		"get":  e1 == errNF,
		"set":  e2 == errNF,
		"del":  e3 == errNF && e4 != nil,
		"incr": e5 == errNF,
	}
	b, _ := json.Marshal(out)
	if err := os.WriteFile(os.Getenv("VERIF_OUT"), append(b, '\n'), 0o644); err != nil {
		t.Fatal(err)
	}
}
