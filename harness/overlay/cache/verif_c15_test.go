package cache

// White-box executor for C15 (injected with `go test -overlay`): the empty-ring error path of
// cacheCluster, which the public constructor cannot reach (New exits on a zero total weight).
// Every method must answer the cluster's errNotFound (the multi-key Del: an error naming the keys)
// — never panic, never succeed.

import (
	"encoding/json"
	"errors"
	"os"
	"strings"
	"testing"
	"time"

	"github.com/zeromicro/go-zero/core/hash"
)

func TestVerifC15Empty(t *testing.T) {
	errNF := errors.New("verif: not found")
	cc := cacheCluster{dispatcher: hash.NewConsistentHash(), errNotFound: errNF}
	var v string
	e1 := cc.Get("k", &v)
	e2 := cc.Set("k", "v")
	e3 := cc.Del("k")
	e4 := cc.Del("a", "b")
	e5 := cc.Take(&v, "k", func(any) error { return nil })
	e6 := cc.SetWithExpire("k", "v", time.Minute)
	e7 := cc.TakeWithExpire(&v, "k", func(any, time.Duration) error { return nil })
	e8 := cc.Del()
	out := map[string]any{
		"pkg":  "cache",
		"get":  e1 == errNF,
		"set":  e2 == errNF,
		"del":  e3 == errNF && e4 != nil && strings.Contains(e4.Error(), `"a"`) && strings.Contains(e4.Error(), `"b"`) && e8 == nil,
		"incr": e5 == errNF,
		"all":  e6 == errNF && e7 == errNF && cc.IsNotFound(errNF),
	}
	b, _ := json.Marshal(out)
	if err := os.WriteFile(os.Getenv("VERIF_OUT"), append(b, '\n'), 0o644); err != nil {
		t.Fatal(err)
	}
}
