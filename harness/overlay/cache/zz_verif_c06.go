// Build-time instrumentation for the C06 executor (added to package cache with
// `go build -overlay`; nothing is replaced and nothing is written under /repo).
// It lets the executor drive the cleaner's timing wheel with its own ticker, so
// that the asynchronous retry of a failed DEL becomes an explicit, replayable
// event.  The wheel has the same interval, slot count and callback (`clean`) as
// the one built by init() in cleaner.go.
package cache

import (
	"time"

	"github.com/zeromicro/go-zero/core/collection"
	"github.com/zeromicro/go-zero/core/timex"
)

// VerifNewCleanerWheel replaces the package's cleaner wheel by one ticking on tk.
func VerifNewCleanerWheel(tk timex.Ticker) (*collection.TimingWheel, error) {
	tw, err := collection.NewTimingWheelWithTicker(time.Second, timingWheelSlots, clean, tk)
	if err != nil {
		return nil, err
	}
	timingWheel.Store(tw)
	return tw, nil
}
