// Build-time instrumentation for the C16 executor (ADDED to package collection with
// `go build -overlay`; nothing is replaced and nothing is written under /repo).
//
// It only READS what the property talks about ("never holds more than its limit",
// "Take calls the loader only on a miss") without perturbing the cache's recency
// order the way a probing Get does, and lets the executor put one scripted action
// between a Take's first look-up and its single-flight call (the window in which
// another goroutine may have stored the key: Take's double check).
package collection

import (
	"sort"

	"github.com/zeromicro/go-zero/core/syncx"
)

// VerifC16CacheSize is the callback NewCache hands to the stat loop (Cache.size).
func VerifC16CacheSize(c *Cache) int { return c.size() }

// VerifC16CacheHeld returns the keys of c.data, sorted.
func VerifC16CacheHeld(c *Cache) []string {
	c.lock.Lock()
	defer c.lock.Unlock()
	ks := make([]string, 0, len(c.data))
	for k := range c.data {
		ks = append(ks, k)
	}
	sort.Strings(ks)
	return ks
}

type verifC16Barrier struct {
	inner  syncx.SingleFlight
	before func(key string)
}

func (b *verifC16Barrier) Do(key string, fn func() (any, error)) (any, error) {
	if f := b.before; f != nil {
		b.before = nil
		f(key)
	}
	return b.inner.Do(key, fn)
}

func (b *verifC16Barrier) DoEx(key string, fn func() (any, error)) (any, bool, error) {
	if f := b.before; f != nil {
		b.before = nil
		f(key)
	}
	return b.inner.DoEx(key, fn)
}

// VerifC16BeforeFlight arranges for `before` to run once, on the calling goroutine,
// after the next Take has missed and before it enters the cache's single flight.
// The single flight itself is the cache's own.
func VerifC16BeforeFlight(c *Cache, before func(key string)) {
	if b, ok := c.barrier.(*verifC16Barrier); ok {
		b.before = before
		return
	}
	c.barrier = &verifC16Barrier{inner: c.barrier, before: before}
}

// VerifC16GateExpiry puts gate in front of the cache's wheel callback: gate(key) runs on the
// wheel's callback goroutine (the one timingwheel.go's runTasks starts after the tick has
// removed the fired timers) before the callback itself, cache.Del(key).  Call it right after
// NewCache, before the wheel has been given anything to do.
func VerifC16GateExpiry(c *Cache, gate func(key any)) {
	orig := c.timingWheel.execute
	c.timingWheel.execute = func(k, v any) {
		gate(k)
		orig(k, v)
	}
}
