// Added (not replacing anything) to package core/collection at build time with `go build -overlay`
// by the C07 executor; never committed to /repo.  It only exposes a way to decorate the Cache's
// SingleFlight barrier so that "Take missed the cache, about to enter the barrier" becomes a
// schedule point of the controller (the same device as core/syncx/verif_hooks.go for the
// ResourceManager).
package collection

import "github.com/zeromicro/go-zero/core/syncx"

// VerifC07WrapBarrier replaces the cache's barrier by wrap(current).
func (c *Cache) VerifC07WrapBarrier(wrap func(syncx.SingleFlight) syncx.SingleFlight) {
	c.barrier = wrap(c.barrier)
}
