// Build-time instrumentation for the C12 executor (ADDED to package collection with
// `go build -overlay`; nothing is replaced and nothing is written under /repo).
//
// It lets the executor look at a TimingWheel from the wheel's own point of view when
// the wheel is driven by a client inside go-zero (collection.Cache, the cache cleaner):
//
//   - VerifC12Relay puts a relay in front of a wheel: a *TimingWheel value whose
//     request channels are read by a goroutine that records every request
//     (SetTimer/MoveTimer/RemoveTimer/Drain, with key, value and the delay actually
//     passed) and hands it on, unchanged and in the same order, to the real wheel.
//     The public methods of TimingWheel only use these channels, so the client code
//     runs unmodified against the relay.
//   - VerifC12TapCache rebuilds the wheel of a Cache with the SAME interval, slot
//     count and callback that NewCache chose (read from the wheel NewCache built,
//     which is stopped), but on the executor's ticker, and installs a relay.
//
// Everything the wheel does (setTask, moveTask, removeTask, scanAndRunTasks, drainAll,
// the run loop) is the code of timingwheel.go.
package collection

import (
	"sort"
	"sync"
	"time"

	"github.com/zeromicro/go-zero/core/timex"
)

// VerifC12Recorder receives the wheel-level events.
type VerifC12Recorder interface {
	// Op is called by the relay, in the order in which the wheel receives the requests.
	Op(kind string, key, value any, delay time.Duration)
	// Fire is called at the beginning of every execute callback of the wheel.
	Fire(key, value any)
}

// VerifC12Relay returns a TimingWheel value that forwards every request to inner.
func VerifC12Relay(inner *TimingWheel, rec VerifC12Recorder) *TimingWheel {
	// channels of whatever element types the wheel uses today (a request type may be refactored)
	proxy := &TimingWheel{
		setChannel:    verifC12ChanLike(inner.setChannel),
		moveChannel:   verifC12ChanLike(inner.moveChannel),
		removeChannel: verifC12ChanLike(inner.removeChannel),
		drainChannel:  verifC12ChanLike(inner.drainChannel),
		stopChannel:   inner.stopChannel,
	}
	go verifC12RelayLoop(proxy, inner, rec)
	return proxy
}

func verifC12ChanLike[T any](chan T) chan T { return make(chan T) }

func verifC12RelayLoop(proxy, inner *TimingWheel, rec VerifC12Recorder) {
	for {
		select {
		case e := <-proxy.setChannel:
			rec.Op("set", e.key, e.value, e.delay)
			select {
			case inner.setChannel <- e:
			case <-inner.stopChannel:
				return
			}
		case e := <-proxy.moveChannel:
			rec.Op("move", e.key, nil, e.delay)
			select {
			case inner.moveChannel <- e:
			case <-inner.stopChannel:
				return
			}
		case k := <-proxy.removeChannel:
			rec.Op("remove", k, nil, 0)
			select {
			case inner.removeChannel <- k:
			case <-inner.stopChannel:
				return
			}
		case fn := <-proxy.drainChannel:
			rec.Op("drain", nil, nil, 0)
			select {
			case inner.drainChannel <- fn:
			case <-inner.stopChannel:
				return
			}
		case <-inner.stopChannel:
			return
		}
	}
}

// VerifC12Tap is a Cache whose wheel is observed.
type VerifC12Tap struct {
	Interval time.Duration
	NumSlots int
	cache    *Cache
	inner    *TimingWheel
}

// VerifC12Retap builds a wheel with the interval, slot count and callback of old, ticking
// on tk, and returns a relay in front of it (and the wheel itself).  old is not touched.
func VerifC12Retap(old *TimingWheel, tk timex.Ticker, rec VerifC12Recorder,
	conv func(v any) any) (relay, inner *TimingWheel, err error) {
	exec := old.execute
	inner, err = NewTimingWheelWithTicker(old.interval, old.numSlots, func(k, v any) {
		rec.Fire(k, conv(v))
		exec(k, v)
	}, tk)
	if err != nil {
		return nil, nil, err
	}
	return VerifC12Relay(inner, rec), inner, nil
}

// VerifC12Params returns the interval and the slot count of a wheel.
func VerifC12Params(tw *TimingWheel) (time.Duration, int) {
	return tw.interval, tw.numSlots
}

type verifC12Shared struct {
	relay, inner *TimingWheel
}

var (
	verifC12Mu     sync.Mutex
	verifC12Tapped = map[*TimingWheel]*verifC12Shared{}
)

// VerifC12TapCache must be called right after NewCache, before the cache is used.
// Caches that were given one and the same wheel keep sharing one (relayed) wheel.
func VerifC12TapCache(c *Cache, tk timex.Ticker, rec VerifC12Recorder) (*VerifC12Tap, error) {
	old := c.timingWheel
	verifC12Mu.Lock()
	defer verifC12Mu.Unlock()
	sh := verifC12Tapped[old]
	if sh == nil {
		relay, inner, err := VerifC12Retap(old, tk, rec, func(v any) any { return v })
		if err != nil {
			return nil, err
		}
		old.Stop()
		sh = &verifC12Shared{relay: relay, inner: inner}
		verifC12Tapped[old] = sh
	}
	c.timingWheel = sh.relay
	return &VerifC12Tap{Interval: old.interval, NumSlots: old.numSlots, cache: c, inner: sh.inner}, nil
}

// Keys returns the keys of c.data, sorted.
func (t *VerifC12Tap) Keys() []string {
	t.cache.lock.Lock()
	defer t.cache.lock.Unlock()
	keys := make([]string, 0, len(t.cache.data))
	for k := range t.cache.data {
		keys = append(keys, k)
	}
	sort.Strings(keys)
	return keys
}

// Drain drains the cache's wheel through the relay.
func (t *VerifC12Tap) Drain(fn func(k, v any)) error {
	return t.cache.timingWheel.Drain(fn)
}

// Stop stops the wheel (and with it the relay).
func (t *VerifC12Tap) Stop() {
	verifC12Mu.Lock()
	defer verifC12Mu.Unlock()
	for old, sh := range verifC12Tapped {
		if sh.inner == t.inner {
			delete(verifC12Tapped, old)
			t.inner.Stop()
		}
	}
}
