//go:build verif

// White-box executor for property C11 on core/stores/sqlx.BulkInserter, injected into
// package sqlx with `go test -overlay` (never written under /repo).  The forced-schedule
// controller is the one of core/executors (verif_c11_ctl.go, added to that package by the
// same overlay); this file supplies the kind "sqlx": a BulkInserter over a stub SqlConn.
// Insert -> Add, Flush / UpdateStmt / UpdateOrDelete -> Flush, SetResultHandler -> Sync,
// (the inner executor's) Wait -> Wait.  The inserter's container (dbInserter) is wrapped so
// that the content of a batch is read when its callback starts (the callback parks there)
// and compared with the rows of the statement that dbInserter.Execute hands to SqlConn.Exec
// after the release.
package sqlx

import (
	"database/sql"
	"errors"
	"os"
	"regexp"
	"strconv"
	"sync"
	"sync/atomic"
	"testing"

	"github.com/zeromicro/go-zero/core/executors"
	"github.com/zeromicro/go-zero/core/logx"
)

var vRowRe = regexp.MustCompile(`\((-?\d+)\)`)

func vParseRows(s string) []int64 {
	var ids []int64
	for _, m := range vRowRe.FindAllStringSubmatch(s, -1) {
		id, _ := strconv.ParseInt(m[1], 10, 64)
		ids = append(ids, id)
	}
	return ids
}

func vParseVals(vals []string) []int64 {
	ids := make([]int64, 0, len(vals))
	for _, v := range vals {
		r := vParseRows(v)
		if len(r) == 1 {
			ids = append(ids, r[0])
		} else {
			ids = append(ids, -999)
		}
	}
	return ids
}

type vResult struct{}

func (vResult) LastInsertId() (int64, error) { return 0, nil }
func (vResult) RowsAffected() (int64, error) { return 0, nil }

// stub connection: only Exec is ever called by the BulkInserter
type vConn struct {
	SqlConn
	rt    *executors.VerifRT
	mu    sync.Mutex
	stmts map[int64]string // goroutine -> the statement it executed last
}

func (c *vConn) Exec(q string, args ...any) (sql.Result, error) {
	c.mu.Lock()
	c.stmts[executors.VerifGoid()] = q
	c.mu.Unlock()
	if c.rt.Bad(vParseRows(q)) {
		return nil, errors.New("verif: bad row")
	}
	return vResult{}, nil
}

type vWrap struct {
	inner executors.TaskContainer
	rt    *executors.VerifRT
	conn  *vConn
}

func (w *vWrap) AddTask(task any) bool { return w.inner.AddTask(task) }
func (w *vWrap) RemoveAll() any        { return w.inner.RemoveAll() }
func (w *vWrap) Execute(tasks any) {
	vals := tasks.([]string)
	ids := vParseVals(vals)
	g := w.rt.Park(ids) // a slow callback: the batch is used only after the release
	w.inner.Execute(tasks)
	id := executors.VerifGoid()
	w.conn.mu.Lock()
	q, ok := w.conn.stmts[id]
	delete(w.conn.stmts, id)
	w.conn.mu.Unlock()
	if ok {
		g.SetEnd(vParseRows(q))
	} else {
		g.SetEnd(nil)
	}
	if w.rt.Scribble() {
		for i := range vals {
			vals[i] = "(" + strconv.Itoa(-1000-i) + ")"
		}
	}
	if w.rt.Bad(ids) {
		panic("verif: bad row")
	}
}

const (
	vStmtA = "insert into ta (id) values (?)"
	vStmtB = "insert into tb(id) values (?) on duplicate key update id = id"
)

// no "values" keyword / no variables / columns and variables do not match
var vBadStmts = []string{"insert into ta (id) select 1", "insert into ta (id) values (1)", "insert into ta (id, x) values (?)"}

func vSqlxFactory(in executors.VerifInst, rt *executors.VerifRT) *executors.VerifHooks {
	if in.Kind != "sqlx" {
		return nil
	}
	conn := &vConn{rt: rt, stmts: map[int64]string{}}
	for _, bad := range vBadStmts {
		if _, err := NewBulkInserter(conn, bad); err == nil {
			return nil // a malformed statement was accepted: the case fails ("unknown kind")
		}
	}
	bi, err := NewBulkInserter(conn, vStmtA)
	if err != nil {
		return nil
	}
	executors.VerifWrapContainer(bi.executor, func(inner executors.TaskContainer) executors.TaskContainer {
		return &vWrap{inner: inner, rt: rt, conn: conn}
	})
	var updating atomic.Bool
	var toggle atomic.Int32
	var handled atomic.Int64
	return &executors.VerifHooks{
		PE:  bi.executor,
		Add: func(id int64, w int) { bi.Insert(id) },
		Flush: func(v int) {
			switch v {
			case 1:
				updating.Store(true)
				if toggle.Add(1)%2 == 1 {
					bi.UpdateStmt(vStmtB)
				} else {
					bi.UpdateStmt(vStmtA)
				}
				updating.Store(false)
			case 2:
				bi.UpdateOrDelete(func() {})
			default:
				bi.Flush()
			}
		},
		Wait: func(int) { bi.executor.Wait() },
		Sync: func(func()) {
			bi.SetResultHandler(func(sql.Result, error) { handled.Add(1) })
		},
		Tasks: func() []int64 { return vParseVals(bi.inserter.values) },
		Size:  func() int { return len(bi.inserter.values) },
		// Insert holds bi.lock (read) while it is inside Add, UpdateStmt holds it (write) around its
		// Flush: calls that would block on bi.lock, outside the executor, are not started
		CanAdd: func() bool { return !updating.Load() },
		FlushVariant: func(v int, anyBusy bool) int {
			if v == 1 && anyBusy {
				return 0
			}
			return v
		},
		// Insert with one argument too many, UpdateStmt with a malformed statement: an error, no effect
		Reject: func(v int, id int64) bool {
			if v == 0 {
				return bi.Insert(id, id) != nil
			}
			return bi.UpdateStmt(vBadStmts[v%len(vBadStmts)]) != nil
		},
	}
}

func TestVerifC11Sqlx(t *testing.T) {
	in, outp := os.Getenv("VERIF_IN"), os.Getenv("VERIF_OUT")
	if in == "" || outp == "" {
		t.Skip("VERIF_IN/VERIF_OUT not set")
	}
	logx.Disable()
	if err := executors.VerifRunFile(in, outp, vSqlxFactory); err != nil {
		t.Fatal(err)
	}
}
