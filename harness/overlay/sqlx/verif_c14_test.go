//go:build verif

// White-box executor for property C14, injected into package sqlx with `go test -overlay`
// (never written under /repo).  It does ONE thing the black-box executor (harness/cmd/c14)
// cannot do deterministically: it replaces the circuit breaker of a SqlConn (the unexported
// field of breaker.Breaker type, found by reflection, whatever it is called) by a switch
// around the real breaker, and the body of a transaction flips the switch OPEN at a step of
// its choosing ("tripbrk"): from then on every request through that SqlConn's breaker is
// refused with breaker.ErrServiceUnavailable.  A transaction that has begun must still be
// ended exactly once.  The observation has the format of harness/cmd/c14, so the cases are
// rendered and judged (agrees / prop_ok) like all the others.
//
// It does a SECOND thing: the func-typed field of the SqlConn that begins transactions (today
// beginTx, found by reflection) is wrapped so that the transaction object handed to transactOnConn
// counts: the log entries "commit" / "rollback" are the CALLS MADE ON THAT OBJECT (the trans
// interface), not the calls that reach the driver - a second end call, which *sql.Tx itself answers
// with ErrTxDone without telling the driver, is an entry of the log.  The caller's context is
// controller-driven: it ends (cancel / deadline) at a "cancel" step of the body or inside a driver
// call whose reply carries "+c".
//
// Case subset: transactions run one after the other (no schedule) on conns of kind "db" with
// no WithAcceptable option; api ctx | plain; steps stmt exec (Exec / ExecCtx), tripbrk, cancel, nop;
// oracle ok | fail (generic), each with "+c"; thread flag deadline.
package sqlx

import (
	"context"
	"database/sql"
	"database/sql/driver"
	"encoding/json"
	"errors"
	"fmt"
	"os"
	"reflect"
	"runtime"
	"strings"
	"testing"
	"unsafe"

	"github.com/zeromicro/go-zero/core/breaker"
	"github.com/zeromicro/go-zero/core/logx"
)

type v14Step struct {
	Act     string `json:"act"`
	Meth    string `json:"meth"`
	WithCtx bool   `json:"withctx"`
	OnFail  string `json:"onfail"`
}

type v14Thread struct {
	Conn     int       `json:"conn"`
	API      string    `json:"api"`
	Deadline bool      `json:"deadline"`
	Steps    []v14Step `json:"steps"`
	Fin      string    `json:"fin"`
}

// a context ended by the executor, with context.Canceled or context.DeadlineExceeded
type v14Ctx struct {
	context.Context
	done chan struct{}
	kind error
	over bool
}

func (c *v14Ctx) Done() <-chan struct{} { return c.done }
func (c *v14Ctx) Err() error {
	if c.over {
		return c.kind
	}
	return nil
}
func (c *v14Ctx) end() {
	if !c.over {
		c.over = true
		close(c.done)
	}
}

type v14Case struct {
	ID      int         `json:"id"`
	Conns   []any       `json:"conns"`
	Threads []v14Thread `json:"threads"`
	Oracle  []string    `json:"oracle"`
}

var (
	v14ErrBegin    = errors.New("inj: begin failed")
	v14ErrCommit   = errors.New("inj: commit failed")
	v14ErrRollback = errors.New("inj: rollback failed (driver)")
	v14ErrUser     = errors.New("inj: body says no")
)

var v14Sentinels = []struct {
	name string
	err  error
}{
	{"badconn", driver.ErrBadConn}, {"txdone", sql.ErrTxDone}, {"conndone", sql.ErrConnDone}, {"norows", sql.ErrNoRows},
	{"canceled", context.Canceled}, {"deadline", context.DeadlineExceeded}, {"skip", driver.ErrSkip},
	{"unavail", breaker.ErrServiceUnavailable},
}

// ---- scripted driver -------------------------------------------------------------
type v14Plan struct {
	oracle  []string
	used    int
	log     [][]any
	cur     int
	nextID  int
	stmtErr map[int]error
	lastBad bool
	cancel  func()
	counted bool // Commit / Rollback are logged where they are CALLED (on the trans object), not in the driver
	conn    int  // connection of the running transaction's Begin
}

func (p *v14Plan) call(conn int, kind string, k int) bool {
	o := "ok"
	if p.used < len(p.oracle) {
		o = p.oracle[p.used]
	}
	p.used++
	if strings.HasSuffix(o, "+c") {
		o = strings.TrimSuffix(o, "+c")
		if p.cancel != nil {
			p.cancel()
		}
	}
	if o != "ok" {
		o = "fail"
		p.lastBad = true
	}
	if kind == "begin" && o == "ok" {
		p.conn = conn
	}
	if !(p.counted && (kind == "commit" || kind == "rollback")) {
		p.log = append(p.log, []any{p.cur, conn, kind, k, o, "generic", "bare"})
	}
	return o == "ok"
}

// v14Counted is the transaction object handed to transactOnConn: every Commit / Rollback CALLED on it is
// an entry of the log, whether or not it reaches the driver.
type v14Counted struct {
	Session
	end interface {
		Commit() error
		Rollback() error
	}
	p *v14Plan
}

func (t v14Counted) note(kind string, err error) error {
	o, vk := "ok", "generic"
	if err != nil {
		o = "fail"
		if errors.Is(err, sql.ErrTxDone) {
			vk = "txdone"
		}
	}
	t.p.log = append(t.p.log, []any{t.p.cur, t.p.conn, kind, -1, o, vk, "bare"})
	return err
}
func (t v14Counted) Commit() error   { return t.note("commit", t.end.Commit()) }
func (t v14Counted) Rollback() error { return t.note("rollback", t.end.Rollback()) }

var v14DBType = reflect.TypeOf((*sql.DB)(nil))

// v14Count wraps the func field func(*sql.DB) (<transaction interface>, error) of the struct behind the SqlConn.
func v14Count(conn SqlConn, p *v14Plan) bool {
	v := reflect.ValueOf(conn)
	if v.Kind() != reflect.Ptr || v.Elem().Kind() != reflect.Struct {
		return false
	}
	s := v.Elem()
	for i := 0; i < s.NumField(); i++ {
		f := s.Field(i)
		ft := f.Type()
		if ft.Kind() != reflect.Func || ft.NumIn() != 1 || ft.In(0) != v14DBType || ft.NumOut() != 2 || f.IsNil() {
			continue
		}
		out := ft.Out(0)
		if out.Kind() != reflect.Interface || !reflect.TypeOf(v14Counted{}).Implements(out) {
			continue
		}
		slot := reflect.NewAt(ft, unsafe.Pointer(f.UnsafeAddr())).Elem()
		orig := reflect.ValueOf(slot.Interface())
		slot.Set(reflect.MakeFunc(ft, func(args []reflect.Value) []reflect.Value {
			res := orig.Call(args)
			if !res[1].IsNil() || res[0].IsNil() {
				return res
			}
			inner := res[0].Interface()
			sess, ok1 := inner.(Session)
			end, ok2 := inner.(interface {
				Commit() error
				Rollback() error
			})
			if !ok1 || !ok2 {
				return res
			}
			w := reflect.New(out).Elem()
			w.Set(reflect.ValueOf(v14Counted{Session: sess, end: end, p: p}))
			return []reflect.Value{w, res[1]}
		}))
		p.counted = true
		return true
	}
	return false
}

type v14Connector struct{ p *v14Plan }

func (c v14Connector) Connect(context.Context) (driver.Conn, error) {
	c.p.nextID++
	return &v14Conn{p: c.p, id: c.p.nextID}, nil
}
func (c v14Connector) Driver() driver.Driver { return v14Driver{} }

type v14Driver struct{}

func (v14Driver) Open(string) (driver.Conn, error) { return nil, errors.New("not used") }

type v14Conn struct {
	p  *v14Plan
	id int
}

func (c *v14Conn) Close() error                        { return nil }
func (c *v14Conn) Prepare(string) (driver.Stmt, error) { return nil, errors.New("not used") }
func (c *v14Conn) Begin() (driver.Tx, error) {
	if !c.p.call(c.id, "begin", -1) {
		return nil, v14ErrBegin
	}
	return &v14Tx{c: c}, nil
}
func (c *v14Conn) ExecContext(_ context.Context, q string, _ []driver.NamedValue) (driver.Result, error) {
	var tid, k int
	if _, e := fmt.Sscanf(q, "t%d stmt %d", &tid, &k); e != nil {
		return nil, e
	}
	if !c.p.call(c.id, "exec", k) {
		e := fmt.Errorf("inj: statement %d of transaction %d failed", k, tid)
		c.p.stmtErr[k] = e
		return nil, e
	}
	return driver.RowsAffected(1), nil
}

type v14Tx struct{ c *v14Conn }

func (t *v14Tx) Commit() error {
	if !t.c.p.call(t.c.id, "commit", -1) {
		return v14ErrCommit
	}
	return nil
}
func (t *v14Tx) Rollback() error {
	if !t.c.p.call(t.c.id, "rollback", -1) {
		return v14ErrRollback
	}
	return nil
}

// ---- the switch around the real breaker --------------------------------------------
type v14Switch struct {
	breaker.Breaker
	open *bool
}

func (s v14Switch) Allow() (breaker.Promise, error) {
	if *s.open {
		return nil, breaker.ErrServiceUnavailable
	}
	return s.Breaker.Allow()
}
func (s v14Switch) AllowCtx(ctx context.Context) (breaker.Promise, error) {
	if *s.open {
		return nil, breaker.ErrServiceUnavailable
	}
	return s.Breaker.AllowCtx(ctx)
}
func (s v14Switch) Do(req func() error) error {
	if *s.open {
		return breaker.ErrServiceUnavailable
	}
	return s.Breaker.Do(req)
}
func (s v14Switch) DoCtx(ctx context.Context, req func() error) error {
	if *s.open {
		return breaker.ErrServiceUnavailable
	}
	return s.Breaker.DoCtx(ctx, req)
}
func (s v14Switch) DoWithAcceptable(req func() error, acc breaker.Acceptable) error {
	if *s.open {
		return breaker.ErrServiceUnavailable
	}
	return s.Breaker.DoWithAcceptable(req, acc)
}
func (s v14Switch) DoWithAcceptableCtx(ctx context.Context, req func() error, acc breaker.Acceptable) error {
	if *s.open {
		return breaker.ErrServiceUnavailable
	}
	return s.Breaker.DoWithAcceptableCtx(ctx, req, acc)
}
func (s v14Switch) DoWithFallback(req func() error, fb breaker.Fallback) error {
	if *s.open {
		return fb(breaker.ErrServiceUnavailable)
	}
	return s.Breaker.DoWithFallback(req, fb)
}
func (s v14Switch) DoWithFallbackCtx(ctx context.Context, req func() error, fb breaker.Fallback) error {
	if *s.open {
		return fb(breaker.ErrServiceUnavailable)
	}
	return s.Breaker.DoWithFallbackCtx(ctx, req, fb)
}
func (s v14Switch) DoWithFallbackAcceptable(req func() error, fb breaker.Fallback, acc breaker.Acceptable) error {
	if *s.open {
		return fb(breaker.ErrServiceUnavailable)
	}
	return s.Breaker.DoWithFallbackAcceptable(req, fb, acc)
}
func (s v14Switch) DoWithFallbackAcceptableCtx(ctx context.Context, req func() error, fb breaker.Fallback,
	acc breaker.Acceptable) error {
	if *s.open {
		return fb(breaker.ErrServiceUnavailable)
	}
	return s.Breaker.DoWithFallbackAcceptableCtx(ctx, req, fb, acc)
}

var v14BreakerType = reflect.TypeOf((*breaker.Breaker)(nil)).Elem()

// v14Force replaces every field of type breaker.Breaker of the struct behind the SqlConn.
func v14Force(conn SqlConn, open *bool) bool {
	v := reflect.ValueOf(conn)
	if v.Kind() != reflect.Ptr || v.Elem().Kind() != reflect.Struct {
		return false
	}
	s := v.Elem()
	found := false
	for i := 0; i < s.NumField(); i++ {
		f := s.Field(i)
		if f.Type() != v14BreakerType || f.IsNil() {
			continue
		}
		slot := (*breaker.Breaker)(unsafe.Pointer(f.UnsafeAddr()))
		*slot = v14Switch{Breaker: *slot, open: open}
		found = true
	}
	return found
}

// ---- one case ---------------------------------------------------------------------
func v14Run(c v14Case) map[string]any {
	p := &v14Plan{oracle: c.Oracle, stmtErr: map[int]error{}, cur: -1}
	db := sql.OpenDB(v14Connector{p: p})
	defer db.Close()
	nconns := len(c.Conns)
	if nconns == 0 {
		nconns = 1
	}
	conns := make([]SqlConn, nconns)
	opens := make([]*bool, nconns)
	for i := range conns {
		conns[i] = NewSqlConnFromDB(db)
		opens[i] = new(bool)
		if !v14Force(conns[i], opens[i]) {
			return map[string]any{"id": c.ID, "unsupported": "no field of type breaker.Breaker behind the SqlConn"}
		}
		if !v14Count(conns[i], p) {
			return map[string]any{"id": c.ID, "unsupported": "no func(*sql.DB) (transaction, error) field behind the SqlConn"}
		}
	}
	var esched []int
	var threads []map[string]any
	for t := range c.Threads {
		sp := c.Threads[t]
		p.cur = t
		for i := 0; i < len(sp.Steps)+2; i++ {
			esched = append(esched, t)
		}
		var (
			runs, trips       int
			body              = []any{"none"}
			bodyRet, retErr   error
			returned, panicked bool
			sess              Session
		)
		kind := context.Canceled
		if sp.Deadline {
			kind = context.DeadlineExceeded
		}
		callCtx := &v14Ctx{Context: context.Background(), done: make(chan struct{}), kind: kind}
		p.cancel = callCtx.end
		fn := func(ctx context.Context, s Session) error {
			runs++
			sess = s
			body = []any{"running"}
			for k, st := range sp.Steps {
				p.lastBad = false
				var err error
				switch st.Act {
				case "stmt":
					q := fmt.Sprintf("t%d stmt %d", t, k)
					if st.WithCtx {
						_, err = s.ExecCtx(ctx, q)
					} else {
						_, err = s.Exec(q)
					}
				case "tripbrk":
					*opens[sp.Conn] = true
					trips++
				case "cancel":
					callCtx.end()
				}
				if err == nil {
					continue
				}
				switch st.OnFail {
				case "stop":
					switch {
					case p.lastBad:
						body = []any{"stmt", k, "generic", "bare"}
					case errors.Is(err, context.Canceled), errors.Is(err, context.DeadlineExceeded):
						body = []any{"ctx", k}
					default:
						body = []any{"unexpected", k}
					}
					bodyRet = err
					return err
				case "panic":
					body = []any{"panic"}
					panic(fmt.Sprintf("statement %d failed: %v", k, err))
				}
			}
			switch sp.Fin {
			case "err":
				body = []any{"user"}
				bodyRet = v14ErrUser
				return bodyRet
			case "panic":
				body = []any{"panic"}
				panic("body panics")
			case "goexit":
				body = []any{"goexit"}
				runtime.Goexit()
			}
			body = []any{"nil"}
			return nil
		}
		done := make(chan struct{})
		go func() {
			defer close(done)
			defer func() {
				if r := recover(); r != nil {
					panicked = true
				}
			}()
			if sp.API == "plain" {
				retErr = conns[sp.Conn].Transact(func(s Session) error { return fn(context.Background(), s) })
			} else {
				retErr = conns[sp.Conn].TransactCtx(callCtx, fn)
			}
			returned = true
		}()
		<-done
		p.cancel = nil
		inuse := db.Stats().InUse
		late := ""
		if sess != nil {
			_, lerr := sess.Exec(fmt.Sprintf("t%d stmt %d", t, 9000))
			switch {
			case errors.Is(lerr, sql.ErrTxDone):
				late = "txdone"
			case lerr == nil:
				late = "other: nil"
			default:
				late = "other: " + lerr.Error()
			}
		}
		connID, mine := 0, false
		for _, e := range p.log {
			if e[0].(int) == t {
				mine = true
				if e[2].(string) == "begin" {
					connID = e[1].(int)
				}
			}
		}
		facts := map[string]any{"nil": false, "unavail": false, "begin": false, "commit": false, "rollback": false,
			"same_as_body": false, "recover": false, "txfailed": false, "noconn": false, "sent": []string{}, "nest": false, "text": ""}
		rejected := false
		if returned {
			if retErr == nil {
				facts["nil"] = true
			} else {
				msg := retErr.Error()
				facts["text"] = msg
				facts["unavail"] = errors.Is(retErr, breaker.ErrServiceUnavailable)
				facts["begin"] = errors.Is(retErr, v14ErrBegin)
				facts["commit"] = errors.Is(retErr, v14ErrCommit)
				facts["rollback"] = errors.Is(retErr, v14ErrRollback)
				sent := []string{}
				for _, sv := range v14Sentinels {
					if errors.Is(retErr, sv.err) {
						sent = append(sent, sv.name)
					}
				}
				facts["sent"] = sent
				facts["nest"] = msg == "cannot nest transactions"
				facts["same_as_body"] = bodyRet != nil && retErr == bodyRet
				facts["recover"] = strings.HasPrefix(msg, "recover from ")
				facts["txfailed"] = bodyRet != nil && strings.HasPrefix(msg, "transaction failed: "+bodyRet.Error()+", rollback failed: ")
				rejected = facts["unavail"].(bool) && !mine && runs == 0
			}
		}
		threads = append(threads, map[string]any{
			"started": true, "finished": true, "returned": returned, "did_panic": panicked, "runs": runs, "body": body,
			"err": facts, "inuse": inuse, "nest_runs": 0, "self_ended": false, "acc": 0, "acc_same": true,
			"rejected": rejected, "conn_id": connID, "dead_at_call": false, "by_deadline": sp.Deadline, "late": late,
			"trips": trips, "trips_open": trips, "no_rewrap": false, "forced": true,
		})
	}
	log := p.log
	if log == nil {
		log = [][]any{}
	}
	return map[string]any{"id": c.ID, "log": log, "esched": esched, "threads": threads, "used": p.used,
		"inuse": db.Stats().InUse, "tripped": false}
}

func TestVerifC14(t *testing.T) {
	in, out := os.Getenv("VERIF_IN"), os.Getenv("VERIF_OUT")
	if in == "" || out == "" {
		t.Skip("not run by the C14 check")
	}
	logx.Disable()
	raw, err := os.ReadFile(in)
	if err != nil {
		t.Fatal(err)
	}
	var cases []v14Case
	if err := json.Unmarshal(raw, &cases); err != nil {
		t.Fatal(err)
	}
	f, err := os.Create(out)
	if err != nil {
		t.Fatal(err)
	}
	defer f.Close()
	enc := json.NewEncoder(f)
	for _, c := range cases {
		if err := enc.Encode(v14Run(c)); err != nil {
			t.Fatal(err)
		}
	}
}
