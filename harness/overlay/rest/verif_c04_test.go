package rest

// White-box executor for C04 (rest engine: which timeout a route gets), injected
// with `go test -overlay`.

import (
	"bufio"
	"context"
	"encoding/json"
	"net/http"
	"net/http/httptest"
	"os"
	"testing"
	"time"

	"github.com/zeromicro/go-zero/core/logx"
	"github.com/zeromicro/go-zero/rest/router"
)

type verifEngineCase struct {
	ID       int    `json:"id"`
	RouteNs  int64  `json:"route_ns"` // WithTimeout(route_ns) when != 0
	ConfMs   int64  `json:"conf_ms"`
	ParentNs *int64 `json:"parent_ns"`
}

type verifEngineOut struct {
	ID       int    `json:"id"`
	HasDl    bool   `json:"has_dl"`
	DlSeenNs int64  `json:"dl_seen_ns"`
	T1Ns     int64  `json:"t1_ns"`
	Status   int    `json:"status"`
	Err      string `json:"err,omitempty"`
}

func TestVerifC04(t *testing.T) {
	data, err := os.ReadFile(os.Getenv("VERIF_IN"))
	if err != nil {
		t.Skip("no VERIF_IN")
	}
	logx.Disable()
	var cases []verifEngineCase
	if err := json.Unmarshal(data, &cases); err != nil {
		t.Fatal(err)
	}
	f, err := os.Create(os.Getenv("VERIF_OUT"))
	if err != nil {
		t.Fatal(err)
	}
	defer f.Close()
	w := bufio.NewWriter(f)
	defer w.Flush()
	for _, c := range cases {
		out := verifEngineOut{ID: c.ID}
		var conf RestConf
		conf.Name = "verif"
		conf.Timeout = c.ConfMs
		conf.Middlewares.Timeout = true
		conf.Middlewares.Recover = true
		ng := newEngine(conf)
		var tA time.Time
		fr := featuredRoutes{routes: []Route{{
			Method: http.MethodGet,
			Path:   "/x",
			Handler: func(w http.ResponseWriter, r *http.Request) {
				t1 := time.Now()
				dl, ok := r.Context().Deadline()
				out.HasDl = ok
				if ok {
					out.DlSeenNs = int64(dl.Sub(tA))
				}
				out.T1Ns = int64(t1.Sub(tA))
				w.WriteHeader(http.StatusNoContent)
			},
		}}}
		if c.RouteNs != 0 {
			WithTimeout(time.Duration(c.RouteNs))(&fr)
		}
		ng.addRoutes(fr)
		rt := router.NewRouter()
		if err := ng.bindRoutes(rt); err != nil {
			out.Err = err.Error()
		} else {
			tA = time.Now()
			parent := context.Background()
			cancel := context.CancelFunc(func() {})
			if c.ParentNs != nil {
				parent, cancel = context.WithDeadline(parent, tA.Add(time.Duration(*c.ParentNs)))
			}
			req := httptest.NewRequest(http.MethodGet, "/x", http.NoBody).WithContext(parent)
			rec := httptest.NewRecorder()
			rt.ServeHTTP(rec, req)
			cancel()
			out.Status = rec.Code
		}
		b, _ := json.Marshal(out)
		w.Write(b)
		w.WriteByte('\n')
	}
}
