package rest

// White-box executor for C04 (rest engine: which timeout a route runs under),
// injected with `go test -overlay` together with a copy of harness/cmd/c04/restctl.go
// (package clause rewritten).
//
// Every case builds a REAL rest.Server (NewServer + AddRoutes with the route options
// WithTimeout / WithSSE per group), binds the routes to its router (what Start does
// before listening) and drives several requests through that ONE router under a
// completely forced order of events (runSeqCore).  It also applies the engine's
// withTimeout() start option to an http.Server value and reports Read/WriteTimeout.

import (
	"bufio"
	"encoding/json"
	"fmt"
	"net/http"
	"os"
	"testing"
	"time"

	"github.com/zeromicro/go-zero/core/conf"
	"github.com/zeromicro/go-zero/core/logx"
	"github.com/zeromicro/go-zero/rest/internal/response"
)

func verifC04Server(c SeqCase, work http.HandlerFunc, out *SeqOut) (http.Handler, func(int) string, error) {
	var cnf RestConf
	if err := conf.FillDefault(&cnf); err != nil {
		return nil, nil, err
	}
	cnf.Name = "verif"
	cnf.Timeout = c.ConfMs
	cnf.Middlewares.Trace = false
	cnf.Middlewares.Log = false
	cnf.Middlewares.Prometheus = false
	cnf.Middlewares.MaxConns = false
	cnf.Middlewares.Breaker = false
	cnf.Middlewares.Shedding = false
	cnf.Middlewares.Timeout = c.MwTo
	cnf.Middlewares.Recover = c.Rec // inside the timeout middleware: a panic of the route handler is answered 500 there
	cnf.Middlewares.Metrics = c.Inner
	cnf.Middlewares.MaxBytes = c.Inner
	cnf.Middlewares.Gunzip = c.Inner
	srv, err := NewServer(cnf)
	logx.Disable()
	if err != nil {
		return nil, nil, err
	}
	for gi, g := range c.Groups {
		var routes []Route
		for j := 0; j < g.N; j++ {
			routes = append(routes, Route{Method: http.MethodGet, Path: fmt.Sprintf("/g%d/r%d", gi, j), Handler: work})
		}
		var opts []RouteOption
		for _, o := range g.Opts {
			switch o[0].(string) {
			case "timeout":
				opts = append(opts, WithTimeout(time.Duration(int64(o[1].(float64)))))
			case "sse":
				opts = append(opts, WithSSE())
			}
		}
		srv.AddRoutes(routes, opts...)
	}
	if err := srv.ngin.bindRoutes(srv.router); err != nil {
		return nil, nil, err
	}
	hs := &http.Server{}
	srv.ngin.withTimeout()(hs)
	out.ReadNs, out.WriteNs, out.EngNs = int64(hs.ReadTimeout), int64(hs.WriteTimeout), int64(srv.ngin.timeout)
	target := func(i int) string {
		return fmt.Sprintf("/g%d/r%d", c.Reqs[i].Group, c.Reqs[i].Route)
	}
	return srv.router, target, nil
}

func TestVerifC04(t *testing.T) {
	data, err := os.ReadFile(os.Getenv("VERIF_IN"))
	if err != nil {
		t.Skip("no VERIF_IN")
	}
	logx.Disable()
	// what BreakerHandler, LogHandler, PrometheusHandler and TraceHandler do in front of the
	// timeout handler: wrap the writer and read Code when the inner chain has returned
	wrapOuter = func(w http.ResponseWriter) (http.ResponseWriter, func() int) {
		cw := response.NewWithCodeResponseWriter(w)
		return cw, func() int { return cw.Code }
	}
	var cases []SeqCase
	if err := json.Unmarshal(data, &cases); err != nil {
		t.Fatal(err)
	}
	f, err := os.Create(os.Getenv("VERIF_OUT"))
	if err != nil {
		t.Fatal(err)
	}
	defer f.Close()
	w := bufio.NewWriter(f)
	defer w.Flush()
	for _, c := range cases {
		var srvOut SeqOut
		out := runSeqCore(c, func(work http.HandlerFunc) (http.Handler, func(int) string, error) {
			return verifC04Server(c, work, &srvOut)
		})
		out.ReadNs, out.WriteNs, out.EngNs = srvOut.ReadNs, srvOut.WriteNs, srvOut.EngNs
		b, _ := json.Marshal(out)
		w.Write(b)
		w.WriteByte('\n')
	}
}
