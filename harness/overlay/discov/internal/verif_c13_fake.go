// C13: ADDED to package core/discov/internal at test-build time (go test -overlay; never
// written under /repo).  A small, honest in-memory etcd that implements the package's own
// EtcdClient interface: one key space, revisions (1 = empty store), a mutation history,
// compaction, watch streams that replay history from the requested revision (a stream that is
// behind is caught up in batches whose header revision is the current one), and faults
// injected by the executor (stream closed / cancelled, lagging stream + compaction, Get
// errors, a stale Get).  The real cluster code (Registry.Monitor -> monitor -> load ->
// watch -> watchStream -> setupWatch, reload, Unmonitor) decides what to ask of it.
// Everything the fake is asked and everything it answers is appended to one log, together
// with the UpdateListener calls seen by a spy listener per watcher.
package internal

import (
	"context"
	"errors"
	"fmt"
	"reflect"
	"runtime"
	"sort"
	"strings"
	"sync"
	"time"

	"go.etcd.io/etcd/api/v3/etcdserverpb"
	"go.etcd.io/etcd/api/v3/mvccpb"
	clientv3 "go.etcd.io/etcd/client/v3"
	"google.golang.org/grpc"
	"google.golang.org/grpc/credentials/insecure"
)

type verifMut struct {
	rev      int64
	del      bool
	key, val string
}

type verifStream struct {
	ch       chan clientv3.WatchResponse
	ctx      context.Context
	key, end string
	tag      string
	next     int64
	closed   bool
}

// VerifLogEntry is one line of the log: T = get | geterr | watch | resp | compacted |
// closed | canceled | add | del.
type VerifLogEntry struct {
	W   string      `json:"w"`
	T   string      `json:"t"`
	Rev int64       `json:"rev"`
	Kvs [][2]string `json:"kvs,omitempty"`
	Evs [][4]string `json:"evs,omitempty"` // rev, put|del, key, val
	K   string      `json:"k,omitempty"`
	V   string      `json:"v,omitempty"`
	Ep  int         `json:"ep,omitempty"`
	// More: (resp) a partial catch-up batch - events of the stream with revisions <= Rev (the
	// header revision) are still to come
	More bool `json:"more,omitempty"`
}

// VerifEtcd is the fake.
type VerifEtcd struct {
	mu      sync.Mutex
	rev     int64
	hist    []verifMut
	compact int64
	base    int64
	paused  bool
	batch   int // catch-up batch size (0: the whole backlog in one response)
	getErrs int
	tagErrs map[string]int

	nextLease int64
	nput      int
	keyLease  map[string]int64
	gone      map[int64]bool
	kach      map[int64]chan *clientv3.LeaseKeepAliveResponse
	stale   int64
	streams []*verifStream
	ctx     context.Context
	cptr    string

	lmu sync.Mutex
	log []VerifLogEntry
}

var (
	verifFakes    = map[string]*VerifEtcd{}
	verifFakeLock sync.Mutex
	verifConn     *grpc.ClientConn
	verifOnce     sync.Once
)

func verifEpsKey(endpoints []string) string {
	l := append([]string{}, endpoints...)
	sort.Strings(l)
	return strings.Join(l, ",")
}

// VerifNewEtcd creates a fake for the given endpoints (in any order) and makes NewClient return it.
func VerifNewEtcd(hosts ...string) *VerifEtcd {
	verifOnce.Do(func() {
		conn, err := grpc.NewClient("passthrough:///verif-c13", grpc.WithTransportCredentials(insecure.NewCredentials()))
		if err != nil {
			panic(err)
		}
		verifConn = conn
		NewClient = func(endpoints []string) (EtcdClient, error) {
			verifFakeLock.Lock()
			defer verifFakeLock.Unlock()
			if e, ok := verifFakes[verifEpsKey(endpoints)]; ok {
				return e, nil
			}
			return nil, fmt.Errorf("verif: no fake etcd for %v", endpoints)
		}
	})
	e := &VerifEtcd{rev: 1, base: 1, ctx: context.Background()}
	verifFakeLock.Lock()
	verifFakes[verifEpsKey(hosts)] = e
	verifFakeLock.Unlock()
	return e
}

// VerifDropEtcd forgets the fake and removes the cluster from the global registry.
func VerifDropEtcd(hosts ...string) {
	verifFakeLock.Lock()
	delete(verifFakes, verifEpsKey(hosts))
	verifFakeLock.Unlock()
	registry.lock.Lock()
	delete(registry.clusters, verifEpsKey(hosts))
	registry.lock.Unlock()
}

// VSetBase sets the revision of the (still empty) store.
func (e *VerifEtcd) VSetBase(rev int64) {
	e.mu.Lock()
	e.rev = rev
	e.base = rev
	e.mu.Unlock()
}

func verifTag(key, end string) string {
	if end == "" {
		return key + "|e"
	}
	return key + "|p"
}

func (e *VerifEtcd) logf(en VerifLogEntry) {
	e.lmu.Lock()
	if len(e.log) < 600 { // a runaway retry loop must not flood the observation
		e.log = append(e.log, en)
	}
	e.lmu.Unlock()
}

// TakeLog returns and clears the log.
func (e *VerifEtcd) TakeLog() []VerifLogEntry {
	e.lmu.Lock()
	defer e.lmu.Unlock()
	l := e.log
	e.log = nil
	if l == nil {
		l = []VerifLogEntry{}
	}
	return l
}

func verifInRange(k, key, end string) bool {
	if end == "" {
		return k == key
	}
	return key <= k && k < end
}

func (e *VerifEtcd) stateAt(r int64) map[string]string {
	m := map[string]string{}
	for _, mu := range e.hist {
		if mu.rev > r {
			break
		}
		if mu.del {
			delete(m, mu.key)
		} else {
			m[mu.key] = mu.val
		}
	}
	return m
}

// ---------------------------------------------------------------- EtcdClient
func (e *VerifEtcd) ActiveConnection() *grpc.ClientConn { return verifConn }
func (e *VerifEtcd) Close() error                        { return nil }
func (e *VerifEtcd) Ctx() context.Context                { return e.ctx }

func (e *VerifEtcd) Get(_ context.Context, key string, opts ...clientv3.OpOption) (*clientv3.GetResponse, error) {
	op := clientv3.OpGet(key, opts...)
	end := string(op.RangeBytes())
	tag := verifTag(key, end)
	e.mu.Lock()
	defer e.mu.Unlock()
	if e.tagErrs[tag] > 0 {
		e.tagErrs[tag]--
		e.logf(VerifLogEntry{W: tag, T: "geterr"})
		return nil, errors.New("verif: etcd unavailable")
	}
	if e.getErrs > 0 {
		e.getErrs--
		e.logf(VerifLogEntry{W: tag, T: "geterr"})
		return nil, errors.New("verif: etcd unavailable")
	}
	r := e.rev
	if e.stale > 0 {
		r -= e.stale
		if r < e.base {
			r = e.base
		}
		e.stale = 0
	}
	st := e.stateAt(r)
	var keys []string
	for k := range st {
		if verifInRange(k, key, end) {
			keys = append(keys, k)
		}
	}
	sort.Strings(keys)
	resp := &clientv3.GetResponse{Header: &etcdserverpb.ResponseHeader{Revision: r}, Count: int64(len(keys))}
	kvs := [][2]string{}
	for _, k := range keys {
		resp.Kvs = append(resp.Kvs, &mvccpb.KeyValue{Key: []byte(k), Value: []byte(st[k])})
		kvs = append(kvs, [2]string{k, st[k]})
	}
	e.logf(VerifLogEntry{W: tag, T: "get", Rev: r, Kvs: kvs})
	return resp, nil
}

func (e *VerifEtcd) Watch(ctx context.Context, key string, opts ...clientv3.OpOption) clientv3.WatchChan {
	op := clientv3.OpGet(key, opts...)
	end := string(op.RangeBytes())
	e.mu.Lock()
	defer e.mu.Unlock()
	st := &verifStream{ch: make(chan clientv3.WatchResponse, 4096), ctx: ctx, key: key, end: end,
		tag: verifTag(key, end), next: op.Rev()}
	if st.next == 0 {
		st.next = e.rev + 1
	}
	e.logf(VerifLogEntry{W: st.tag, T: "watch", Rev: op.Rev()})
	e.streams = append(e.streams, st)
	e.pump(st)
	return st.ch
}

// Leases, as far as discov.Publisher needs them: Grant numbers the leases 7001, 7002, ...; Put
// attaches the key to the lease given with clientv3.WithLease (a key has one lease: the last
// one); Revoke deletes the keys still attached to the lease (one revision each); KeepAlive
// returns a channel that stays open until VExpire.
func (e *VerifEtcd) Grant(_ context.Context, ttl int64) (*clientv3.LeaseGrantResponse, error) {
	e.mu.Lock()
	defer e.mu.Unlock()
	if e.nextLease == 0 {
		e.nextLease = 7000
	}
	e.nextLease++
	e.logf(VerifLogEntry{W: "lease", T: "grant", Rev: e.nextLease})
	return &clientv3.LeaseGrantResponse{ID: clientv3.LeaseID(e.nextLease), TTL: ttl}, nil
}

func (e *VerifEtcd) KeepAlive(_ context.Context, id clientv3.LeaseID) (<-chan *clientv3.LeaseKeepAliveResponse, error) {
	e.mu.Lock()
	defer e.mu.Unlock()
	ch := make(chan *clientv3.LeaseKeepAliveResponse, 1)
	if e.kach == nil {
		e.kach = map[int64]chan *clientv3.LeaseKeepAliveResponse{}
	}
	e.kach[int64(id)] = ch
	return ch, nil
}

func (e *VerifEtcd) Put(_ context.Context, key, val string, opts ...clientv3.OpOption) (*clientv3.PutResponse, error) {
	op := clientv3.OpPut(key, val, opts...)
	lease := reflect.ValueOf(op).FieldByName("leaseID").Int()
	e.mu.Lock()
	defer e.mu.Unlock()
	e.rev++
	e.hist = append(e.hist, verifMut{rev: e.rev, key: key, val: val})
	if e.keyLease == nil {
		e.keyLease = map[string]int64{}
	}
	e.keyLease[key] = lease
	e.nput++
	e.logf(VerifLogEntry{W: "lease", T: "put", Rev: lease, K: key, V: val})
	e.pumpAll()
	return &clientv3.PutResponse{Header: &etcdserverpb.ResponseHeader{Revision: e.rev}}, nil
}

func (e *VerifEtcd) dropLease(id int64) {
	st := e.stateAt(e.rev)
	var keys []string
	for k, l := range e.keyLease {
		if l == id {
			keys = append(keys, k)
		}
	}
	sort.Strings(keys)
	for _, k := range keys {
		delete(e.keyLease, k)
		if _, ok := st[k]; ok {
			e.rev++
			e.hist = append(e.hist, verifMut{rev: e.rev, del: true, key: k})
		}
	}
	if e.gone == nil {
		e.gone = map[int64]bool{}
	}
	e.gone[id] = true
	e.pumpAll()
}

func (e *VerifEtcd) Revoke(_ context.Context, id clientv3.LeaseID) (*clientv3.LeaseRevokeResponse, error) {
	e.mu.Lock()
	defer e.mu.Unlock()
	e.logf(VerifLogEntry{W: "lease", T: "revoke", Rev: int64(id)})
	if e.gone[int64(id)] {
		return nil, errors.New("verif: requested lease not found")
	}
	e.dropLease(int64(id))
	return &clientv3.LeaseRevokeResponse{Header: &etcdserverpb.ResponseHeader{Revision: e.rev}}, nil
}

// VExpire lets the lease expire: its keys are deleted and the keep-alive channel is closed.
func (e *VerifEtcd) VExpire(id int64) {
	e.mu.Lock()
	defer e.mu.Unlock()
	e.logf(VerifLogEntry{W: "lease", T: "expire", Rev: id})
	e.dropLease(id)
	if ch, ok := e.kach[id]; ok {
		close(ch)
		delete(e.kach, id)
	}
}

// LeaseGone: the lease was revoked or expired.  Leases: the number of the last lease granted.
func (e *VerifEtcd) LeaseGone(id int64) bool {
	e.mu.Lock()
	defer e.mu.Unlock()
	return e.gone[id]
}

func (e *VerifEtcd) Leases() int64 {
	e.mu.Lock()
	defer e.mu.Unlock()
	return e.nextLease
}

// PutCount: number of Put calls served so far.
func (e *VerifEtcd) PutCount() int {
	e.mu.Lock()
	defer e.mu.Unlock()
	return e.nput
}

// ---------------------------------------------------------------- streams
func (st *verifStream) live() bool { return !st.closed && st.ctx.Err() == nil }

// pump delivers the backlog of a stream (e.mu held).
func (e *VerifEtcd) pump(st *verifStream) {
	if e.paused {
		return
	}
	e.deliver(st, -1)
}

// deliver sends the stream at most max responses (max < 0: its whole backlog).  Like etcd's
// mvcc store (watchable_store.go, syncWatchers) it catches a watcher that is behind up in
// BATCHES of at most e.batch events and stamps every batch with the CURRENT store revision:
// the header revision of a partial batch is ahead of the last event it carries, the events in
// between are still to come.  A stream error may follow any batch.
func (e *VerifEtcd) deliver(st *verifStream, max int) {
	if !st.live() {
		return
	}
	if st.next < e.compact {
		e.logf(VerifLogEntry{W: st.tag, T: "compacted", Rev: e.compact})
		st.ch <- clientv3.WatchResponse{Header: etcdserverpb.ResponseHeader{Revision: e.rev},
			CompactRevision: e.compact, Canceled: e.compact%2 == 0} // etcd sets Canceled; the code also accepts the bare error
		close(st.ch)
		st.closed = true
		return
	}
	var pend []verifMut
	for _, mu := range e.hist {
		if mu.rev < st.next || !verifInRange(mu.key, st.key, st.end) {
			continue
		}
		pend = append(pend, mu)
	}
	if len(pend) == 0 {
		st.next = e.rev + 1
		return
	}
	for n := 0; len(pend) > 0 && (max < 0 || n < max); n++ {
		k := len(pend)
		if e.batch > 0 && e.batch < k {
			k = e.batch
		}
		var evs []*clientv3.Event
		lev := [][4]string{}
		for _, mu := range pend[:k] {
			if mu.del {
				evs = append(evs, &clientv3.Event{Type: clientv3.EventTypeDelete,
					Kv: &mvccpb.KeyValue{Key: []byte(mu.key), ModRevision: mu.rev}})
				lev = append(lev, [4]string{fmt.Sprint(mu.rev), "del", mu.key, ""})
			} else {
				evs = append(evs, &clientv3.Event{Type: clientv3.EventTypePut,
					Kv: &mvccpb.KeyValue{Key: []byte(mu.key), Value: []byte(mu.val), ModRevision: mu.rev}})
				lev = append(lev, [4]string{fmt.Sprint(mu.rev), "put", mu.key, mu.val})
			}
		}
		st.next = pend[k-1].rev + 1
		pend = pend[k:]
		if len(pend) == 0 {
			st.next = e.rev + 1
		}
		e.logf(VerifLogEntry{W: st.tag, T: "resp", Rev: e.rev, Evs: lev, More: len(pend) > 0})
		st.ch <- clientv3.WatchResponse{Header: etcdserverpb.ResponseHeader{Revision: e.rev}, Events: evs}
	}
}

func (e *VerifEtcd) pumpAll() {
	for _, st := range e.streams {
		e.pump(st)
	}
}

// ---------------------------------------------------------------- what the executor does to etcd
// VPut registers key=val (a new revision).
func (e *VerifEtcd) VPut(key, val string) {
	e.mu.Lock()
	defer e.mu.Unlock()
	e.rev++
	e.hist = append(e.hist, verifMut{rev: e.rev, key: key, val: val})
	e.pumpAll()
}

// VDelete removes the key; like etcd, deleting an absent key makes no revision and no event.
func (e *VerifEtcd) VDelete(key string) bool {
	e.mu.Lock()
	defer e.mu.Unlock()
	if _, ok := e.stateAt(e.rev)[key]; !ok {
		return false
	}
	e.rev++
	e.hist = append(e.hist, verifMut{rev: e.rev, del: true, key: key})
	e.pumpAll()
	return true
}

// VPause makes every stream lag (nothing is delivered until VResume).
func (e *VerifEtcd) VPause() {
	e.mu.Lock()
	e.paused = true
	e.mu.Unlock()
}

// VResume delivers the backlog (one response per stream, or batches of VBatch events), or the
// compaction error when the backlog has been compacted away.
func (e *VerifEtcd) VResume() {
	e.mu.Lock()
	e.paused = false
	e.pumpAll()
	e.mu.Unlock()
}

// VBatch sets the catch-up batch size (0: unlimited) and returns the previous one.
func (e *VerifEtcd) VBatch(k int) int {
	e.mu.Lock()
	defer e.mu.Unlock()
	old := e.batch
	e.batch = k
	return old
}

// VTrickle lets every lagging stream have its next m catch-up batches although etcd is
// withholding deliveries (VPause): the stream stays behind afterwards.
func (e *VerifEtcd) VTrickle(m int) {
	e.mu.Lock()
	defer e.mu.Unlock()
	for _, st := range e.streams {
		e.deliver(st, m)
	}
}

// VCompact compacts the history up to the current revision.
func (e *VerifEtcd) VCompact() {
	e.mu.Lock()
	e.compact = e.rev
	e.pumpAll()
	e.mu.Unlock()
}

// VCloseWatch closes the channel of every live stream (cancel: after a Canceled response).
func (e *VerifEtcd) VCloseWatch(cancel bool) {
	e.mu.Lock()
	defer e.mu.Unlock()
	for _, st := range e.streams {
		if !st.live() {
			continue
		}
		if cancel {
			e.logf(VerifLogEntry{W: st.tag, T: "canceled"})
			st.ch <- clientv3.WatchResponse{Header: etcdserverpb.ResponseHeader{Revision: e.rev}, Canceled: true}
		} else {
			e.logf(VerifLogEntry{W: st.tag, T: "closed"})
		}
		close(st.ch)
		st.closed = true
	}
}

// VGetErrs makes the next n Get calls fail.
func (e *VerifEtcd) VGetErrs(n int) {
	e.mu.Lock()
	e.getErrs = n
	e.mu.Unlock()
}

// VGetErrsTag makes the next n Get calls of one watcher fail.
func (e *VerifEtcd) VGetErrsTag(tag string, n int) {
	e.mu.Lock()
	if e.tagErrs == nil {
		e.tagErrs = map[string]int{}
	}
	e.tagErrs[tag] = n
	e.mu.Unlock()
}

// VStale makes the next Get answer with the store as it was `back` revisions ago.
func (e *VerifEtcd) VStale(back int64) {
	e.mu.Lock()
	e.stale = back
	e.mu.Unlock()
}

// Rev is the current revision.
func (e *VerifEtcd) Rev() int64 {
	e.mu.Lock()
	defer e.mu.Unlock()
	return e.rev
}

// Live counts the live streams per watcher tag.
func (e *VerifEtcd) Live() map[string]int {
	e.mu.Lock()
	defer e.mu.Unlock()
	res := map[string]int{}
	for _, st := range e.streams {
		if st.live() {
			res[st.tag]++
		}
	}
	return res
}

// Quiesce waits until every expected watcher has a live stream whose consumer has handled
// everything delivered so far (an empty progress response is pushed behind the backlog; it
// has been received only when everything before it has been handled).  Returns false on
// timeout.
func (e *VerifEtcd) Quiesce(expect []string, timeout time.Duration) bool {
	deadline := time.Now().Add(timeout)
	began := time.Now()
	idleRounds := 0
	lastIdle := time.Now()
	for {
		ok := true
		e.mu.Lock()
		have := map[string]bool{}
		var lives []*verifStream
		for _, st := range e.streams {
			if st.live() {
				have[st.tag] = true
				lives = append(lives, st)
			}
		}
		for _, t := range expect {
			if !have[t] {
				ok = false
			}
		}
		if !ok && e.cptr != "" {
			// watchdog: an expected key has no stream and every watch goroutine of the cluster is parked in
			// watchStream's select (nobody is loading, cooling down or setting a watch up): the watch / load
			// for that key will never be issued - no point in waiting for the timeout
			if time.Since(lastIdle) > 50*time.Millisecond {
				lastIdle = time.Now()
				if e.idle() {
					idleRounds++
				} else {
					idleRounds = 0
				}
			}
			if idleRounds >= 10 && time.Since(began) > time.Second {
				e.mu.Unlock()
				return false
			}
		}
		if ok {
			for _, st := range lives {
				// a progress response: its header revision never runs ahead of what the stream has been
				// sent (etcd sends progress notifications to synced watchers only)
				hr := st.next - 1
				if hr > e.rev {
					hr = e.rev
				}
				st.ch <- clientv3.WatchResponse{Header: etcdserverpb.ResponseHeader{Revision: hr}}
			}
		}
		e.mu.Unlock()
		for ok {
			drained := true
			e.mu.Lock()
			for _, st := range lives {
				if !st.live() {
					ok = false // closed or cancelled meanwhile: its watcher must come back first
				} else if len(st.ch) > 0 {
					drained = false
				}
			}
			e.mu.Unlock()
			if ok && drained && !e.busy() {
				return true
			}
			if time.Now().After(deadline) {
				return false
			}
			time.Sleep(200 * time.Microsecond)
		}
		if time.Now().After(deadline) {
			return false
		}
		time.Sleep(500 * time.Microsecond)
	}
}

// QuiesceLoose is Quiesce without the demand that every watch goroutine of the cluster is
// parked (some may be loading).
func (e *VerifEtcd) QuiesceLoose(expect []string, timeout time.Duration) bool {
	p := e.cptr
	e.cptr = ""
	defer func() { e.cptr = p }()
	return e.Quiesce(expect, timeout)
}

// busy: some watch goroutine of this fake's cluster is not (yet) back in watchStream's select:
// it has taken the progress response from the channel but is still on its way to or inside
// handleWatchEvents, or it is loading.
func (e *VerifEtcd) busy() bool {
	if e.cptr == "" {
		return false
	}
	buf := make([]byte, 1<<20)
	for {
		n := runtime.Stack(buf, true)
		if n < len(buf) {
			buf = buf[:n]
			break
		}
		buf = make([]byte, 2*len(buf))
	}
	// every watch goroutine of this cluster must sit in watchStream's select
	mark := ".(*cluster).watch(" + e.cptr
	for _, g := range strings.Split(string(buf), "\n\n") {
		if !strings.Contains(g, mark) {
			continue
		}
		lines := strings.SplitN(g, "\n", 3)
		if len(lines) < 2 || !strings.Contains(lines[0], "[select") ||
			!strings.Contains(lines[1], ".(*cluster).watchStream("+e.cptr) {
			return true
		}
	}
	return false
}

// idle: the cluster has watch goroutines and every one of them is parked in watchStream's select;
// none is loading, cooling down after a failed Get, setting a watch up or about to start.
func (e *VerifEtcd) idle() bool {
	buf := make([]byte, 1<<20)
	for {
		n := runtime.Stack(buf, true)
		if n < len(buf) {
			buf = buf[:n]
			break
		}
		buf = make([]byte, 2*len(buf))
	}
	parked := 0
	for _, g := range strings.Split(string(buf), "\n\n") {
		if strings.Contains(g, ".(*cluster).reload") || strings.Contains(g, ".(*cluster).monitor") {
			if !strings.Contains(g, ".(*cluster).watchUntil(") && !strings.Contains(g, ".(*cluster).load(") {
				return false // a reload / monitor in progress, or a watch goroutine that has not run yet (any cluster)
			}
		}
		if strings.Contains(g, "threading.(*RoutineGroup).Run") && !strings.Contains(g, ".(*cluster).") {
			return false // a goroutine of some routine group that has not reached its function yet
		}
		mine := strings.Contains(g, ".(*cluster).watchUntil("+e.cptr) || strings.Contains(g, ".(*cluster).load("+e.cptr) ||
			strings.Contains(g, ".(*cluster).watch("+e.cptr)
		if !mine {
			continue
		}
		lines := strings.SplitN(g, "\n", 3)
		if len(lines) < 2 || !strings.Contains(lines[0], "[select") ||
			!strings.Contains(lines[1], ".(*cluster).watchStream("+e.cptr) {
			return false
		}
		parked++
	}
	return parked > 0
}

// VerifBind tells the fake which cluster it serves (for busy()).
func (e *VerifEtcd) VerifBind(hosts ...string) {
	if c, ok := GetRegistry().getCluster(append([]string{}, hosts...)); ok {
		e.cptr = fmt.Sprintf("%p", c)
	}
}

// ---------------------------------------------------------------- white-box access for the executor
// VerifSpy is an UpdateListener that writes the calls it receives to the fake's log; the
// executor makes it the first listener of a watcher, so it sees every call the watcher makes.
type VerifSpy struct {
	E   *VerifEtcd
	Tag string
	Ep  int // generation of the watcher this spy is the first listener of (numbered by the executor)
	// Hook, when set, runs once, inside the (HookAt+1)-th call the spy receives after it was
	// set (the executor registers keys / closes and re-creates subscribers while a listener of
	// the watcher is being called).
	Hook   func()
	HookAt int
	calls  int
}

func (s *VerifSpy) called() {
	if h := s.Hook; h != nil {
		if s.calls == s.HookAt {
			s.Hook = nil
			s.calls = 0
			h()
			return
		}
		s.calls++
	}
}

// Arm sets the hook.
func (s *VerifSpy) Arm(at int, h func()) {
	s.calls, s.HookAt, s.Hook = 0, at, h
}

func (s *VerifSpy) OnAdd(kv KV) {
	s.E.logf(VerifLogEntry{W: s.Tag, T: "add", K: kv.Key, V: kv.Val, Ep: s.Ep})
	s.called()
}

func (s *VerifSpy) OnDelete(kv KV) {
	s.E.logf(VerifLogEntry{W: s.Tag, T: "del", K: kv.Key, V: kv.Val, Ep: s.Ep})
	s.called()
}

// Mark writes a marker of the executor into the log (a new generation of a watcher begins).
func (e *VerifEtcd) Mark(tag, what string, n int) {
	e.logf(VerifLogEntry{W: tag, T: what, Ep: n})
}

// VerifTag names the watcher of (key, exactMatch) the way the fake's log does.
func VerifTag(key string, exact bool) string {
	if exact {
		return key + "|e"
	}
	return key + "/|p"
}

// VerifClusterReload is what the connection-state listener installed by cluster.newClient
// does when the connection comes back: c.reload(cli).
func VerifClusterReload(hosts ...string) bool {
	c, ok := GetRegistry().getCluster(append([]string{}, hosts...))
	if !ok {
		return false
	}
	cli, err := c.getClient()
	if err != nil {
		return false
	}
	c.reload(cli)
	return true
}

// VerifClusterState is a copy of the cluster's watchers: tag -> (values sorted, number of listeners).
func VerifClusterState(hosts ...string) map[string]any {
	res := map[string]any{}
	c, ok := GetRegistry().getCluster(append([]string{}, hosts...))
	if !ok {
		return res
	}
	c.lock.RLock()
	defer c.lock.RUnlock()
	for wk, wv := range c.watchers {
		kvs := [][2]string{}
		for k, v := range wv.values {
			kvs = append(kvs, [2]string{k, v})
		}
		sort.Slice(kvs, func(i, j int) bool { return kvs[i][0] < kvs[j][0] })
		res[VerifTag(wk.key, wk.exactMatch)] = map[string]any{"values": kvs, "listeners": len(wv.listeners)}
	}
	return res
}
