// C13 white-box access, ADDED to package core/discov/internal at test-build time with
// `go test -overlay` (never written under /repo).  It only constructs a cluster with one
// watcher and forwards to the unexported methods under test; it contains no logic of
// its own that the property depends on.
package internal

import (
	"context"
	"sort"
	"sync"

	"go.etcd.io/etcd/api/v3/mvccpb"
	clientv3 "go.etcd.io/etcd/client/v3"
)

// VerifWatch is one watched key of one cluster, fed with events directly (no etcd).
type VerifWatch struct {
	c         *cluster
	key       watchKey
	endpoints []string
}

// VerifRecorder is an UpdateListener that records the calls it receives.
type VerifRecorder struct {
	Mu  sync.Mutex
	Log [][3]string
	Fwd UpdateListener
	// Hook, when set, runs inside OnAdd / OnDelete after the call was forwarded (the executor
	// uses it to close or create subscribers WHILE the watcher is dispatching a change).
	Hook func()
}

func (r *VerifRecorder) OnAdd(kv KV) {
	r.Mu.Lock()
	r.Log = append(r.Log, [3]string{"add", kv.Key, kv.Val})
	r.Mu.Unlock()
	if r.Fwd != nil {
		r.Fwd.OnAdd(kv)
	}
	if r.Hook != nil {
		r.Hook()
	}
}

func (r *VerifRecorder) OnDelete(kv KV) {
	r.Mu.Lock()
	r.Log = append(r.Log, [3]string{"del", kv.Key, kv.Val})
	r.Mu.Unlock()
	if r.Fwd != nil {
		r.Fwd.OnDelete(kv)
	}
	if r.Hook != nil {
		r.Hook()
	}
}

// Take returns and clears the log.
func (r *VerifRecorder) Take() [][3]string {
	r.Mu.Lock()
	defer r.Mu.Unlock()
	l := r.Log
	r.Log = nil
	if l == nil {
		l = [][3]string{}
	}
	return l
}

// VerifNewWatch creates a cluster for the endpoints with an (empty) watcher for key and
// installs it in the global registry, so that Registry.Monitor / discov.NewSubscriber find it.
func VerifNewWatch(endpoints []string, key string) *VerifWatch {
	c := newCluster(endpoints)
	wk := watchKey{key: key}
	c.watchers[wk] = newWatchValue()
	registry.lock.Lock()
	registry.clusters[c.key] = c
	registry.lock.Unlock()
	return &VerifWatch{c: c, key: wk, endpoints: endpoints}
}

// Close removes the cluster from the global registry.
func (w *VerifWatch) Close() {
	registry.lock.Lock()
	delete(registry.clusters, w.c.key)
	registry.lock.Unlock()
}

// AddListener is cluster.addListener.
func (w *VerifWatch) AddListener(l UpdateListener) { w.c.addListener(w.key, l) }

// AddRecorder adds a recording listener.
func (w *VerifWatch) AddRecorder() *VerifRecorder {
	r := &VerifRecorder{}
	w.c.addListener(w.key, r)
	return r
}

// Join is Registry.Monitor on the existing watcher (replays the current values to l).
func (w *VerifWatch) Join(l UpdateListener) error {
	return GetRegistry().Monitor(w.endpoints, w.key.key, w.key.exactMatch, l)
}

// Put feeds one PUT watch event to cluster.handleWatchEvents.
func (w *VerifWatch) Put(k, v string) {
	w.c.handleWatchEvents(context.Background(), w.key, []*clientv3.Event{{
		Type: clientv3.EventTypePut,
		Kv:   &mvccpb.KeyValue{Key: []byte(k), Value: []byte(v)},
	}})
}

// Delete feeds one DELETE watch event to cluster.handleWatchEvents.
func (w *VerifWatch) Delete(k string) {
	w.c.handleWatchEvents(context.Background(), w.key, []*clientv3.Event{{
		Type: clientv3.EventTypeDelete,
		Kv:   &mvccpb.KeyValue{Key: []byte(k)},
	}})
}

// Batch feeds several watch events as ONE call of cluster.handleWatchEvents
// (ev = {"put", k, v} or {"del", k, ""}).
func (w *VerifWatch) Batch(evs [][3]string) {
	var l []*clientv3.Event
	for _, e := range evs {
		if e[0] == "put" {
			l = append(l, &clientv3.Event{Type: clientv3.EventTypePut,
				Kv: &mvccpb.KeyValue{Key: []byte(e[1]), Value: []byte(e[2])}})
		} else {
			l = append(l, &clientv3.Event{Type: clientv3.EventTypeDelete,
				Kv: &mvccpb.KeyValue{Key: []byte(e[1])}})
		}
	}
	w.c.handleWatchEvents(context.Background(), w.key, l)
}

// Reload feeds a full snapshot to cluster.handleChanges (what cluster.load does with a Get response).
func (w *VerifWatch) Reload(kvs [][2]string) {
	l := make([]KV, 0, len(kvs))
	for _, kv := range kvs {
		l = append(l, KV{Key: kv[0], Val: kv[1]})
	}
	w.c.handleChanges(w.key, l)
}

// Values is a sorted copy of watchValue.values.
func (w *VerifWatch) Values() [][2]string {
	w.c.lock.RLock()
	defer w.c.lock.RUnlock()
	res := [][2]string{}
	for k, v := range w.c.watchers[w.key].values {
		res = append(res, [2]string{k, v})
	}
	sort.Slice(res, func(i, j int) bool { return res[i][0] < res[j][0] })
	return res
}
