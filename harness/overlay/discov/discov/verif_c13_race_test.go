// C13 monitor (thorough tier, built with -race): free-running use of the public API on the real
// cluster over the fake etcd - registrations come and go (update in place, keys sharing a
// value, deletes, closed streams, a reconnect reload, catch-up batches) while several
// goroutines read Values() of an exclusive and a non-exclusive Subscriber, a change listener
// reads Values() from inside the notification, and subscribers are created and closed.  The
// race detector reports unsynchronised access (a lock released too early, a missing lock);
// at the end the views must be the registrations.  Everything the test itself shares between
// goroutines is synchronised, so any report concerns go-zero.
package discov

import (
	"bufio"
	"encoding/json"
	"fmt"
	"os"
	"sort"
	"sync"
	"sync/atomic"
	"testing"
	"time"

	"github.com/zeromicro/go-zero/core/discov/internal"
)

func TestVerifC13Race(t *testing.T) {
	out := os.Getenv("VERIF_OUT")
	if out == "" {
		t.Skip("no VERIF_OUT")
	}
	host := "verif-c13-race"
	etcd := internal.VerifNewEtcd(host)
	defer internal.VerifDropEtcd(host)
	etcd.VBatch(2)
	subA, err := NewSubscriber([]string{host}, "svc")
	if err != nil {
		t.Fatal(err)
	}
	subB, err := NewSubscriber([]string{host}, "svc", Exclusive())
	if err != nil {
		t.Fatal(err)
	}
	var notes int64
	subA.AddListener(func() {
		atomic.AddInt64(&notes, 1)
		_ = len(subA.Values())
	})
	subB.AddListener(func() { _ = len(subB.Values()) })
	stop := make(chan struct{})
	var wg sync.WaitGroup
	for i := 0; i < 3; i++ {
		wg.Add(1)
		go func() {
			defer wg.Done()
			for {
				select {
				case <-stop:
					return
				default:
					_ = len(subA.Values())
					_ = len(subB.Values())
				}
			}
		}()
	}
	// subscribers of the same key coming and going meanwhile (Monitor / Unmonitor on the shared watcher)
	wg.Add(1)
	go func() {
		defer wg.Done()
		for i := 0; ; i++ {
			select {
			case <-stop:
				return
			default:
			}
			var opts []SubOption
			if i%2 == 1 {
				opts = append(opts, Exclusive())
			}
			s, err := NewSubscriber([]string{host}, "svc", opts...)
			if err == nil {
				s.AddListener(func() { _ = len(s.Values()) })
				_ = len(s.Values())
				time.Sleep(200 * time.Microsecond)
				s.Close()
			}
		}
	}()
	store := map[string]string{}
	for round := 0; round < 240; round++ {
		k := fmt.Sprintf("svc/k%d", round%5)
		switch {
		case round%7 == 6:
			if etcd.VDelete(k) {
				delete(store, k)
			}
		default:
			v := fmt.Sprintf("v%d", (round/3)%4)
			etcd.VPut(k, v)
			store[k] = v
		}
		switch {
		case round%40 == 39:
			etcd.VCloseWatch(round%80 == 79)
		case round%60 == 59:
			internal.VerifClusterReload(host)
		case round%50 == 49:
			etcd.VPause()
			etcd.VPut("svc/k9", "v9")
			etcd.VPut("svc/k8", "v8")
			etcd.VPut("svc/k9", "v7")
			etcd.VTrickle(1)
			etcd.VCloseWatch(false)
			etcd.VResume()
			store["svc/k9"], store["svc/k8"] = "v7", "v8"
		}
		if round%10 == 0 {
			time.Sleep(300 * time.Microsecond)
		}
	}
	close(stop)
	wg.Wait()
	tag := internal.VerifTag("svc", false)
	quiet := etcd.QuiesceLoose([]string{tag}, 20*time.Second)
	set := map[string]bool{}
	for _, v := range store {
		set[v] = true
	}
	var want []string
	for v := range set {
		want = append(want, v)
	}
	sort.Strings(want)
	// the machine may be very busy: give the last handled response the time to reach the containers
	for i := 0; i < 2000 && fmt.Sprint(verifSorted(subA.Values())) != fmt.Sprint(want); i++ {
		time.Sleep(5 * time.Millisecond)
	}
	res := map[string]any{"id": 0, "quiet": quiet, "want": want, "valuesA": verifSorted(subA.Values()),
		"valuesB": verifSorted(subB.Values()), "notes": atomic.LoadInt64(&notes)}
	subA.Close()
	subB.Close()
	f, err := os.Create(out)
	if err != nil {
		t.Fatal(err)
	}
	w := bufio.NewWriter(f)
	b, _ := json.Marshal(res)
	w.Write(b)
	w.WriteByte('\n')
	w.Flush()
	f.Close()
}
