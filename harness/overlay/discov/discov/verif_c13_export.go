// C13: ADDED to package core/discov at test-build time (go test -overlay) so that the
// resolver executor (another package) can reach the watch shim of core/discov/internal.
package discov

import "github.com/zeromicro/go-zero/core/discov/internal"

// VerifNewWatch see internal.VerifNewWatch.
func VerifNewWatch(endpoints []string, key string) *internal.VerifWatch {
	return internal.VerifNewWatch(endpoints, key)
}
