// C13 monitor: cluster.reload (what the connection-state listener runs when the etcd
// connection comes back) while a watch goroutine is in the middle of a watch response that
// carries two events.  Deterministic: the first event's listener call is held at a gate until
// reload has taken the cluster lock and waits for the watch goroutines.
package discov

import (
	"bufio"
	"encoding/json"
	"os"
	"runtime"
	"strings"
	"sync"
	"testing"
	"time"

	"github.com/zeromicro/go-zero/core/discov/internal"
)

type verifGate struct {
	mu    sync.Mutex
	armed bool
	held  chan struct{}
	open  chan struct{}
	calls []string
}

func (g *verifGate) OnAdd(kv internal.KV) {
	g.mu.Lock()
	g.calls = append(g.calls, "add "+kv.Key+"="+kv.Val)
	armed := g.armed
	g.armed = false
	g.mu.Unlock()
	if armed {
		close(g.held)
		<-g.open
	}
}

func (g *verifGate) OnDelete(kv internal.KV) {
	g.mu.Lock()
	g.calls = append(g.calls, "del "+kv.Key)
	g.mu.Unlock()
}

func verifStackHas(sub string) bool {
	buf := make([]byte, 1<<20)
	n := runtime.Stack(buf, true)
	for _, g := range strings.Split(string(buf[:n]), "\n\n") {
		if strings.Contains(g, sub) && strings.Contains(g, "sync.(*WaitGroup).Wait") {
			return true
		}
	}
	return false
}

func TestVerifC13Reload(t *testing.T) {
	out := os.Getenv("VERIF_OUT")
	if out == "" {
		t.Skip("no VERIF_OUT")
	}
	host := "verif-c13-reload"
	etcd := internal.VerifNewEtcd(host)
	gate := &verifGate{held: make(chan struct{}), open: make(chan struct{})}
	if err := internal.GetRegistry().Monitor([]string{host}, "svc", false, gate); err != nil {
		t.Fatal(err)
	}
	sub, err := NewSubscriber([]string{host}, "svc")
	if err != nil {
		t.Fatal(err)
	}
	tag := internal.VerifTag("svc", false)
	etcd.VerifBind(host)
	res := map[string]any{"id": 0}
	res["quiet0"] = etcd.Quiesce([]string{tag}, 5*time.Second)
	// one watch response with two events (a backlog, as after a lagging connection)
	etcd.VPause()
	etcd.VPut("svc/k1", "v1")
	etcd.VPut("svc/k2", "v2")
	gate.mu.Lock()
	gate.armed = true
	gate.mu.Unlock()
	etcd.VResume()
	select {
	case <-gate.held:
	case <-time.After(5 * time.Second):
		t.Fatal("the first event never reached the listener")
	}
	// the connection comes back: reload
	done := make(chan struct{})
	go func() {
		internal.VerifClusterReload(host)
		close(done)
	}()
	for i := 0; i < 5000 && !verifStackHas(".(*cluster).reload("); i++ {
		time.Sleep(200 * time.Microsecond)
	}
	res["reloadWaiting"] = verifStackHas(".(*cluster).reload(")
	close(gate.open) // the watch goroutine goes on with the second event
	select {
	case <-done:
		res["reloadReturned"] = true
	case <-time.After(3 * time.Second):
		res["reloadReturned"] = false
	}
	if res["reloadReturned"] == true {
		res["quiet1"] = etcd.Quiesce([]string{tag}, 5*time.Second)
		etcd.VPut("svc/k3", "v3")
		res["quiet2"] = etcd.Quiesce([]string{tag}, 5*time.Second)
		res["values"] = verifSorted(sub.Values())
	}
	gate.mu.Lock()
	res["calls"] = gate.calls
	gate.mu.Unlock()
	f, err := os.Create(out)
	if err != nil {
		t.Fatal(err)
	}
	w := bufio.NewWriter(f)
	b, _ := json.Marshal(res)
	w.Write(b)
	w.WriteByte('\n')
	w.Flush()
	f.Close()
}

// C13 monitor: cluster.reload while a watch goroutine of the previous generation is inside
// load (its Get fails and is retried after the code's own cool-down).  Two watched keys: the
// goroutine of "svc" is loading (after a compaction error), the one of "svc/a" is watching.
// After the reload every watcher must still be brought up to date.
func TestVerifC13ReloadDuringLoad(t *testing.T) {
	out := os.Getenv("VERIF_OUT")
	if out == "" {
		t.Skip("no VERIF_OUT")
	}
	host := "verif-c13-reload-load"
	etcd := internal.VerifNewEtcd(host)
	subA, err := NewSubscriber([]string{host}, "svc")
	if err != nil {
		t.Fatal(err)
	}
	subB, err := NewSubscriber([]string{host}, "svc/a")
	if err != nil {
		t.Fatal(err)
	}
	tagA, tagB := internal.VerifTag("svc", false), internal.VerifTag("svc/a", false)
	etcd.VerifBind(host)
	res := map[string]any{"id": 0}
	res["quiet0"] = etcd.Quiesce([]string{tagA, tagB}, 5*time.Second)
	// both streams lag and are compacted away; the Get of "svc" fails once (cool-down ~1 s)
	etcd.VPause()
	etcd.VPut("svc/k0", "v0")
	etcd.VPut("svc/k1", "v1")
	etcd.VCompact()
	etcd.VGetErrsTag(tagA, 1)
	etcd.VResume()
	res["quietB"] = etcd.QuiesceLoose([]string{tagB}, 5*time.Second)
	for i := 0; i < 5000 && !verifStackHas2(".(*cluster).load(", "time.Sleep"); i++ {
		time.Sleep(200 * time.Microsecond)
	}
	res["loading"] = verifStackHas2(".(*cluster).load(", "time.Sleep")
	done := make(chan struct{})
	go func() {
		internal.VerifClusterReload(host)
		close(done)
	}()
	select {
	case <-done:
		res["reloadReturned"] = true
	case <-time.After(4 * time.Second):
		res["reloadReturned"] = false
	}
	etcd.VPut("svc/a/k2", "v2")
	res["quiet1"] = etcd.Quiesce([]string{tagA, tagB}, 4*time.Second)
	res["valuesA"] = verifSorted(subA.Values())
	res["valuesB"] = verifSorted(subB.Values())
	res["live"] = etcd.Live()
	f, err := os.Create(out)
	if err != nil {
		t.Fatal(err)
	}
	w := bufio.NewWriter(f)
	b, _ := json.Marshal(res)
	w.Write(b)
	w.WriteByte('\n')
	w.Flush()
	f.Close()
}

func verifStackHas2(a, b string) bool {
	buf := make([]byte, 1<<20)
	n := runtime.Stack(buf, true)
	for _, g := range strings.Split(string(buf[:n]), "\n\n") {
		if strings.Contains(g, a) && strings.Contains(g, b) {
			return true
		}
	}
	return false
}

// C13 monitor: the last subscriber of a key closes (Registry.Unmonitor removes the watcher)
// while the watch goroutine of that key is inside load() (compaction error, Get fails once:
// the code's own 1 s cool-down).  A subscriber that comes afterwards must see the registered
// values.
func TestVerifC13UnmonitorDuringLoad(t *testing.T) {
	out := os.Getenv("VERIF_OUT")
	if out == "" {
		t.Skip("no VERIF_OUT")
	}
	host := "verif-c13-unmonitor-load"
	etcd := internal.VerifNewEtcd(host)
	subA, err := NewSubscriber([]string{host}, "svc")
	if err != nil {
		t.Fatal(err)
	}
	tag := internal.VerifTag("svc", false)
	etcd.VerifBind(host)
	res := map[string]any{"id": 0}
	etcd.VPut("svc/k1", "v1")
	res["quiet0"] = etcd.Quiesce([]string{tag}, 5*time.Second)
	res["valuesA"] = verifSorted(subA.Values())
	etcd.VPause()
	etcd.VPut("svc/k2", "v2")
	etcd.VPut("svc/k3", "v3")
	etcd.VCompact()
	etcd.VGetErrsTag(tag, 1)
	etcd.VResume()
	for i := 0; i < 5000 && !verifStackHas2(".(*cluster).load(", "time.Sleep"); i++ {
		time.Sleep(200 * time.Microsecond)
	}
	res["loading"] = verifStackHas2(".(*cluster).load(", "time.Sleep")
	subA.Close() // the watcher of "svc" is removed
	time.Sleep(1500 * time.Millisecond)
	res["stateBetween"] = internal.VerifClusterState(host)
	subB, err := NewSubscriber([]string{host}, "svc")
	if err != nil {
		t.Fatal(err)
	}
	res["quiet1"] = etcd.QuiesceLoose([]string{tag}, 4*time.Second)
	res["valuesB"] = verifSorted(subB.Values())
	etcd.VPut("svc/k4", "v4")
	res["quiet2"] = etcd.QuiesceLoose([]string{tag}, 4*time.Second)
	res["valuesB2"] = verifSorted(subB.Values())
	res["live"] = etcd.Live()
	f, err := os.Create(out)
	if err != nil {
		t.Fatal(err)
	}
	w := bufio.NewWriter(f)
	b, _ := json.Marshal(res)
	w.Write(b)
	w.WriteByte('\n')
	w.Flush()
	f.Close()
}

// verifJoiner is a further listener of a watched key (a real container behind it); while it is
// handed the FIRST known value it changes ANOTHER known key in etcd (delete / new value) and
// gives the watch goroutine the time to handle that event.
type verifJoiner struct {
	c     *container
	first bool
	act   func(other string)
	keys  []string
}

func (j *verifJoiner) OnAdd(kv internal.KV) {
	j.c.OnAdd(kv)
	if !j.first {
		j.first = true
		for _, k := range j.keys {
			if k != kv.Key {
				j.act(k)
				break
			}
		}
	}
}

func (j *verifJoiner) OnDelete(kv internal.KV) { j.c.OnDelete(kv) }

// C13 monitor: a second subscriber joins a watched key (Registry.Monitor: attach, replay)
// while an event about a key it has not been handed yet is handled by the watch goroutine.
func TestVerifC13JoinDuringEvent(t *testing.T) {
	out := os.Getenv("VERIF_OUT")
	if out == "" {
		t.Skip("no VERIF_OUT")
	}
	res := map[string]any{"id": 0}
	for _, variant := range []string{"delete", "change"} {
		host := "verif-c13-join-" + variant
		etcd := internal.VerifNewEtcd(host)
		subA, err := NewSubscriber([]string{host}, "svc")
		if err != nil {
			t.Fatal(err)
		}
		tag := internal.VerifTag("svc", false)
		etcd.VerifBind(host)
		etcd.VPut("svc/k1", "v1")
		etcd.VPut("svc/k2", "v2")
		ok := etcd.Quiesce([]string{tag}, 5*time.Second)
		j := &verifJoiner{c: newContainer(false), keys: []string{"svc/k1", "svc/k2"}}
		var touched string
		j.act = func(other string) {
			touched = other
			if variant == "delete" {
				etcd.VDelete(other)
			} else {
				etcd.VPut(other, "v9")
			}
			etcd.QuiesceLoose(nil, 300*time.Millisecond)
			time.Sleep(5 * time.Millisecond)
		}
		if err := internal.GetRegistry().Monitor([]string{host}, "svc", false, j); err != nil {
			t.Fatal(err)
		}
		ok = etcd.Quiesce([]string{tag}, 5*time.Second) && ok
		res[variant] = map[string]any{"quiet": ok, "touched": touched, "first": verifSorted(subA.Values()),
			"joiner": verifSorted(j.c.getValues()), "state": internal.VerifClusterState(host)}
	}
	f, err := os.Create(out)
	if err != nil {
		t.Fatal(err)
	}
	w := bufio.NewWriter(f)
	b, _ := json.Marshal(res)
	w.Write(b)
	w.WriteByte('\n')
	w.Flush()
	f.Close()
}

// C13 observation replay: the first subscriber of a key is still inside monitor()'s load (its Get
// fails once) when cluster.reload runs: reload also starts a load + watch for that key.
func TestVerifC13MonitorDuringReload(t *testing.T) {
	out := os.Getenv("VERIF_OUT")
	if out == "" {
		t.Skip("no VERIF_OUT")
	}
	host := "verif-c13-monitor-reload"
	etcd := internal.VerifNewEtcd(host)
	subA, err := NewSubscriber([]string{host}, "svc")
	if err != nil {
		t.Fatal(err)
	}
	tagA, tagB := internal.VerifTag("svc", false), internal.VerifTag("svc/a", false)
	etcd.VerifBind(host)
	etcd.VPut("svc/a/k1", "v1")
	res := map[string]any{"id": 0}
	res["quiet0"] = etcd.Quiesce([]string{tagA}, 5*time.Second)
	etcd.VGetErrsTag(tagB, 1)
	var subB *Subscriber
	done := make(chan struct{})
	go func() {
		subB, _ = NewSubscriber([]string{host}, "svc/a")
		close(done)
	}()
	for i := 0; i < 5000 && !verifStackHas2(".(*cluster).load(", "time.Sleep"); i++ {
		time.Sleep(200 * time.Microsecond)
	}
	res["loading"] = verifStackHas2(".(*cluster).load(", "time.Sleep")
	internal.VerifClusterReload(host)
	<-done
	var mu sync.Mutex
	notes := 0
	subB.AddListener(func() {
		mu.Lock()
		notes++
		mu.Unlock()
	})
	res["quiet1"] = etcd.QuiesceLoose([]string{tagA, tagB}, 5*time.Second)
	res["live"] = etcd.Live()
	etcd.VPut("svc/a/k2", "v2")
	etcd.VDelete("svc/a/k1")
	res["quiet2"] = etcd.QuiesceLoose([]string{tagA, tagB}, 5*time.Second)
	time.Sleep(20 * time.Millisecond)
	res["valuesA"] = verifSorted(subA.Values())
	res["valuesB"] = verifSorted(subB.Values())
	mu.Lock()
	res["notesB"] = notes
	mu.Unlock()
	f, err := os.Create(out)
	if err != nil {
		t.Fatal(err)
	}
	w := bufio.NewWriter(f)
	b, _ := json.Marshal(res)
	w.Write(b)
	w.WriteByte('\n')
	w.Flush()
	f.Close()
}
