// C13 white-box executor for core/discov: drives the real container (and, through the
// shim of core/discov/internal, the real cluster.handleWatchEvents / handleChanges /
// Registry.Monitor) with the event histories of $VERIF_IN and writes the observables.
package discov

import (
	"bufio"
	"bytes"
	"encoding/json"
	"fmt"
	"os"
	"sort"
	"sync"
	"testing"

	"github.com/zeromicro/go-zero/core/discov/internal"
)

type verifC13Case struct {
	ID   int               `json:"id"`
	Kind string            `json:"kind"`
	Excl bool              `json:"excl"`
	Xs   []bool            `json:"xs"`
	Ops  []json.RawMessage `json:"ops"`
}

type verifC13Cont struct {
	c     *container
	notes [][]string
	rec   *internal.VerifRecorder
}

func verifSorted(v []string) []string {
	r := append([]string{}, v...)
	sort.Strings(r)
	return r
}

func verifNewCont(excl bool) *verifC13Cont {
	vc := &verifC13Cont{c: newContainer(excl)}
	vc.c.addListener(func() {
		vc.notes = append(vc.notes, verifSorted(vc.c.getValues()))
	})
	vc.rec = &internal.VerifRecorder{Fwd: vc.c}
	return vc
}

func (vc *verifC13Cont) obs() map[string]any {
	n := vc.notes
	vc.notes = nil
	if n == nil {
		n = [][]string{}
	}
	return map[string]any{"vals": verifSorted(vc.c.getValues()), "notes": n}
}

func verifOp(raw json.RawMessage) (string, []json.RawMessage) {
	var parts []json.RawMessage
	if err := json.Unmarshal(raw, &parts); err != nil || len(parts) == 0 {
		panic(fmt.Sprintf("bad op %s", raw))
	}
	var name string
	json.Unmarshal(parts[0], &name)
	return name, parts[1:]
}

func verifStr(r json.RawMessage) string {
	var s string
	if err := json.Unmarshal(r, &s); err != nil {
		panic(err)
	}
	return s
}

func TestVerifC13(t *testing.T) {
	in, out := os.Getenv("VERIF_IN"), os.Getenv("VERIF_OUT")
	if in == "" || out == "" {
		t.Skip("no VERIF_IN/VERIF_OUT")
	}
	data, err := os.ReadFile(in)
	if err != nil {
		t.Fatal(err)
	}
	var raws []json.RawMessage
	if err := json.Unmarshal(data, &raws); err != nil {
		t.Fatal(err)
	}
	f, err := os.Create(out)
	if err != nil {
		t.Fatal(err)
	}
	defer f.Close()
	w := bufio.NewWriterSize(f, 1<<20)
	defer w.Flush()

	// "cluster" cases (real Registry/cluster on the fake etcd) run on a few goroutines: each has
	// its own endpoints, hence its own cluster, and a failing Get costs the code's own 1 s cool-down
	results := make([][]byte, len(raws))
	var wg sync.WaitGroup
	sem := make(chan struct{}, 8)
	for i, raw := range raws {
		var cs verifC13Case
		if err := json.Unmarshal(raw, &cs); err != nil {
			t.Fatal(err)
		}
		if cs.Kind == "cluster" {
			var cc VerifClusterCase
			if err := json.Unmarshal(raw, &cc); err != nil {
				t.Fatal(err)
			}
			wg.Add(1)
			sem <- struct{}{}
			go func(i int, cc VerifClusterCase) {
				defer wg.Done()
				defer func() { <-sem }()
				results[i], _ = json.Marshal(VerifRunCluster(cc, nil))
			}(i, cc)
			continue
		}
		func() {
			var buf bytes.Buffer
			bw := bufio.NewWriter(&buf)
			defer func() {
				if r := recover(); r != nil {
					results[i], _ = json.Marshal(map[string]any{"id": cs.ID, "panic": fmt.Sprint(r)})
					return
				}
				bw.Flush()
				results[i] = bytes.TrimSpace(buf.Bytes())
			}()
			verifC13Run(t, cs, bw)
		}()
	}
	wg.Wait()
	for _, r := range results {
		w.Write(r)
		w.WriteByte('\n')
	}
}

func verifC13Run(t *testing.T, cs verifC13Case, w *bufio.Writer) {
	{
		var steps []any
		switch cs.Kind {
		case "container":
			vc := verifNewCont(cs.Excl)
			for _, raw := range cs.Ops {
				name, a := verifOp(raw)
				switch name {
				case "add":
					vc.c.OnAdd(internal.KV{Key: verifStr(a[0]), Val: verifStr(a[1])})
				case "del":
					vc.c.OnDelete(internal.KV{Key: verifStr(a[0])})
				default:
					t.Fatalf("bad container op %s", name)
				}
				steps = append(steps, vc.obs())
			}
		case "discov":
			wt := internal.VerifNewWatch([]string{fmt.Sprintf("verif-c13-d-%d", cs.ID)}, "svc")
			var conts []*verifC13Cont
			for _, x := range cs.Xs {
				vc := verifNewCont(x)
				conts = append(conts, vc)
				wt.AddListener(vc.rec)
			}
			first := wt.AddRecorder() // sees the same call sequence as every other listener
			for _, raw := range cs.Ops {
				name, a := verifOp(raw)
				var rec [][3]string
				switch name {
				case "put":
					wt.Put(verifStr(a[0]), verifStr(a[1]))
				case "del":
					wt.Delete(verifStr(a[0]))
				case "batch":
					var evs [][3]string
					if err := json.Unmarshal(a[0], &evs); err != nil {
						t.Fatal(err)
					}
					wt.Batch(evs)
				case "reload":
					var kvs [][2]string
					if err := json.Unmarshal(a[0], &kvs); err != nil {
						t.Fatal(err)
					}
					wt.Reload(kvs)
				case "join":
					var x bool
					json.Unmarshal(a[0], &x)
					vc := verifNewCont(x)
					if err := wt.Join(vc.rec); err != nil {
						t.Fatal(err)
					}
					conts = append(conts, vc)
					rec = vc.rec.Take()
				default:
					t.Fatalf("bad discov op %s", name)
				}
				if name != "join" {
					rec = first.Take()
				}
				for _, vc := range conts {
					vc.rec.Take()
				}
				var cobs []any
				for _, vc := range conts {
					cobs = append(cobs, vc.obs())
				}
				steps = append(steps, map[string]any{"rec": rec, "rvals": wt.Values(), "conts": cobs})
			}
			wt.Close()
		default:
			t.Fatalf("bad kind %q", cs.Kind)
		}
		b, _ := json.Marshal(map[string]any{"id": cs.ID, "steps": steps})
		w.Write(b)
		w.WriteByte('\n')
	}
}
