// C13: ADDED to package core/discov at test-build time (go test -overlay; never written
// under /repo).  Driver of the "cluster" executor: the real Registry / cluster / Subscriber /
// container code on top of the fake etcd of core/discov/internal (verif_c13_fake.go).  The
// driver only performs the ops of the case and records observables; it decides nothing.
package discov

import (
	"encoding/json"
	"fmt"
	"sort"
	"strings"
	"sync"
	"time"

	"github.com/zeromicro/go-zero/core/discov/internal"
)

// VerifClusterCase is one case of kind "cluster".
type VerifClusterCase struct {
	ID       int    `json:"id"`
	Kind     string `json:"kind"`
	Watchers []struct {
		Key   string `json:"key"`
		Exact bool   `json:"exact"`
	} `json:"watchers"`
	Ops  []json.RawMessage `json:"ops"`
	Base int64             `json:"base"` // revision of the empty store (0: 1)
	Eps  int               `json:"eps"`  // number of endpoints of the etcd cluster (0: 1)
}

// VerifResHook builds a resolver (discovBuilder.Build) on discov://host/key; supplied by the
// executor of zrpc/resolver/internal.
type VerifResHook func(hosts, key string) (vals func() []string, pubs func() [][]string, closefn func(), err error)

type verifClSub struct {
	w     int
	mode  string
	hook  func()
	nmu   sync.Mutex
	c     *container
	rec   *internal.VerifRecorder
	sub   *Subscriber
	notes [][]string
	vals  func() []string
	pubs  func() [][]string
	close func()
}

func verifClSorted(v []string) []string {
	r := append([]string{}, v...)
	sort.Strings(r)
	return r
}

// VerifRunCluster runs one case.
func VerifRunCluster(cs VerifClusterCase, hook VerifResHook) (res map[string]any) {
	host := fmt.Sprintf("verif-c13-c-%d-%d", cs.ID, time.Now().UnixNano())
	hosts := []string{host}
	if cs.Eps > 1 {
		hosts = []string{host + "-b", host + "-a"}
	}
	etcd := internal.VerifNewEtcd(hosts...)
	if cs.Base > 1 {
		etcd.VSetBase(cs.Base)
	}
	// the registry sorts the slice it is given in place: a fresh copy per call, in either order
	flip := false
	eps := func() []string {
		l := append([]string{}, hosts...)
		if flip && len(l) > 1 {
			l[0], l[1] = l[1], l[0]
		}
		return l
	}
	subs := map[int]*verifClSub{}
	spies := map[int]*internal.VerifSpy{}
	pubs := map[int]*Publisher{}
	nlist := map[int]int{} // listeners per watcher (spy included)
	var order []int
	paused := false
	everStuck := false
	var steps []any
	defer func() {
		if r := recover(); r != nil {
			res = map[string]any{"id": cs.ID, "panic": fmt.Sprint(r)}
		}
		for _, s := range subs {
			s.close()
		}
		for _, p := range pubs {
			p.Stop()
		}
		for w, sp := range spies {
			internal.GetRegistry().Unmonitor(eps(), cs.Watchers[w].Key, cs.Watchers[w].Exact, sp)
		}
		internal.VerifDropEtcd(hosts...)
	}()

	var mu sync.Mutex
	var joinHook func()
	var injectedRec []bool
	var fired []any
	var armed []*verifClSub
	fire := func(s *verifClSub) {
		mu.Lock()
		h := s.hook
		mu.Unlock()
		if h != nil {
			h()
		}
	}
	var regenFired []bool
	epoch := 0
	doSpy := func(w int) string {
		epoch++
		tag := internal.VerifTag(cs.Watchers[w].Key, cs.Watchers[w].Exact)
		etcd.Mark(tag, "epoch", epoch)
		sp := &internal.VerifSpy{E: etcd, Tag: tag, Ep: epoch}
		if err := internal.GetRegistry().Monitor(eps(), cs.Watchers[w].Key, cs.Watchers[w].Exact, sp); err != nil {
			return err.Error()
		}
		spies[w] = sp
		mu.Lock()
		nlist[w]++
		mu.Unlock()
		return ""
	}
	var doSub func(sid, w int, mode string, excl bool) string
	doSub = func(sid, w int, mode string, excl bool) string {
		wk := cs.Watchers[w]
		s := &verifClSub{w: w, mode: mode}
		switch mode {
		case "rec":
			s.c = newContainer(excl)
			s.c.addListener(func() {
				v := verifClSorted(s.c.getValues())
				s.nmu.Lock()
				s.notes = append(s.notes, v)
				s.nmu.Unlock()
			})
			s.rec = &internal.VerifRecorder{Fwd: s.c, Hook: func() { fire(s) }}
			if jh := joinHook; jh != nil { // the joiner's own first replayed OnAdd
				joinHook = nil
				s.rec.Hook = func() {
					s.rec.Hook = func() { fire(s) }
					jh()
				}
			}
			if err := internal.GetRegistry().Monitor(eps(), wk.Key, wk.Exact, s.rec); err != nil {
				return err.Error()
			}
			s.vals = s.c.getValues
			s.close = func() { internal.GetRegistry().Unmonitor(eps(), wk.Key, wk.Exact, s.rec) }
		case "api":
			var opts []SubOption
			if excl {
				opts = append(opts, Exclusive())
			}
			if wk.Exact {
				opts = append(opts, WithExactMatch())
			}
			sub, err := NewSubscriber(eps(), wk.Key, opts...)
			if err != nil {
				return err.Error()
			}
			s.sub = sub
			sub.AddListener(func() {
				v := verifClSorted(sub.Values())
				s.nmu.Lock()
				s.notes = append(s.notes, v)
				s.nmu.Unlock()
				fire(s)
			})
			s.vals = sub.Values
			s.close = sub.Close
		case "res":
			vals, pubs, closefn, err := hook(strings.Join(eps(), ","), wk.Key)
			if err != nil {
				return err.Error()
			}
			s.vals, s.pubs, s.close = vals, pubs, closefn
		default:
			panic("bad sub mode " + mode)
		}
		mu.Lock()
		subs[sid] = s
		order = append(order, sid)
		nlist[w]++
		mu.Unlock()
		return ""
	}
	doUnsub := func(sid int) string {
		mu.Lock()
		s := subs[sid]
		mu.Unlock()
		if s == nil {
			return "unknown sid"
		}
		s.close()
		mu.Lock()
		delete(subs, sid)
		nlist[s.w]--
		for i, x := range order {
			if x == sid {
				order = append(order[:i], order[i+1:]...)
				break
			}
		}
		mu.Unlock()
		return ""
	}

	for _, raw := range cs.Ops {
		var parts []json.RawMessage
		if err := json.Unmarshal(raw, &parts); err != nil || len(parts) == 0 {
			panic(fmt.Sprintf("bad op %s", raw))
		}
		var name string
		json.Unmarshal(parts[0], &name)
		geti := func(i int) int {
			var x int
			if err := json.Unmarshal(parts[i], &x); err != nil {
				panic(err)
			}
			return x
		}
		gets := func(i int) string {
			var x string
			if err := json.Unmarshal(parts[i], &x); err != nil {
				panic(err)
			}
			return x
		}
		getb := func(i int) bool {
			var x bool
			if err := json.Unmarshal(parts[i], &x); err != nil {
				panic(err)
			}
			return x
		}
		errs := ""
		switch name {
		case "spy":
			w := geti(1)
			errs = doSpy(w)
		case "regen":
			// ["regen", w, hold, batch, between, sid, mode, excl, how]: the watcher of key w gets ONE watch response
			// carrying the events of `batch`; while its first listener is being called for event number `hold`,
			// every subscriber of the key is closed (the watcher is removed, its watch cancelled), the keys of
			// `between` are registered / deleted, and the key is monitored again (new watcher, load, watch) by a new
			// first listener and subscriber `sid` - how = "in": from inside the callback, "out": by another goroutine
			// while the callback is held.  Then the callback returns and the OLD watch goroutine goes on with the
			// rest of its batch.
			w, hold := geti(1), geti(2)
			var batch, between [][]string
			if err := json.Unmarshal(parts[3], &batch); err != nil {
				panic(err)
			}
			if err := json.Unmarshal(parts[4], &between); err != nil {
				panic(err)
			}
			sid, mode, excl, how := geti(5), gets(6), getb(7), gets(8)
			apply := func(ms [][]string) {
				for _, m := range ms {
					if m[0] == "put" {
						etcd.VPut(m[1], m[2])
					} else {
						etcd.VDelete(m[1])
					}
				}
			}
			script := func() {
				mu.Lock()
				var mine []int
				for _, x := range order {
					if subs[x].w == w {
						mine = append(mine, x)
					}
				}
				mu.Unlock()
				for _, x := range mine {
					doUnsub(x)
				}
				internal.GetRegistry().Unmonitor(eps(), cs.Watchers[w].Key, cs.Watchers[w].Exact, spies[w])
				delete(spies, w)
				nlist[w]--
				apply(between)
				doSpy(w)
				doSub(sid, w, mode, excl)
			}
			firedRegen := false
			started, finished := make(chan struct{}), make(chan struct{})
			old := spies[w]
			oldTag := old.Tag
			old.Arm(hold, func() {
				close(started)
				defer close(finished)
				if how == "out" {
					done := make(chan struct{})
					go func() {
						defer close(done)
						script()
					}()
					<-done
				} else {
					script()
				}
			})
			etcd.VPause()
			apply(batch)
			bsz := etcd.VBatch(0) // ONE response for the whole batch
			etcd.VResume()
			etcd.VBatch(bsz)
			regenDeadline := time.Now().Add(3 * time.Second) // the watcher may have no stream at all: never wait for ever
			if everStuck {
				regenDeadline = time.Now().Add(300 * time.Millisecond)
			}
			for !firedRegen && time.Now().Before(regenDeadline) {
				select {
				case <-started:
					<-finished
					firedRegen = true
				case <-time.After(20 * time.Millisecond):
				}
				if !firedRegen && etcd.QuiesceLoose([]string{oldTag}, 100*time.Millisecond) {
					select {
					case <-started:
						<-finished
						firedRegen = true
					default:
					}
					break
				}
			}
			if !firedRegen { // the batch made too few calls: the same is done after it
				old.Hook = nil
				script()
			}
			regenFired = append(regenFired, firedRegen)
		case "unspy":
			w := geti(1)
			internal.GetRegistry().Unmonitor(eps(), cs.Watchers[w].Key, cs.Watchers[w].Exact, spies[w])
			delete(spies, w)
			nlist[w]--
		case "sub":
			flip = len(parts) > 5 && getb(5) // endpoints given in the other order: the same cluster
			errs = doSub(geti(1), geti(2), gets(3), getb(4))
		case "unsub":
			errs = doUnsub(geti(1))
		case "subj", "spyj":
			// ["subj", sid, w, excl, muts] / ["spyj", w, muts]: a subscriber joins the watcher (subj: a further
			// listener of a watched key, Registry.Monitor's replay; spyj: the first listener of a key, monitor's load)
			// and, WHILE it is being handed the first known value, the keys of muts are registered / deleted in
			// etcd and the watch goroutine gets the time to handle them (it may also have to wait for the join).
			var muts [][]string
			mi := 4
			if name == "spyj" {
				mi = 2
			}
			if err := json.Unmarshal(parts[mi], &muts); err != nil {
				panic(err)
			}
			inject := func() {
				for _, m := range muts {
					if m[0] == "put" {
						etcd.VPut(m[1], m[2])
					} else {
						etcd.VDelete(m[1])
					}
				}
				etcd.QuiesceLoose(nil, 150*time.Millisecond)
				time.Sleep(2 * time.Millisecond)
			}
			injected := false
			if name == "spyj" {
				w := geti(1)
				epoch++
				sp := &internal.VerifSpy{E: etcd, Tag: internal.VerifTag(cs.Watchers[w].Key, cs.Watchers[w].Exact), Ep: epoch}
				etcd.Mark(sp.Tag, "epoch", epoch)
				sp.Arm(0, func() { injected = true; inject() })
				if err := internal.GetRegistry().Monitor(eps(), cs.Watchers[w].Key, cs.Watchers[w].Exact, sp); err != nil {
					errs = err.Error()
				} else {
					spies[w] = sp
					nlist[w]++
				}
				sp.Hook = nil
			} else {
				joining := true
				joinHook = func() {
					if joining { // only while Monitor is replaying to the joiner
						injected = true
						inject()
					}
				}
				errs = doSub(geti(1), geti(2), "rec", getb(3))
				joining = false
				joinHook = nil
			}
			if !injected { // nothing was replayed (no known value): the registrations are made after the join
				inject()
			}
			injectedRec = append(injectedRec, injected)
		case "hook":
			// ["hook", trigger, "unsub", target, how] / ["hook", trigger, "sub", sid, mode, excl, how]:
			// the next time the trigger subscriber is called back DURING THIS STEP (the watcher is in the middle of
			// dispatching a watch event or a reload diff to its listeners), close subscriber `target` / create a
			// subscriber on the same watcher - how = "in": re-entrantly from inside the callback, "out": from
			// another goroutine while the callback is held.  One shot; disarmed at the end of the next step.
			trig, act := subs[geti(1)], gets(2)
			if trig == nil {
				errs = "unknown sid"
				break
			}
			var action func()
			var how string
			rec := map[string]any{"trig": geti(1), "act": act}
			if act == "unsub" {
				target := geti(3)
				how = gets(4)
				rec["sid"] = target
				action = func() { doUnsub(target) }
			} else {
				sid, mode, excl := geti(3), gets(4), getb(5)
				how = gets(6)
				rec["sid"] = sid
				w := trig.w
				action = func() { doSub(sid, w, mode, excl) }
			}
			trig.hook = func() {
				trig.hook = nil
				if how == "out" {
					done := make(chan struct{})
					go func() {
						defer close(done)
						action()
					}()
					<-done
				} else {
					action()
				}
				mu.Lock()
				fired = append(fired, rec)
				mu.Unlock()
			}
			armed = append(armed, trig)
		case "pub":
			// a registration made by the real Publisher: NewPublisher(...).KeepAlive() -> Grant, Put key/<id or lease>
			pid, key, val, id := geti(1), gets(2), gets(3), geti(4)
			var popts []PubOption
			if id > 0 {
				popts = append(popts, WithId(int64(id)))
			}
			p := NewPublisher(eps(), key, val, popts...)
			if err := p.KeepAlive(); err != nil {
				errs = err.Error()
			} else {
				pubs[pid] = p
			}
		case "unpub":
			p := pubs[geti(1)]
			lease := int64(p.lease)
			p.Stop()
			delete(pubs, geti(1))
			for i := 0; i < 20000 && !etcd.LeaseGone(lease); i++ {
				time.Sleep(200 * time.Microsecond)
			}
		case "ppause":
			// Publisher.Pause: the registration is revoked until Resume
			p := pubs[geti(1)]
			lease := int64(p.lease)
			p.Pause()
			for i := 0; i < 20000 && !etcd.LeaseGone(lease); i++ {
				time.Sleep(200 * time.Microsecond)
			}
		case "presume":
			// Publisher.Resume: registers again on its next tick (1 s)
			before := etcd.PutCount()
			pubs[geti(1)].Resume()
			for i := 0; i < 20000 && etcd.PutCount() == before; i++ {
				time.Sleep(200 * time.Microsecond)
			}
		case "expire":
			// the lease expires (keys deleted, keep-alive channel closed): the Publisher registers again on its next tick (1 s)
			p := pubs[geti(1)]
			before := etcd.PutCount()
			etcd.VExpire(int64(p.lease))
			for i := 0; i < 20000 && etcd.PutCount() == before; i++ {
				time.Sleep(200 * time.Microsecond)
			}
		case "put":
			etcd.VPut(gets(1), gets(2))
		case "del":
			etcd.VDelete(gets(1))
		case "pause":
			etcd.VPause()
			paused = true
		case "resume":
			etcd.VResume()
			paused = false
		case "batchsize":
			// etcd catches lagging watchers up in batches of at most k events (0: no limit), every batch
			// stamped with the current store revision
			etcd.VBatch(geti(1))
		case "trickle":
			// while etcd withholds deliveries: every lagging stream gets its next m catch-up batches
			etcd.VTrickle(geti(1))
		case "compact":
			etcd.VCompact()
		case "closewatch":
			etcd.VCloseWatch(false)
		case "cancelwatch":
			etcd.VCloseWatch(true)
		case "geterr":
			etcd.VGetErrs(geti(1))
		case "stale":
			etcd.VStale(int64(geti(1)))
		case "reconnect":
			if !internal.VerifClusterReload(hosts...) {
				errs = "no cluster"
			}
		default:
			panic("bad cluster op " + name)
		}

		var expect []string
		for w, n := range nlist {
			if n > 0 {
				expect = append(expect, internal.VerifTag(cs.Watchers[w].Key, cs.Watchers[w].Exact))
			}
		}
		flip = false
		etcd.VerifBind(hosts...)
		// once a watcher failed to come back the case has failed anyway: do not wait long again
		wait := 15 * time.Second
		if everStuck {
			wait = 200 * time.Millisecond
		}
		stuck := !etcd.Quiesce(expect, wait)
		everStuck = everStuck || stuck
		// a hook lives for exactly one step after it was armed; if that step made no call to the trigger, the
		// membership change is made now (outside any dispatch), so that the case means the same either way
		if name != "hook" && len(armed) > 0 {
			for _, s := range armed {
				mu.Lock()
				h := s.hook
				mu.Unlock()
				if h != nil {
					h()
				}
			}
			armed = nil
			if !etcd.Quiesce(expect, wait) {
				stuck, everStuck = true, true
			}
		}
		sobs := map[string]any{}
		for _, sid := range order {
			s := subs[sid]
			o := map[string]any{"vals": verifClSorted(s.vals())}
			if s.pubs != nil {
				p := [][]string{}
				for _, x := range s.pubs() {
					p = append(p, verifClSorted(x))
				}
				o["notes"] = p
			} else {
				s.nmu.Lock()
				n := s.notes
				s.notes = nil
				s.nmu.Unlock()
				if n == nil {
					n = [][]string{}
				}
				o["notes"] = n
			}
			if s.rec != nil {
				o["rec"] = s.rec.Take()
			}
			sobs[fmt.Sprint(sid)] = o
		}
		mu.Lock()
		f := fired
		fired = nil
		if f == nil {
			f = []any{}
		}
		mu.Unlock()
		inj := injectedRec
		injectedRec = nil
		rf := regenFired
		regenFired = nil
		steps = append(steps, map[string]any{"regen": rf, "injected": inj, "fired": f, "log": etcd.TakeLog(), "stuck": stuck, "paused": paused, "err": errs,
			"rev": etcd.Rev(), "live": etcd.Live(), "state": internal.VerifClusterState(hosts...), "subs": sobs})
	}
	return map[string]any{"id": cs.ID, "steps": steps}
}
