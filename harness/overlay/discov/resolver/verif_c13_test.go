// C13 white-box executor for zrpc/resolver/internal: `subset` directly, and the real
// discovBuilder.Build -> discov.NewSubscriber -> container -> update() -> cc.UpdateState
// chain on a watcher fed with events directly (no etcd).
package internal

import (
	"bufio"
	"encoding/json"
	"fmt"
	"math/rand"
	"net/url"
	"os"
	"sort"
	"testing"

	"github.com/zeromicro/go-zero/core/discov"
	"google.golang.org/grpc/resolver"
)

type verifC13Case struct {
	ID   int               `json:"id"`
	Seed int64             `json:"seed"`
	Kind string            `json:"kind"`
	Set  []string          `json:"set"`
	Sub  int               `json:"sub"`
	Pre  []json.RawMessage `json:"pre"`
	Ops  []json.RawMessage `json:"ops"`
}

type verifC13CC struct {
	mockClientConn
	pubs *[][]string
}

func (c verifC13CC) UpdateState(s resolver.State) error {
	l := []string{}
	for _, a := range s.Addresses {
		l = append(l, a.Addr)
	}
	*c.pubs = append(*c.pubs, l)
	return nil
}

func verifOp(raw json.RawMessage) (string, []json.RawMessage) {
	var parts []json.RawMessage
	if err := json.Unmarshal(raw, &parts); err != nil || len(parts) == 0 {
		panic(fmt.Sprintf("bad op %s", raw))
	}
	var name string
	json.Unmarshal(parts[0], &name)
	return name, parts[1:]
}

func verifStr(r json.RawMessage) string {
	var s string
	if err := json.Unmarshal(r, &s); err != nil {
		panic(err)
	}
	return s
}

func TestVerifC13(t *testing.T) {
	in, out := os.Getenv("VERIF_IN"), os.Getenv("VERIF_OUT")
	if in == "" || out == "" {
		t.Skip("no VERIF_IN/VERIF_OUT")
	}
	data, err := os.ReadFile(in)
	if err != nil {
		t.Fatal(err)
	}
	var cases []verifC13Case
	if err := json.Unmarshal(data, &cases); err != nil {
		t.Fatal(err)
	}
	f, err := os.Create(out)
	if err != nil {
		t.Fatal(err)
	}
	defer f.Close()
	w := bufio.NewWriterSize(f, 1<<20)
	defer w.Flush()

	for _, cs := range cases {
		func() {
			defer func() {
				if r := recover(); r != nil {
					b, _ := json.Marshal(map[string]any{"id": cs.ID, "panic": fmt.Sprint(r)})
					w.Write(b)
					w.WriteByte('\n')
				}
			}()
			verifC13Run(t, cs, w)
		}()
	}
}

func verifC13Run(t *testing.T, cs verifC13Case, w *bufio.Writer) {
	{
		rand.Seed(cs.Seed)
		res := map[string]any{"id": cs.ID, "subsetSize": subsetSize}
		switch cs.Kind {
		case "subset":
			got := subset(append([]string{}, cs.Set...), cs.Sub)
			if got == nil {
				got = []string{}
			}
			res["out"] = got
		case "resolver":
			host := fmt.Sprintf("verif-c13-r-%d", cs.ID)
			wt := discov.VerifNewWatch([]string{host}, "svc")
			rec := wt.AddRecorder()
			apply := func(raw json.RawMessage) {
				name, a := verifOp(raw)
				switch name {
				case "put":
					wt.Put(verifStr(a[0]), verifStr(a[1]))
				case "del":
					wt.Delete(verifStr(a[0]))
				case "batch":
					var evs [][3]string
					if err := json.Unmarshal(a[0], &evs); err != nil {
						t.Fatal(err)
					}
					wt.Batch(evs)
				case "reload":
					var kvs [][2]string
					if err := json.Unmarshal(a[0], &kvs); err != nil {
						t.Fatal(err)
					}
					wt.Reload(kvs)
				default:
					t.Fatalf("bad resolver op %s", name)
				}
			}
			var presteps []any
			for _, raw := range cs.Pre {
				apply(raw)
				presteps = append(presteps, map[string]any{"rec": rec.Take()})
			}
			u, err := url.Parse(fmt.Sprintf("%s://%s/svc", DiscovScheme, host))
			if err != nil {
				t.Fatal(err)
			}
			var pubs [][]string
			var b discovBuilder
			r, err := b.Build(resolver.Target{URL: *u}, verifC13CC{pubs: &pubs}, resolver.BuildOptions{})
			if err != nil {
				t.Fatal(err)
			}
			sub := r.(*discovResolver).sub
			take := func() [][]string {
				p := pubs
				pubs = nil
				if p == nil {
					p = [][]string{}
				}
				return p
			}
			vals := func() []string {
				v := append([]string{}, sub.Values()...)
				sort.Strings(v)
				return v
			}
			res["pre"] = presteps
			res["build"] = map[string]any{"pubs": take(), "vals": vals()}
			var steps []any
			for _, raw := range cs.Ops {
				apply(raw)
				steps = append(steps, map[string]any{"rec": rec.Take(), "pubs": take(), "vals": vals()})
			}
			res["steps"] = steps
			r.Close()
			wt.Close()
		default:
			t.Fatalf("bad kind %q", cs.Kind)
		}
		b, _ := json.Marshal(res)
		w.Write(b)
		w.WriteByte('\n')
	}
}
