// C13 white-box executor for zrpc/resolver/internal: `subset` directly, and the real
// discovBuilder.Build -> discov.NewSubscriber -> container -> update() -> cc.UpdateState
// chain on a watcher fed with events directly (no etcd).
package internal

import (
	"bufio"
	"bytes"
	"encoding/json"
	"fmt"
	"math/rand"
	"net/url"
	"os"
	"sort"
	"sync"
	"testing"

	"github.com/zeromicro/go-zero/core/discov"
	"google.golang.org/grpc/resolver"
)

type verifC13Case struct {
	ID   int               `json:"id"`
	Seed int64             `json:"seed"`
	Kind string            `json:"kind"`
	Set  []string          `json:"set"`
	Sub  int               `json:"sub"`
	Pre  []json.RawMessage `json:"pre"`
	Ops  []json.RawMessage `json:"ops"`
}

type verifC13CC struct {
	mockClientConn
	pubs *[][]string
}

func (c verifC13CC) UpdateState(s resolver.State) error {
	l := []string{}
	for _, a := range s.Addresses {
		l = append(l, a.Addr)
	}
	*c.pubs = append(*c.pubs, l)
	return nil
}

func verifOp(raw json.RawMessage) (string, []json.RawMessage) {
	var parts []json.RawMessage
	if err := json.Unmarshal(raw, &parts); err != nil || len(parts) == 0 {
		panic(fmt.Sprintf("bad op %s", raw))
	}
	var name string
	json.Unmarshal(parts[0], &name)
	return name, parts[1:]
}

func verifStr(r json.RawMessage) string {
	var s string
	if err := json.Unmarshal(r, &s); err != nil {
		panic(err)
	}
	return s
}

func TestVerifC13(t *testing.T) {
	in, out := os.Getenv("VERIF_IN"), os.Getenv("VERIF_OUT")
	if in == "" || out == "" {
		t.Skip("no VERIF_IN/VERIF_OUT")
	}
	data, err := os.ReadFile(in)
	if err != nil {
		t.Fatal(err)
	}
	var raws []json.RawMessage
	if err := json.Unmarshal(data, &raws); err != nil {
		t.Fatal(err)
	}
	f, err := os.Create(out)
	if err != nil {
		t.Fatal(err)
	}
	defer f.Close()
	w := bufio.NewWriterSize(f, 1<<20)
	defer w.Flush()

	results := make([][]byte, len(raws))
	var wg sync.WaitGroup
	sem := make(chan struct{}, 8)
	for i, raw := range raws {
		var cs verifC13Case
		if err := json.Unmarshal(raw, &cs); err != nil {
			t.Fatal(err)
		}
		if cs.Kind == "cluster" {
			// the real cluster on the fake etcd, with resolvers built by discovBuilder / etcdBuilder
			var cc discov.VerifClusterCase
			if err := json.Unmarshal(raw, &cc); err != nil {
				t.Fatal(err)
			}
			wg.Add(1)
			sem <- struct{}{}
			go func(i int, cc discov.VerifClusterCase) {
				defer wg.Done()
				defer func() { <-sem }()
				results[i], _ = json.Marshal(discov.VerifRunCluster(cc, verifC13ResHook(cc.ID)))
			}(i, cc)
			continue
		}
		func() {
			var buf bytes.Buffer
			bw := bufio.NewWriter(&buf)
			defer func() {
				if r := recover(); r != nil {
					results[i], _ = json.Marshal(map[string]any{"id": cs.ID, "panic": fmt.Sprint(r)})
					return
				}
				bw.Flush()
				results[i] = bytes.TrimSpace(buf.Bytes())
			}()
			verifC13Run(t, cs, bw)
		}()
	}
	wg.Wait()
	for _, r := range results {
		w.Write(r)
		w.WriteByte('\n')
	}
}

type verifC13LockedCC struct {
	mockClientConn
	mu   *sync.Mutex
	pubs *[][]string
}

func (c verifC13LockedCC) UpdateState(s resolver.State) error {
	l := []string{}
	for _, a := range s.Addresses {
		l = append(l, a.Addr)
	}
	c.mu.Lock()
	*c.pubs = append(*c.pubs, l)
	c.mu.Unlock()
	return nil
}

// verifC13ResHook: a resolver built by discovBuilder.Build (odd case ids: through etcdBuilder,
// which embeds it) on <scheme>://host/key; what it publishes and its subscriber's Values().
func verifC13ResHook(id int) discov.VerifResHook {
	return func(host, key string) (func() []string, func() [][]string, func(), error) {
		scheme := DiscovScheme
		var b resolver.Builder = &discovBuilder{}
		if id%2 == 1 {
			scheme = EtcdScheme
			b = &etcdBuilder{}
		}
		if b.Scheme() != scheme {
			return nil, nil, nil, fmt.Errorf("scheme %s", b.Scheme())
		}
		u, err := url.Parse(fmt.Sprintf("%s://%s/%s", scheme, host, key))
		if err != nil {
			return nil, nil, nil, err
		}
		var mu sync.Mutex
		var pubs [][]string
		r, err := b.Build(resolver.Target{URL: *u}, verifC13LockedCC{mu: &mu, pubs: &pubs}, resolver.BuildOptions{})
		if err != nil {
			return nil, nil, nil, err
		}
		sub := r.(*discovResolver).sub
		take := func() [][]string {
			mu.Lock()
			defer mu.Unlock()
			p := pubs
			pubs = nil
			return p
		}
		return sub.Values, take, r.Close, nil
	}
}

func verifC13Run(t *testing.T, cs verifC13Case, w *bufio.Writer) {
	{
		rand.Seed(cs.Seed)
		res := map[string]any{"id": cs.ID, "subsetSize": subsetSize}
		switch cs.Kind {
		case "subset":
			got := subset(append([]string{}, cs.Set...), cs.Sub)
			if got == nil {
				got = []string{}
			}
			res["out"] = got
		case "resolver":
			host := fmt.Sprintf("verif-c13-r-%d", cs.ID)
			wt := discov.VerifNewWatch([]string{host}, "svc")
			rec := wt.AddRecorder()
			apply := func(raw json.RawMessage) {
				name, a := verifOp(raw)
				switch name {
				case "put":
					wt.Put(verifStr(a[0]), verifStr(a[1]))
				case "del":
					wt.Delete(verifStr(a[0]))
				case "batch":
					var evs [][3]string
					if err := json.Unmarshal(a[0], &evs); err != nil {
						t.Fatal(err)
					}
					wt.Batch(evs)
				case "reload":
					var kvs [][2]string
					if err := json.Unmarshal(a[0], &kvs); err != nil {
						t.Fatal(err)
					}
					wt.Reload(kvs)
				default:
					t.Fatalf("bad resolver op %s", name)
				}
			}
			var presteps []any
			for _, raw := range cs.Pre {
				apply(raw)
				presteps = append(presteps, map[string]any{"rec": rec.Take()})
			}
			u, err := url.Parse(fmt.Sprintf("%s://%s/svc", DiscovScheme, host))
			if err != nil {
				t.Fatal(err)
			}
			var pubs [][]string
			var b discovBuilder
			r, err := b.Build(resolver.Target{URL: *u}, verifC13CC{pubs: &pubs}, resolver.BuildOptions{})
			if err != nil {
				t.Fatal(err)
			}
			sub := r.(*discovResolver).sub
			take := func() [][]string {
				p := pubs
				pubs = nil
				if p == nil {
					p = [][]string{}
				}
				return p
			}
			vals := func() []string {
				v := append([]string{}, sub.Values()...)
				sort.Strings(v)
				return v
			}
			res["pre"] = presteps
			res["build"] = map[string]any{"pubs": take(), "vals": vals()}
			var steps []any
			for _, raw := range cs.Ops {
				apply(raw)
				steps = append(steps, map[string]any{"rec": rec.Take(), "pubs": take(), "vals": vals()})
			}
			res["steps"] = steps
			r.Close()
			wt.Close()
		default:
			t.Fatalf("bad kind %q", cs.Kind)
		}
		b, _ := json.Marshal(res)
		w.Write(b)
		w.WriteByte('\n')
	}
}
