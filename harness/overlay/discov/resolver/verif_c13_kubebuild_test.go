// C13 monitor: the real kubeBuilder.Build (target parsing, port lookup, informer wiring,
// EventHandler, subset, "ip:port" formatting) against a minimal HTTPS API server that serves
// Get / List / Watch of one Endpoints object.  rest.InClusterConfig needs the service-account
// files; the test writes a token and the test server's certificate there (and nothing else).
package internal

import (
	"encoding/json"
	"encoding/pem"
	"fmt"
	"net/http"
	"net/http/httptest"
	"net/url"
	"os"
	"sort"
	"strings"
	"sync"
	"testing"
	"time"

	"google.golang.org/grpc/resolver"
	corev1 "k8s.io/api/core/v1"
	v1 "k8s.io/apimachinery/pkg/apis/meta/v1"
)

const verifSADir = "/var/run/secrets/kubernetes.io/serviceaccount"

type verifKubeAPI struct {
	mu    sync.Mutex
	cur   *corev1.Endpoints
	evs   chan string
	calls []string
}

func verifEps(rv string, port int32, ips ...string) *corev1.Endpoints {
	e := &corev1.Endpoints{TypeMeta: v1.TypeMeta{Kind: "Endpoints", APIVersion: "v1"},
		ObjectMeta: v1.ObjectMeta{Name: "svc", Namespace: "ns", ResourceVersion: rv}}
	var s corev1.EndpointSubset
	for _, ip := range ips {
		s.Addresses = append(s.Addresses, corev1.EndpointAddress{IP: ip})
	}
	s.Ports = []corev1.EndpointPort{{Port: port}}
	e.Subsets = []corev1.EndpointSubset{s}
	return e
}

func (a *verifKubeAPI) ServeHTTP(w http.ResponseWriter, r *http.Request) {
	a.mu.Lock()
	obj := a.cur.DeepCopy()
	a.mu.Unlock()
	w.Header().Set("Content-Type", "application/json")
	switch {
	case r.URL.Path == "/api/v1/namespaces/ns/endpoints/svc":
		a.note("GET svc rv " + obj.ResourceVersion)
		json.NewEncoder(w).Encode(obj)
	case r.URL.Path == "/api/v1/namespaces/ns/endpoints" && r.URL.Query().Get("watch") == "true":
		a.note("WATCH " + r.URL.Query().Get("fieldSelector") + " from rv " + r.URL.Query().Get("resourceVersion"))
		w.WriteHeader(200)
		fl := w.(http.Flusher)
		fl.Flush()
		for {
			select {
			case line := <-a.evs:
				fmt.Fprintln(w, line)
				fl.Flush()
			case <-r.Context().Done():
				return
			}
		}
	case r.URL.Path == "/api/v1/namespaces/ns/endpoints":
		a.note("LIST " + r.URL.Query().Get("fieldSelector") + " rv " + obj.ResourceVersion)
		json.NewEncoder(w).Encode(&corev1.EndpointsList{TypeMeta: v1.TypeMeta{Kind: "EndpointsList", APIVersion: "v1"},
			ListMeta: v1.ListMeta{ResourceVersion: obj.ResourceVersion}, Items: []corev1.Endpoints{*obj}})
	default:
		a.note("OTHER " + r.URL.Path)
		http.NotFound(w, r)
	}
}

func (a *verifKubeAPI) note(s string) {
	a.mu.Lock()
	a.calls = append(a.calls, s)
	a.mu.Unlock()
}

func (a *verifKubeAPI) event(typ string, obj *corev1.Endpoints) {
	a.mu.Lock()
	a.cur = obj
	a.mu.Unlock()
	b, _ := json.Marshal(map[string]any{"type": typ, "object": obj})
	a.evs <- string(b)
}

type verifKubeCC struct {
	mockClientConn
	mu   *sync.Mutex
	pubs *[][]string
}

func (c verifKubeCC) UpdateState(s resolver.State) error {
	l := []string{}
	for _, a := range s.Addresses {
		l = append(l, a.Addr)
	}
	sort.Strings(l)
	c.mu.Lock()
	*c.pubs = append(*c.pubs, l)
	c.mu.Unlock()
	return nil
}

func TestVerifC13KubeBuild(t *testing.T) {
	out := os.Getenv("VERIF_OUT")
	if out == "" {
		t.Skip("no VERIF_OUT")
	}
	res := map[string]any{"id": 0}
	write := func() {
		b, _ := json.Marshal(res)
		os.WriteFile(out, append(b, '\n'), 0o644)
	}
	api := &verifKubeAPI{cur: verifEps("1", 8081, "10.0.0.1", "10.0.0.2"), evs: make(chan string, 16)}
	srv := httptest.NewTLSServer(api)
	defer srv.Close()
	if err := os.MkdirAll(verifSADir, 0o755); err != nil {
		res["skipped"] = err.Error()
		write()
		return
	}
	ca := pem.EncodeToMemory(&pem.Block{Type: "CERTIFICATE", Bytes: srv.Certificate().Raw})
	if err := os.WriteFile(verifSADir+"/token", []byte("verif"), 0o600); err != nil {
		res["skipped"] = err.Error()
		write()
		return
	}
	if err := os.WriteFile(verifSADir+"/ca.crt", ca, 0o644); err != nil {
		res["skipped"] = err.Error()
		write()
		return
	}
	defer os.Remove(verifSADir + "/token")
	defer os.Remove(verifSADir + "/ca.crt")
	u, _ := url.Parse(srv.URL)
	os.Setenv("KUBERNETES_SERVICE_HOST", u.Hostname())
	os.Setenv("KUBERNETES_SERVICE_PORT", u.Port())

	var runs []any
	for _, target := range []string{"k8s://ns/svc:8080", "k8s://ns/svc"} {
		api.mu.Lock()
		api.cur = verifEps("1", 8081, "10.0.0.1", "10.0.0.2")
		api.calls = nil
		api.mu.Unlock()
		tu, _ := url.Parse(target)
		var mu sync.Mutex
		var pubs [][]string
		var b kubeBuilder
		r, err := b.Build(resolver.Target{URL: *tu}, verifKubeCC{mu: &mu, pubs: &pubs}, resolver.BuildOptions{})
		if err != nil {
			res["error"] = err.Error()
			write()
			return
		}
		last := func() []string {
			mu.Lock()
			defer mu.Unlock()
			if len(pubs) == 0 {
				return nil
			}
			return pubs[len(pubs)-1]
		}
		settle := func(want string) []string {
			for i := 0; i < 400; i++ {
				if strings.Join(last(), ",") == want {
					break
				}
				time.Sleep(5 * time.Millisecond)
			}
			time.Sleep(30 * time.Millisecond)
			return last()
		}
		port := "8080"
		if !strings.Contains(target, ":8080") {
			port = "8081"
		}
		ap := func(ips ...string) string {
			l := []string{}
			for _, ip := range ips {
				l = append(l, ip+":"+port)
			}
			sort.Strings(l)
			return strings.Join(l, ",")
		}
		var steps []any
		step := func(name, want string) {
			steps = append(steps, map[string]any{"step": name, "want": want, "got": strings.Join(settle(want), ",")})
		}
		step("build", ap("10.0.0.1", "10.0.0.2"))
		// wait until the informer watches
		for i := 0; i < 400; i++ {
			api.mu.Lock()
			n := 0
			for _, c := range api.calls {
				if strings.HasPrefix(c, "WATCH") {
					n++
				}
			}
			api.mu.Unlock()
			if n > 0 {
				break
			}
			time.Sleep(5 * time.Millisecond)
		}
		api.event("MODIFIED", verifEps("2", 8081, "10.0.0.2", "10.0.0.3"))
		step("modified", ap("10.0.0.2", "10.0.0.3"))
		api.event("MODIFIED", verifEps("3", 8081, "10.0.0.3"))
		step("shrunk", ap("10.0.0.3"))
		api.event("DELETED", verifEps("4", 8081, "10.0.0.3"))
		step("deleted", "")
		api.event("ADDED", verifEps("5", 8081, "10.0.0.4", "10.0.0.5"))
		step("added", ap("10.0.0.4", "10.0.0.5"))
		r.Close()
		api.mu.Lock()
		calls := append([]string{}, api.calls...)
		api.mu.Unlock()
		runs = append(runs, map[string]any{"target": target, "steps": steps, "calls": calls})
	}
	res["runs"] = runs
	write()
}
