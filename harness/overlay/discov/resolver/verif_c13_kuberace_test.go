package internal

import (
	"context"
	"encoding/json"
	"net/http"
	"net/http/httptest"
	"os"
	"sort"
	"sync"
	"testing"
	"time"

	"github.com/zeromicro/go-zero/zrpc/resolver/internal/kube"
	corev1 "k8s.io/api/core/v1"
	v1 "k8s.io/apimachinery/pkg/apis/meta/v1"
	"k8s.io/client-go/informers"
	"k8s.io/client-go/kubernetes"
	"k8s.io/client-go/rest"
)

func eps(rv string, ips ...string) *corev1.Endpoints {
	e := &corev1.Endpoints{TypeMeta: v1.TypeMeta{Kind: "Endpoints", APIVersion: "v1"},
		ObjectMeta: v1.ObjectMeta{Name: "svc", Namespace: "ns", ResourceVersion: rv}}
	var s corev1.EndpointSubset
	for _, ip := range ips {
		s.Addresses = append(s.Addresses, corev1.EndpointAddress{IP: ip})
	}
	e.Subsets = []corev1.EndpointSubset{s}
	return e
}

// The statements of kubeBuilder.Build after the clientset exists, in the same order, against
// a minimal HTTP API server (Get / List / Watch of Endpoints); the Endpoints object loses an
// address between Build's Get and the informer's first List.
func TestVerifC13KubeRace(t *testing.T) {
	var mu sync.Mutex
	cur := eps("1", "10.0.0.1", "10.0.0.2")
	var log []string
	srv := httptest.NewServer(http.HandlerFunc(func(w http.ResponseWriter, r *http.Request) {
		mu.Lock()
		obj := cur.DeepCopy()
		mu.Unlock()
		w.Header().Set("Content-Type", "application/json")
		switch {
		case r.URL.Path == "/api/v1/namespaces/ns/endpoints/svc":
			log = append(log, "GET svc -> rv "+obj.ResourceVersion)
			json.NewEncoder(w).Encode(obj)
		case r.URL.Path == "/api/v1/namespaces/ns/endpoints" && r.URL.Query().Get("watch") == "true":
			log = append(log, "WATCH from rv "+r.URL.Query().Get("resourceVersion"))
			w.WriteHeader(200)
			w.(http.Flusher).Flush()
			<-r.Context().Done() // nothing changes any more
		case r.URL.Path == "/api/v1/namespaces/ns/endpoints":
			log = append(log, "LIST ("+r.URL.Query().Get("fieldSelector")+") -> rv "+obj.ResourceVersion)
			json.NewEncoder(w).Encode(&corev1.EndpointsList{TypeMeta: v1.TypeMeta{Kind: "EndpointsList", APIVersion: "v1"},
				ListMeta: v1.ListMeta{ResourceVersion: obj.ResourceVersion}, Items: []corev1.Endpoints{*obj}})
		default:
			http.NotFound(w, r)
		}
	}))
	defer srv.Close()
	cs, err := kubernetes.NewForConfig(&rest.Config{Host: srv.URL})
	if err != nil {
		t.Fatal(err)
	}

	var published []string
	handler := kube.NewEventHandler(func(endpoints []string) {
		published = append([]string{}, endpoints...)
		sort.Strings(published)
	})
	inf := informers.NewSharedInformerFactoryWithOptions(cs, resyncInterval,
		informers.WithNamespace("ns"),
		informers.WithTweakListOptions(func(options *v1.ListOptions) {
			options.FieldSelector = nameSelector + "svc"
		}))
	in := inf.Core().V1().Endpoints()
	if _, err := in.Informer().AddEventHandler(handler); err != nil {
		t.Fatal(err)
	}
	endpoints, err := cs.CoreV1().Endpoints("ns").Get(context.Background(), "svc", v1.GetOptions{})
	if err != nil {
		t.Fatal(err)
	}
	handler.Update(endpoints)
	t.Logf("after Build's Get+Update: published=%v", published)

	// the pod 10.0.0.2 goes away before the informer has listed
	mu.Lock()
	cur = eps("2", "10.0.0.1")
	mu.Unlock()

	stop := make(chan struct{})
	inf.Start(stop) // r.start()
	inf.WaitForCacheSync(stop)
	time.Sleep(500 * time.Millisecond)
	t.Logf("API calls: %v", log)
	t.Logf("API server has addresses [10.0.0.1]; after informer sync: published=%v", published)
	close(stop)
	if out := os.Getenv("VERIF_OUT"); out != "" {
		b, _ := json.Marshal(map[string]any{"published": published, "calls": log})
		os.WriteFile(out, append(b, '\n'), 0o644)
	}
}
