// C13 white-box executor for zrpc/resolver/internal/kube: feeds Endpoints objects to the
// real EventHandler methods (no informer) and records what it publishes.
package kube

import (
	"bufio"
	"encoding/json"
	"fmt"
	"os"
	"sort"
	"testing"

	v1 "k8s.io/api/core/v1"
	metav1 "k8s.io/apimachinery/pkg/apis/meta/v1"
	"k8s.io/client-go/tools/cache"
)

type verifC13Obj struct {
	RV      string     `json:"rv"`
	Subsets [][]string `json:"subsets"`
}

type verifC13Op struct {
	Op  string       `json:"op"`
	Obj verifC13Obj  `json:"obj"`
	Old *verifC13Obj `json:"old"`
}

type verifC13Case struct {
	ID  int          `json:"id"`
	Ops []verifC13Op `json:"ops"`
}

func verifEndpoints(o verifC13Obj) *v1.Endpoints {
	e := &v1.Endpoints{ObjectMeta: metav1.ObjectMeta{Name: "svc", ResourceVersion: o.RV}}
	for _, s := range o.Subsets {
		var sub v1.EndpointSubset
		for _, ip := range s {
			sub.Addresses = append(sub.Addresses, v1.EndpointAddress{IP: ip})
		}
		e.Subsets = append(e.Subsets, sub)
	}
	return e
}

func TestVerifC13(t *testing.T) {
	in, out := os.Getenv("VERIF_IN"), os.Getenv("VERIF_OUT")
	if in == "" || out == "" {
		t.Skip("no VERIF_IN/VERIF_OUT")
	}
	data, err := os.ReadFile(in)
	if err != nil {
		t.Fatal(err)
	}
	var cases []verifC13Case
	if err := json.Unmarshal(data, &cases); err != nil {
		t.Fatal(err)
	}
	f, err := os.Create(out)
	if err != nil {
		t.Fatal(err)
	}
	defer f.Close()
	w := bufio.NewWriterSize(f, 1<<20)
	defer w.Flush()

	for _, cs := range cases {
		func() {
			defer func() {
				if r := recover(); r != nil {
					b, _ := json.Marshal(map[string]any{"id": cs.ID, "panic": fmt.Sprint(r)})
					w.Write(b)
					w.WriteByte('\n')
				}
			}()
			verifC13Run(t, cs, w)
		}()
	}
}

func verifC13Run(t *testing.T, cs verifC13Case, w *bufio.Writer) {
	{
		var pubs [][]string
		h := NewEventHandler(func(targets []string) {
			l := append([]string{}, targets...)
			sort.Strings(l)
			pubs = append(pubs, l)
		})
		var steps []any
		for _, op := range cs.Ops {
			switch op.Op {
			case "add":
				h.OnAdd(verifEndpoints(op.Obj), false)
			case "delete":
				h.OnDelete(verifEndpoints(op.Obj))
			case "onupdate":
				h.OnUpdate(verifEndpoints(*op.Old), verifEndpoints(op.Obj))
			case "update":
				h.Update(verifEndpoints(op.Obj))
			case "other_add": // an object of another type
				h.OnAdd("not endpoints", false)
			case "other_delete":
				h.OnDelete(&v1.Pod{})
			case "other_update_old":
				h.OnUpdate("not endpoints", verifEndpoints(op.Obj))
			case "other_update_new":
				h.OnUpdate(verifEndpoints(op.Obj), &v1.Service{})
			case "tombstone": // what the informer delivers when it missed the delete event
				h.OnDelete(cache.DeletedFinalStateUnknown{Key: "ns/svc", Obj: verifEndpoints(op.Obj)})
			default:
				t.Fatalf("bad op %s", op.Op)
			}
			p := pubs
			pubs = nil
			if p == nil {
				p = [][]string{}
			}
			eps := []string{}
			h.lock.Lock()
			for k := range h.endpoints {
				eps = append(eps, k)
			}
			h.lock.Unlock()
			sort.Strings(eps)
			steps = append(steps, map[string]any{"pubs": p, "eps": eps})
		}
		b, _ := json.Marshal(map[string]any{"id": cs.ID, "steps": steps})
		w.Write(b)
		w.WriteByte('\n')
		_ = fmt.Sprint
	}
}
