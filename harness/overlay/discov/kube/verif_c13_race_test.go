// C13 monitor (thorough tier, built with -race): kubeBuilder.Build calls handler.Update with
// the result of its own Get on the caller's goroutine while the informer's goroutine delivers
// OnAdd / OnUpdate / OnDelete: the EventHandler is used from two goroutines.  Free-running; the
// race detector reports unsynchronised access to h.endpoints (a lock released too early).
// The update callback is synchronised by the test itself.
package kube

import (
	"bufio"
	"encoding/json"
	"fmt"
	"os"
	"runtime"
	"sort"
	"sync"
	"testing"
	"time"
)

func TestVerifC13KubeRaceDetector(t *testing.T) {
	out := os.Getenv("VERIF_OUT")
	if out == "" {
		t.Skip("no VERIF_OUT")
	}
	var mu sync.Mutex
	var last []string
	pubs := 0
	h := NewEventHandler(func(addrs []string) {
		mu.Lock()
		last = append([]string(nil), addrs...)
		pubs++
		mu.Unlock()
		// the callback (cc.UpdateState in the resolver) takes its time: the other goroutine gets to run
		// while this handler call is still in progress
		time.Sleep(20 * time.Microsecond)
	})
	obj := func(rv int, ips ...string) verifC13Obj {
		return verifC13Obj{RV: fmt.Sprint(rv), Subsets: [][]string{ips}}
	}
	var wg sync.WaitGroup
	wg.Add(2)
	start := make(chan struct{})
	go func() { // Build's own Get + Update, repeated
		defer wg.Done()
		<-start
		for i := 0; i < 1500; i++ {
			h.Update(verifEndpoints(obj(10000+i, "1", "2", fmt.Sprint(3+i%3))))
			if i%8 == 0 {
				runtime.Gosched()
			}
		}
	}()
	go func() { // the informer
		defer wg.Done()
		<-start
		prev := obj(1, "1")
		h.OnAdd(verifEndpoints(prev), true)
		for i := 2; i < 1500; i++ {
			if i%8 == 0 {
				runtime.Gosched()
			}
			next := obj(i, "1", fmt.Sprint(2+i%4))
			switch i % 2 {
			case 1:
				h.OnDelete(verifEndpoints(prev))
				h.OnAdd(verifEndpoints(next), false)
			default:
				h.OnUpdate(verifEndpoints(prev), verifEndpoints(next))
			}
			prev = next
		}
	}()
	close(start)
	wg.Wait()
	// a final sequential update decides the outcome
	h.Update(verifEndpoints(obj(50000, "7", "8")))
	mu.Lock()
	got := append([]string(nil), last...)
	n := pubs
	mu.Unlock()
	sort.Strings(got)
	res := map[string]any{"id": 0, "last": got, "pubs": n}
	f, err := os.Create(out)
	if err != nil {
		t.Fatal(err)
	}
	w := bufio.NewWriter(f)
	b, _ := json.Marshal(res)
	w.Write(b)
	w.WriteByte('\n')
	w.Flush()
	f.Close()
}
