// Overlay ADDED to core/mathx at build time by the verification harness (never committed
// to /repo).  It only adds a constructor; proba.go itself is compiled unchanged.
package mathx

import "math/rand"

// NewProbaWithSource returns a Proba whose draws come from src.
// rand.Rand.Float64 is float64(src.Int63()) / (1<<63) (go1.23), so a source whose Int63
// returns m<<10 with m in [0, 2^53) makes TrueOnProba(p) compute  m/2^53 < p  exactly
// (m<<10 has at most 53 significant bits: the conversion and the division by a power of
// two are exact).  The harness re-checks this relation at the start of every run.
func NewProbaWithSource(src rand.Source) *Proba {
	return &Proba{
		r: rand.New(src),
	}
}
