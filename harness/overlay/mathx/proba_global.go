// Overlay REPLACING core/mathx/proba.go, used ONLY by the REST wrapper executor of C01
// (BreakerHandler creates its breaker inside a closure, so the draw source of that breaker
// cannot be reached from outside).  Identical to proba.go except that NewProba() uses
// VerifSource when it is set.  The main C01 run compiles proba.go unchanged.
package mathx

import (
	"math/rand"
	"sync"
	"time"
)

// VerifSource, when non-nil, is the source of every Proba created afterwards.
var VerifSource rand.Source

// A Proba is used to test if true on given probability.
type Proba struct {
	// rand.New(...) returns a non thread safe object
	r    *rand.Rand
	lock sync.Mutex
}

// NewProba returns a Proba.
func NewProba() *Proba {
	if VerifSource != nil {
		return &Proba{r: rand.New(VerifSource)}
	}
	return &Proba{
		r: rand.New(rand.NewSource(time.Now().UnixNano())),
	}
}

// TrueOnProba checks if true on given probability.
func (p *Proba) TrueOnProba(proba float64) (truth bool) {
	p.lock.Lock()
	truth = p.r.Float64() < proba
	p.lock.Unlock()
	return
}
