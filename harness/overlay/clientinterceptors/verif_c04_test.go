package clientinterceptors

// White-box executor for C04 (zRPC client side), injected with `go test -overlay`.

import (
	"bufio"
	"context"
	"encoding/json"
	"fmt"
	"os"
	"strconv"
	"strings"
	"testing"
	"time"

	"google.golang.org/grpc"
)

type verifClientCase struct {
	ID        int     `json:"id"`
	Opts      []int64 `json:"opts"`   // per-call timeouts (ns), in order
	Filler    int     `json:"filler"` // number of unrelated call options put in front
	DefaultNs int64   `json:"default_ns"`
	ParentNs  *int64  `json:"parent_ns"`
	InvErr    int64   `json:"inv_err"`
	PShape    string  `json:"pshape"` // shape of the caller's context (ctxshape.go, copied next to this file)
	PreDone   bool    `json:"pre_done"` // the caller's context is already cancelled when the call is made
}

type verifClientOut struct {
	ID       int    `json:"id"`
	HasDl    bool   `json:"has_dl"`
	DlSeenNs int64  `json:"dl_seen_ns"`
	T1Ns     int64  `json:"t1_ns"`
	Err      int64  `json:"ret_err"`
	Failure  string `json:"err,omitempty"`
}

func TestVerifC04(t *testing.T) {
	data, err := os.ReadFile(os.Getenv("VERIF_IN"))
	if err != nil {
		t.Skip("no VERIF_IN")
	}
	var cases []verifClientCase
	if err := json.Unmarshal(data, &cases); err != nil {
		t.Fatal(err)
	}
	f, err := os.Create(os.Getenv("VERIF_OUT"))
	if err != nil {
		t.Fatal(err)
	}
	defer f.Close()
	w := bufio.NewWriter(f)
	defer w.Flush()
	for _, c := range cases {
		out := verifClientOut{ID: c.ID}
		tA := time.Now()
		parent, cancelParent, cancel := mkParent(c.PShape, tA, c.ParentNs)
		if c.PreDone {
			cancelParent()
		}
		var opts []grpc.CallOption
		for i := 0; i < c.Filler; i++ {
			opts = append(opts, grpc.WaitForReady(true))
		}
		for _, o := range c.Opts {
			opts = append(opts, WithCallTimeout(time.Duration(o)))
		}
		err := TimeoutInterceptor(time.Duration(c.DefaultNs))(parent, "/svc/m", nil, nil, new(grpc.ClientConn),
			func(ctx context.Context, method string, req, reply any, cc *grpc.ClientConn, opts ...grpc.CallOption) error {
				t1 := time.Now()
				dl, ok := ctx.Deadline()
				out.HasDl = ok
				if ok {
					out.DlSeenNs = int64(dl.Sub(tA))
				}
				out.T1Ns = int64(t1.Sub(tA))
				if c.InvErr != 0 {
					return fmt.Errorf("e%d", c.InvErr)
				}
				if c.PreDone {
					// what a real invoker does with a context that is done: it hands back ctx.Err()
					return ctx.Err()
				}
				return nil
			}, opts...)
		cancelParent()
		cancel()
		switch {
		case err == nil:
		case err == context.DeadlineExceeded:
			out.Err = -1
		case err == context.Canceled:
			out.Err = -2
		case strings.HasPrefix(err.Error(), "e"):
			out.Err, _ = strconv.ParseInt(err.Error()[1:], 10, 64)
		default:
			out.Err = -99
		}
		b, _ := json.Marshal(out)
		w.Write(b)
		w.WriteByte('\n')
	}
}
