// Added (not replacing anything) to package core/syncx at build time with `go build -overlay`
// by the verification harness for C05; never committed to /repo.  pool.go itself is the real
// file.  VerifOnLock decorates the pool's own mutex so that every acquisition of the pool
// lock (by Get, by Put, by a Get resuming from cond.Wait) calls on() while the lock is held:
// the harness logs "actor X took the pool lock", which is the linearisation order of the
// critical sections (the "ret" events are logged after the lock has been released, in any order).
package syncx

import "sync"

type verifLocker struct {
	inner sync.Locker
	on    func()
}

func (l *verifLocker) Lock() {
	l.inner.Lock()
	l.on()
}

func (l *verifLocker) Unlock() {
	l.inner.Unlock()
}

// VerifOnLock must be called right after NewPool, before the pool is used.
func (p *Pool) VerifOnLock(on func()) {
	lk := &verifLocker{inner: p.lock, on: on}
	p.lock = lk
	p.cond = sync.NewCond(lk)
}
