// Added (not replacing anything) to package core/syncx at build time with `go build -overlay`
// by the verification harness; never committed to /repo.  It only exposes a way to decorate
// the ResourceManager's SingleFlight so that "GetResource invoked, about to enter
// singleflight" becomes a schedule point of the controller.
package syncx

// VerifWrapFlight replaces the manager's SingleFlight by wrap(current).
func (manager *ResourceManager) VerifWrapFlight(wrap func(SingleFlight) SingleFlight) {
	manager.singleFlight = wrap(manager.singleFlight)
}
