package encoding

// White-box executor for C17 (injected with `go test -overlay`; nothing is written under
// /repo): for the texts rendered by harness/cmd/c17 it dumps the JSON text that go-zero's
// YAML / TOML front ends (third-party parser + toStringKeyMap / re-encoding) hand on to
// LoadFromJsonBytes, also after os.ExpandEnv (what conf.Load does with conf.UseEnv()).
// tools/props/c17.py compares these trees with the model's `shape`.

import (
	"bufio"
	"encoding/json"
	"os"
	"testing"
)

type c17Case struct {
	ID    int               `json:"id"`
	Texts map[string]string `json:"texts"`
	Env   map[string]string `json:"env"`
}

type c17Mid struct {
	OK   bool   `json:"ok"`
	JSON string `json:"json,omitempty"`
	Err  string `json:"err,omitempty"`
}

type c17Out struct {
	ID     int               `json:"id"`
	Mid    map[string]c17Mid `json:"mid"`
	MidEnv map[string]c17Mid `json:"midenv,omitempty"`
	// the byte slices RETURNED by YamlToJson / TomlToJson for this case and for the case before it
	// still hold what they held when they were returned (they are the caller's: a later conversion
	// must not write into them)
	Retained bool `json:"retained"`
}

// a returned slice (not a copy) and its content at the time it was returned
type c17Kept struct {
	b []byte
	s string
}

var c17Keep, c17KeepPrev []c17Kept

func c17Intact() bool {
	for _, k := range append(append([]c17Kept{}, c17KeepPrev...), c17Keep...) {
		if string(k.b) != k.s {
			return false
		}
	}
	return true
}

func c17Convert(texts map[string]string) map[string]c17Mid {
	res := map[string]c17Mid{}
	conv := func(name string, f func([]byte) ([]byte, error)) {
		t, ok := texts[name]
		if !ok {
			return
		}
		b, err := f([]byte(t))
		if err != nil {
			res[name] = c17Mid{Err: err.Error()}
			return
		}
		res[name] = c17Mid{OK: true, JSON: string(b)}
		c17Keep = append(c17Keep, c17Kept{b: b, s: string(b)})
	}
	conv("yaml", YamlToJson)
	conv("toml", TomlToJson)
	conv("yaml", YamlToJson) // once more: the first results are kept across later conversions
	conv("json", func(b []byte) ([]byte, error) { return b, nil })
	return res
}

func TestVerifC17(t *testing.T) {
	in, out := os.Getenv("VERIF_IN"), os.Getenv("VERIF_OUT")
	if in == "" || out == "" {
		t.Skip("no VERIF_IN/VERIF_OUT")
	}
	data, err := os.ReadFile(in)
	if err != nil {
		t.Fatal(err)
	}
	var cases []c17Case
	if err := json.Unmarshal(data, &cases); err != nil {
		t.Fatal(err)
	}
	f, err := os.Create(out)
	if err != nil {
		t.Fatal(err)
	}
	defer f.Close()
	w := bufio.NewWriter(f)
	defer w.Flush()
	for _, c := range cases {
		c17KeepPrev, c17Keep = c17Keep, nil
		o := c17Out{ID: c.ID, Mid: c17Convert(c.Texts)}
		if c.Env != nil {
			for k, v := range c.Env {
				os.Setenv(k, v)
			}
			exp := map[string]string{}
			for k, v := range c.Texts {
				exp[k] = os.ExpandEnv(v)
			}
			o.MidEnv = c17Convert(exp)
			for k := range c.Env {
				os.Unsetenv(k)
			}
		}
		o.Retained = c17Intact()
		b, err := json.Marshal(o)
		if err != nil {
			t.Fatal(err)
		}
		w.Write(b)
		w.WriteByte('\n')
	}
}
