// Executor for property C02 (wrappers): drives the real rest/handler.SheddingHandler
//
//	kind "rest":  one request at a time against a recording Shedder (every outcome class);
//	kind "wrest": overlapping requests against ONE long-lived real load.NewAdaptiveShedder behind a
//	              forwarding Shedder (virtual clock, injected CPU gauge), handlers blocked on gates.
//
// Injected with `go test -overlay`; never written under /repo.
package handler

import (
	"bufio"
	"bytes"
	"encoding/json"
	"fmt"
	"math"
	"net/http"
	"net/http/httptest"
	"os"
	"reflect"
	"testing"
	"time"

	"github.com/zeromicro/go-zero/core/load"
	"github.com/zeromicro/go-zero/core/logx"
	"github.com/zeromicro/go-zero/core/stat"
	"github.com/zeromicro/go-zero/core/timex"
)

type c02Rec struct {
	shed                  bool
	allows, passes, fails int
}

type c02Prom struct{ r *c02Rec }

func (p c02Prom) Pass() { p.r.passes++ }
func (p c02Prom) Fail() { p.r.fails++ }

func (r *c02Rec) Allow() (load.Promise, error) {
	r.allows++
	if r.shed {
		return nil, load.ErrServiceOverloaded
	}
	return c02Prom{r}, nil
}

type c02RestReq struct {
	Nil   bool  `json:"nil"` // SheddingHandler(nil, metrics): no shedder configured
	Shed  bool  `json:"shed"`
	Codes []int `json:"codes"`
	Body  bool  `json:"body"`
	Panic bool  `json:"panic"`
}

type c02RestCase struct {
	ID   int          `json:"id"`
	Kind string       `json:"kind"`
	Reqs []c02RestReq `json:"reqs"`
	// kind wrest
	Window    int64    `json:"window"`
	Buckets   int      `json:"buckets"`
	Threshold int64    `json:"threshold"`
	T0        int64    `json:"t0"`
	Omit      []string `json:"omit"` // options not passed to the constructor (the case carries the defaults)
	Ops       [][]any  `json:"ops"`  // ["start", now, cpu, reqIndex] | ["finish", opIndex, now]
}

// ---- kind wrest ---------------------------------------------------------------

// forwards to the real shedder and records what the wrapper does with each promise
type c02Fwd struct {
	real load.Shedder
	cur  *c02Flight
}

type c02Flight struct {
	allows, passes, fails, runs int
	gate                        chan struct{}
	entered, returned           chan struct{}
	rr                          *httptest.ResponseRecorder
	panicked                    bool
	released                    bool
}

type c02FwdProm struct {
	p load.Promise
	f *c02Flight
}

func (p c02FwdProm) Pass() { p.f.passes++; p.p.Pass() }
func (p c02FwdProm) Fail() { p.f.fails++; p.p.Fail() }

func (s *c02Fwd) Allow() (load.Promise, error) {
	f := s.cur
	f.allows++
	p, err := s.real.Allow()
	if err != nil {
		return nil, err
	}
	return c02FwdProm{p, f}, nil
}

type c02WObs struct {
	K      string `json:"k"`
	Shed   bool   `json:"shed"`
	Done   bool   `json:"done"`
	Runs   int    `json:"runs"`
	Allows int    `json:"allows"`
	Passes int    `json:"passes"`
	Fails  int    `json:"fails"`
	Code   int    `json:"code"`
	Panic  bool   `json:"panic"`
	Fl     int64  `json:"fl"`
	Am     int64  `json:"am"`
	Ae     int    `json:"ae"`
}

func c02Num(v any) int64 {
	switch x := v.(type) {
	case json.Number:
		n, err := x.Int64()
		if err != nil {
			panic("verif c02: not an int64: " + x.String())
		}
		return n
	case float64:
		if x != math.Trunc(x) || math.Abs(x) >= 1<<53 {
			panic("verif c02: number decoded through float64 is not exact")
		}
		return int64(x)
	}
	panic("verif c02: not a number")
}

// clock values go up to ~3e16 ns: beyond 2^53, so numbers inside the [][]any operations must NOT be
// decoded through float64 (json.Unmarshal's default) - they would be rounded to multiples of 4 ns.
func c02Decode(data []byte, v any) error {
	d := json.NewDecoder(bytes.NewReader(data))
	d.UseNumber()
	return d.Decode(v)
}

func c02Dyadic(v float64) (int64, int) {
	if v == 0 || math.IsNaN(v) || math.IsInf(v, 0) {
		return 0, 0
	}
	fr, e := math.Frexp(v)
	return int64(fr * (1 << 53)), e - 53
}

// flying / avgFlying of the real shedder, read (not written) through reflection
func c02Peek(sh load.Shedder) (int64, float64) {
	v := reflect.ValueOf(sh)
	if v.Kind() != reflect.Ptr || v.Elem().Kind() != reflect.Struct {
		return -1, 0
	}
	e := v.Elem()
	fl, avg := e.FieldByName("flying"), e.FieldByName("avgFlying")
	if !fl.IsValid() || !avg.IsValid() || fl.Kind() != reflect.Int64 || avg.Kind() != reflect.Float64 {
		return -1, 0
	}
	return fl.Int(), avg.Float()
}

func c02RunWrest(c c02RestCase, metrics *stat.Metrics) (obs []c02WObs, stable bool, err string) {
	stable = true
	timex.SetFakeNow(time.Duration(c.T0))
	omit := map[string]bool{}
	for _, o := range c.Omit {
		omit[o] = true
	}
	var opts []load.ShedderOption
	if !omit["window"] {
		opts = append(opts, load.WithWindow(time.Duration(c.Window)))
	}
	if !omit["buckets"] {
		opts = append(opts, load.WithBuckets(c.Buckets))
	}
	if !omit["threshold"] {
		opts = append(opts, load.WithCpuThreshold(c.Threshold))
	}
	real := load.NewAdaptiveShedder(opts...)
	fwd := &c02Fwd{real: real}
	flights := map[int]*c02Flight{}
	defer func() {
		for _, f := range flights {
			if !f.released {
				close(f.gate)
			}
		}
	}()
	snap := func(o *c02WObs) {
		fl, avg := c02Peek(real)
		o.Fl = fl
		o.Am, o.Ae = c02Dyadic(avg)
	}
	for i, op := range c.Ops {
		var o c02WObs
		kind, _ := op[0].(string)
		o.K = kind
		switch kind {
		case "start":
			timex.SetFakeNow(time.Duration(c02Num(op[1])))
			cpu := c02Num(op[2])
			q := c.Reqs[int(c02Num(op[3]))]
			f := &c02Flight{gate: make(chan struct{}), entered: make(chan struct{}), returned: make(chan struct{}),
				rr: httptest.NewRecorder()}
			flights[i] = f
			next := http.HandlerFunc(func(rw http.ResponseWriter, r *http.Request) {
				f.runs++
				f.entered <- struct{}{}
				<-f.gate
				for _, code := range q.Codes {
					rw.WriteHeader(code)
				}
				if q.Body {
					rw.Write([]byte("x"))
				}
				if q.Panic {
					panic("verif")
				}
			})
			h := SheddingHandler(fwd, metrics)(next)
			fwd.cur = f
			stat.VerifSetCpuUsage(cpu)
			go func() {
				defer close(f.returned)
				defer func() {
					if e := recover(); e != nil {
						f.panicked = true
					}
				}()
				h.ServeHTTP(f.rr, httptest.NewRequest(http.MethodGet, "http://localhost/x", http.NoBody))
			}()
			select {
			case <-f.entered:
			case <-f.returned:
				o.Shed = true
				o.Code = f.rr.Code
				f.released = true
				close(f.gate)
			case <-time.After(20 * time.Second):
				return nil, true, fmt.Sprintf("op %d: request neither entered its handler nor returned", i)
			}
			if stat.CpuUsage() != cpu {
				stable = false
			}
			o.Runs, o.Allows = f.runs, f.allows
		case "finish":
			f := flights[int(c02Num(op[1]))]
			if f != nil && !f.released {
				timex.SetFakeNow(time.Duration(c02Num(op[2])))
				f.released = true
				close(f.gate)
				select {
				case <-f.returned:
				case <-time.After(20 * time.Second):
					return nil, true, fmt.Sprintf("op %d: request did not return", i)
				}
				o.Done = true
				o.Code, o.Panic = f.rr.Code, f.panicked
			}
			if f != nil {
				o.Runs, o.Allows, o.Passes, o.Fails = f.runs, f.allows, f.passes, f.fails
			}
		}
		snap(&o)
		obs = append(obs, o)
	}
	return obs, stable, ""
}

type c02RestObs struct {
	Runs   int  `json:"runs"`
	Allows int  `json:"allows"`
	Passes int  `json:"passes"`
	Fails  int  `json:"fails"`
	Code   int  `json:"code"`
	Panic  bool `json:"panic"`
}

func TestVerifC02Rest(t *testing.T) {
	in := os.Getenv("VERIF_IN")
	if in == "" {
		t.Skip("VERIF_IN not set")
	}
	logx.Disable()
	load.DisableLog()
	data, err := os.ReadFile(in)
	if err != nil {
		t.Fatal(err)
	}
	var cases []c02RestCase
	if err := c02Decode(data, &cases); err != nil {
		t.Fatal(err)
	}
	f, err := os.Create(os.Getenv("VERIF_OUT"))
	if err != nil {
		t.Fatal(err)
	}
	defer f.Close()
	w := bufio.NewWriter(f)
	defer w.Flush()
	metrics := stat.NewMetrics("verif-c02")
	for _, c := range cases {
		if c.Kind == "wrest" {
			var wobs []c02WObs
			var errs string
			tries := 0
			for {
				tries++
				var stable bool
				wobs, stable, errs = c02RunWrest(c, metrics)
				if stable || tries >= 20 {
					if !stable {
						errs = "cpu gauge unstable"
					}
					break
				}
			}
			m := map[string]any{"id": c.ID, "obs": wobs, "tries": tries}
			if errs != "" {
				m["err"] = errs
			}
			b, _ := json.Marshal(m)
			w.Write(b)
			w.WriteByte('\n')
			continue
		}
		var obs []c02RestObs
		for _, q := range c.Reqs {
			q := q
			rec := &c02Rec{shed: q.Shed}
			var o c02RestObs
			next := http.HandlerFunc(func(rw http.ResponseWriter, r *http.Request) {
				o.Runs++
				for _, code := range q.Codes {
					rw.WriteHeader(code)
				}
				if q.Body {
					rw.Write([]byte("x"))
				}
				if q.Panic {
					panic("verif")
				}
			})
			h := SheddingHandler(rec, metrics)(next)
			if q.Nil {
				h = SheddingHandler(nil, metrics)(next)
			}
			rr := httptest.NewRecorder()
			req := httptest.NewRequest(http.MethodGet, "http://localhost/x", http.NoBody)
			func() {
				defer func() {
					if e := recover(); e != nil {
						o.Panic = true
					}
				}()
				h.ServeHTTP(rr, req)
			}()
			o.Allows, o.Passes, o.Fails, o.Code = rec.allows, rec.passes, rec.fails, rr.Code
			obs = append(obs, o)
		}
		b, _ := json.Marshal(map[string]any{"id": c.ID, "obs": obs})
		w.Write(b)
		w.WriteByte('\n')
	}
}
