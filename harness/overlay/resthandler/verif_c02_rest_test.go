// Executor for property C02 (wrappers): drives the real rest/handler.SheddingHandler with a
// recording Shedder.  Injected with `go test -overlay`; never written under /repo.
package handler

import (
	"bufio"
	"encoding/json"
	"net/http"
	"net/http/httptest"
	"os"
	"testing"

	"github.com/zeromicro/go-zero/core/load"
	"github.com/zeromicro/go-zero/core/logx"
	"github.com/zeromicro/go-zero/core/stat"
)

type c02Rec struct {
	shed                  bool
	allows, passes, fails int
}

type c02Prom struct{ r *c02Rec }

func (p c02Prom) Pass() { p.r.passes++ }
func (p c02Prom) Fail() { p.r.fails++ }

func (r *c02Rec) Allow() (load.Promise, error) {
	r.allows++
	if r.shed {
		return nil, load.ErrServiceOverloaded
	}
	return c02Prom{r}, nil
}

type c02RestReq struct {
	Shed  bool  `json:"shed"`
	Codes []int `json:"codes"`
	Body  bool  `json:"body"`
	Panic bool  `json:"panic"`
}

type c02RestCase struct {
	ID   int          `json:"id"`
	Reqs []c02RestReq `json:"reqs"`
}

type c02RestObs struct {
	Runs   int  `json:"runs"`
	Allows int  `json:"allows"`
	Passes int  `json:"passes"`
	Fails  int  `json:"fails"`
	Code   int  `json:"code"`
	Panic  bool `json:"panic"`
}

func TestVerifC02Rest(t *testing.T) {
	in := os.Getenv("VERIF_IN")
	if in == "" {
		t.Skip("VERIF_IN not set")
	}
	logx.Disable()
	load.DisableLog()
	data, err := os.ReadFile(in)
	if err != nil {
		t.Fatal(err)
	}
	var cases []c02RestCase
	if err := json.Unmarshal(data, &cases); err != nil {
		t.Fatal(err)
	}
	f, err := os.Create(os.Getenv("VERIF_OUT"))
	if err != nil {
		t.Fatal(err)
	}
	defer f.Close()
	w := bufio.NewWriter(f)
	defer w.Flush()
	metrics := stat.NewMetrics("verif-c02")
	for _, c := range cases {
		var obs []c02RestObs
		for _, q := range c.Reqs {
			q := q
			rec := &c02Rec{shed: q.Shed}
			var o c02RestObs
			next := http.HandlerFunc(func(rw http.ResponseWriter, r *http.Request) {
				o.Runs++
				for _, code := range q.Codes {
					rw.WriteHeader(code)
				}
				if q.Body {
					rw.Write([]byte("x"))
				}
				if q.Panic {
					panic("verif")
				}
			})
			h := SheddingHandler(rec, metrics)(next)
			rr := httptest.NewRecorder()
			req := httptest.NewRequest(http.MethodGet, "http://localhost/x", http.NoBody)
			func() {
				defer func() {
					if e := recover(); e != nil {
						o.Panic = true
					}
				}()
				h.ServeHTTP(rr, req)
			}()
			o.Allows, o.Passes, o.Fails, o.Code = rec.allows, rec.passes, rec.fails, rr.Code
			obs = append(obs, o)
		}
		b, _ := json.Marshal(map[string]any{"id": c.ID, "obs": obs})
		w.Write(b)
		w.WriteByte('\n')
	}
}
