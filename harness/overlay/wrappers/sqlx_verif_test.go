// C01 wrapper executor, injected into core/stores/sqlx with `go test -overlay`.
// Every breaker-wrapped method of commonSqlConn on a sqlmock database whose driver returns the
// told error (or whose rows cannot be scanned), plus commonSqlConn.acceptable alone:
//
//	7  ExecCtx                8  acceptable (predicate only)     9  Exec
//	10 PrepareCtx            11 QueryRowCtx            12 QueryRowPartialCtx
//	13 QueryRowsCtx          14 QueryRowsPartialCtx    15 TransactCtx
//	16 Prepare  17 QueryRow  18 QueryRowPartial  19 QueryRows  20 QueryRowsPartial  21 Transact
//
// The connection is made by NewSqlConn("sqlmock", dsn, WithAcceptable...) (odd case ids) or
// NewSqlConnFromDB (even); the breaker is a REAL one with a forced decision; "invoked" counts
// how often the request body ran (= calls of the connection provider).
package sqlx

import (
	"context"
	"database/sql"
	"database/sql/driver"
	"errors"
	"fmt"
	"os"
	"testing"
	"time"

	"github.com/DATA-DOG/go-sqlmock"
	"github.com/zeromicro/go-zero/core/breaker"
	"github.com/zeromicro/go-zero/core/timex"
)

var (
	verifOther   = errors.New("verif: other error")
	verifCustom1 = errors.New("verif: accepted by the first WithAcceptable")
	verifCustom2 = errors.New("verif: accepted by the second WithAcceptable")
	verifCustom3 = errors.New("verif: accepted by the third WithAcceptable")
	verifDsnSeq  int
)

// further downstream classes (the common ones are in core/breaker/verif_probe.go)
const (
	vdSqlCustom       = 13 // code = 10*i + n: the error the i-th WithAcceptable accepts, on a connection with n options
	vdSqlConnErr      = 14 // the connection provider fails
	vdSqlScanFail     = 15 // the query succeeds, the rows cannot be scanned into the destination
	vdSqlScanDeadline = 16 // iterating the rows ends with context.DeadlineExceeded
)

func verifDerr(class, code int64) error {
	if class == breaker.VDShaped {
		return breaker.VerifShaped(code/10, breaker.VerifSentinel(code%10))
	}
	if e := breaker.VerifWrapped(class); e != nil {
		return e
	}
	switch class {
	case breaker.VDNil:
		return nil
	case breaker.VDCtxCanceled:
		return context.Canceled
	case breaker.VDCtxDeadline:
		return context.DeadlineExceeded
	case breaker.VDBreakerUnavailable:
		return breaker.ErrServiceUnavailable
	case breaker.VDSqlNoRows:
		return sql.ErrNoRows
	case breaker.VDSqlTxDone:
		return sql.ErrTxDone
	case breaker.VDSqlAcceptable:
		return newAcceptableError(errors.New("verif: duplicate"))
	case breaker.VDWrappedCanceled:
		return fmt.Errorf("verif: %w", context.Canceled)
	case vdSqlCustom:
		switch code / 10 {
		case 1:
			return verifCustom1
		case 2:
			return verifCustom2
		}
		return verifCustom3
	}
	return verifOther
}

// A connector in front of the sqlmock driver connection that calls `after` when the driver's
// ExecContext / QueryContext / PrepareContext has produced its answer and before database/sql
// sees it: the place where a call's context becomes done "while the statement runs" without
// changing what the driver answers (database/sql hands a driver error through unchanged).
type verifConnector struct {
	drv   driver.Driver
	dsn   string
	after func()
}

func (c verifConnector) Connect(context.Context) (driver.Conn, error) {
	cn, err := c.drv.Open(c.dsn)
	if err != nil {
		return nil, err
	}
	return &verifConn{Conn: cn, after: c.after}, nil
}

func (c verifConnector) Driver() driver.Driver { return c.drv }

type verifConn struct {
	driver.Conn
	after func()
}

func (c *verifConn) ExecContext(ctx context.Context, q string, args []driver.NamedValue) (driver.Result, error) {
	r, err := c.Conn.(driver.ExecerContext).ExecContext(ctx, q, args)
	c.after()
	return r, err
}

func (c *verifConn) QueryContext(ctx context.Context, q string, args []driver.NamedValue) (driver.Rows, error) {
	r, err := c.Conn.(driver.QueryerContext).QueryContext(ctx, q, args)
	c.after()
	return r, err
}

func (c *verifConn) PrepareContext(ctx context.Context, q string) (driver.Stmt, error) {
	r, err := c.Conn.(driver.ConnPrepareContext).PrepareContext(ctx, q)
	c.after()
	return r, err
}

func verifSqlOpts(n int64) []SqlOption {
	var opts []SqlOption
	if n >= 1 {
		opts = append(opts, WithAcceptable(func(err error) bool { return err == verifCustom1 }))
	}
	if n >= 2 {
		opts = append(opts, WithAcceptable(func(err error) bool { return err == verifCustom2 }))
	}
	return opts
}

func TestVerifC01W(t *testing.T) {
	if os.Getenv("VERIF_IN") == "" {
		t.Skip("VERIF_IN not set")
	}
	var cases []breaker.VerifWCase
	if err := breaker.VerifReadCases(&cases); err != nil {
		t.Fatal(err)
	}
	w, err := breaker.VerifNewWriter()
	if err != nil {
		t.Fatal(err)
	}
	defer w.Close()
	timex.SetFakeNow(time.Duration(1e15))
	for _, c := range cases {
		out := breaker.VerifWOut{ID: c.ID}
		for ci, k := range c.Calls {
			kind, rej, class, code := k[0], k[1] == 1, k[3], k[4]
			ctx, atReturn := breaker.VerifCtx(k[2])
			derr := verifDerr(class, code)
			var nopts int64
			if class == vdSqlCustom {
				nopts = code % 10
			}
			// the connection: through the driver registry (NewSqlConn) or from a *sql.DB
			var db, odb *sql.DB
			var mock sqlmock.Sqlmock
			var sc SqlConn
			verifDsnSeq++
			dsn := fmt.Sprintf("verif-c01-%d-%d", os.Getpid(), verifDsnSeq)
			if class == vdSqlConnErr {
				sc = NewSqlConn("sqlmock", dsn+"-never-registered", verifSqlOpts(nopts)...)
			} else if k[2] == breaker.VCCancelAtReturn || k[2] == breaker.VCDeadlineAtReturn {
				// the context becomes done while the driver executes the statement
				db, mock, err = sqlmock.NewWithDSN(dsn)
				if err == nil {
					odb = sql.OpenDB(verifConnector{drv: db.Driver(), dsn: dsn, after: atReturn})
					sc = NewSqlConnFromDB(odb, verifSqlOpts(nopts)...)
				}
			} else if (c.ID+ci)%2 == 1 {
				db, mock, err = sqlmock.NewWithDSN(dsn)
				if err == nil {
					sc = NewSqlConn("sqlmock", dsn, verifSqlOpts(nopts)...)
				}
			} else {
				db, mock, err = sqlmock.New()
				if err == nil {
					sc = NewSqlConnFromDB(db, verifSqlOpts(nopts)...)
				}
			}
			if err != nil {
				out.Err = err.Error()
				break
			}
			conn := sc.(*commonSqlConn)
			if kind == 8 {
				var b int64
				if conn.acceptable(derr) {
					b = 1
				}
				out.Obs = append(out.Obs, []int64{0, 0, 0, 0, breaker.VSBool, b})
				if db != nil {
					db.Close()
				}
				continue
			}
			p, err := breaker.VerifAttach(conn.brk)
			if err != nil {
				out.Err = err.Error()
				break
			}
			var invoked int64
			prov := conn.connProv
			conn.connProv = func() (*sql.DB, error) {
				invoked++
				return prov()
			}
			p.VerifForce(rej)
			before := p.Sums()
			meth := kind
			noctx := false
			switch {
			case kind == 7:
				meth = 0
			case kind == 9:
				meth, noctx = 0, true
			case kind >= 10 && kind <= 15:
				meth = kind - 9
			case kind >= 16 && kind <= 21:
				meth, noctx = kind-15, true
			}
			var e error
			var wantScan error
			rows := func(n int) *sqlmock.Rows {
				r := sqlmock.NewRows([]string{"v"})
				for i := 0; i < n; i++ {
					r.AddRow(i + 1)
				}
				return r
			}
			if mock != nil {
				switch {
				case meth == 0: // Exec
					if derr == nil {
						mock.ExpectExec("verif").WillReturnResult(sqlmock.NewResult(1, 1))
					} else {
						mock.ExpectExec("verif").WillReturnError(derr)
					}
				case meth == 1: // Prepare
					if derr == nil {
						mock.ExpectPrepare("verif")
					} else {
						mock.ExpectPrepare("verif").WillReturnError(derr)
					}
				case meth >= 2 && meth <= 5: // Query*
					switch class {
					case breaker.VDNil, vdSqlScanFail:
						mock.ExpectQuery("verif").WillReturnRows(rows(2))
					case vdSqlScanDeadline:
						mock.ExpectQuery("verif").WillReturnRows(rows(2).RowError(0, context.DeadlineExceeded))
					default:
						mock.ExpectQuery("verif").WillReturnError(derr)
					}
				case meth == 6: // Transact
					mock.ExpectBegin()
					if derr == nil {
						mock.ExpectCommit()
					} else {
						mock.ExpectRollback()
					}
				}
			}
			var one int
			var many []int
			var rowDest, rowsDest any = &one, &many
			if class == vdSqlScanFail {
				// destinations unmarshalRow / unmarshalRows cannot fill
				rowDest, rowsDest = new(map[string]int), new(int)
				wantScan = ErrUnsupportedValueType
			}
			if class == vdSqlScanDeadline {
				wantScan = context.DeadlineExceeded
			}
			switch meth {
			case 0:
				if noctx {
					_, e = conn.Exec("verif")
				} else {
					_, e = conn.ExecCtx(ctx, "verif")
				}
			case 1:
				if noctx {
					_, e = conn.Prepare("verif")
				} else {
					_, e = conn.PrepareCtx(ctx, "verif")
				}
			case 2:
				if noctx {
					e = conn.QueryRow(rowDest, "verif")
				} else {
					e = conn.QueryRowCtx(ctx, rowDest, "verif")
				}
			case 3:
				if noctx {
					e = conn.QueryRowPartial(rowDest, "verif")
				} else {
					e = conn.QueryRowPartialCtx(ctx, rowDest, "verif")
				}
			case 4:
				if noctx {
					e = conn.QueryRows(rowsDest, "verif")
				} else {
					e = conn.QueryRowsCtx(ctx, rowsDest, "verif")
				}
			case 5:
				if noctx {
					e = conn.QueryRowsPartial(rowsDest, "verif")
				} else {
					e = conn.QueryRowsPartialCtx(ctx, rowsDest, "verif")
				}
			case 6:
				if noctx {
					e = conn.Transact(func(Session) error { return derr })
				} else {
					e = conn.TransactCtx(ctx, func(context.Context, Session) error { return derr })
				}
			}
			after := p.Sums()
			var sk int64
			switch {
			case e == nil:
				sk = breaker.VSNil
			case invoked == 0 && e == breaker.ErrServiceUnavailable:
				sk = breaker.VSBreakerUnavailable
			case invoked == 0 && breaker.VerifIsCtxErr(e):
				sk = breaker.VSCtxErr
			case wantScan != nil && e == wantScan:
				sk = breaker.VSSame
			case class == vdSqlConnErr && e != breaker.ErrServiceUnavailable:
				sk = breaker.VSSame // the provider's own error
			case derr != nil && e == derr:
				sk = breaker.VSSame
			case e == breaker.ErrServiceUnavailable:
				sk = breaker.VSBreakerUnavailable
			default:
				sk = breaker.VSOtherSeen
			}
			out.Obs = append(out.Obs, []int64{invoked, after[0] - before[0], after[1] - before[1],
				after[2] - before[2], sk, 0})
			if odb != nil {
				odb.Close()
			}
			if db != nil {
				db.Close()
			}
		}
		w.Put(out)
	}
}
