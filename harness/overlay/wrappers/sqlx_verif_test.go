// C01 wrapper executor, injected into core/stores/sqlx with `go test -overlay`.
// kinds: 7 commonSqlConn.ExecCtx on a sqlmock database whose Exec returns the told error,
// 8 commonSqlConn.acceptable alone.  The breaker is a REAL one with a forced decision.
package sqlx

import (
	"context"
	"database/sql"
	"errors"
	"fmt"
	"os"
	"testing"
	"time"

	"github.com/DATA-DOG/go-sqlmock"
	"github.com/zeromicro/go-zero/core/breaker"
	"github.com/zeromicro/go-zero/core/timex"
)

var verifOther = errors.New("verif: other error")

func verifDerr(class int64) error {
	switch class {
	case breaker.VDNil:
		return nil
	case breaker.VDCtxCanceled:
		return context.Canceled
	case breaker.VDCtxDeadline:
		return context.DeadlineExceeded
	case breaker.VDBreakerUnavailable:
		return breaker.ErrServiceUnavailable
	case breaker.VDSqlNoRows:
		return sql.ErrNoRows
	case breaker.VDSqlTxDone:
		return sql.ErrTxDone
	case breaker.VDSqlAcceptable:
		return newAcceptableError(errors.New("verif: duplicate"))
	case breaker.VDWrappedCanceled:
		return fmt.Errorf("verif: %w", context.Canceled)
	}
	return verifOther
}

func TestVerifC01W(t *testing.T) {
	if os.Getenv("VERIF_IN") == "" {
		t.Skip("VERIF_IN not set")
	}
	var cases []breaker.VerifWCase
	if err := breaker.VerifReadCases(&cases); err != nil {
		t.Fatal(err)
	}
	w, err := breaker.VerifNewWriter()
	if err != nil {
		t.Fatal(err)
	}
	defer w.Close()
	timex.SetFakeNow(time.Duration(1e15))
	cancelled, cancel := context.WithCancel(context.Background())
	cancel()
	for _, c := range cases {
		out := breaker.VerifWOut{ID: c.ID}
		for _, k := range c.Calls {
			kind, rej, ctxdone, class := k[0], k[1] == 1, k[2] == 1, k[3]
			derr := verifDerr(class)
			db, mock, err := sqlmock.New()
			if err != nil {
				out.Err = err.Error()
				break
			}
			conn := NewSqlConnFromDB(db).(*commonSqlConn)
			if kind == 8 {
				var b int64
				if conn.acceptable(derr) {
					b = 1
				}
				out.Obs = append(out.Obs, []int64{0, 0, 0, 0, breaker.VSBool, b})
				db.Close()
				continue
			}
			p, err := breaker.VerifAttach(conn.brk)
			if err != nil {
				out.Err = err.Error()
				break
			}
			p.VerifForce(rej)
			before := p.Sums()
			if derr == nil {
				mock.ExpectExec("verif").WillReturnResult(sqlmock.NewResult(1, 1))
			} else {
				mock.ExpectExec("verif").WillReturnError(derr)
			}
			ctx := context.Background()
			if ctxdone {
				ctx = cancelled
			}
			_, e := conn.ExecCtx(ctx, "verif")
			var invoked int64
			if mock.ExpectationsWereMet() == nil {
				invoked = 1
			}
			after := p.Sums()
			var sk int64
			switch {
			case e == nil:
				sk = breaker.VSNil
			case invoked == 0 && e == breaker.ErrServiceUnavailable:
				sk = breaker.VSBreakerUnavailable
			case invoked == 0 && e == context.Canceled:
				sk = breaker.VSCtxErr
			case derr != nil && e == derr:
				sk = breaker.VSSame
			case e == breaker.ErrServiceUnavailable:
				sk = breaker.VSBreakerUnavailable
			default:
				sk = breaker.VSOtherSeen
			}
			out.Obs = append(out.Obs, []int64{invoked, after[0] - before[0], after[1] - before[1],
				after[2] - before[2], sk, 0})
			db.Close()
		}
		w.Put(out)
	}
}
