// C01 wrapper executor, injected into zrpc/internal/clientinterceptors with `go test -overlay`.
// Every call runs BreakerInterceptor against a fresh REAL breaker (looked up by its name)
// whose next decision is forced (breaker.VerifProbe), with a downstream invoker that
// returns / panics as told, and reports: invoker runs, what was added to the breaker's
// window (success, failure, drop), what the caller got.
package clientinterceptors

import (
	"context"
	"errors"
	"fmt"
	"os"
	"testing"
	"time"

	"github.com/zeromicro/go-zero/core/breaker"
	"github.com/zeromicro/go-zero/core/timex"
	"google.golang.org/grpc"
	gcodes "google.golang.org/grpc/codes"
	"google.golang.org/grpc/status"
)

var verifOther = errors.New("verif: other error")

func verifDerr(class, code int64) error {
	if class == breaker.VDShaped {
		return breaker.VerifShaped(code/10, breaker.VerifSentinel(code%10))
	}
	if e := breaker.VerifWrapped(class); e != nil {
		return e
	}
	switch class {
	case breaker.VDNil:
		return nil
	case breaker.VDStatus:
		return status.Error(gcodes.Code(code), "verif")
	case breaker.VDCtxCanceled:
		return context.Canceled
	case breaker.VDCtxDeadline:
		return context.DeadlineExceeded
	case breaker.VDBreakerUnavailable:
		return breaker.ErrServiceUnavailable
	case breaker.VDWrappedCanceled:
		return fmt.Errorf("verif: %w", context.Canceled)
	}
	return verifOther
}

func verifSeen(err, derr error, invoked int64) (int64, int64) {
	switch {
	case err == nil:
		return breaker.VSNil, 0
	case invoked == 0 && err == breaker.ErrServiceUnavailable:
		return breaker.VSBreakerUnavailable, 0
	case invoked == 0 && breaker.VerifIsCtxErr(err):
		return breaker.VSCtxErr, 0
	case derr != nil && err == derr:
		return breaker.VSSame, 0
	case err == breaker.ErrServiceUnavailable:
		return breaker.VSBreakerUnavailable, 0
	}
	if st, ok := status.FromError(err); ok {
		return breaker.VSStatus, int64(st.Code())
	}
	return breaker.VSOtherSeen, 0
}

func TestVerifC01W(t *testing.T) {
	if os.Getenv("VERIF_IN") == "" {
		t.Skip("VERIF_IN not set")
	}
	var cases []breaker.VerifWCase
	if err := breaker.VerifReadCases(&cases); err != nil {
		t.Fatal(err)
	}
	w, err := breaker.VerifNewWriter()
	if err != nil {
		t.Fatal(err)
	}
	defer w.Close()
	timex.SetFakeNow(time.Duration(1e15))
	for _, c := range cases {
		out := breaker.VerifWOut{ID: c.ID}
		for i, k := range c.Calls {
			rej, class, code := k[1] == 1, k[3], k[4]
			ctx, atReturn := breaker.VerifCtx(k[2])
			method := fmt.Sprintf("/verif.c01w/%d/%d", c.ID, i)
			p, err := breaker.VerifAttach(breaker.GetBreaker(method))
			if err != nil {
				out.Err = err.Error()
				break
			}
			p.VerifForce(rej)
			before := p.Sums()
			derr := verifDerr(class, code)
			var invoked int64
			pv := &struct{ n int }{i}
			invoker := func(ctx context.Context, method string, req, reply any, cc *grpc.ClientConn,
				opts ...grpc.CallOption) error {
				invoked++
				atReturn() // modes 2, 3: the context is done when the invoker returns / panics
				if class == breaker.VDPanic {
					panic(pv)
				}
				return derr
			}
			var sk, sc int64
			func() {
				defer func() {
					if r := recover(); r != nil {
						sk, sc = breaker.VSOtherSeen, 0
						if r == any(pv) {
							sk = breaker.VSPanic
						}
					}
				}()
				e := BreakerInterceptor(ctx, method, nil, nil, new(grpc.ClientConn), invoker)
				sk, sc = verifSeen(e, derr, invoked)
			}()
			after := p.Sums()
			out.Obs = append(out.Obs, []int64{invoked, after[0] - before[0], after[1] - before[1],
				after[2] - before[2], sk, sc})
		}
		w.Put(out)
	}
}
