// C01 wrapper executor, injected into core/stores/redis with `go test -overlay`.
// kinds: 3 breakerHook.ProcessHook (ordinary command), 4 ProcessHook with an ignored command
// (blpop), 5 ProcessPipelineHook - all with a fake `next` hook that returns / panics as told -
// and 6 a Redis client on a real miniredis server (SET -> nil, GET of a missing key ->
// redis.Nil, server error -> other).  The breaker is a REAL one with a forced decision.
package redis

import (
	"context"
	"errors"
	"fmt"
	"os"
	"testing"
	"time"

	"github.com/alicebob/miniredis/v2"
	red "github.com/redis/go-redis/v9"
	"github.com/zeromicro/go-zero/core/breaker"
	"github.com/zeromicro/go-zero/core/timex"
)

var verifOther = errors.New("verif: other error")

func verifDerr(class, code int64) error {
	if class == breaker.VDShaped {
		sent := breaker.VerifSentinel(code % 10)
		if code%10 == breaker.VBRedisNil {
			sent = red.Nil
		}
		return breaker.VerifShaped(code/10, sent)
	}
	if e := breaker.VerifWrapped(class); e != nil {
		return e
	}
	switch class {
	case breaker.VDNil:
		return nil
	case breaker.VDCtxCanceled:
		return context.Canceled
	case breaker.VDCtxDeadline:
		return context.DeadlineExceeded
	case breaker.VDBreakerUnavailable:
		return breaker.ErrServiceUnavailable
	case breaker.VDRedisNil:
		return red.Nil
	case breaker.VDWrappedRedisNil:
		return fmt.Errorf("verif: %w", red.Nil)
	case breaker.VDWrappedCanceled:
		return fmt.Errorf("verif: %w", context.Canceled)
	}
	return verifOther
}

func verifCtxE(e error) bool {
	return errors.Is(e, context.Canceled) || errors.Is(e, context.DeadlineExceeded)
}

func verifSeen(err, derr error, invoked int64) int64 {
	switch {
	case err == nil:
		return breaker.VSNil
	case invoked == 0 && err == breaker.ErrServiceUnavailable:
		return breaker.VSBreakerUnavailable
	case invoked == 0 && breaker.VerifIsCtxErr(err):
		return breaker.VSCtxErr
	case derr != nil && err == derr:
		return breaker.VSSame
	case err == breaker.ErrServiceUnavailable:
		return breaker.VSBreakerUnavailable
	}
	return breaker.VSOtherSeen
}

func TestVerifC01W(t *testing.T) {
	if os.Getenv("VERIF_IN") == "" {
		t.Skip("VERIF_IN not set")
	}
	var cases []breaker.VerifWCase
	if err := breaker.VerifReadCases(&cases); err != nil {
		t.Fatal(err)
	}
	w, err := breaker.VerifNewWriter()
	if err != nil {
		t.Fatal(err)
	}
	defer w.Close()
	defer func() {
		for _, s := range verifServers {
			s.Close()
		}
	}()
	timex.SetFakeNow(time.Duration(1e15))
	for _, c := range cases {
		out := breaker.VerifWOut{ID: c.ID}
		for i, k := range c.Calls {
			kind, rej, class := k[0], k[1] == 1, k[3]
			ctx, atReturn := breaker.VerifCtx(k[2])
			if kind == 6 {
				o, err := verifReal(t, ctx, rej, class)
				if err != nil {
					out.Err = err.Error()
					break
				}
				out.Obs = append(out.Obs, o)
				continue
			}
			brk := breaker.NewBreaker()
			p, err := breaker.VerifAttach(brk)
			if err != nil {
				out.Err = err.Error()
				break
			}
			p.VerifForce(rej)
			before := p.Sums()
			derr := verifDerr(class, k[4])
			var invoked int64
			pv := &struct{ n int }{i}
			down := func() error {
				invoked++
				atReturn() // modes 2, 3: the context is done when the next hook returns / panics
				if class == breaker.VDPanic {
					panic(pv)
				}
				return derr
			}
			h := breakerHook{brk: brk}
			var sk int64
			func() {
				defer func() {
					if r := recover(); r != nil {
						sk = breaker.VSOtherSeen
						if r == any(pv) {
							sk = breaker.VSPanic
						}
					}
				}()
				var e error
				switch kind {
				case 3:
					e = h.ProcessHook(func(ctx context.Context, cmd red.Cmder) error { return down() })(
						ctx, red.NewCmd(ctx, "get", "k"))
				case 4:
					e = h.ProcessHook(func(ctx context.Context, cmd red.Cmder) error { return down() })(
						ctx, red.NewCmd(ctx, "blpop", "k", 1))
				default:
					e = h.ProcessPipelineHook(func(ctx context.Context, cmds []red.Cmder) error { return down() })(
						ctx, []red.Cmder{red.NewCmd(ctx, "get", "k"), red.NewCmd(ctx, "get", "j")})
				}
				sk = verifSeen(e, derr, invoked)
			}()
			after := p.Sums()
			out.Obs = append(out.Obs, []int64{invoked, after[0] - before[0], after[1] - before[1],
				after[2] - before[2], sk, 0})
		}
		w.Put(out)
	}
}

// The client manager of this package caches the go-redis client - and with it the hook's
// breaker - per ADDRESS for the life of the process.  Every call below must therefore get an
// address this process has never used: a server that was closed frees its port, the OS may
// hand the same port to a later server, and New(addr) would then silently talk through the
// cached client whose hook still holds the breaker of the EARLIER call (possibly preloaded
// with failures: a spurious rejection).  So the servers stay open until the process ends
// (their ports cannot be reused) and an address seen before is refused.
var (
	verifServers []*miniredis.Miniredis
	verifAddrs   = map[string]bool{}
)

func verifFreshServer() (*miniredis.Miniredis, error) {
	for i := 0; i < 100; i++ {
		s, err := miniredis.Run()
		if err != nil {
			return nil, err
		}
		verifServers = append(verifServers, s) // stays open: its port stays taken
		if !verifAddrs[s.Addr()] {
			verifAddrs[s.Addr()] = true
			return s, nil
		}
	}
	return nil, errors.New("no unused miniredis address")
}

// a Redis client of this package on its own miniredis server
func verifReal(t *testing.T, ctx context.Context, rej bool, class int64) ([]int64, error) {
	s, err := verifFreshServer()
	if err != nil {
		return nil, err
	}
	r := New(s.Addr())
	p, err := breaker.VerifAttach(r.brk)
	if err != nil {
		return nil, err
	}
	if class == breaker.VDOther {
		s.SetError("ERR verif")
	}
	p.VerifForce(rej)
	before := p.Sums()
	n0 := s.CommandCount()
	var e error
	switch class {
	case breaker.VDRedisNil:
		_, e = r.GetCtx(ctx, "missing") // Redis.GetCtx maps redis.Nil to ("", nil)
	default:
		e = r.SetCtx(ctx, "k", "v")
	}
	var invoked int64
	if s.CommandCount() > n0 {
		invoked = 1
	}
	if class == breaker.VDOther && e != nil && e != breaker.ErrServiceUnavailable && !verifCtxE(e) {
		invoked = 1 // miniredis does not count commands it answers with the injected error
	}
	after := p.Sums()
	// drop the cached client's connections (the address is never used again); the server keeps
	// listening so that its port stays taken
	if cli, cerr := getClient(r); cerr == nil {
		cli.Close()
	}
	var sk int64
	switch {
	case e == nil:
		sk = breaker.VSNil
	case invoked == 0 && verifCtxE(e):
		sk = breaker.VSCtxErr
	case e == breaker.ErrServiceUnavailable:
		sk = breaker.VSBreakerUnavailable
	default:
		sk = breaker.VSSame
	}
	return []int64{invoked, after[0] - before[0], after[1] - before[1], after[2] - before[2], sk, 0}, nil
}
