// C01 wrapper executor, injected into rest/handler with `go test -overlay`.
// BreakerHandler builds its breaker inside a closure, so it cannot be probed; instead a
// whole history of requests runs through ONE handler under the virtual clock with every
// draw injected (mathx.VerifSource, overlay replacing core/mathx/proba.go for this executor
// only), and is compared with the composite model  wrapper o breaker.
// request: [kind, code, gap, dur, m]  kind 0: next writes `code` and returns (code 0: writes
// nothing), 1: next panics before writing, 2: next writes `code`, then panics.
// observation: [next invoked, 0 status / 1 panic, status code seen]
package handler

import (
	"encoding/json"
	"fmt"
	"net/http"
	"net/http/httptest"
	"os"
	"testing"
	"time"

	"github.com/zeromicro/go-zero/core/breaker"
	"github.com/zeromicro/go-zero/core/mathx"
	"github.com/zeromicro/go-zero/core/stat"
	"github.com/zeromicro/go-zero/core/timex"
)

type verifRestCase struct {
	ID   int       `json:"id"`
	Base int64     `json:"base"`
	Reqs [][]int64 `json:"reqs"`
}

type verifRestSrc struct{ next int64 }

func (s *verifRestSrc) Int63() int64 { return s.next << 10 }
func (s *verifRestSrc) Seed(int64)   {}

func TestVerifC01W(t *testing.T) {
	if os.Getenv("VERIF_IN") == "" {
		t.Skip("VERIF_IN not set")
	}
	var cases []verifRestCase
	if err := breaker.VerifReadCases(&cases); err != nil {
		t.Fatal(err)
	}
	w, err := breaker.VerifNewWriter()
	if err != nil {
		t.Fatal(err)
	}
	defer w.Close()
	src := &verifRestSrc{}
	mathx.VerifSource = src
	metrics := stat.NewMetrics("verif-c01w")
	for _, c := range cases {
		out := breaker.VerifWOut{ID: c.ID}
		timex.SetFakeNow(time.Duration(c.Base))
		var cur []int64
		var invoked int64
		pv := &struct{ n int }{c.ID}
		next := http.HandlerFunc(func(w http.ResponseWriter, r *http.Request) {
			invoked++
			timex.AdvanceFake(time.Duration(cur[3]))
			switch cur[0] {
			case 0:
				if cur[1] != 0 {
					w.WriteHeader(int(cur[1]))
				}
			case 1:
				panic(pv)
			default:
				w.WriteHeader(int(cur[1]))
				panic(pv)
			}
		})
		h := BreakerHandler(http.MethodGet, fmt.Sprintf("/verif/c01w/%d", c.ID), metrics)(next)
		for _, q := range c.Reqs {
			cur = q
			invoked = 0
			timex.AdvanceFake(time.Duration(q[2]))
			src.next = q[4]
			rec := httptest.NewRecorder()
			req := httptest.NewRequest(http.MethodGet, "http://localhost/verif", nil)
			var pk int64
			func() {
				defer func() {
					if r := recover(); r != nil {
						pk = 1
						if r != any(pv) {
							pk = 2
						}
					}
				}()
				h.ServeHTTP(rec, req)
			}()
			out.Obs = append(out.Obs, []int64{invoked, pk, int64(rec.Code)})
		}
		w.Put(out)
	}
	timex.ClearFake()
	_ = json.Marshal
}
