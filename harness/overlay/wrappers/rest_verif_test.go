// C01 wrapper executor, injected into rest/handler with `go test -overlay`.
// BreakerHandler builds its breaker inside a closure, so it cannot be probed; instead a
// whole history of requests runs through ONE handler under the virtual clock with every
// draw injected (mathx.VerifSource, overlay replacing core/mathx/proba.go for this executor
// only), and is compared with the composite model  wrapper o breaker.
// request: [kind, code, gap, dur, m]  kind 0: next writes `code` and returns (code 0: writes
// nothing), 1: next panics before writing, 2: next writes `code`, then panics.
// kind 3, a SCRIPT through the middleware chain the rest engine builds inside the breaker:
// [3, chain, gap, dur, m, end, op...]  chain 0 handler, 1 Recover(handler), 2 Timeout(handler),
// 3 Timeout(Recover(handler)) (engine.go's order); op: 1 Write, 2 Flush, c >= 100 WriteHeader(c),
// 3 the client cancels the request's context now, 4 the request's deadline passes now (both only in
// chains without TimeoutHandler, which would race with the handler; the handler itself goes on);
// end 0 return, 1 panic, 2 stall until the route's timeout fires, 3 stall until the client
// cancels.  A stalling handler is parked on a channel that is released only after the chain has
// returned, so the timeout / cancel branch is the only one TimeoutHandler can take; requests that
// must finish use a chain with a very long timeout (a failure detector only).  All chains of a
// case share ONE BreakerHandler middleware, hence one breaker.
// observation: [next invoked, 0 status / 1 panic, status code seen (-2 for an admitted script:
// what the client receives is not judged)]
package handler

import (
	"context"
	"encoding/json"
	"fmt"
	"net/http"
	"net/http/httptest"
	"os"
	"sync/atomic"
	"testing"
	"time"

	"github.com/zeromicro/go-zero/core/breaker"
	"github.com/zeromicro/go-zero/core/mathx"
	"github.com/zeromicro/go-zero/core/stat"
	"github.com/zeromicro/go-zero/core/timex"
)

type verifRestCase struct {
	ID   int       `json:"id"`
	Base int64     `json:"base"`
	Reqs [][]int64 `json:"reqs"`
}

type verifRestSrc struct{ next int64 }

func (s *verifRestSrc) Int63() int64 { return s.next << 10 }
func (s *verifRestSrc) Seed(int64)   {}

func TestVerifC01W(t *testing.T) {
	if os.Getenv("VERIF_IN") == "" {
		t.Skip("VERIF_IN not set")
	}
	var cases []verifRestCase
	if err := breaker.VerifReadCases(&cases); err != nil {
		t.Fatal(err)
	}
	w, err := breaker.VerifNewWriter()
	if err != nil {
		t.Fatal(err)
	}
	defer w.Close()
	src := &verifRestSrc{}
	mathx.VerifSource = src
	metrics := stat.NewMetrics("verif-c01w")
	for _, c := range cases {
		out := breaker.VerifWOut{ID: c.ID}
		timex.SetFakeNow(time.Duration(c.Base))
		var cur []int64
		var invoked atomic.Int64
		pv := &struct{ n int }{c.ID}
		var parked chan struct{}
		var release chan struct{}
		var ctxCancel, ctxExpire func()
		next := http.HandlerFunc(func(w http.ResponseWriter, r *http.Request) {
			invoked.Add(1)
			q := cur
			timex.AdvanceFake(time.Duration(q[3]))
			switch q[0] {
			case 0:
				if q[1] != 0 {
					w.WriteHeader(int(q[1]))
				}
			case 1:
				panic(pv)
			case 2:
				w.WriteHeader(int(q[1]))
				panic(pv)
			default:
				for _, op := range q[6:] {
					switch {
					case op == 1:
						_, _ = w.Write([]byte("verif"))
					case op == 2:
						if f, ok := w.(http.Flusher); ok {
							f.Flush()
						}
					case op == 3:
						ctxCancel()
					case op == 4:
						ctxExpire()
					default:
						w.WriteHeader(int(op))
					}
				}
				switch q[5] {
				case 1:
					panic(pv)
				case 2, 3:
					if q[1] >= 2 { // only a chain with TimeoutHandler ends a stalled request
						parked <- struct{}{}
						<-release
					}
				}
			}
		})
		mw := BreakerHandler(http.MethodGet, fmt.Sprintf("/verif/c01w/%d", c.ID), metrics)
		const long, short = 10 * time.Minute, 25 * time.Millisecond
		h := mw(next)
		chains := map[[2]int64]http.Handler{
			{0, 0}: h, {0, 1}: h,
			{1, 0}: mw(RecoverHandler(next)), {1, 1}: mw(RecoverHandler(next)),
			{2, 0}: mw(TimeoutHandler(long)(next)), {2, 1}: mw(TimeoutHandler(short)(next)),
			{3, 0}: mw(TimeoutHandler(long)(RecoverHandler(next))), {3, 1}: mw(TimeoutHandler(short)(RecoverHandler(next))),
		}
		for _, q := range c.Reqs {
			cur = q
			invoked.Store(0)
			timex.AdvanceFake(time.Duration(q[2]))
			src.next = q[4]
			rec := httptest.NewRecorder()
			req := httptest.NewRequest(http.MethodGet, "http://localhost/verif", nil)
			hh := h
			var cancel context.CancelFunc = func() {}
			script := q[0] == 3
			if script {
				var isShort int64
				if q[5] == 2 && q[1] >= 2 {
					isShort = 1
				}
				hh = chains[[2]int64{q[1], isShort}]
				// a controller-driven deadline context (done only when the script says so) under a cancel
				ctx0, expire := breaker.VerifCtx(breaker.VCDeadlineAtReturn)
				var ctx context.Context
				ctx, cancel = context.WithCancel(ctx0)
				ctxCancel, ctxExpire = cancel, func() {
					expire()
					<-ctx.Done() // the cancel context has taken the parent's end over
				}
				req = req.WithContext(ctx)
				parked = make(chan struct{}, 1)
				release = make(chan struct{})
			}
			var pk int64
			finished := make(chan struct{})
			go func() {
				defer close(finished)
				defer func() {
					if r := recover(); r != nil {
						pk = 1
						if r != any(pv) {
							pk = 2
						}
					}
				}()
				hh.ServeHTTP(rec, req)
			}()
			if script && q[5] == 3 && q[1] >= 2 {
				// the client goes away once the handler is parked (or the request was rejected)
				select {
				case <-parked:
					cancel()
				case <-finished:
				}
			}
			select {
			case <-finished:
			case <-time.After(5 * time.Minute):
				out.Err = "request did not finish"
			}
			cancel()
			if script {
				close(release)
			}
			if out.Err != "" {
				break
			}
			inv := invoked.Load()
			code := int64(rec.Code)
			if script && inv != 0 {
				code = -2
			}
			out.Obs = append(out.Obs, []int64{inv, pk, code})
		}
		w.Put(out)
	}
	timex.ClearFake()
	_ = json.Marshal
}
