// C01 wrapper executor, injected into zrpc/internal/serverinterceptors with `go test -overlay`.
// Every call runs Unary/StreamBreakerInterceptor against a fresh REAL breaker (looked up by its name)
// whose next decision is forced (breaker.VerifProbe), with a downstream invoker that
// returns / panics as told, and reports: invoker runs, what was added to the breaker's
// window (success, failure, drop), what the caller got.
package serverinterceptors

import (
	"context"
	"errors"
	"fmt"
	"os"
	"testing"
	"time"

	"github.com/zeromicro/go-zero/core/breaker"
	"github.com/zeromicro/go-zero/core/timex"
	"google.golang.org/grpc"
	gcodes "google.golang.org/grpc/codes"
	"google.golang.org/grpc/status"
)

var verifOther = errors.New("verif: other error")

func verifDerr(class, code int64) error {
	if class == breaker.VDShaped {
		return breaker.VerifShaped(code/10, breaker.VerifSentinel(code%10))
	}
	if e := breaker.VerifWrapped(class); e != nil {
		return e
	}
	switch class {
	case breaker.VDNil:
		return nil
	case breaker.VDStatus:
		return status.Error(gcodes.Code(code), "verif")
	case breaker.VDCtxCanceled:
		return context.Canceled
	case breaker.VDCtxDeadline:
		return context.DeadlineExceeded
	case breaker.VDBreakerUnavailable:
		return breaker.ErrServiceUnavailable
	case breaker.VDWrappedCanceled:
		return fmt.Errorf("verif: %w", context.Canceled)
	}
	return verifOther
}

func verifSeen(err, derr error, invoked int64) (int64, int64) {
	switch {
	case err == nil:
		return breaker.VSNil, 0
	case invoked == 0 && err == breaker.ErrServiceUnavailable:
		return breaker.VSBreakerUnavailable, 0
	case invoked == 0 && breaker.VerifIsCtxErr(err):
		return breaker.VSCtxErr, 0
	case derr != nil && err == derr:
		return breaker.VSSame, 0
	case err == breaker.ErrServiceUnavailable:
		return breaker.VSBreakerUnavailable, 0
	}
	if st, ok := status.FromError(err); ok {
		return breaker.VSStatus, int64(st.Code())
	}
	return breaker.VSOtherSeen, 0
}

// the stream handed to StreamBreakerInterceptor: only its context can be asked for
type verifStream struct {
	grpc.ServerStream
	ctx context.Context
}

func (s verifStream) Context() context.Context { return s.ctx }

const (
	vdStallTimeout = 21
	vdStallCancel  = 22
)

func verifChain(ctx context.Context, method string, p *breaker.VerifProbe, before [4]int64, class int64, derr error,
	pv any, invoked *int64, down func() error) []int64 {
	timeout := 10 * time.Minute
	if class == vdStallTimeout {
		timeout = 25 * time.Millisecond
	}
	ti := UnaryTimeoutInterceptor(timeout)
	info := &grpc.UnaryServerInfo{FullMethod: method}
	parked := make(chan struct{}, 1)
	release := make(chan struct{})
	cctx, cancel := context.WithCancel(ctx)
	defer cancel()
	handler := func(ctx context.Context, req any) (any, error) {
		if class == vdStallTimeout || class == vdStallCancel {
			*invoked++
			parked <- struct{}{}
			<-release
			return nil, nil
		}
		return nil, down()
	}
	var sk, sc int64
	finished := make(chan struct{})
	go func() {
		defer close(finished)
		defer func() {
			if r := recover(); r != nil {
				sk, sc = breaker.VSPanic, 0 // UnaryTimeoutInterceptor re-raises the panic as a string with the stack
			}
		}()
		_, e := UnaryBreakerInterceptor(cctx, nil, info, func(ctx context.Context, req any) (any, error) {
			return ti(ctx, req, info, handler)
		})
		sk, sc = verifSeen(e, derr, *invoked)
	}()
	if class == vdStallCancel {
		select {
		case <-parked:
			cancel() // the client goes away while the handler is running
		case <-finished:
		}
	}
	<-finished
	close(release)
	after := p.Sums()
	return []int64{*invoked, after[0] - before[0], after[1] - before[1], after[2] - before[2], sk, sc}
}

func TestVerifC01W(t *testing.T) {
	if os.Getenv("VERIF_IN") == "" {
		t.Skip("VERIF_IN not set")
	}
	var cases []breaker.VerifWCase
	if err := breaker.VerifReadCases(&cases); err != nil {
		t.Fatal(err)
	}
	w, err := breaker.VerifNewWriter()
	if err != nil {
		t.Fatal(err)
	}
	defer w.Close()
	timex.SetFakeNow(time.Duration(1e15))
	for _, c := range cases {
		out := breaker.VerifWOut{ID: c.ID}
		for i, k := range c.Calls {
			rej, class, code := k[1] == 1, k[3], k[4]
			ctx, atReturn := breaker.VerifCtx(k[2])
			method := fmt.Sprintf("/verif.c01ws/%d/%d", c.ID, i)
			p, err := breaker.VerifAttach(breaker.GetBreaker(method))
			if err != nil {
				out.Err = err.Error()
				break
			}
			p.VerifForce(rej)
			before := p.Sums()
			derr := verifDerr(class, code)
			var invoked int64
			pv := &struct{ n int }{i}
			down := func() error {
				invoked++
				atReturn() // modes 2, 3: the context is done when the handler returns / panics
				if class == breaker.VDPanic {
					panic(pv)
				}
				return derr
			}
			if k[0] == 22 {
				// zrpc's order: Breaker around Timeout around the handler.  A stalling handler is
				// parked until the chain has returned, so only the timeout / cancel branch can be taken;
				// calls that must finish get a very long timeout (failure detector only).
				out.Obs = append(out.Obs, verifChain(ctx, method, p, before, class, derr, pv, &invoked, down))
				continue
			}
			var sk, sc int64
			func() {
				defer func() {
					if r := recover(); r != nil {
						sk, sc = breaker.VSOtherSeen, 0
						if r == any(pv) {
							sk = breaker.VSPanic
						}
					}
				}()
				var e error
				if k[0] == 2 {
					e = StreamBreakerInterceptor(nil, verifStream{ctx: ctx}, &grpc.StreamServerInfo{FullMethod: method},
						func(srv any, stream grpc.ServerStream) error { return down() })
				} else {
					_, e = UnaryBreakerInterceptor(ctx, nil, &grpc.UnaryServerInfo{FullMethod: method},
						func(ctx context.Context, req any) (any, error) { return nil, down() })
				}
				sk, sc = verifSeen(e, derr, invoked)
			}()
			after := p.Sums()
			out.Obs = append(out.Obs, []int64{invoked, after[0] - before[0], after[1] - before[1],
				after[2] - before[2], sk, sc})
		}
		w.Put(out)
	}
}
