package kv

// White-box executor for C15 (injected with `go test -overlay`): the empty-ring error path of
// clusterStore, which the public constructor cannot reach (NewStore exits on a zero total weight).
// EVERY method of the Store interface must answer ErrNoRedisNode over an empty ring — never panic,
// never succeed.  ("get"/"set"/"del"/"incr" keep their own fields; "all" lists what else failed.)

import (
	"encoding/json"
	"errors"
	"fmt"
	"os"
	"strings"
	"testing"

	"github.com/zeromicro/go-zero/core/hash"
	"github.com/zeromicro/go-zero/core/stores/redis"
)

func TestVerifC15Empty(t *testing.T) {
	cs := clusterStore{dispatcher: hash.NewConsistentHash()}
	var st Store = cs
	_, e1 := cs.Get("k")
	e2 := cs.Set("k", "v")
	n, e3 := cs.Del("a", "b")
	_, e4 := cs.Incr("k")

	e := func(_ any, err error) error { return err }
	e3r := func(_ any, _ any, err error) error { return err }
	calls := map[string]func() error{
		"Decr":                               func() error { return e(st.Decr("k")) },
		"Decrby":                             func() error { return e(st.Decrby("k", 1)) },
		"Eval":                               func() error { return e(st.Eval("return 1", "k")) },
		"Exists":                             func() error { return e(st.Exists("k")) },
		"Expire":                             func() error { return st.Expire("k", 1) },
		"Expireat":                           func() error { return st.Expireat("k", 1) },
		"GetSet":                             func() error { return e(st.GetSet("k", "v")) },
		"Hdel":                               func() error { return e(st.Hdel("k", "f")) },
		"Hexists":                            func() error { return e(st.Hexists("k", "f")) },
		"Hget":                               func() error { return e(st.Hget("k", "f")) },
		"Hgetall":                            func() error { return e(st.Hgetall("k")) },
		"Hincrby":                            func() error { return e(st.Hincrby("k", "f", 1)) },
		"Hkeys":                              func() error { return e(st.Hkeys("k")) },
		"Hlen":                               func() error { return e(st.Hlen("k")) },
		"Hmget":                              func() error { return e(st.Hmget("k", "f")) },
		"Hset":                               func() error { return st.Hset("k", "f", "v") },
		"Hsetnx":                             func() error { return e(st.Hsetnx("k", "f", "v")) },
		"Hmset":                              func() error { return st.Hmset("k", map[string]string{"a": "b"}) },
		"Hvals":                              func() error { return e(st.Hvals("k")) },
		"Incrby":                             func() error { return e(st.Incrby("k", 1)) },
		"Llen":                               func() error { return e(st.Llen("k")) },
		"Lindex":                             func() error { return e(st.Lindex("k", 0)) },
		"Lpop":                               func() error { return e(st.Lpop("k")) },
		"Lpush":                              func() error { return e(st.Lpush("k", "v")) },
		"Lrange":                             func() error { return e(st.Lrange("k", 0, 1)) },
		"Lrem":                               func() error { return e(st.Lrem("k", 1, "v")) },
		"Persist":                            func() error { return e(st.Persist("k")) },
		"Pfadd":                              func() error { return e(st.Pfadd("k", "v")) },
		"Pfcount":                            func() error { return e(st.Pfcount("k")) },
		"Rpush":                              func() error { return e(st.Rpush("k", "v")) },
		"Sadd":                               func() error { return e(st.Sadd("k", "v")) },
		"Scard":                              func() error { return e(st.Scard("k")) },
		"Setex":                              func() error { return st.Setex("k", "v", 1) },
		"Setnx":                              func() error { return e(st.Setnx("k", "v")) },
		"SetnxEx":                            func() error { return e(st.SetnxEx("k", "v", 1)) },
		"Sismember":                          func() error { return e(st.Sismember("k", "v")) },
		"Smembers":                           func() error { return e(st.Smembers("k")) },
		"Spop":                               func() error { return e(st.Spop("k")) },
		"Srandmember":                        func() error { return e(st.Srandmember("k", 1)) },
		"Srem":                               func() error { return e(st.Srem("k", "v")) },
		"Sscan":                              func() error { return e3r(st.Sscan("k", 0, "*", 1)) },
		"Ttl":                                func() error { return e(st.Ttl("k")) },
		"Zadd":                               func() error { return e(st.Zadd("k", 1, "v")) },
		"ZaddFloat":                          func() error { return e(st.ZaddFloat("k", 1.5, "v")) },
		"Zadds":                              func() error { return e(st.Zadds("k", redis.Pair{Key: "a", Score: 1})) },
		"Zcard":                              func() error { return e(st.Zcard("k")) },
		"Zcount":                             func() error { return e(st.Zcount("k", 0, 1)) },
		"Zincrby":                            func() error { return e(st.Zincrby("k", 1, "v")) },
		"Zrank":                              func() error { return e(st.Zrank("k", "v")) },
		"Zrange":                             func() error { return e(st.Zrange("k", 0, 1)) },
		"ZrangeWithScores":                   func() error { return e(st.ZrangeWithScores("k", 0, 1)) },
		"ZrangebyscoreWithScores":            func() error { return e(st.ZrangebyscoreWithScores("k", 0, 1)) },
		"ZrangebyscoreWithScoresAndLimit":    func() error { return e(st.ZrangebyscoreWithScoresAndLimit("k", 0, 1, 0, 1)) },
		"Zrem":                               func() error { return e(st.Zrem("k", "v")) },
		"Zremrangebyrank":                    func() error { return e(st.Zremrangebyrank("k", 0, 1)) },
		"Zremrangebyscore":                   func() error { return e(st.Zremrangebyscore("k", 0, 1)) },
		"Zrevrange":                          func() error { return e(st.Zrevrange("k", 0, 1)) },
		"ZrevrangebyscoreWithScores":         func() error { return e(st.ZrevrangebyscoreWithScores("k", 0, 1)) },
		"ZrevrangebyscoreWithScoresAndLimit": func() error { return e(st.ZrevrangebyscoreWithScoresAndLimit("k", 0, 1, 0, 1)) },
		"Zrevrank":                           func() error { return e(st.Zrevrank("k", "v")) },
		"Zscore":                             func() error { return e(st.Zscore("k", "v")) },
	}
	bad := []string{}
	for name, f := range calls {
		func() {
			defer func() {
				if r := recover(); r != nil {
					bad = append(bad, fmt.Sprintf("%s: panic %v", name, r))
				}
			}()
			if err := f(); !errors.Is(err, ErrNoRedisNode) {
				bad = append(bad, fmt.Sprintf("%s: %v", name, err))
			}
		}()
	}
	out := map[string]any{
		"pkg":  "kv",
		"get":  errors.Is(e1, ErrNoRedisNode),
		"set":  errors.Is(e2, ErrNoRedisNode),
		"del":  n == 0 && e3 != nil && strings.Contains(e3.Error(), ErrNoRedisNode.Error()),
		"incr": errors.Is(e4, ErrNoRedisNode),
		"all":  len(bad) == 0,
		"bad":  bad,
	}
	b, _ := json.Marshal(out)
	if err := os.WriteFile(os.Getenv("VERIF_OUT"), append(b, '\n'), 0o644); err != nil {
		t.Fatal(err)
	}
}
