package kv

// White-box executor for C15 (injected with `go test -overlay`): the empty-ring error path of
// clusterStore, which the public constructor cannot reach (NewStore exits on a zero total weight).

import (
	"encoding/json"
	"errors"
	"os"
	"strings"
	"testing"

	"github.com/zeromicro/go-zero/core/hash"
)

func TestVerifC15Empty(t *testing.T) {
	cs := clusterStore{dispatcher: hash.NewConsistentHash()}
	_, e1 := cs.Get("k")
	e2 := cs.Set("k", "v")
	n, e3 := cs.Del("a", "b")
	_, e4 := cs.Incr("k")
	out := map[string]any{
		"pkg": "kv",
		"get": errors.Is(e1, ErrNoRedisNode),
		"set": errors.Is(e2, ErrNoRedisNode),
		"del": n == 0 && e3 != nil && strings.Contains(e3.Error(), ErrNoRedisNode.Error()),
		"incr": errors.Is(e4, ErrNoRedisNode),
	}
	b, _ := json.Marshal(out)
	if err := os.WriteFile(os.Getenv("VERIF_OUT"), append(b, '\n'), 0o644); err != nil {
		t.Fatal(err)
	}
}
