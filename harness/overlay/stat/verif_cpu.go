// Added (not replacing anything) to package core/stat at build time with
// `go test -overlay` by the C02 verification harness; never committed to /repo.
// It lets the harness choose the value that stat.CpuUsage() returns.  The
// refresher goroutine of usage.go keeps running; the harness detects its
// (250 ms) interference by re-reading CpuUsage() and re-runs the case.
package stat

import "sync/atomic"

// VerifSetCpuUsage stores v in the gauge read by CpuUsage.
func VerifSetCpuUsage(v int64) {
	atomic.StoreInt64(&cpuUsage, v)
}
