package limit

// Executor for C03 (injected into package limit with `go test -overlay`; nothing is written
// under the go-zero tree).  It drives PeriodLimit and several TokenLimiter objects sharing
// one key on a miniredis server (real Lua interpreter) and reports what every call returned.
// White-box only to READ TokenLimiter.redisAlive / monitorStarted (instead of sleeping a
// guessed time after the store comes back).

import (
	"bufio"
	"encoding/json"
	"errors"
	"os"
	"sync/atomic"
	"testing"
	"time"

	"github.com/alicebob/miniredis/v2"
	"github.com/zeromicro/go-zero/core/breaker"
	"github.com/zeromicro/go-zero/core/logx"
	"github.com/zeromicro/go-zero/core/stores/redis"
)

type verifCase struct {
	ID     int     `json:"id"`
	Kind   string  `json:"kind"` // "period" | "token"
	Period int     `json:"period"`
	Quota  int     `json:"quota"`
	Lims   int     `json:"lims"`
	Align  bool    `json:"align"`
	Keys   []string `json:"keys"`
	Rate   int     `json:"rate"`
	Burst  int     `json:"burst"`
	N      int     `json:"n"`
	BaseMs int64   `json:"base_ms"`
	Hard   bool    `json:"hard"` // outages by Close/Restart instead of SetError
	Ops    [][]any `json:"ops"`
}

type verifOut struct {
	ID        int    `json:"id"`
	Obs       []any  `json:"obs"`
	Disturbed bool   `json:"disturbed,omitempty"`
	BaseMs    int64  `json:"base_ms"`          // period cases: the model's initial clock
	Offset    int    `json:"offset,omitempty"` // aligned period cases: zone offset read by the executor
	Err       string `json:"err,omitempty"`
}

func vnum(v any) int64 { return int64(v.(float64)) }

// go-zero caches one go-redis client (and its circuit breaker) per address for the life of the
// process, and the kernel hands a just-closed port out again: closing a case's server would let
// a later case inherit the breaker statistics of an earlier one.  Servers are therefore kept
// open until the whole run is over.
var verifServers []*miniredis.Miniredis

func verifPark(mr *miniredis.Miniredis) { verifServers = append(verifServers, mr) }

type verifStore struct {
	mr   *miniredis.Miniredis
	hard bool
	down bool
}

func (s *verifStore) setDown() {
	if s.down {
		return
	}
	s.down = true
	if s.hard {
		s.mr.Close()
	} else {
		s.mr.SetError("ERR verif outage")
	}
}

func (s *verifStore) setUp() error {
	if !s.down {
		return nil
	}
	s.down = false
	if s.hard {
		return s.mr.Restart()
	}
	s.mr.SetError("")
	return nil
}

func verifPeriodOnce(c verifCase) (out verifOut) {
	out = verifOut{ID: c.ID}
	mr, err := miniredis.Run()
	if err != nil {
		out.Err = err.Error()
		return
	}
	st := &verifStore{mr: mr, hard: c.Hard}
	defer func() {
		if st.down {
			st.setUp()
		}
		verifPark(mr)
	}()
	var opts []PeriodOption
	var unix0 int64
	if c.Align {
		// calcExpireSeconds reads time.Now() and its zone and cannot be given a clock: the
		// executor samples the same clock before and after the (sub-second) case and the case
		// is repeated when the second changed in between; the model's clock starts there
		opts = append(opts, Align())
		now := time.Now()
		_, out.Offset = now.Zone()
		unix0 = now.Unix()
		out.BaseMs = unix0 * 1000
	}
	lims := make([]*PeriodLimit, c.Lims)
	for i := range lims {
		// separate Redis objects = separate callers (they share go-zero's per-address client)
		lims[i] = NewPeriodLimit(c.Period, c.Quota, redis.New(mr.Addr()), "p:", opts...)
	}
	for _, op := range c.Ops {
		switch op[0].(string) {
		case "take":
			code, err := lims[vnum(op[1])].Take(c.Keys[vnum(op[2])])
			// third component: the circuit breaker let the command through
			out.Obs = append(out.Obs, []any{code, err != nil, !errors.Is(err, breaker.ErrServiceUnavailable)})
		case "ttl":
			k := "p:" + c.Keys[vnum(op[1])]
			switch {
			case !mr.Exists(k):
				out.Obs = append(out.Obs, map[string]int64{"ttl": -2})
			case mr.TTL(k) == 0:
				out.Obs = append(out.Obs, map[string]int64{"ttl": -1})
			default:
				out.Obs = append(out.Obs, map[string]int64{"ttl": mr.TTL(k).Milliseconds()})
			}
		case "adv":
			mr.FastForward(time.Duration(vnum(op[1])) * time.Millisecond)
			out.Obs = append(out.Obs, nil)
		case "down":
			st.setDown()
			out.Obs = append(out.Obs, nil)
		case "up":
			if err := st.setUp(); err != nil {
				out.Err = err.Error()
				return
			}
			out.Obs = append(out.Obs, nil)
		case "poke":
			if !st.down {
				mr.Set("p:"+c.Keys[vnum(op[1])], op[2].(string))
			}
			out.Obs = append(out.Obs, nil)
		default:
			out.Err = "unknown op"
			return
		}
	}
	if c.Align && time.Now().Unix() != unix0 {
		out.Disturbed = true
	}
	return
}

func verifPeriod(c verifCase) verifOut {
	var out verifOut
	for attempt := 0; attempt < 4; attempt++ {
		out = verifPeriodOnce(c)
		if !out.Disturbed || out.Err != "" {
			break
		}
	}
	return out
}

func verifAlive(l *TokenLimiter) bool { return atomic.LoadUint32(&l.redisAlive) == 1 }

func verifMonitor(l *TokenLimiter) bool {
	l.rescueLock.Lock()
	defer l.rescueLock.Unlock()
	return l.monitorStarted
}

// wait until every running monitor has seen the (reachable) store: at most ~pingInterval
func verifSync(lims []*TokenLimiter) bool {
	deadline := time.Now().Add(5 * time.Second)
	for _, l := range lims {
		for !verifAlive(l) || verifMonitor(l) {
			if !verifAlive(l) && !verifMonitor(l) {
				return false // dead without a monitor: would never recover
			}
			if time.Now().After(deadline) {
				return false
			}
			time.Sleep(2 * time.Millisecond)
		}
	}
	return true
}

func verifTokenOnce(c verifCase) (out verifOut) {
	out = verifOut{ID: c.ID}
	mr, err := miniredis.Run()
	if err != nil {
		out.Err = err.Error()
		return
	}
	st := &verifStore{mr: mr, hard: c.Hard}
	lims := make([]*TokenLimiter, c.N)
	defer func() {
		// let monitors finish so that no goroutine keeps pinging a dead port
		if st.down {
			st.setUp()
		}
		verifSync(lims)
		verifPark(mr)
	}()
	expect := make([]bool, c.N)
	for i := range lims {
		lims[i] = NewTokenLimiter(c.Rate, c.Burst, redis.New(mr.Addr()), "tk")
		expect[i] = true
	}
	clock := c.BaseMs
	for _, op := range c.Ops {
		switch op[0].(string) {
		case "allow":
			i := vnum(op[1])
			now := clock
			if len(op) > 3 {
				now += vnum(op[3]) // deliberate clock skew of the caller
			}
			before := verifAlive(lims[i])
			if before != expect[i] {
				out.Disturbed = true // a monitor ticked at an unplanned moment
			}
			cmds := mr.CommandCount()
			ok := lims[i].AllowN(time.UnixMilli(now), int(vnum(op[2])))
			after := verifAlive(lims[i])
			expect[i] = after
			// the reply of the script is not visible through AllowN: the circuit breaker cut the
			// call off iff the instance fell back although the store is up and no command arrived
			brk := !(before && !after && !st.down && mr.CommandCount() == cmds)
			out.Obs = append(out.Obs, []bool{ok, before, after, brk})
		case "adv":
			d := vnum(op[1])
			clock += d
			mr.FastForward(time.Duration(d) * time.Millisecond)
			out.Obs = append(out.Obs, nil)
		case "down":
			st.setDown()
			out.Obs = append(out.Obs, nil)
		case "up", "sync":
			if op[0].(string) == "up" {
				if err := st.setUp(); err != nil {
					out.Err = err.Error()
					return
				}
			}
			if !st.down {
				if !verifSync(lims) {
					out.Err = "monitors did not recover"
					return
				}
				for i := range expect {
					expect[i] = true
				}
			}
			out.Obs = append(out.Obs, nil)
		default:
			out.Err = "unknown op"
			return
		}
	}
	return
}

func verifToken(c verifCase) verifOut {
	var out verifOut
	for attempt := 0; attempt < 4; attempt++ {
		out = verifTokenOnce(c)
		if !out.Disturbed || out.Err != "" {
			break
		}
	}
	return out
}

func TestVerifC03(t *testing.T) {
	logx.Disable()
	data, err := os.ReadFile(os.Getenv("VERIF_IN"))
	if err != nil {
		t.Fatal(err)
	}
	var cases []verifCase
	if err := json.Unmarshal(data, &cases); err != nil {
		t.Fatal(err)
	}
	f, err := os.Create(os.Getenv("VERIF_OUT"))
	if err != nil {
		t.Fatal(err)
	}
	defer f.Close()
	w := bufio.NewWriter(f)
	defer w.Flush()
	defer func() {
		for _, mr := range verifServers {
			mr.Close()
		}
	}()
	for _, c := range cases {
		var out verifOut
		if c.Kind == "period" {
			out = verifPeriod(c)
		} else {
			out = verifToken(c)
		}
		b, _ := json.Marshal(out)
		w.Write(b)
		w.WriteByte('\n')
	}
}
