package limit

// Executor for C03 (injected into package limit with `go test -overlay`; nothing is written
// under the go-zero tree).  It drives PeriodLimit and several TokenLimiter objects sharing
// one key on a miniredis server (real Lua interpreter) and reports what every call returned.
// White-box only to READ TokenLimiter.redisAlive / monitorStarted (instead of sleeping a
// guessed time after the store comes back).
//
// Outages and store faults are produced by a miniredis pre-hook: while "down" every command
// (PING included) gets an error reply; an armed fault answers the ONE EVALSHA/EVAL of a chosen
// call with a forged reply instead of executing it.  Request contexts are part of the case:
// Background, cancelled right after the call returned ("live"), with a deadline that has passed by
// the time the store recovers ("deadline"), already cancelled ("cancelled") or past its deadline
// ("expired") when the call is made.

import (
	"bufio"
	"bytes"
	"context"
	"encoding/json"
	"errors"
	"os"
	"reflect"
	"runtime"
	"strconv"
	"strings"
	"sync"
	"sync/atomic"
	"testing"
	"time"
	"unsafe"

	"github.com/alicebob/miniredis/v2"
	"github.com/alicebob/miniredis/v2/server"
	red "github.com/redis/go-redis/v9"
	"github.com/zeromicro/go-zero/core/breaker"
	"github.com/zeromicro/go-zero/core/logx"
	"github.com/zeromicro/go-zero/core/stores/redis"
)

// A log writer that is ALWAYS installed: it discards everything, and while its gate is armed it
// parks the monitor goroutine (any goroutine with waitForRedis on its stack) inside whatever log
// call it makes.  HEAD's monitor logs nothing, so nothing is ever parked on HEAD; code that logs on
// the monitor's way out (between redisAlive = 1 and the clearing of monitorStarted) gets that
// window held open for as long as the schedule wants.
type verifLogGate struct {
	mu      sync.Mutex
	armed   bool
	held    int
	release chan struct{}
}

var verifLog = &verifLogGate{}

func (g *verifLogGate) arm() {
	g.mu.Lock()
	g.armed, g.release = true, make(chan struct{})
	g.mu.Unlock()
}

func (g *verifLogGate) open() {
	g.mu.Lock()
	if g.armed {
		g.armed = false
		close(g.release)
	}
	g.mu.Unlock()
	for k := 0; k < 500; k++ { // let the parked goroutines leave their log calls
		g.mu.Lock()
		h := g.held
		g.mu.Unlock()
		if h == 0 {
			break
		}
		time.Sleep(time.Millisecond)
	}
}

func (g *verifLogGate) parked() int {
	g.mu.Lock()
	defer g.mu.Unlock()
	return g.held
}

func (g *verifLogGate) hold() {
	g.mu.Lock()
	if !g.armed {
		g.mu.Unlock()
		return
	}
	buf := make([]byte, 8192)
	buf = buf[:runtime.Stack(buf, false)]
	if !bytes.Contains(buf, []byte(".waitForRedis")) {
		g.mu.Unlock()
		return
	}
	g.held++
	ch := g.release
	g.mu.Unlock()
	select {
	case <-ch:
	case <-time.After(5 * time.Second):
	}
	g.mu.Lock()
	g.held--
	g.mu.Unlock()
}

func (g *verifLogGate) Alert(v any)                     { g.hold() }
func (g *verifLogGate) Close() error                    { return nil }
func (g *verifLogGate) Debug(v any, _ ...logx.LogField) { g.hold() }
func (g *verifLogGate) Error(v any, _ ...logx.LogField) { g.hold() }
func (g *verifLogGate) Info(v any, _ ...logx.LogField)  { g.hold() }
func (g *verifLogGate) Severe(v any)                    { g.hold() }
func (g *verifLogGate) Slow(v any, _ ...logx.LogField)  { g.hold() }
func (g *verifLogGate) Stack(v any)                     { g.hold() }
func (g *verifLogGate) Stat(v any, _ ...logx.LogField)  {}

type verifCase struct {
	ID     int      `json:"id"`
	Kind   string   `json:"kind"` // "period" | "token"
	Period int      `json:"period"`
	Quota  int      `json:"quota"`
	Lims   int      `json:"lims"`
	Align  bool     `json:"align"`
	Prefix string   `json:"prefix"`
	Keys   []string `json:"keys"`
	Rate   int      `json:"rate"`
	Burst  int      `json:"burst"`
	N      int      `json:"n"`
	Key    string   `json:"key"`
	BaseMs int64    `json:"base_ms"`
	Hard   bool     `json:"hard"` // outages drop the connection (network error, go-redis retries) instead of error replies
	Wall   bool     `json:"wall"` // token: wall-clock case (Allow / AllowCtx use time.Now())
	Groups []struct {
		Key   string `json:"key"`
		Rate  int    `json:"rate"`
		Burst int    `json:"burst"`
	} `json:"groups"` // token: limiters on several keys of one store ...
	InstGroup []int   `json:"inst_group"`   // ... and the group of every instance
	Breaker   bool    `json:"breaker"`      // may push go-zero's circuit breaker over its threshold
	Window    bool    `json:"window"`       // uses the (process-wide) log gate: run alone, after the pool
	Shared    bool    `json:"shared_store"` // token: all limiters use ONE *redis.Redis object (as a service does)
	Ops       [][]any `json:"ops"`
}

type verifOut struct {
	ID        int    `json:"id"`
	Obs       []any  `json:"obs"`
	Disturbed bool   `json:"disturbed,omitempty"`
	BaseMs    int64  `json:"base_ms"`          // period cases / wall cases: the model's initial clock
	Offset    int    `json:"offset,omitempty"` // aligned period cases: zone offset read by the executor
	Err       string `json:"err,omitempty"`
}

func vnum(v any) int64 { return int64(v.(float64)) }

func vopts(op []any, at int) map[string]any {
	if len(op) > at {
		if m, ok := op[at].(map[string]any); ok {
			return m
		}
	}
	return nil
}

func vstr(m map[string]any, k string) string {
	if v, ok := m[k].(string); ok {
		return v
	}
	return ""
}

// go-zero caches one go-redis client (and its circuit breaker) per address for the life of the
// process, and the kernel hands a just-closed port out again: closing a case's server would let
// a later case inherit the breaker statistics of an earlier one.  Servers are therefore kept
// open until the whole run is over.
var (
	verifServers   []*miniredis.Miniredis
	verifServersMu sync.Mutex
)

func verifPark(mr *miniredis.Miniredis) {
	verifServersMu.Lock()
	verifServers = append(verifServers, mr)
	verifServersMu.Unlock()
}

// The caller's context becomes done DURING the store call, with a healthy store, without waiting
// for any timeout: when the call's script command arrives, the hook (optionally runs it on a side
// connection: "the store ran the script, the reply got lost"), makes the context done and drops the
// connection.  go-redis sees EOF, wants to retry, and its back-off sleep - which selects on
// ctx.Done() - returns ctx.Err() at once: exactly what a request gets whose deadline runs out while
// it queues for a pooled connection or sleeps before a retry.
type verifDrop struct {
	ran  bool
	fire func()
}

type verifStore struct {
	mr   *miniredis.Miniredis
	hard bool
	down bool

	mu          sync.Mutex
	hdown       bool   // hook: every command fails
	armed       string // hook: forged reply for the next EVALSHA / EVAL
	hits        int
	pings       int        // PINGs of monitor goroutines that failed during an outage
	drop        *verifDrop // hook: the caller's context becomes done during the next script command
	dropHits    int
	side        *red.Client // a plain second connection to the server (to run a script "whose reply is lost")
	pgate       bool        // hook: hold the reply of every PING that arrives while the store answers
	pheld       int
	pgateCh     chan struct{}
	gate        int // hook: hold every EVALSHA until this many have arrived
	arrived     int
	gateCh      chan struct{}
	nSha, nEval int  // EVALSHA / EVAL commands that arrived (whatever became of them)
	loaded      bool // the script is in the server's cache (an EVAL was executed)
}

func (s *verifStore) hook(c *server.Peer, cmd string, args ...string) bool {
	s.mu.Lock()
	a, d := s.armed, s.hdown
	ev := cmd == "EVALSHA" || cmd == "EVAL"
	if a != "" && ev {
		s.hits++
	}
	var wait chan struct{}
	if cmd == "EVALSHA" && s.gate > 0 {
		s.arrived++
		wait = s.gateCh
		if s.arrived == s.gate {
			close(s.gateCh)
		}
	}
	if cmd == "EVALSHA" {
		s.nSha++
	} else if cmd == "EVAL" {
		s.nEval++
	}
	s.mu.Unlock()
	s.mu.Lock()
	dr := s.drop
	if dr != nil && a == "" && !d && ((cmd == "EVALSHA" && s.loaded) || cmd == "EVAL") {
		s.drop = nil
		s.dropHits++
	} else {
		dr = nil
	}
	s.mu.Unlock()
	if dr != nil {
		if dr.ran {
			s.mu.Lock()
			if s.side == nil {
				s.side = red.NewClient(&red.Options{Addr: s.mr.Addr(), MaxRetries: -1})
			}
			side := s.side
			s.mu.Unlock()
			full := make([]any, 0, len(args)+1)
			full = append(full, cmd)
			for _, x := range args {
				full = append(full, x)
			}
			if _, e := side.Do(context.Background(), full...).Result(); e != nil && e != red.Nil && os.Getenv("VERIF_DEBUG") != "" {
				println("side:", cmd, e.Error())
			}
		}
		dr.fire()
		c.Close()
		return true
	}
	if wait != nil {
		select {
		case <-wait:
		case <-time.After(2 * time.Second): // a caller never arrived (cut off by the breaker): give up
		}
	}
	if cmd == "PING" && !d {
		s.mu.Lock()
		pg, ch := s.pgate, s.pgateCh
		if pg {
			s.pheld++
		}
		s.mu.Unlock()
		if pg {
			// the store has answered this ping (PONG, decided now); the monitor gets the reply later
			select {
			case <-ch:
			case <-time.After(5 * time.Second):
			}
			c.WriteInline("PONG")
			return true
		}
	}
	if a != "" && ev {
		switch {
		case a == "err":
			c.WriteError("ERR verif fault")
		case a == "nil":
			c.WriteNull()
		case strings.HasPrefix(a, "int:"):
			n, _ := strconv.Atoi(a[4:])
			c.WriteInt(n)
		case strings.HasPrefix(a, "bulk:"):
			c.WriteBulk(a[5:])
		case strings.HasPrefix(a, "status:"):
			c.WriteInline(a[7:])
		default:
			c.WriteError("ERR verif unknown fault")
		}
		return true
	}
	if !d && cmd == "EVAL" {
		s.mu.Lock()
		s.loaded = true // this EVAL is executed by the server: the script is in its cache from now on
		s.mu.Unlock()
	}
	if d {
		if cmd == "PING" {
			s.mu.Lock()
			s.pings++
			s.mu.Unlock()
		}
		if s.hard {
			// a network failure: the connection is dropped without a reply (the client sees EOF and
			// retries on fresh connections, which are dropped as well).  The listener stays open: the
			// port is never released, so nobody else's server can ever answer this case's client.
			c.Close()
			return true
		}
		c.WriteError("ERR verif outage")
		return true
	}
	return false
}

func (s *verifStore) install() { s.mr.Server().SetPreHook(s.hook) }

func (s *verifStore) arm(kind string) {
	s.mu.Lock()
	s.armed, s.hits = kind, 0
	s.mu.Unlock()
}

func (s *verifStore) disarm() int {
	s.mu.Lock()
	defer s.mu.Unlock()
	s.armed = ""
	return s.hits
}

func (s *verifStore) setDown() {
	if s.down {
		return
	}
	s.down = true
	s.mu.Lock()
	s.hdown = true
	s.mu.Unlock()
}

func (s *verifStore) setUp() error {
	if !s.down {
		return nil
	}
	s.down = false
	s.mu.Lock()
	s.hdown = false
	s.mu.Unlock()
	return nil
}

// a request context whose deadline "passes" exactly when the executor says so (no real waiting):
// valid during the call, Err() = context.DeadlineExceeded from the moment the call has returned
type verifDeadlineCtx struct {
	mu     sync.Mutex
	done   chan struct{}
	err    error
	at     time.Time
	cancel bool // a cancel-only context: no deadline, Err() becomes context.Canceled
}

func (c *verifDeadlineCtx) Deadline() (time.Time, bool) { return c.at, !c.cancel }
func (c *verifDeadlineCtx) Done() <-chan struct{}       { return c.done }
func (c *verifDeadlineCtx) Value(any) any               { return nil }
func (c *verifDeadlineCtx) Err() error {
	c.mu.Lock()
	defer c.mu.Unlock()
	return c.err
}
func (c *verifDeadlineCtx) expire() {
	c.mu.Lock()
	defer c.mu.Unlock()
	if c.err == nil {
		c.err = context.DeadlineExceeded
		if c.cancel {
			c.err = context.Canceled
		}
		close(c.done)
	}
}

// the request contexts of a case
type verifCtxs struct{}

func (x *verifCtxs) make(kind string) (context.Context, func()) {
	switch kind {
	case "live": // a request-scoped context: cancelled when the request is over
		ctx, cancel := context.WithCancel(context.Background())
		return ctx, cancel
	case "deadline": // still valid during the call, past by the time the store recovers
		ctx := &verifDeadlineCtx{done: make(chan struct{}), at: time.Now().Add(time.Hour)}
		return ctx, ctx.expire
	case "cancelled":
		ctx, cancel := context.WithCancel(context.Background())
		cancel()
		return ctx, func() {}
	case "during:deadline", "during:cancel":
		// live on entry; the executor makes it done at a chosen instant DURING the store call (see verifDrop)
		ctx := &verifDeadlineCtx{done: make(chan struct{}), at: time.Now().Add(time.Hour), cancel: kind == "during:cancel"}
		return ctx, ctx.expire
	case "expired": // the deadline has passed before the call is made
		ctx := &verifDeadlineCtx{done: make(chan struct{}), at: time.Now().Add(-time.Second)}
		ctx.expire()
		return ctx, func() {}
	}
	return context.Background(), func() {}
}

func (x *verifCtxs) release() {}

func verifPeriodOnce(c verifCase) (out verifOut) {
	out = verifOut{ID: c.ID}
	mr, err := miniredis.Run()
	if err != nil {
		out.Err = err.Error()
		return
	}
	st := &verifStore{mr: mr, hard: c.Hard}
	st.install()
	cx := &verifCtxs{}
	defer func() {
		if st.down {
			st.setUp()
		}
		cx.release()
		verifPark(mr)
	}()
	var opts []PeriodOption
	var unix0 int64
	if c.Align {
		// calcExpireSeconds reads time.Now() and its zone and cannot be given a clock: the
		// executor samples the same clock before and after the (sub-second) case and the case
		// is repeated when the second changed in between; the model's clock starts there
		opts = append(opts, Align())
		now := time.Now()
		_, out.Offset = now.Zone()
		unix0 = now.Unix()
		out.BaseMs = unix0 * 1000
	}
	lims := make([]*PeriodLimit, c.Lims)
	for i := range lims {
		// separate Redis objects = separate callers (they share go-zero's per-address client)
		lims[i] = NewPeriodLimit(c.Period, c.Quota, redis.New(mr.Addr()), c.Prefix, opts...)
	}
	for _, op := range c.Ops {
		switch op[0].(string) {
		case "take": // ["take", lim, key, {"ctx": kind, "fault": kind}]
			o := vopts(op, 3)
			fault := vstr(o, "fault")
			if fault != "" {
				st.arm(fault)
			}
			var code int
			var err error
			if kind := vstr(o, "ctx"); kind != "" {
				ctx, done := cx.make(kind)
				code, err = lims[vnum(op[1])].TakeCtx(ctx, c.Keys[vnum(op[2])])
				done()
			} else {
				code, err = lims[vnum(op[1])].Take(c.Keys[vnum(op[2])])
			}
			if fault != "" {
				// (how many script commands the call sent while the fault was armed is not the executor's business:
				// whatever the call answered is judged against "the store answered the call with this reply")
				st.disarm()
			}
			// third component: the circuit breaker let the command through
			out.Obs = append(out.Obs, []any{code, err != nil, !errors.Is(err, breaker.ErrServiceUnavailable)})
		case "ttl":
			k := c.Prefix + c.Keys[vnum(op[1])]
			switch {
			case !mr.Exists(k):
				out.Obs = append(out.Obs, map[string]int64{"ttl": -2})
			case mr.TTL(k) == 0:
				out.Obs = append(out.Obs, map[string]int64{"ttl": -1})
			default:
				out.Obs = append(out.Obs, map[string]int64{"ttl": mr.TTL(k).Milliseconds()})
			}
		case "adv":
			mr.FastForward(time.Duration(vnum(op[1])) * time.Millisecond)
			out.Obs = append(out.Obs, nil)
		case "down":
			st.setDown()
			out.Obs = append(out.Obs, nil)
		case "up":
			if err := st.setUp(); err != nil {
				out.Err = err.Error()
				return
			}
			out.Obs = append(out.Obs, nil)
		case "poke":
			if !st.down {
				mr.Set(c.Prefix+c.Keys[vnum(op[1])], op[2].(string))
			}
			out.Obs = append(out.Obs, nil)
		default:
			out.Err = "unknown op"
			return
		}
	}
	if c.Align && time.Now().Unix() != unix0 {
		out.Disturbed = true
	}
	return
}

func verifPeriod(c verifCase) verifOut {
	var out verifOut
	for attempt := 0; attempt < 4; attempt++ {
		out = verifPeriodOnce(c)
		if !out.Disturbed || out.Err != "" {
			break
		}
	}
	return out
}

// The three fields of TokenLimiter the executor looks at (READ: the alive flag and the monitor flag; HELD: the
// mutex that guards the monitor flag) are found by reflection: by today's name when it still exists with the
// expected type, otherwise as THE field of that type - a renamed field is not a reason for an alarm.
type verifFields struct {
	alive   *uint32
	started *bool
	lock    *sync.Mutex
}

var (
	verifFieldCache   = map[*TokenLimiter]verifFields{}
	verifFieldCacheMu sync.Mutex
)

func verifOf(l *TokenLimiter) verifFields {
	verifFieldCacheMu.Lock()
	defer verifFieldCacheMu.Unlock()
	if f, ok := verifFieldCache[l]; ok {
		return f
	}
	v := reflect.ValueOf(l).Elem()
	t := v.Type()
	pick := func(name string, typ reflect.Type) unsafe.Pointer {
		if f, ok := t.FieldByName(name); ok && f.Type == typ {
			return unsafe.Pointer(v.FieldByIndex(f.Index).UnsafeAddr())
		}
		at := -1
		for i := 0; i < t.NumField(); i++ {
			if t.Field(i).Type == typ {
				if at >= 0 {
					panic("verif: TokenLimiter." + name + " not found and several fields have its type")
				}
				at = i
			}
		}
		if at < 0 {
			panic("verif: TokenLimiter has no field like " + name)
		}
		return unsafe.Pointer(v.Field(at).UnsafeAddr())
	}
	f := verifFields{
		alive:   (*uint32)(pick("redisAlive", reflect.TypeOf(uint32(0)))),
		started: (*bool)(pick("monitorStarted", reflect.TypeOf(false))),
		lock:    (*sync.Mutex)(pick("rescueLock", reflect.TypeOf(sync.Mutex{}))),
	}
	verifFieldCache[l] = f
	return f
}

// (reserveN's own reading of the flag: rescue mode iff it is 0)
func verifAlive(l *TokenLimiter) bool { return atomic.LoadUint32(verifOf(l).alive) != 0 }

func verifMonitor(l *TokenLimiter) bool {
	f := verifOf(l)
	f.lock.Lock()
	defer f.lock.Unlock()
	return *f.started
}

// wait until every running monitor has seen the (reachable) store: normally ~pingInterval.  An
// instance that has not switched back after `patience` (>= 20 monitor periods) is reported as
// such (alive = false); that is an observation, judged by the check, not an executor error.
func verifSync(lims []*TokenLimiter, patience time.Duration, held map[int]bool) []bool {
	deadline := time.Now().Add(patience)
	res := make([]bool, len(lims))
	for i, l := range lims {
		if held[i] { // the executor holds this limiter's rescueLock: its monitor cannot finish now
			res[i] = verifAlive(l)
			continue
		}
		polls := 0
		for {
			if verifAlive(l) && !verifMonitor(l) {
				res[i] = true
				break
			}
			if !verifAlive(l) && !verifMonitor(l) {
				break // dead without a monitor: would never recover
			}
			// the wall clock alone is no measure on a loaded machine (the whole process may have been
			// off the CPU): the wait also has to have polled often enough for the monitor goroutine
			// to have been scheduled many times
			if time.Now().After(deadline) && polls >= 400 {
				res[i] = verifAlive(l)
				break
			}
			polls++
			time.Sleep(2 * time.Millisecond)
		}
	}
	return res
}

func verifTokenOnce(c verifCase) (out verifOut) {
	out = verifOut{ID: c.ID}
	mr, err := miniredis.Run()
	if err != nil {
		out.Err = err.Error()
		return
	}
	st := &verifStore{mr: mr, hard: c.Hard}
	st.install()
	cx := &verifCtxs{}
	lims := make([]*TokenLimiter, c.N)
	held := map[int]bool{} // limiters whose rescueLock the executor holds (white-box gate)
	patience := 2 * time.Second
	if c.Breaker {
		patience = 6 * time.Second // an open breaker also rejects the monitor's pings for a while
	}
	defer func() {
		// let monitors finish so that no goroutine keeps pinging a dead port
		verifLog.open()
		st.mu.Lock()
		if st.pgate {
			st.pgate = false
			close(st.pgateCh)
		}
		st.mu.Unlock()
		if st.down {
			st.setUp()
		}
		cx.release()
		for i := range held {
			if held[i] {
				held[i] = false
				verifOf(lims[i]).lock.Unlock()
			}
		}
		verifSync(lims, 300*time.Millisecond, nil)
		if st.side != nil {
			st.side.Close()
		}
		verifPark(mr)
	}()
	expect := make([]bool, c.N)
	shared := redis.New(mr.Addr())
	for i := range lims {
		store := shared
		if !c.Shared {
			store = redis.New(mr.Addr()) // separate Redis objects (they still share go-zero's per-address client)
		}
		if len(c.Groups) > 0 {
			g := c.Groups[c.InstGroup[i]]
			lims[i] = NewTokenLimiter(g.Rate, g.Burst, store, g.Key)
		} else {
			lims[i] = NewTokenLimiter(c.Rate, c.Burst, store, c.Key)
		}
		expect[i] = true
	}
	clock := c.BaseMs
	failedCalls := 0
	var sec int64
	if c.Wall {
		// Allow() / AllowCtx() read time.Now(): the case runs on the wall clock at whole-second
		// granularity (all the script uses); the model's clock starts at the sampled second
		sec = time.Now().Unix()
		clock = sec * 1000
		out.BaseMs = clock
	}
	for _, op := range c.Ops {
		switch op[0].(string) {
		case "allow": // ["allow", i, n, {"skew": ms, "api": .., "ctx": kind, "fault": kind}]
			i := vnum(op[1])
			if held[int(i)] {
				out.Err = "call on a limiter whose rescueLock the executor holds"
				return
			}
			n := int(vnum(op[2]))
			o := vopts(op, 3)
			now := clock
			if v, ok := o["skew"].(float64); ok {
				now += int64(v) // deliberate clock skew of the caller
			}
			before := verifAlive(lims[i])
			if before != expect[i] {
				out.Disturbed = true // a monitor ticked at an unplanned moment
			}
			fault := vstr(o, "fault")
			if fault != "" {
				st.arm(fault)
			}
			st.mu.Lock()
			st.nSha, st.nEval = 0, 0
			loaded := st.loaded
			st.mu.Unlock()
			ctx, done := cx.make(vstr(o, "ctx"))
			during := strings.HasPrefix(vstr(o, "ctx"), "during:")
			if during {
				ran, _ := o["ran"].(bool)
				st.mu.Lock()
				st.drop, st.dropHits = &verifDrop{ran: ran, fire: done}, 0
				st.mu.Unlock()
			}
			// a CONNECTION-level fault with a healthy store and a live context: the pooled connection on which the
			// call's script command was written is dropped without a reply (reset by a proxy, idle connection
			// killed, fail-over); every other connection works, PING works.  The store is reachable: the command
			// is sent again on another connection (go-redis' retry) and the call is answered by the shared bucket.
			connDrop := vstr(o, "conn") == "drop"
			if connDrop {
				st.mu.Lock()
				st.drop, st.dropHits = &verifDrop{ran: false, fire: func() {}}, 0
				st.mu.Unlock()
			}
			var ok bool
			switch vstr(o, "api") {
			case "AllowNCtx":
				ok = lims[i].AllowNCtx(ctx, time.UnixMilli(now), n)
			case "Allow":
				ok = lims[i].Allow()
			case "AllowCtx":
				ok = lims[i].AllowCtx(ctx)
			default:
				ok = lims[i].AllowN(time.UnixMilli(now), n)
			}
			done()
			if during || connDrop {
				st.mu.Lock()
				hits := st.dropHits
				st.drop = nil
				st.mu.Unlock()
				want := 0
				if before {
					want = 1
				}
				if hits != want {
					out.Disturbed = true // the call never reached the store (cut off by the breaker)
				}
			}
			if fault != "" {
				want := 0
				if before {
					want = 1
				}
				if hits := st.disarm(); hits != want {
					// the call never reached the store (cut off by the breaker) or sent several script commands:
					// the forged reply was not what this call was answered with - take the run again
					out.Disturbed = true
				}
			}
			if c.Wall && time.Now().Unix() != sec {
				out.Disturbed = true // the second changed during the call
			}
			after := verifAlive(lims[i])
			expect[i] = after
			// the reply of the script is not visible through AllowN: the circuit breaker cut the
			// call off iff the instance fell back although the store is up and its script was never
			// run: no command arrived at all, or only the EVALSHA that was answered NOSCRIPT (the
			// breaker wraps every command, so it can drop the EVAL that follows)
			st.mu.Lock()
			notRun := st.nSha == 0 || (!loaded && st.nEval == 0)
			st.mu.Unlock()
			brk := !(before && !after && !st.down && fault == "" && notRun)
			if !brk && (failedCalls < 3 || c.Hard) {
				// cut off by the circuit breaker although fewer than 3 calls failed: it was fed by
				// monitor pings that failed in real time (outside the model): the run says nothing
				out.Disturbed = true
			}
			if before && !after {
				failedCalls++
			}
			out.Obs = append(out.Obs, []bool{ok, before, after, brk})
		case "par": // ["par", i, [n1, n2, ...]]: concurrent calls on ONE instance during an outage
			i := vnum(op[1])
			if held[int(i)] {
				out.Err = "call on a limiter whose rescueLock the executor holds"
				return
			}
			sizes := op[2].([]any)
			before := verifAlive(lims[i])
			if before != expect[i] {
				out.Disturbed = true
			}
			res := make([][]bool, len(sizes))
			if before && st.down && !st.hard {
				// all callers pass the redisAlive check before any of them gets its (error) reply:
				// the hook holds the EVALSHA commands until all have arrived
				st.mu.Lock()
				st.gate, st.arrived, st.gateCh = len(sizes), 0, make(chan struct{})
				st.mu.Unlock()
				var wg sync.WaitGroup
				for k, v := range sizes {
					wg.Add(1)
					go func(k int, n int) {
						defer wg.Done()
						ok := lims[i].AllowN(time.UnixMilli(clock), n)
						res[k] = []bool{ok, true, verifAlive(lims[i]), true}
					}(k, int(vnum(v)))
				}
				wg.Wait()
				st.mu.Lock()
				if st.arrived != len(sizes) {
					out.Disturbed = true
				}
				st.gate = 0
				st.mu.Unlock()
				// each caller reports the flag as it finds it after ITS call; the last word is the flag now
				for k := range res {
					res[k][2] = verifAlive(lims[i])
				}
			} else {
				for k, v := range sizes {
					b := verifAlive(lims[i])
					ok := lims[i].AllowN(time.UnixMilli(clock), int(vnum(v)))
					res[k] = []bool{ok, b, verifAlive(lims[i]), true}
				}
			}
			if before && !verifAlive(lims[i]) {
				failedCalls += len(sizes)
			}
			expect[i] = verifAlive(lims[i])
			out.Obs = append(out.Obs, map[string]any{"par": res, "gated": before && st.down && !st.hard})
		case "adv":
			d := vnum(op[1])
			clock += d
			mr.FastForward(time.Duration(d) * time.Millisecond)
			out.Obs = append(out.Obs, nil)
		case "nextsec": // wall cases: wait for the next wall-clock second
			for time.Now().Unix() == sec {
				time.Sleep(time.Duration(1000-time.Now().UnixMilli()%1000+3) * time.Millisecond)
			}
			ns := time.Now().Unix()
			d := (ns - sec) * 1000
			sec = ns
			clock += d
			mr.FastForward(time.Duration(d) * time.Millisecond)
			out.Obs = append(out.Obs, map[string]int64{"adv": d})
		case "down":
			st.setDown()
			out.Obs = append(out.Obs, nil)
		case "lock": // the executor takes limiter i's rescueLock: whoever wants to finish that limiter's recovery blocks
			i := int(vnum(op[1]))
			if !held[i] {
				verifOf(lims[i]).lock.Lock()
				held[i] = true
			}
			out.Obs = append(out.Obs, nil)
		case "unlock": // ... and gives it back; the held-up recovery of limiter i completes
			i := int(vnum(op[1]))
			if held[i] {
				held[i] = false
				verifOf(lims[i]).lock.Unlock()
			}
			deadline := time.Now().Add(patience)
			for polls := 0; ; polls++ {
				if !verifMonitor(lims[i]) || (time.Now().After(deadline) && polls >= 400) {
					break
				}
				time.Sleep(2 * time.Millisecond)
			}
			expect[i] = verifAlive(lims[i])
			out.Obs = append(out.Obs, map[string]bool{"alive1": verifAlive(lims[i])})
		case "parm": // the reply to every PING that the store answers from now on is held back
			st.mu.Lock()
			st.pgate, st.pheld, st.pgateCh = true, 0, make(chan struct{})
			st.mu.Unlock()
			out.Obs = append(out.Obs, nil)
		case "uph": // the store answers again; wait until every running monitor's PING has been answered (and is held)
			if err := st.setUp(); err != nil {
				out.Err = err.Error()
				return
			}
			running := make([]bool, len(lims))
			want := 0
			for i, l := range lims {
				running[i] = !held[i] && verifMonitor(l) && !verifAlive(l)
				if running[i] {
					want++
				}
			}
			deadline := time.Now().Add(patience)
			for polls := 0; ; polls++ {
				st.mu.Lock()
				h := st.pheld
				st.mu.Unlock()
				if h >= want {
					break
				}
				if time.Now().After(deadline) && polls >= 400 {
					out.Disturbed = true
					break
				}
				time.Sleep(2 * time.Millisecond)
			}
			out.Obs = append(out.Obs, map[string][]bool{"held": running})
		case "prelease": // the held PONGs are delivered: the monitors store redisAlive = 1 and leave
			st.mu.Lock()
			if st.pgate {
				st.pgate = false
				close(st.pgateCh)
			}
			st.mu.Unlock()
			alive := make([]bool, len(lims))
			deadline := time.Now().Add(patience)
			for polls := 0; ; polls++ {
				done := true
				for i, l := range lims {
					alive[i] = verifAlive(l)
					if !held[i] && verifMonitor(l) {
						done = false
					}
				}
				if done || (time.Now().After(deadline) && polls >= 400) {
					break
				}
				time.Sleep(2 * time.Millisecond)
			}
			for i := range expect {
				expect[i] = alive[i]
			}
			out.Obs = append(out.Obs, map[string][]bool{"alive": alive})
		case "arm": // from now on the monitor goroutine is parked inside any log call it makes
			verifLog.arm()
			out.Obs = append(out.Obs, nil)
		case "release":
			verifLog.open()
			out.Obs = append(out.Obs, nil)
		case "upw": // the store answers again; wait until the monitors have SEEN it (redisAlive = 1), not until they are gone
			if err := st.setUp(); err != nil {
				out.Err = err.Error()
				return
			}
			alive := make([]bool, len(lims))
			deadline := time.Now().Add(patience)
			for polls := 0; ; polls++ {
				all := true
				for i, l := range lims {
					alive[i] = verifAlive(l)
					all = all && (alive[i] || held[i])
				}
				if all || (time.Now().After(deadline) && polls >= 400) {
					break
				}
				time.Sleep(2 * time.Millisecond)
			}
			// a monitor that logs on its way out arrives in the gate now; HEAD's has already gone
			for k := 0; k < 30 && verifLog.parked() == 0; k++ {
				anyMon := false
				for i, l := range lims {
					anyMon = anyMon || (!held[i] && verifMonitor(l))
				}
				if !anyMon {
					break
				}
				time.Sleep(time.Millisecond)
			}
			for i := range expect {
				expect[i] = alive[i]
			}
			out.Obs = append(out.Obs, map[string][]bool{"alive": alive})
		case "hold": // real time passes (an outage long enough for monitor pings to fail)
			time.Sleep(time.Duration(vnum(op[1])) * time.Millisecond)
			out.Obs = append(out.Obs, nil)
		case "up", "sync":
			if op[0].(string) == "up" {
				if err := st.setUp(); err != nil {
					out.Err = err.Error()
					return
				}
			}
			if !st.down {
				alive := verifSync(lims, patience, held)
				for i := range expect {
					expect[i] = alive[i]
				}
				out.Obs = append(out.Obs, map[string][]bool{"alive": alive})
			} else {
				out.Obs = append(out.Obs, nil)
			}
		default:
			out.Err = "unknown op"
			return
		}
	}
	st.mu.Lock()
	pings := st.pings
	st.mu.Unlock()
	if !c.Breaker && !c.Hard && pings > 1 {
		// the outage lasted long enough in real time for monitor pings to fail: they feed go-zero's
		// circuit breaker, which is outside the model - run the case again
		out.Disturbed = true
	}
	return
}

func verifToken(c verifCase) verifOut {
	var out verifOut
	for attempt := 0; attempt < 4; attempt++ {
		out = verifTokenOnce(c)
		if !out.Disturbed || out.Err != "" {
			break
		}
	}
	return out
}

func TestVerifC03(t *testing.T) {
	logx.DisableStat()
	logx.SetLevel(logx.DebugLevel)
	logx.SetWriter(verifLog)
	// PeriodLimit with Align() reads the zone of time.Now(): the run chooses the process' zone
	if v := os.Getenv("VERIF_TZ_OFFSET"); v != "" {
		if off, err := strconv.Atoi(v); err == nil {
			time.Local = time.FixedZone("verif", off)
		}
	}
	data, err := os.ReadFile(os.Getenv("VERIF_IN"))
	if err != nil {
		t.Fatal(err)
	}
	var cases []verifCase
	if err := json.Unmarshal(data, &cases); err != nil {
		t.Fatal(err)
	}
	f, err := os.Create(os.Getenv("VERIF_OUT"))
	if err != nil {
		t.Fatal(err)
	}
	defer f.Close()
	w := bufio.NewWriter(f)
	defer w.Flush()
	defer func() {
		for _, mr := range verifServers {
			mr.Close()
		}
	}()
	// cases are independent (own server, own limiter objects): a small worker pool hides the
	// real-time waits (100 ms monitor ticks, deadlines, wall-clock seconds)
	outs := make([]verifOut, len(cases))
	var wg sync.WaitGroup
	next := int64(-1)
	for k := 0; k < 6; k++ {
		wg.Add(1)
		go func() {
			defer wg.Done()
			for {
				j := int(atomic.AddInt64(&next, 1))
				if j >= len(cases) {
					return
				}
				if cases[j].Window {
					continue // the log gate is process-wide: these run alone, below
				}
				func() {
					defer func() {
						if r := recover(); r != nil {
							outs[j] = verifOut{ID: cases[j].ID, Err: "panic"}
						}
					}()
					if cases[j].Kind == "period" {
						outs[j] = verifPeriod(cases[j])
					} else {
						outs[j] = verifToken(cases[j])
					}
				}()
			}
		}()
	}
	wg.Wait()
	for j := range cases {
		if cases[j].Window {
			func() {
				defer func() {
					if r := recover(); r != nil {
						outs[j] = verifOut{ID: cases[j].ID, Err: "panic"}
					}
				}()
				outs[j] = verifToken(cases[j])
			}()
		}
	}
	for _, out := range outs {
		b, _ := json.Marshal(out)
		w.Write(b)
		w.WriteByte('\n')
	}
}
