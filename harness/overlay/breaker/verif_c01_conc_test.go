package breaker

func verifRunConc(c verifC01Case) verifC01Out {
	return verifC01Out{ID: c.ID, Err: "concurrent schedules not implemented"}
}
