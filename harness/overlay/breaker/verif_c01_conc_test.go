// Forced interleavings of concurrent calls for C01 (see verif_c01_test.go).
// A schedule is a list of (thread, dt): the virtual clock advances by dt and the thread
// performs its next action:
//
//	start  - the call runs up to the point where the breaker hands control to the caller:
//	         a rejected call (or a done context) runs to completion (accept, markDrop,
//	         fallback); an admitted Do* call parks inside its request; an admitted Allow
//	         returns its promise;
//	finish - the parked request returns its outcome (the breaker then marks success or
//	         failure and the call returns) / the promise is resolved.
//
// The gates sit in the user callbacks only; the controller waits on channels, so the
// implementation executes exactly the given interleaving of accept and mark steps.
package breaker

import (
	"context"
	"fmt"
	"time"

	"github.com/zeromicro/go-zero/core/mathx"
	"github.com/zeromicro/go-zero/core/timex"
)

type verifThread struct {
	state   int // 0 not started, 1 parked, 2 returned
	parked  chan struct{}
	release chan struct{}
	done    chan struct{}
	promise Promise
	res     int64
	req     int64
	fb      int64
	fbArg   int64
}

func verifRunConc(c verifC01Case) (out verifC01Out) {
	out.ID = c.ID
	defer func() {
		if r := recover(); r != nil {
			out.Err = fmt.Sprintf("executor panic: %v", r)
		}
	}()
	timex.SetFakeNow(time.Duration(c.Base))
	brk := NewBreaker()
	gb, err := verifUnwrap(brk)
	if err != nil {
		out.Err = err.Error()
		return
	}
	src := &verifC01Src{}
	gb.proba = mathx.NewProbaWithSource(src)
	cancelled, cancel := context.WithCancel(context.Background())
	cancel()
	ths := make([]*verifThread, len(c.Calls))
	for i := range ths {
		ths[i] = &verifThread{parked: make(chan struct{}), release: make(chan struct{}), done: make(chan struct{})}
	}

	start := func(tid int) {
		k := c.Calls[tid]
		entry, ctxm, outc, m := k[0], k[1], k[2], k[5]
		t := ths[tid]
		src.next = m
		ctx := context.Background()
		if ctxm == 2 {
			ctx = cancelled
		}
		if entry >= 4 {
			p, err := verifAllow(brk, ctxm, ctx)
			t.res = verifClass(err)
			if err == nil {
				t.promise = p
				t.state = 1
			} else {
				t.state = 2
			}
			return
		}
		pv := &verifPanic{n: tid}
		var pst verifPredState
		acceptable := verifPred(outc, any(pv), &pst)
		req := func() error {
			t.req++
			t.parked <- struct{}{}
			<-t.release
			return pst.returned(verifOutcome(outc, pv))
		}
		fb := func(err error) error {
			t.fb++
			if err == ErrServiceUnavailable {
				t.fbArg = 1
			}
			return verifErrFB
		}
		go func() {
			defer close(t.done)
			defer func() {
				if r := recover(); r != nil {
					t.res = verifPanicClass(r, any(pv))
				}
			}()
			t.res = verifClass(verifInvoke(brk, entry, ctxm, ctx, req, fb, acceptable))
		}()
		select {
		case <-t.parked:
			t.state = 1
		case <-t.done:
			t.state = 2
		}
	}
	finish := func(tid int) {
		t := ths[tid]
		if c.Calls[tid][0] >= 4 {
			if c.Calls[tid][0] == 4 {
				t.promise.Accept()
			} else {
				t.promise.Reject("verif")
			}
			t.res = resNil
		} else {
			close(t.release)
			<-t.done
		}
		t.state = 2
	}

	for _, a := range c.Conc.Sched {
		tid, dt := int(a[0]), a[1]
		timex.AdvanceFake(time.Duration(dt))
		src.draws = 0
		if tid >= 0 && tid < len(ths) {
			switch ths[tid].state {
			case 0:
				start(tid)
			case 1:
				finish(tid)
			}
		}
		s := verifRead(gb)
		last := int64(gb.lastPass.Load())
		if last != 0 {
			last -= c.Base
		} else {
			last = -1
		}
		out.Obs = append(out.Obs, []int64{src.draws, last, s.acc, s.tot, s.failing, s.working, s.fail, s.drop})
	}
	// per-thread observations as of the end of the schedule, then let parked calls go
	for _, t := range ths {
		res := t.res
		if t.state != 2 {
			res = -1
		}
		out.Obs = append(out.Obs, []int64{int64(t.state), res, t.req, t.fb, t.fbArg})
	}
	for tid, t := range ths {
		if t.state == 1 {
			finish(tid)
		}
	}
	return
}
