// Overlay ADDED to core/breaker at build time by the verification harness for the wrapper
// executors of C01 (never committed to /repo; no existing file is replaced).  It gives tests
// in OTHER packages (rest/handler, zrpc/internal/..., core/stores/redis, core/stores/sqlx)
// a handle on a real breaker: inject the next random draw, read the window sums, preload
// failures.  It also carries the JSON case I/O shared by those executors.
package breaker

import (
	"bufio"
	"context"
	"database/sql"
	"encoding/json"
	"errors"
	"fmt"
	"os"
	"sync"
	"time"

	"github.com/zeromicro/go-zero/core/mathx"
)

type verifProbeSrc struct{ next int64 }

func (s *verifProbeSrc) Int63() int64 { return s.next << 10 }
func (s *verifProbeSrc) Seed(int64)   {}

// VerifProbe is a handle on the googleBreaker behind a Breaker.
type VerifProbe struct {
	gb  *googleBreaker
	src *verifProbeSrc
}

// VerifAttach unwraps NewBreaker()'s result and installs an injectable draw source
// (draw = m / 2^53, see core/mathx/proba_verif.go).
func VerifAttach(b Breaker) (*VerifProbe, error) {
	cb, ok := b.(*circuitBreaker)
	if !ok {
		return nil, fmt.Errorf("breaker is %T", b)
	}
	lt, ok := cb.throttle.(loggedThrottle)
	if !ok {
		return nil, fmt.Errorf("throttle is %T", cb.throttle)
	}
	gb, ok := lt.internalThrottle.(*googleBreaker)
	if !ok {
		return nil, fmt.Errorf("internal throttle is %T", lt.internalThrottle)
	}
	src := &verifProbeSrc{}
	gb.proba = mathx.NewProbaWithSource(src)
	return &VerifProbe{gb: gb, src: src}, nil
}

// SetDraw sets the next draws to m / 2^53.
func (p *VerifProbe) SetDraw(m int64) { p.src.next = m }

// Sums returns the window sums (Success, Failure, Drop, Sum) through stat.Reduce.
func (p *VerifProbe) Sums() [4]int64 {
	var s [4]int64
	p.gb.stat.Reduce(func(b *bucket) {
		s[0] += b.Success
		s[1] += b.Failure
		s[2] += b.Drop
		s[3] += b.Sum
	})
	return s
}

// Preload records n failures.
func (p *VerifProbe) Preload(n int) {
	for i := 0; i < n; i++ {
		p.gb.markFailure()
	}
}

// VerifForce prepares the breaker so that its next decision is forced: reject=true loads 100
// failures (dropRatio = 95/101, lastPass unset) and sets the draw to 0; reject=false leaves
// it empty (dropRatio < 0).
func (p *VerifProbe) VerifForce(reject bool) {
	if reject {
		p.Preload(100)
	}
	p.SetDraw(0)
}

// VerifReadCases reads the JSON array of cases from $VERIF_IN.
func VerifReadCases(v any) error {
	data, err := os.ReadFile(os.Getenv("VERIF_IN"))
	if err != nil {
		return err
	}
	return json.Unmarshal(data, v)
}

// VerifWriter writes one JSON object per line to $VERIF_OUT.
type VerifWriter struct {
	f *os.File
	w *bufio.Writer
}

func VerifNewWriter() (*VerifWriter, error) {
	f, err := os.Create(os.Getenv("VERIF_OUT"))
	if err != nil {
		return nil, err
	}
	return &VerifWriter{f: f, w: bufio.NewWriterSize(f, 1<<20)}, nil
}

func (w *VerifWriter) Put(v any) {
	b, _ := json.Marshal(v)
	w.w.Write(b)
	w.w.WriteByte('\n')
}

func (w *VerifWriter) Close() {
	w.w.Flush()
	w.f.Close()
}

// context modes of a wrapper call (third field of a call)
const (
	VCLive             = 0 // live from entry to return
	VCDone             = 1 // cancelled before the call
	VCCancelAtReturn   = 2 // live at entry, cancelled while the downstream runs
	VCDeadlineAtReturn = 3 // live at entry, its deadline passes while the downstream runs
	VCExpired          = 4 // past its deadline before the call
)

// verifCtx is a controller-driven context: it is done exactly when the executor says so (no
// timer, no dependence on the load of the machine) and reports context.DeadlineExceeded with a
// deadline that has passed, like a context.WithDeadline whose time has come.
type verifCtx struct {
	context.Context
	mu   sync.Mutex
	done chan struct{}
	err  error
	dl   time.Time
}

func (c *verifCtx) Done() <-chan struct{} { return c.done }

func (c *verifCtx) Err() error {
	c.mu.Lock()
	defer c.mu.Unlock()
	return c.err
}

func (c *verifCtx) Deadline() (time.Time, bool) {
	c.mu.Lock()
	defer c.mu.Unlock()
	return c.dl, true
}

func (c *verifCtx) expire() {
	c.mu.Lock()
	defer c.mu.Unlock()
	if c.err == nil {
		c.err = context.DeadlineExceeded
		c.dl = time.Now().Add(-time.Millisecond)
		close(c.done)
	}
}

// VerifCtx returns the context of a call in the given mode and the function the downstream has
// to call just before it returns (it makes the context done in the modes "... at return").
func VerifCtx(mode int64) (context.Context, func()) {
	switch mode {
	case VCDone:
		ctx, cancel := context.WithCancel(context.Background())
		cancel()
		return ctx, func() {}
	case VCCancelAtReturn:
		ctx, cancel := context.WithCancel(context.Background())
		return ctx, cancel
	case VCDeadlineAtReturn, VCExpired:
		c := &verifCtx{Context: context.Background(), done: make(chan struct{}), dl: time.Now().Add(time.Hour)}
		if mode == VCExpired {
			c.expire()
			return c, func() {}
		}
		return c, c.expire
	}
	return context.Background(), func() {}
}

// VerifIsCtxErr: the error of a context that was done before the call.
func VerifIsCtxErr(err error) bool {
	return err == context.Canceled || err == context.DeadlineExceeded
}

// VerifWCase is a wrapper case: a list of independent calls
// [kind, reject, context mode, downstream class, grpc code].
type VerifWCase struct {
	ID    int       `json:"id"`
	Calls [][]int64 `json:"wcalls"`
}

// VerifWOut: per call [invoked, dSuccess, dFailure, dDrop, seen kind, seen code].
type VerifWOut struct {
	ID  int       `json:"id"`
	Obs [][]int64 `json:"obs"`
	Err string    `json:"err,omitempty"`
}

// downstream classes
const (
	VDNil = iota
	VDStatus
	VDCtxCanceled
	VDCtxDeadline
	VDBreakerUnavailable
	VDRedisNil
	VDWrappedRedisNil
	VDSqlNoRows
	VDSqlTxDone
	VDSqlAcceptable
	VDOther
	VDPanic
	VDWrappedCanceled
)

// %w-wrapped sentinels: every call site classifies with errors.Is / errors.As, not ==
const (
	VDWrappedDeadline           = 17
	VDWrappedBreakerUnavailable = 18
	VDWrappedSqlNoRows          = 19
	VDWrappedSqlTxDone          = 20
)

// error SHAPES (class VDShaped, code = 10*shape + sentinel): how a sentinel sits inside the error
const (
	VDShaped = 23

	VShWrap2     = 0 // two single-%w wrappers
	VShJoinFirst = 1 // errors.Join(sentinel, other)
	VShJoinLast  = 2 // errors.Join(other, sentinel)
	VShMultiW    = 3 // fmt.Errorf("%w ... %w", other, sentinel)
	VShCustomIs  = 4 // a type whose Is method matches the sentinel (and Timeout() == true)

	VBCanceled = iota - 6
	VBDeadline
	VBBreakerUnavailable
	VBRedisNil // supplied by the redis executor
	VBSqlNoRows
	VBSqlTxDone
)

type verifIsErr struct{ target error }

func (e *verifIsErr) Error() string        { return "verif: i/o timeout" }
func (e *verifIsErr) Is(target error) bool { return target == e.target }
func (e *verifIsErr) Timeout() bool        { return true }
func (e *verifIsErr) Temporary() bool      { return true }

// VerifSentinel returns the sentinel of a base index (nil: not one of the common ones).
func VerifSentinel(base int64) error {
	switch base {
	case VBCanceled:
		return context.Canceled
	case VBDeadline:
		return context.DeadlineExceeded
	case VBBreakerUnavailable:
		return ErrServiceUnavailable
	case VBSqlNoRows:
		return sql.ErrNoRows
	case VBSqlTxDone:
		return sql.ErrTxDone
	}
	return nil
}

// VerifShaped puts the sentinel into the shape.
func VerifShaped(shape int64, sentinel error) error {
	other := errors.New("verif: something else")
	switch shape {
	case VShWrap2:
		return fmt.Errorf("verif: outer: %w", fmt.Errorf("verif: inner: %w", sentinel))
	case VShJoinFirst:
		return errors.Join(sentinel, other)
	case VShJoinLast:
		return errors.Join(other, sentinel)
	case VShMultiW:
		return fmt.Errorf("verif: %w and %w", other, sentinel)
	}
	return &verifIsErr{target: sentinel}
}

// VerifWrapped returns the wrapped sentinel of the class (nil for every other class).
func VerifWrapped(class int64) error {
	switch class {
	case VDWrappedDeadline:
		return fmt.Errorf("verif: %w", context.DeadlineExceeded)
	case VDWrappedBreakerUnavailable:
		return fmt.Errorf("verif: downstream: %w", ErrServiceUnavailable)
	case VDWrappedSqlNoRows:
		return fmt.Errorf("verif: %w", sql.ErrNoRows)
	case VDWrappedSqlTxDone:
		return fmt.Errorf("verif: %w", sql.ErrTxDone)
	}
	return nil
}

// what the caller sees
const (
	VSNil = iota
	VSSame
	VSBreakerUnavailable
	VSStatus
	VSCtxErr
	VSPanic
	VSBool
	VSOtherSeen
)
