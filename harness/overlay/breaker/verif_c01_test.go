// White-box executor for C01, injected into package breaker with `go test -overlay`
// (never written under /repo).  It only executes: each case is a history of calls
// through the public Breaker entry points under the virtual clock of the timex overlay,
// with the random draw of every call injected through mathx.NewProbaWithSource (overlay).
// Per call it reports: class of the returned error / panic, how often request and
// fallback ran, the argument the fallback got, how many draws were made, lastPass, the
// window sums after the call (googleBreaker.history() and stat.Reduce) and the window
// sums just before the call (what accept() reads).
package breaker

import (
	"bufio"
	"context"
	"encoding/json"
	"errors"
	"fmt"
	"os"
	"testing"
	"time"

	"github.com/zeromicro/go-zero/core/mathx"
	"github.com/zeromicro/go-zero/core/timex"
)

type verifC01Case struct {
	ID    int       `json:"id"`
	Base  int64     `json:"base"`
	Calls [][]int64 `json:"calls"` // [entry, ctx, outcome, gap, dur, m]  (u = m / 2^53)
	Conc  *struct { // optional: forced interleaving of concurrent calls
		Sched [][]int64 `json:"sched"` // [tid, dt]
	} `json:"conc,omitempty"`
	Insts []int64    `json:"insts,omitempty"` // multi: several breakers / registry names (verif_c01_multi_test.go)
	Mops  []verifMOp `json:"mops,omitempty"`
}

type verifC01Out struct {
	ID  int       `json:"id"`
	Obs [][]int64 `json:"obs"`
	Err string    `json:"err,omitempty"`
}

// the injected source: Int63 returns next<<10, i.e. Float64() == next / 2^53
type verifC01Src struct {
	next  int64
	draws int64
}

func (s *verifC01Src) Int63() int64 { s.draws++; return s.next << 10 }
func (s *verifC01Src) Seed(int64)   {}

var (
	verifErrU  = errors.New("verif: unacceptable error")
	verifErrA  = errors.New("verif: acceptable error")
	verifErrFB = errors.New("verif: fallback result")
	// what a request returns when it went through a nested / downstream breaker that is open
	verifErrSUW = fmt.Errorf("verif: rpc downstream.Get: %w", ErrServiceUnavailable)
)

// outcomes of a request (Model.v: outcome)
const (
	outOk = iota
	outErrU
	outErrA
	outPanic
	outErrSU    // returns ErrServiceUnavailable itself
	outErrSUW   // returns the %w-wrapped ErrServiceUnavailable (acceptable to the caller's predicate)
	outCanceled // returns context.Canceled although the call's context is live (acceptable to the caller's predicate)
	outDeadline // returns context.DeadlineExceeded
	outErrFB    // returns the very value the fallback returns
	outPanicSU  // panic(ErrServiceUnavailable)
	// the caller's predicate as a user callback with a behaviour of its own (it looks at side state)
	outOkRej     // returns nil; the predicate says "unacceptable" (rest/httpc: a 5xx response behind a nil error)
	outErrUAcc   // returns the unacceptable error; the predicate accepts it this time
	outPredPanic // returns nil; the predicate panics
)

// verifOutcome is the tail of every request callback: return the error / raise the panic.
func verifOutcome(outc int64, pv any) error {
	switch outc {
	case outErrU, outErrUAcc:
		return verifErrU
	case outErrA:
		return verifErrA
	case outPanic:
		panic(pv)
	case outErrSU:
		return ErrServiceUnavailable
	case outErrSUW:
		return verifErrSUW
	case outCanceled:
		return context.Canceled
	case outDeadline:
		return context.DeadlineExceeded
	case outErrFB:
		return verifErrFB
	case outPanicSU:
		panic(ErrServiceUnavailable)
	}
	return nil
}

// the caller's predicate of DoWithAcceptable / DoWithFallbackAcceptable
func verifAcceptable(err error) bool {
	return err == nil || err == verifErrA || err == verifErrSUW || err == context.Canceled
}

// verifPredState: what the caller's predicate of ONE call saw
type verifPredState struct {
	calls, argOK int64
	ret          error
	retSet       bool
}

// returned is called by the request with the value it is about to return
func (st *verifPredState) returned(err error) error {
	st.ret, st.retSet = err, true
	return err
}

// verifPred builds the caller's predicate of one call.  It counts how often it is asked and
// whether it is asked about the value the request returned (nil included); for the outcomes
// above it answers from side state of the request, or panics.
func verifPred(outc int64, pv any, st *verifPredState) Acceptable {
	return func(err error) bool {
		st.calls++
		if st.retSet && err == st.ret {
			st.argOK++
		}
		switch outc {
		case outOkRej:
			return false
		case outErrUAcc:
			return true
		case outPredPanic:
			panic(pv)
		}
		return verifAcceptable(err)
	}
}

// class of a recovered panic value
func verifPanicClass(r, pv any) int64 {
	if r == pv {
		return resPanic
	}
	if e, ok := r.(error); ok && e == ErrServiceUnavailable {
		return resPanicSU
	}
	return resOther
}

type verifPanic struct{ n int }

const (
	resNil = iota
	resUnavailable
	resErrU
	resErrA
	resPanic
	resFallback
	resCtx
	resOther
	resErrSUW
	resDeadline
	resPanicSU
)

func verifClass(err error) int64 {
	switch err {
	case nil:
		return resNil
	case ErrServiceUnavailable:
		return resUnavailable
	case verifErrU:
		return resErrU
	case verifErrA:
		return resErrA
	case verifErrFB:
		return resFallback
	case context.Canceled:
		return resCtx
	case verifErrSUW:
		return resErrSUW
	case context.DeadlineExceeded:
		return resDeadline
	}
	return resOther
}

func verifUnwrap(b Breaker) (*googleBreaker, error) {
	cb, ok := b.(*circuitBreaker)
	if !ok {
		return nil, fmt.Errorf("NewBreaker returned %T", b)
	}
	lt, ok := cb.throttle.(loggedThrottle)
	if !ok {
		return nil, fmt.Errorf("throttle is %T", cb.throttle)
	}
	gb, ok := lt.internalThrottle.(*googleBreaker)
	if !ok {
		return nil, fmt.Errorf("internal throttle is %T", lt.internalThrottle)
	}
	return gb, nil
}

// the bit-level relation between the injected source and TrueOnProba
func verifProbaSelfTest() error {
	src := &verifC01Src{}
	p := mathx.NewProbaWithSource(src)
	for _, m := range []int64{0, 1, 1 << 13, 4503599627370497, 1<<53 - 1} {
		u := float64(m) / (1 << 53)
		src.next = m
		if p.TrueOnProba(u) {
			return fmt.Errorf("draw m=%d: u < u", m)
		}
		if m > 0 {
			src.next = m - 1
			if !p.TrueOnProba(u) {
				return fmt.Errorf("draw m=%d: (m-1)/2^53 < m/2^53 is false", m)
			}
		}
	}
	if src.draws != 9 {
		return fmt.Errorf("expected 9 draws, saw %d", src.draws)
	}
	return nil
}

type verifSums struct{ acc, tot, failing, working, fail, drop int64 }

func verifRead(gb *googleBreaker) verifSums {
	h := gb.history()
	var s verifSums
	s.acc, s.tot, s.failing, s.working = h.accepts, h.total, h.failingBuckets, h.workingBuckets
	gb.stat.Reduce(func(b *bucket) {
		s.fail += b.Failure
		s.drop += b.Drop
	})
	return s
}

// the four Do* entry points, with or without context
func verifInvoke(brk Breaker, entry, ctxm int64, ctx context.Context, req func() error, fb Fallback,
	acceptable Acceptable) error {
	switch entry {
	case 0:
		if ctxm == 0 {
			return brk.Do(req)
		}
		return brk.DoCtx(ctx, req)
	case 1:
		if ctxm == 0 {
			return brk.DoWithAcceptable(req, acceptable)
		}
		return brk.DoWithAcceptableCtx(ctx, req, acceptable)
	case 2:
		if ctxm == 0 {
			return brk.DoWithFallback(req, fb)
		}
		return brk.DoWithFallbackCtx(ctx, req, fb)
	default:
		if ctxm == 0 {
			return brk.DoWithFallbackAcceptable(req, fb, acceptable)
		}
		return brk.DoWithFallbackAcceptableCtx(ctx, req, fb, acceptable)
	}
}

func verifAllow(brk Breaker, ctxm int64, ctx context.Context) (Promise, error) {
	if ctxm == 0 {
		return brk.Allow()
	}
	return brk.AllowCtx(ctx)
}

func verifRunCase(c verifC01Case) (out verifC01Out) {
	out.ID = c.ID
	defer func() {
		if r := recover(); r != nil {
			out.Err = fmt.Sprintf("executor panic: %v", r)
		}
	}()
	timex.SetFakeNow(time.Duration(c.Base))
	brk := NewBreaker()
	gb, err := verifUnwrap(brk)
	if err != nil {
		out.Err = err.Error()
		return
	}
	src := &verifC01Src{}
	gb.proba = mathx.NewProbaWithSource(src)

	cancelled, cancel := context.WithCancel(context.Background())
	cancel()
	for i, k := range c.Calls {
		entry, ctxm, outc, gap, dur, m := k[0], k[1], k[2], k[3], k[4], k[5]
		timex.AdvanceFake(time.Duration(gap))
		src.next = m
		src.draws = 0
		pre := gb.history() // what accept() is about to read (read-only)
		var reqRuns, fbRuns, fbArgOK int64
		pv := &verifPanic{n: i}
		ctx := context.Background()
		if ctxm == 2 {
			ctx = cancelled
		}
		// ctxm 3: a context with a lifetime of its own - live when the call enters the breaker,
		// cancelled by the request itself before it returns (the breaker looks at it at entry only)
		cancelNow := func() {}
		if ctxm == 3 {
			ctx, cancelNow = context.WithCancel(context.Background())
		}
		var pst verifPredState
		acceptable := verifPred(outc, any(pv), &pst)
		req := func() error {
			reqRuns++
			timex.AdvanceFake(time.Duration(dur))
			cancelNow()
			return pst.returned(verifOutcome(outc, pv))
		}
		fb := func(err error) error {
			fbRuns++
			if err == ErrServiceUnavailable {
				fbArgOK = 1
			}
			return verifErrFB
		}
		var res int64
		func() {
			defer func() {
				if r := recover(); r != nil {
					res = verifPanicClass(r, any(pv))
				}
			}()
			var err error
			if entry <= 3 {
				err = verifInvoke(brk, entry, ctxm, ctx, req, fb, acceptable)
			} else {
				var p Promise
				p, err = verifAllow(brk, ctxm, ctx)
				if err == nil {
					timex.AdvanceFake(time.Duration(dur))
					cancelNow()
					if entry == 4 {
						p.Accept()
					} else {
						p.Reject("verif")
					}
				}
			}
			res = verifClass(err)
		}()
		cancelNow()
		s := verifRead(gb)
		last := int64(gb.lastPass.Load())
		if last != 0 {
			last -= c.Base
		} else {
			last = -1
		}
		out.Obs = append(out.Obs, []int64{res, reqRuns, fbRuns, fbArgOK, src.draws, last,
			s.acc, s.tot, s.failing, s.working, s.fail, s.drop,
			pre.accepts, pre.total, pre.failingBuckets, pre.workingBuckets, 10*pst.calls + pst.argOK})
	}
	return
}

func TestVerifC01(t *testing.T) {
	in := os.Getenv("VERIF_IN")
	if in == "" {
		t.Skip("VERIF_IN not set")
	}
	data, err := os.ReadFile(in)
	if err != nil {
		t.Fatal(err)
	}
	var cases []verifC01Case
	if err := json.Unmarshal(data, &cases); err != nil {
		t.Fatal(err)
	}
	f, err := os.Create(os.Getenv("VERIF_OUT"))
	if err != nil {
		t.Fatal(err)
	}
	defer f.Close()
	w := bufio.NewWriterSize(f, 1<<20)
	defer w.Flush()
	selfErr := verifProbaSelfTest()
	for _, c := range cases {
		var o verifC01Out
		if selfErr != nil {
			o = verifC01Out{ID: c.ID, Err: "proba self-test: " + selfErr.Error()}
		} else if c.Insts != nil {
			o = verifRunMulti(c)
		} else if c.Conc != nil {
			o = verifRunConc(c)
		} else {
			o = verifRunCase(c)
		}
		b, _ := json.Marshal(o)
		w.Write(b)
		w.WriteByte('\n')
	}
	timex.ClearFake()
}
