// Several breakers at once, the package-level registry and nested calls for C01 (see
// verif_c01_test.go).  A case has a list of instances
//
//	kind 0  a breaker made with NewBreaker() when the case starts,
//	kind 1  a NAME of the package-level registry (GetBreaker / breaker.Do*(name, ...)): the
//	        breaker comes into being at the first use of the name,
//
// and a list of operations: NoBreakerFor(name) or a call.  A call is a tree: the request of a
// call may itself go through another breaker (the inner call) and hand back what that one
// returned - unchanged or wrapped with %w when it is ErrServiceUnavailable - which is exactly
// how an admitted request comes to return the breaker's own sentinel.  via = 1 addresses the
// breaker through the package-level helpers breaker.Do / DoCtx / DoWithAcceptable[Ctx] /
// DoWithFallback[Ctx] / DoWithFallbackAcceptable[Ctx] by name, via = 0 through the methods of
// the instance (GetBreaker(name) for a name).
//
// One row per call node, in pre-order: [ran, res, reqRuns, fbRuns, fbArgOK, draws, lastPass,
// sums after (6), sums before (4)], all of the node's OWN instance; a node whose enclosing
// request never ran is reported with ran = 0.
package breaker

import (
	"context"
	"fmt"
	"time"

	"github.com/zeromicro/go-zero/core/mathx"
	"github.com/zeromicro/go-zero/core/timex"
)

type verifMNode struct {
	C  []int64     `json:"c"` // [inst, via, entry, ctx, outcome, gap, dur, m, wrap]
	In *verifMNode `json:"in,omitempty"`
}

type verifMOp struct {
	Call *verifMNode `json:"call,omitempty"`
	Nop  []int64     `json:"nop,omitempty"` // [inst, gap]: NoBreakerFor(name of inst)
}

type verifMInst struct {
	named bool
	name  string
	brk   Breaker        // what the name resolved to last time / the plain instance
	gb    *googleBreaker // nil for a nop breaker
	src   *verifC01Src
}

type verifMExec struct {
	base      int64
	insts     []*verifMInst
	rows      [][]int64
	next      int // pre-order index of the next node of the current operation
	pv        any
	cancelled context.Context
	err       string
}

func verifCount(n *verifMNode) int {
	if n == nil {
		return 0
	}
	return 1 + verifCount(n.In)
}

// resolve looks the name up (creating the breaker at the first use, now) and (re)attaches the
// injectable draw source whenever the name resolves to another breaker than last time.
func (x *verifMExec) resolve(i int64) *verifMInst {
	I := x.insts[i]
	if !I.named {
		return I
	}
	b := GetBreaker(I.name)
	if I.brk != nil && b == I.brk {
		return I
	}
	I.brk, I.gb, I.src = b, nil, &verifC01Src{}
	if _, ok := b.(*circuitBreaker); ok {
		gb, err := verifUnwrap(b)
		if err != nil {
			x.err = err.Error()
			return I
		}
		I.gb = gb
		gb.proba = mathx.NewProbaWithSource(I.src)
	}
	return I
}

func verifInvokeNamed(name string, entry, ctxm int64, ctx context.Context, req func() error, fb Fallback,
	acceptable Acceptable) error {
	switch entry {
	case 0:
		if ctxm == 0 {
			return Do(name, req)
		}
		return DoCtx(ctx, name, req)
	case 1:
		if ctxm == 0 {
			return DoWithAcceptable(name, req, acceptable)
		}
		return DoWithAcceptableCtx(ctx, name, req, acceptable)
	case 2:
		if ctxm == 0 {
			return DoWithFallback(name, req, fb)
		}
		return DoWithFallbackCtx(ctx, name, req, fb)
	default:
		if ctxm == 0 {
			return DoWithFallbackAcceptable(name, req, fb, acceptable)
		}
		return DoWithFallbackAcceptableCtx(ctx, name, req, fb, acceptable)
	}
}

// run executes one node; it returns what the call returned and re-raises what it raised.
func (x *verifMExec) run(n *verifMNode) error {
	k := n.C
	inst, via, entry, ctxm, outc, gap, dur, m, wrap := k[0], k[1], k[2], k[3], k[4], k[5], k[6], k[7], k[8]
	idx := x.next
	x.next++
	timex.AdvanceFake(time.Duration(gap))
	I := x.resolve(inst)
	var pre windowResult
	if I.gb != nil {
		pre = I.gb.history()
	}
	I.src.next = m
	I.src.draws = 0
	var reqRuns, fbRuns, fbArgOK int64
	ctx := context.Background()
	if ctxm == 2 {
		ctx = x.cancelled
	}
	// ctxm 3: live at entry, cancelled by the request itself before it returns
	cancelNow := func() {}
	if ctxm == 3 {
		ctx, cancelNow = context.WithCancel(context.Background())
	}
	defer cancelNow()
	body := func() error {
		// the request takes dur after the inner call - also when that one panics
		defer cancelNow()
		defer timex.AdvanceFake(time.Duration(dur))
		if n.In != nil {
			e := x.run(n.In)
			if wrap == 1 && e == ErrServiceUnavailable {
				e = verifErrSUW
			}
			return e
		}
		return verifOutcome(outc, x.pv)
	}
	// a leaf's predicate behaves as its outcome says; the request of a nested call hands the inner
	// call's result on: the plain predicate judges it
	acceptable := Acceptable(verifAcceptable)
	var pst verifPredState
	if n.In == nil {
		acceptable = verifPred(outc, x.pv, &pst)
	}
	req := func() error {
		reqRuns++
		return body()
	}
	fb := func(err error) error {
		fbRuns++
		if err == ErrServiceUnavailable {
			fbArgOK = 1
		}
		return verifErrFB
	}
	var res int64
	var ret error
	var raised any
	func() {
		defer func() {
			if r := recover(); r != nil {
				raised = r
				res = verifPanicClass(r, x.pv)
			}
		}()
		if entry <= 3 {
			if via == 1 && I.named {
				ret = verifInvokeNamed(I.name, entry, ctxm, ctx, req, fb, acceptable)
			} else {
				ret = verifInvoke(I.brk, entry, ctxm, ctx, req, fb, acceptable)
			}
		} else {
			var p Promise
			p, ret = verifAllow(I.brk, ctxm, ctx)
			if ret == nil {
				// what the caller does while holding the promise; a panic in there is the
				// caller's business (a REST handler recovers it and resolves the promise)
				func() {
					defer func() { recover() }()
					body()
				}()
				if entry == 4 {
					p.Accept()
				} else {
					p.Reject("verif")
				}
			}
		}
		res = verifClass(ret)
	}()
	row := make([]int64, 17)
	row[0], row[1], row[2], row[3], row[4], row[5], row[6] = 1, res, reqRuns, fbRuns, fbArgOK, I.src.draws, -1
	if I.gb != nil {
		s := verifRead(I.gb)
		if last := int64(I.gb.lastPass.Load()); last != 0 {
			row[6] = last - x.base
		}
		copy(row[7:], []int64{s.acc, s.tot, s.failing, s.working, s.fail, s.drop,
			pre.accepts, pre.total, pre.failingBuckets, pre.workingBuckets})
	}
	x.rows[idx] = row
	if raised != nil {
		panic(raised)
	}
	return ret
}

func verifRunMulti(c verifC01Case) (out verifC01Out) {
	out.ID = c.ID
	defer func() {
		if r := recover(); r != nil {
			out.Err = fmt.Sprintf("executor panic: %v", r)
		}
	}()
	timex.SetFakeNow(time.Duration(c.Base))
	x := &verifMExec{base: c.Base}
	var cancel context.CancelFunc
	x.cancelled, cancel = context.WithCancel(context.Background())
	cancel()
	for i, kind := range c.Insts {
		I := &verifMInst{named: kind == 1, src: &verifC01Src{}}
		if I.named {
			// names of one case differ as little as names can: case, trailing blank, prefix
			I.name = fmt.Sprintf("verif-c01-%d-%d-%d-", c.ID, c.Base, i/4) + []string{"n", "N", "n ", "nn"}[i%4]
		} else {
			I.brk = NewBreaker()
			gb, err := verifUnwrap(I.brk)
			if err != nil {
				out.Err = err.Error()
				return
			}
			I.gb = gb
			gb.proba = mathx.NewProbaWithSource(I.src)
		}
		x.insts = append(x.insts, I)
	}
	for opi, op := range c.Mops {
		if op.Call == nil {
			timex.AdvanceFake(time.Duration(op.Nop[1]))
			if I := x.insts[op.Nop[0]]; I.named {
				NoBreakerFor(I.name)
			}
			continue
		}
		n := verifCount(op.Call)
		start := len(x.rows)
		for i := 0; i < n; i++ {
			x.rows = append(x.rows, make([]int64, 17)) // ran = 0 until the node runs
		}
		saved := x.rows
		x.rows = saved[start:]
		x.next = 0
		x.pv = any(&verifPanic{n: opi})
		func() {
			defer func() { recover() }() // the panic of the outermost call has been classified
			x.run(op.Call)
		}()
		x.rows = saved
		if x.err != "" {
			out.Err = x.err
			return
		}
	}
	out.Obs = x.rows
	return
}
